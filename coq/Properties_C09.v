(* Properties_C09.v — statements only: each property theorem is stated in full and closed by
   `exact <lemma>`; the lemmas live in the Proofs_*.v files.  Assembled by tools/mkprops.py. *)
(* C09 Numeric type conversion and range checking are exact.  The model is the interpreter *)
(* (Convert.conv1/convn) of the table Gen_ncx.ncx_table that tools/tr_ncx.py regenerates from the *)
(* preprocessed m4-generated ncx.c on every run (308 functions ncmpix_[pad_]{putn,getn}_NC_<X>_<I>: *)
(* comparison operators, constants, conversions, fill source, casts, loop shape); the specification *)
(* (Convert.spec_conv) is: in range <-> min <= value <= max of the destination as real numbers, *)
(* result identity / truncation toward zero / round-to-nearest-even, otherwise NC_ERANGE and the *)
(* fill value; NaN is representable in no integer type.  All theorems quantify over EVERY source value *)
(* (all integers of the source type, all finite floats/doubles as exact dyadic numbers, +-Inf, NaN). *)
From Coq Require Import ZArith List.
From Pnc Require Import Proofs_Convert.
Set Printing Width 100.
Set Printing Depth 100000.

(* write direction, all functions whose source is an integer type, and float<->double: exact for every value *)
Theorem C09_conv_put_exact :
  forall f : Gen_ncx.cfun,
         In f Gen_ncx.ncx_table ->
         Gen_ncx.f_dir f = Gen_ncx.Put ->
         fi_pair f = false ->
         forall (fillp : option Convert.val) (v : Convert.val),
         (fillp = None -> fill_dflt_ok f = true) ->
         Convert.wf_val (Convert.src_ty f) v = true ->
         Convert.conv1 f fillp v =
         Convert.spec_conv Gen_ncx.Put (Convert.src_ty f) (Convert.dst_ty f) fillp v.
Proof. exact @conv_put_exact. Qed.
Print Assumptions C09_conv_put_exact.

(* read direction, the same (NC_FLOAT -> double separately below) *)
Theorem C09_conv_get_exact :
  forall f : Gen_ncx.cfun,
         In f Gen_ncx.ncx_table ->
         Gen_ncx.f_dir f = Gen_ncx.Get ->
         fi_pair f = false ->
         get_float_double f = false ->
         forall (fillp : option Convert.val) (v : Convert.val),
         (fillp = None -> fill_dflt_ok f = true) ->
         Convert.wf_val (Convert.src_ty f) v = true ->
         Convert.conv1 f fillp v =
         Convert.spec_conv Gen_ncx.Get (Convert.src_ty f) (Convert.dst_ty f) fillp v.
Proof. exact @conv_get_exact. Qed.
Print Assumptions C09_conv_get_exact.

(* float/double -> 8/16/32-bit integers, both directions: exact for every value except NaN *)
Theorem C09_conv_float_to_int32_exact :
  forall f : Gen_ncx.cfun,
         In f Gen_ncx.ncx_table ->
         fi_pair f = true ->
         (Convert.ibits (Convert.dst_ty f) <= 32)%Z ->
         forall (fillp : option Convert.val) (v : Convert.val),
         (fillp = None -> fill_dflt_ok f = true) ->
         Convert.wf_val (Convert.src_ty f) v = true ->
         v <> Convert.VNaN ->
         Convert.conv1 f fillp v =
         Convert.spec_conv (Gen_ncx.f_dir f) (Convert.src_ty f) (Convert.dst_ty f) fillp v.
Proof. exact @conv_float_to_int32_exact. Qed.
Print Assumptions C09_conv_float_to_int32_exact.

(* the full statement is refuted by the code as it is: double 2^63 written to NC_INT64 passes *)
(* `> (double)X_INT64_MAX` and is cast (undefined behaviour, no NC_ERANGE) *)
Theorem C09_conv_put_exact_refuted :
  ~
         (forall f : Gen_ncx.cfun,
          In f Gen_ncx.ncx_table ->
          Gen_ncx.f_dir f = Gen_ncx.Put ->
          forall (fillp : option Convert.val) (v : Convert.val),
          (fillp = None -> fill_dflt_ok f = true) ->
          Convert.wf_val (Convert.src_ty f) v = true ->
          Convert.conv1 f fillp v =
          Convert.spec_conv Gen_ncx.Put (Convert.src_ty f) (Convert.dst_ty f) fillp v).
Proof. exact @conv_put_exact_refuted_stmt. Qed.
Print Assumptions C09_conv_put_exact_refuted.

(* NC_DOUBLE 2^63 read as long long: LLONG_MAX with NC_NOERR *)
Theorem C09_conv_get_exact_refuted :
  ~
         (forall f : Gen_ncx.cfun,
          In f Gen_ncx.ncx_table ->
          Gen_ncx.f_dir f = Gen_ncx.Get ->
          forall (fillp : option Convert.val) (v : Convert.val),
          Convert.wf_val (Convert.src_ty f) v = true ->
          Convert.conv1 f fillp v =
          Convert.spec_conv Gen_ncx.Get (Convert.src_ty f) (Convert.dst_ty f) fillp v).
Proof. exact @conv_get_exact_refuted_stmt. Qed.
Print Assumptions C09_conv_get_exact_refuted.

(* partial: EVERY function of the table is exact outside its exclusion set exclb, computed from the table *)
(* (values accepted between the destination bound and the rounded bound constant, NaN -> integer, missing Inf test) *)
Theorem C09_conv_put_exact_partial :
  forall f : Gen_ncx.cfun,
         In f Gen_ncx.ncx_table ->
         Gen_ncx.f_dir f = Gen_ncx.Put ->
         forall (fillp : option Convert.val) (v : Convert.val),
         (fillp = None -> fill_dflt_ok f = true) ->
         Convert.wf_val (Convert.src_ty f) v = true ->
         exclb f v = false ->
         Convert.conv1 f fillp v =
         Convert.spec_conv Gen_ncx.Put (Convert.src_ty f) (Convert.dst_ty f) fillp v.
Proof. exact @conv_put_exact_partial. Qed.
Print Assumptions C09_conv_put_exact_partial.

Theorem C09_conv_get_exact_partial :
  forall f : Gen_ncx.cfun,
         In f Gen_ncx.ncx_table ->
         Gen_ncx.f_dir f = Gen_ncx.Get ->
         forall (fillp : option Convert.val) (v : Convert.val),
         (fillp = None -> fill_dflt_ok f = true) ->
         Convert.wf_val (Convert.src_ty f) v = true ->
         exclb f v = false ->
         Convert.conv1 f fillp v =
         Convert.spec_conv Gen_ncx.Get (Convert.src_ty f) (Convert.dst_ty f) fillp v.
Proof. exact @conv_get_exact_partial. Qed.
Print Assumptions C09_conv_get_exact_partial.

(* NaN: none of the float/double -> integer functions tests for it (the cast is undefined); the spec demands NC_ERANGE *)
Theorem C09_conv_nan_to_int_unchecked :
  forall f : Gen_ncx.cfun,
         In f Gen_ncx.ncx_table ->
         fi_pair f = true ->
         forall fillp : option Convert.val,
         Convert.conv1 f fillp Convert.VNaN = Convert.RUndef /\
         res_is_range
           (Convert.spec_conv (Gen_ncx.f_dir f) (Convert.src_ty f) (Convert.dst_ty f) fillp
              Convert.VNaN) = true.
Proof. exact @conv_nan_to_int_unchecked. Qed.
Print Assumptions C09_conv_nan_to_int_unchecked.

(* the only finite float/double above 2^63-1 and not above the rounded bound constant 2^63 is 2^63 itself *)
Theorem C09_double_gap_is_2p63 :
  forall (t : Gen_ncx.cty) (n : bool) (m e : Z),
         Convert.is_float t = true ->
         Convert.wf_val t (Convert.VF n m e) = true ->
         ((2 ^ 63 - 1) * K < sc (Convert.VF n m e) <= 2 ^ 63 * K)%Z ->
         sc (Convert.VF n m e) = (2 ^ 63 * K)%Z.
Proof. exact @double_gap_is_2p63. Qed.
Print Assumptions C09_double_gap_is_2p63.

(* NC_FLOAT +-Inf read into double is not reported (the only deviation among the float<->double functions) *)
Theorem C09_conv_get_float_double_inf :
  let f := the (Convert.lookup Gen_ncx.Get false Gen_ncx.XFLOAT Gen_ncx.Double) in
         In f Gen_ncx.ncx_table /\
         Convert.src_ty f = Gen_ncx.Float /\
         Convert.dst_ty f = Gen_ncx.Double /\
         Convert.conv1 f None (Convert.VInf false) = Convert.ROk (Convert.VInf false) /\
         Convert.spec_conv Gen_ncx.Get Gen_ncx.Float Gen_ncx.Double None (Convert.VInf false) =
         Convert.RRange (Some (Convert.VF false 8444249301319680 70)) /\
         (forall (fillp : option Convert.val) (v : Convert.val),
          Convert.wf_val (Convert.src_ty f) v = true ->
          v <> Convert.VInf false ->
          v <> Convert.VInf true ->
          Convert.conv1 f fillp v =
          Convert.spec_conv (Gen_ncx.f_dir f) (Convert.src_ty f) (Convert.dst_ty f) fillp v).
Proof. exact @conv_get_float_double_inf. Qed.
Print Assumptions C09_conv_get_float_double_inf.

(* n elements: status NC_ERANGE iff some element is out of range; every element converted by the element rule *)
Theorem C09_convn_elementwise :
  forall f : Gen_ncx.cfun,
         In f Gen_ncx.ncx_table ->
         forall (fillp : option Convert.val) (vs : list Convert.val),
         Convert.convn f fillp vs =
         (if existsb res_is_range (map (Convert.conv1 f fillp) vs)
          then Convert.NC_ERANGE
          else Convert.NC_NOERR, map (Convert.conv1 f fillp) vs).
Proof. exact @convn_elementwise. Qed.
Print Assumptions C09_convn_elementwise.

Theorem C09_putn_elementwise :
  forall f : Gen_ncx.cfun,
         In f Gen_ncx.ncx_table ->
         forall (fillp : option Convert.val) (vs : list Convert.val),
         (fillp = None -> fill_dflt_ok f = true) ->
         (forall v : Convert.val,
          In v vs -> Convert.wf_val (Convert.src_ty f) v = true /\ exclb f v = false) ->
         Convert.convn f fillp vs =
         Convert.spec_convn (Gen_ncx.f_dir f) (Convert.src_ty f) (Convert.dst_ty f) fillp vs.
Proof. exact @putn_elementwise. Qed.
Print Assumptions C09_putn_elementwise.

(* offending positions get the fill value, the other elements are exact, at any position *)
Theorem C09_putn_positions :
  forall f : Gen_ncx.cfun,
         In f Gen_ncx.ncx_table ->
         forall (fillp : option Convert.val) (vs : list Convert.val) (k : nat) (v : Convert.val),
         (fillp = None -> fill_dflt_ok f = true) ->
         (forall v0 : Convert.val,
          In v0 vs -> Convert.wf_val (Convert.src_ty f) v0 = true /\ exclb f v0 = false) ->
         nth_error vs k = Some v ->
         nth_error (snd (Convert.convn f fillp vs)) k =
         Some
           (if Convert.spec_erange (Convert.src_ty f) (Convert.dst_ty f) v
            then Convert.RRange (Some (Convert.spec_fill (Gen_ncx.f_dir f) (Convert.dst_ty f) fillp))
            else
             if Convert.same_repr (Convert.src_ty f) (Convert.dst_ty f)
             then Convert.ROk v
             else Convert.ROk (Convert.spec_value (Convert.dst_ty f) v)).
Proof. exact @putn_positions. Qed.
Print Assumptions C09_putn_positions.

(* API level: text and numbers never convert (NC_ECHAR, nothing transferred), variables and attributes *)
Theorem C09_text_never_numeric :
  forall (fmt : Z) (d : Gen_ncx.cdir) (x : Convert.nct) (m : Convert.mty)
           (fill : option Convert.val) (vs : list Convert.val),
         is_nchar x <> is_mtext m ->
         Convert.api_var fmt d x m fill vs = (Convert.NC_ECHAR, nil) /\
         Convert.api_att fmt d x m vs = (Convert.NC_ECHAR, nil).
Proof. exact @text_never_numeric. Qed.
Print Assumptions C09_text_never_numeric.

(* CDF-1/2: NC_BYTE accessed as unsigned char is transferred without range check (variables and attributes) *)
Theorem C09_byte_uchar_exemption :
  forall (fmt : Z) (d : Gen_ncx.cdir) (fill : option Convert.val) (vs : list Convert.val),
         (fmt < 5)%Z ->
         (forall v : Convert.val,
          In v vs -> Convert.wf_val (Convert.api_src d Gen_ncx.XBYTE Gen_ncx.Uchar) v = true) ->
         Convert.api_var fmt d (Convert.NNum Gen_ncx.XBYTE) (Convert.MNum Gen_ncx.Uchar) fill vs =
         Convert.spec_api fmt d (Convert.NNum Gen_ncx.XBYTE) (Convert.MNum Gen_ncx.Uchar) fill vs /\
         Convert.api_att fmt d (Convert.NNum Gen_ncx.XBYTE) (Convert.MNum Gen_ncx.Uchar) vs =
         Convert.spec_api fmt d (Convert.NNum Gen_ncx.XBYTE) (Convert.MNum Gen_ncx.Uchar) fill vs /\
         fst
           (Convert.spec_api fmt d (Convert.NNum Gen_ncx.XBYTE) (Convert.MNum Gen_ncx.Uchar) fill vs) =
         Convert.NC_NOERR.
Proof. exact @byte_uchar_exemption. Qed.
Print Assumptions C09_byte_uchar_exemption.

(* the padding variants used for attributes have the same element semantics as the functions used for variables *)
Theorem C09_att_same_rules :
  forall (d : Gen_ncx.cdir) (x : Gen_ncx.xty) (i : Gen_ncx.cty) (f g : Gen_ncx.cfun),
         Convert.lookup d true x i = Some f ->
         Convert.lookup d false x i = Some g ->
         forall (fillp : option Convert.val) (v : Convert.val),
         Convert.conv1 f fillp v = Convert.conv1 g fillp v.
Proof. exact @att_same_rules. Qed.
Print Assumptions C09_att_same_rules.

Theorem C09_api_var_exact :
  forall (fmt : Z) (d : Gen_ncx.cdir) (x : Gen_ncx.xty) (t : Gen_ncx.cty)
           (fill : option Convert.val) (vs : list Convert.val),
         In x Convert.all_x ->
         In t Convert.all_i ->
         (forall v : Convert.val,
          In v vs ->
          Convert.wf_val (Convert.api_src d x t) v = true /\ api_excl false fmt d x t v = false) ->
         Convert.api_var fmt d (Convert.NNum x) (Convert.MNum t) fill vs =
         Convert.spec_api fmt d (Convert.NNum x) (Convert.MNum t) fill vs.
Proof. exact @api_var_exact. Qed.
Print Assumptions C09_api_var_exact.

Theorem C09_api_att_exact :
  forall (fmt : Z) (d : Gen_ncx.cdir) (x : Gen_ncx.xty) (t : Gen_ncx.cty)
           (vs : list Convert.val),
         In x Convert.all_x ->
         In t Convert.all_i ->
         t <> Gen_ncx.Long ->
         (forall v : Convert.val,
          In v vs ->
          Convert.wf_val (Convert.api_src d x t) v = true /\ api_excl true fmt d x t v = false) ->
         Convert.exempt fmt x t = false ->
         Convert.api_att fmt d (Convert.NNum x) (Convert.MNum t) vs =
         Convert.spec_api fmt d (Convert.NNum x) (Convert.MNum t) None vs.
Proof. exact @api_att_exact. Qed.
Print Assumptions C09_api_att_exact.

(* attribute APIs with `long` use the `long long` functions (read: default fill NC_FILL_INT64, not NC_FILL_INT) *)
Theorem C09_api_att_long_is_longlong :
  forall (fmt : Z) (d : Gen_ncx.cdir) (x : Gen_ncx.xty) (vs : list Convert.val),
         Convert.api_att fmt d (Convert.NNum x) (Convert.MNum Gen_ncx.Long) vs =
         Convert.api_att fmt d (Convert.NNum x) (Convert.MNum Gen_ncx.Longlong) vs.
Proof. exact @api_att_long_is_longlong. Qed.
Print Assumptions C09_api_att_long_is_longlong.

(* nonblocking reads completed by ONE wait/wait_all (req_commit, gating translated from ncmpio_wait.c): for EVERY batch the *)
(* status word of request i is the conversion status of request i; the return value is the first error in queue order *)
Theorem C09_req_status_local :
  forall errs : list Z,
         Convert.commit_get Gen_ncx.req_gate Convert.NC_NOERR errs = (first_err errs, errs).
Proof. exact @req_status_local. Qed.
Print Assumptions C09_req_status_local.

Theorem C09_req_status_independent :
  forall (errs1 errs2 : list Z) (i : nat),
         nth_error errs1 i = nth_error errs2 i ->
         nth_error (snd (Convert.commit_get Gen_ncx.req_gate Convert.NC_NOERR errs1)) i =
         nth_error (snd (Convert.commit_get Gen_ncx.req_gate Convert.NC_NOERR errs2)) i.
Proof. exact @req_status_independent. Qed.
Print Assumptions C09_req_status_independent.

(* gating the status word on the function-wide first error instead of the request's own word loses later statuses (2-request witness) *)
Theorem C09_req_status_global_gate_refuted :
  ~
         (forall (errs1 errs2 : list Z) (i : nat),
          nth_error errs1 i = nth_error errs2 i ->
          nth_error (snd (Convert.commit_get Gen_ncx.GateGlobal Convert.NC_NOERR errs1)) i =
          nth_error (snd (Convert.commit_get Gen_ncx.GateGlobal Convert.NC_NOERR errs2)) i).
Proof. exact @req_status_global_gate_refuted. Qed.
Print Assumptions C09_req_status_global_gate_refuted.

(* a batch of iget/iput/bput requests: post status, status word and stored elements of request i are a function of request i alone *)
Theorem C09_nb_model_local :
  forall (fmt : Z) (reqs : list Convert.nbreq),
         Convert.nb_model fmt reqs =
         (first_err (Convert.nb_geterrs fmt reqs), map (nb_req1 fmt) reqs).
Proof. exact @nb_model_local. Qed.
Print Assumptions C09_nb_model_local.

Theorem C09_ex_global_gate_drops_status :
  Convert.commit_get Gen_ncx.GateGlobal Convert.NC_NOERR
           (Convert.NC_ERANGE :: Convert.NC_ERANGE :: nil) =
         (Convert.NC_ERANGE, Convert.NC_ERANGE :: Convert.NC_NOERR :: nil) /\
         Convert.commit_get Gen_ncx.req_gate Convert.NC_NOERR
           (Convert.NC_ERANGE :: Convert.NC_NOERR :: Convert.NC_ERANGE :: nil) =
         (Convert.NC_ERANGE, Convert.NC_ERANGE :: Convert.NC_NOERR :: Convert.NC_ERANGE :: nil).
Proof. exact @ex_global_gate_drops_status. Qed.
Print Assumptions C09_ex_global_gate_drops_status.

(* blocking put_varn as built (gate translated from ncmpio_varn.c): collective and independent, the posted request is *)
(* completed, every element is transferred by the element rule, the call returns the conversion status *)
Theorem C09_varn_complete :
  forall (indep : bool) (fmt xi ii : Z) (cs : list Z),
         Convert.varn_model indep fmt xi ii cs =
         (fst (put_conv fmt xi ii cs), 0%Z, Convert.NC_NOERR, snd (put_conv fmt xi ii cs)).
Proof. exact @varn_complete. Qed.
Print Assumptions C09_varn_complete.

(* the form before the repair (early return on NC_ERANGE in independent mode): witness put_varn_int -32769 -> NC_SHORT *)
Theorem C09_varn_early_any_refuted :
  ~
         (forall (indep : bool) (fmt xi ii : Z) (cs : list Z),
          Convert.varn_model_g Gen_ncx.VarnEarlyAny indep fmt xi ii cs =
          (fst (put_conv fmt xi ii cs), 0%Z, Convert.NC_NOERR, snd (put_conv fmt xi ii cs))).
Proof. exact @varn_early_any_refuted. Qed.
Print Assumptions C09_varn_early_any_refuted.

(* blocking mput as built (loop translated from dispatchers/var_getput.c): every variable posted and completed, every *)
(* element transferred, NC_ERANGE iff some element is out of range *)
Theorem C09_mput_complete :
  forall (fmt xi ii : Z) (vars : list (list Z)),
         (0 <= xi < 10)%Z ->
         (0 <= ii < 11)%Z ->
         Convert.mput_model fmt xi ii vars =
         (if existsb (fun cs : list Z => (fst (put_conv fmt xi ii cs) =? Convert.NC_ERANGE)%Z) vars
          then Convert.NC_ERANGE
          else Convert.NC_NOERR, 0%Z, Convert.NC_NOERR,
          flat_map (fun cs : list Z => snd (put_conv fmt xi ii cs)) vars).
Proof. exact @mput_complete. Qed.
Print Assumptions C09_mput_complete.

(* the loop before the repair: witness 3 NC_SHORT variables from int, 70000 in the second *)
Theorem C09_mput_break_any_refuted :
  ~
         (forall (fmt xi ii : Z) (vars : list (list Z)),
          (0 <= xi < 10)%Z ->
          (0 <= ii < 11)%Z ->
          Convert.mput_model_g Gen_ncx.MputBreakAny fmt xi ii vars =
          (if existsb (fun cs : list Z => (fst (put_conv fmt xi ii cs) =? Convert.NC_ERANGE)%Z) vars
           then Convert.NC_ERANGE
           else Convert.NC_NOERR, 0%Z, Convert.NC_NOERR,
           flat_map (fun cs : list Z => snd (put_conv fmt xi ii cs)) vars)).
Proof. exact @mput_break_any_refuted. Qed.
Print Assumptions C09_mput_break_any_refuted.

Theorem C09_ex_varn_early_any :
  Convert.varn_model_g Gen_ncx.VarnEarlyAny true 5 2 4 ((-32769)%Z :: (-126)%Z :: nil) =
         (Convert.NC_ERANGE, 1%Z, Convert.NC_EPENDING, (2%Z, 0%Z) :: (2%Z, 0%Z) :: nil) /\
         Convert.varn_model_g Gen_ncx.VarnEarlyAny false 5 2 4 ((-32769)%Z :: (-126)%Z :: nil) =
         (Convert.NC_ERANGE, 0%Z, Convert.NC_NOERR, (1%Z, (-32767)%Z) :: (0%Z, (-126)%Z) :: nil) /\
         Convert.varn_model true 5 2 4 ((-32769)%Z :: (-126)%Z :: nil) =
         (Convert.NC_ERANGE, 0%Z, Convert.NC_NOERR, (1%Z, (-32767)%Z) :: (0%Z, (-126)%Z) :: nil).
Proof. exact @ex_varn_early_any. Qed.
Print Assumptions C09_ex_varn_early_any.

Theorem C09_ex_mput :
  Convert.mput_model_g Gen_ncx.MputBreakAny 5 2 4
           ((1%Z :: nil) :: (70000%Z :: nil) :: (2%Z :: nil) :: nil) =
         (Convert.NC_ERANGE, 1%Z, Convert.NC_EPENDING, (0%Z, 1%Z) :: (2%Z, 0%Z) :: (2%Z, 0%Z) :: nil) /\
         Convert.mput_model 5 2 4 ((1%Z :: nil) :: (70000%Z :: nil) :: (2%Z :: nil) :: nil) =
         (Convert.NC_ERANGE, 0%Z, Convert.NC_NOERR,
          (0%Z, 1%Z) :: (1%Z, (-32767)%Z) :: (0%Z, 2%Z) :: nil) /\
         Convert.mput_model 5 2 4 ((1%Z :: nil) :: (7%Z :: nil) :: (2%Z :: nil) :: nil) =
         (Convert.NC_NOERR, 0%Z, Convert.NC_NOERR, (0%Z, 1%Z) :: (0%Z, 7%Z) :: (0%Z, 2%Z) :: nil).
Proof. exact @ex_mput. Qed.
Print Assumptions C09_ex_mput.

(* the rounding function of model and specification returns every value of the target format unchanged *)
Theorem C09_rne_exact :
  forall (t : Gen_ncx.cty) (n : bool) (m e : Z),
         Convert.is_float t = true ->
         (0 <= m < 2 ^ Convert.fprec t)%Z ->
         (Convert.femin t <= e <= Convert.femax t)%Z ->
         exists m' e' : Z,
           Convert.rne t n m e = Convert.VF n m' e' /\
           (0 <= m' < 2 ^ Convert.fprec t)%Z /\
           (Convert.femin t <= e' <= Convert.femax t)%Z /\
           (m' * 2 ^ (e' + 1074))%Z = (m * 2 ^ (e + 1074))%Z.
Proof. exact @rne_exact. Qed.
Print Assumptions C09_rne_exact.

(* the hypotheses are satisfiable on the real table *)
Theorem C09_ex_put_short_int :
  let f := the (Convert.lookup Gen_ncx.Put false Gen_ncx.XSHORT Gen_ncx.Int) in
         In f Gen_ncx.ncx_table /\
         fi_pair f = false /\
         Convert.conv1 f (Some (Convert.VI (-5))) (Convert.VI 32767) = Convert.ROk (Convert.VI 32767) /\
         Convert.conv1 f (Some (Convert.VI (-5))) (Convert.VI 32768) =
         Convert.RRange (Some (Convert.VI (-5))) /\
         Convert.conv1 f None (Convert.VI (-32769)) = Convert.RRange (Some (Convert.VI (-32767))) /\
         Convert.spec_conv Gen_ncx.Put Gen_ncx.Int Gen_ncx.Short None (Convert.VI (-32769)) =
         Convert.RRange (Some (Convert.VI (-32767))).
Proof. exact @ex_put_short_int. Qed.
Print Assumptions C09_ex_put_short_int.

Theorem C09_ex_put_double_int :
  let f := the (Convert.lookup Gen_ncx.Put false Gen_ncx.XINT Gen_ncx.Double) in
         In f Gen_ncx.ncx_table /\
         fi_pair f = true /\
         (Convert.ibits (Convert.dst_ty f) <= 32)%Z /\
         Convert.wf_val (Convert.src_ty f) (Convert.VF true 5 (-1)) = true /\
         Convert.conv1 f None (Convert.VF true 5 (-1)) = Convert.ROk (Convert.VI (-2)) /\
         Convert.conv1 f None (Convert.VF false 4294967295 (-1)) =
         Convert.RRange (Some (Convert.VI (-2147483647))) /\
         exclb f (Convert.VF false 4294967295 (-1)) = false /\ exclb f Convert.VNaN = true.
Proof. exact @ex_put_double_int. Qed.
Print Assumptions C09_ex_put_double_int.

Theorem C09_ex_excl_int64 :
  let f := the (Convert.lookup Gen_ncx.Put false Gen_ncx.XINT64 Gen_ncx.Double) in
         exclb f (Convert.VF false 1 63) = true /\
         exclb f (Convert.VF false 9007199254740991 10) = false /\
         exclb f (Convert.VF true 1 63) = false /\
         Convert.conv1 f None (Convert.VF true 1 63) = Convert.ROk (Convert.VI (- 2 ^ 63)) /\
         Convert.conv1 f None (Convert.VF false 9007199254740991 10) =
         Convert.ROk (Convert.VI 9223372036854774784).
Proof. exact @ex_excl_int64. Qed.
Print Assumptions C09_ex_excl_int64.

Theorem C09_ex_putn_positions :
  let f := the (Convert.lookup Gen_ncx.Put false Gen_ncx.XUSHORT Gen_ncx.Int) in
         Convert.convn f (Some (Convert.VI 7))
           (Convert.VI (-1)
            :: Convert.VI 1 :: Convert.VI 65535 :: Convert.VI 65536 :: Convert.VI 2 :: nil) =
         (Convert.NC_ERANGE,
          Convert.RRange (Some (Convert.VI 7))
          :: Convert.ROk (Convert.VI 1)
             :: Convert.ROk (Convert.VI 65535)
                :: Convert.RRange (Some (Convert.VI 7)) :: Convert.ROk (Convert.VI 2) :: nil) /\
         Convert.convn f (Some (Convert.VI 7)) (Convert.VI 0 :: Convert.VI 1 :: nil) =
         (Convert.NC_NOERR, Convert.ROk (Convert.VI 0) :: Convert.ROk (Convert.VI 1) :: nil).
Proof. exact @ex_putn_positions. Qed.
Print Assumptions C09_ex_putn_positions.

Theorem C09_ex_api :
  Convert.api_var 2 Gen_ncx.Put (Convert.NNum Gen_ncx.XBYTE) (Convert.MNum Gen_ncx.Uchar) None
           (Convert.VI 200 :: nil) = (Convert.NC_NOERR, Convert.ROk (Convert.VI (-56)) :: nil) /\
         Convert.api_var 5 Gen_ncx.Put (Convert.NNum Gen_ncx.XBYTE) (Convert.MNum Gen_ncx.Uchar) None
           (Convert.VI 200 :: nil) =
         (Convert.NC_ERANGE, Convert.RRange (Some (Convert.VI (-127))) :: nil) /\
         Convert.api_att 2 Gen_ncx.Get (Convert.NNum Gen_ncx.XBYTE) (Convert.MNum Gen_ncx.Uchar)
           (Convert.VI (-56) :: nil) = (Convert.NC_NOERR, Convert.ROk (Convert.VI 200) :: nil) /\
         Convert.api_var 5 Gen_ncx.Get (Convert.NNum Gen_ncx.XINT64) (Convert.MNum Gen_ncx.Long) None
           (Convert.VI (-9) :: nil) = (Convert.NC_NOERR, Convert.ROk (Convert.VI (-9)) :: nil) /\
         Convert.api_var 5 Gen_ncx.Put Convert.NChar (Convert.MNum Gen_ncx.Int) None
           (Convert.VI 1 :: nil) = (Convert.NC_ECHAR, nil).
Proof. exact @ex_api. Qed.
Print Assumptions C09_ex_api.
