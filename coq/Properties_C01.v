(* Properties_C01.v — statements only: each property theorem is stated in full and closed by
   `exact <lemma>`; the lemmas live in the Proofs_*.v files.  Assembled by tools/mkprops.py. *)
(* C01 Blocking put/get round-trip fidelity: the byte offsets the library's file view addresses for a *)
(* (start,count,stride) request (model of ncmpio_filetype.c, Access.v) are exactly the row-major *)
(* enumeration of the addressed elements (spec), for every dimensionality, shape and accepted request; *)
(* distinct elements occupy distinct bytes; the imap/segment enumeration has no duplicates. *)
From Coq Require Import ZArith List.
From Pnc Require Import Proofs_Access.
From Pnc Require Import Proofs_RoundTrip.
From Pnc Require Import Proofs_Exec.
From Pnc Require Import CSub.
From Pnc Require Import Gen_contig.
From Pnc Require Import Proofs_GenContig.
From Pnc Require Import Proofs_Reach3.
Set Printing Width 100.
Set Printing Depth 100000.

Theorem C01_segments_correct :
  forall (g : Access.geom) (start count stride : list Z),
         wf_geom g ->
         req_ok (Access.g_shape g) start count stride ->
         Access.model_offsets g start count (Some stride) =
         (if (Base.zprod count =? 0)%Z then nil else Access.spec_offsets g start count stride).
Proof. exact @model_offsets_spec. Qed.
Print Assumptions C01_segments_correct.

Theorem C01_segments_correct_null_stride :
  forall (g : Access.geom) (start count : list Z),
         wf_geom g ->
         req_ok (Access.g_shape g) start count (Access.ones (length (Access.g_shape g))) ->
         Access.model_offsets g start count None =
         (if (Base.zprod count =? 0)%Z
          then nil
          else Access.spec_offsets g start count (Access.ones (length (Access.g_shape g)))).
Proof. exact @model_offsets_spec_none. Qed.
Print Assumptions C01_segments_correct_null_stride.

Theorem C01_vara_segments_correct :
  forall (g : Access.geom) (start count : list Z),
         rec_packed g ->
         req_ok (Access.g_shape g) start count (Access.ones (length (Access.g_shape g))) ->
         Access.vara_offsets g start count =
         Access.spec_offsets g start count (Access.ones (length (Access.g_shape g))).
Proof. exact @vara_offsets_spec_min. Qed.
Print Assumptions C01_vara_segments_correct.

Theorem C01_accepted_request_offsets :
  forall (fmt : Z) (strict isread : bool) (kind : Access.apikind) 
           (g : Access.geom) (numrecs : Z) (st cn stride : list Z),
         wf_geom g ->
         length st = length (Access.g_shape g) ->
         length cn = length (Access.g_shape g) ->
         length stride = length (Access.g_shape g) ->
         Access.check_scs fmt strict (Access.g_isrec g) isread kind (Access.g_shape g) numrecs
           (Some st) (Some cn) (Some stride) = Gen_consts.NC_NOERR ->
         Access.model_offsets g st cn (Some stride) = Access.spec_offsets g st cn stride.
Proof. exact @accepted_request_offsets. Qed.
Print Assumptions C01_accepted_request_offsets.

Theorem C01_elem_off_injective :
  forall (g : Access.geom) (i j : list Z),
         wf_geom g ->
         rec_fits g -> idx_ok g i -> idx_ok g j -> Access.elem_off g i = Access.elem_off g j -> i = j.
Proof. exact @elem_off_inj. Qed.
Print Assumptions C01_elem_off_injective.

Theorem C01_offsets_nodup :
  forall (g : Access.geom) (start count stride : list Z),
         wf_geom g ->
         rec_fits g ->
         req_ok (Access.g_shape g) start count stride ->
         NoDup (Access.model_offsets g start count (Some stride)).
Proof. exact @model_offsets_NoDup. Qed.
Print Assumptions C01_offsets_nodup.

Theorem C01_offsets_length :
  forall (g : Access.geom) (start count stride : list Z),
         wf_geom g ->
         req_ok (Access.g_shape g) start count stride ->
         length (Access.model_offsets g start count (Some stride)) = Z.to_nat (Base.zprod count).
Proof. exact @model_offsets_length. Qed.
Print Assumptions C01_offsets_length.

(* disk level: what a put stores is what any later get of those elements returns; nothing else changes; the *)
(* result does not depend on the order or on how the (offset, element) pairs are split among writers *)
Theorem C01_old_stride_flatten_refuted :
  exists (g : Access.geom) (start count stride : list Z),
           wf_geom g /\
           req_ok (Access.g_shape g) start count stride /\
           model_offsets_old g start count (Some stride) <> Access.spec_offsets g start count stride.
Proof. exact @model_offsets_old_refuted. Qed.
Print Assumptions C01_old_stride_flatten_refuted.

Theorem C01_gather_scatter :
  forall (d : Disk.disk) (xsz : Z) (offs : list Z) (bs : list Base.byte),
         elems_disjoint xsz offs ->
         Base.Zlen bs = (xsz * Base.Zlen offs)%Z ->
         Disk.dk_gather (Disk.dk_scatter d xsz offs bs) xsz offs = bs.
Proof. exact @gather_scatter. Qed.
Print Assumptions C01_gather_scatter.

Theorem C01_gather_after_scatter :
  forall (d : Disk.disk) (xsz : Z) (offs : list Z) (bs : list Base.byte) 
           (offs' : list Z) (k' : Z),
         elems_disjoint xsz offs ->
         Base.Zlen bs = (xsz * Base.Zlen offs)%Z ->
         (0 <= k' < Base.Zlen offs')%Z ->
         let got := Disk.dk_gather (Disk.dk_scatter d xsz offs bs) xsz offs' in
         (forall k : Z,
          (0 <= k < Base.Zlen offs)%Z ->
          Base.znth offs' k' 0%Z = Base.znth offs k 0%Z ->
          stream_elem xsz got k' = stream_elem xsz bs k) /\
         ((forall o : Z, In o offs -> apart xsz o (Base.znth offs' k' 0%Z)) ->
          stream_elem xsz got k' = Disk.dk_read d (Base.znth offs' k' 0%Z) xsz).
Proof. exact @gather_after_scatter. Qed.
Print Assumptions C01_gather_after_scatter.

Theorem C01_scatter_frame :
  forall (offs : list Z) (d : Disk.disk) (xsz : Z) (bs : list Base.byte) (x : Z),
         (forall o : Z, In o offs -> ~ in_elem xsz o x) ->
         Disk.dk_get (Disk.dk_scatter d xsz offs bs) x = Disk.dk_get d x.
Proof. exact @scatter_get_out. Qed.
Print Assumptions C01_scatter_frame.

Theorem C01_scatter_perm :
  forall (d : Disk.disk) (xsz : Z) (offs : list Z) (elems : list (list Base.byte))
           (offs2 : list Z) (elems2 : list (list Base.byte)),
         elems_disjoint xsz offs ->
         length elems = length offs ->
         length elems2 = length offs2 ->
         Forall (fun e : list Base.byte => Base.Zlen e = xsz) elems ->
         Permutation.Permutation (combine offs elems) (combine offs2 elems2) ->
         disk_eq (Disk.dk_scatter d xsz offs (concat elems))
           (Disk.dk_scatter d xsz offs2 (concat elems2)).
Proof. exact @scatter_perm. Qed.
Print Assumptions C01_scatter_perm.

Theorem C01_decomposition_irrelevant :
  forall (d : Disk.disk) (xsz : Z) (offs : list Z) (elems : list (list Base.byte))
           (shares : list (list (Z * list Base.byte))),
         elems_disjoint xsz offs ->
         length elems = length offs ->
         Forall (fun e : list Base.byte => Base.Zlen e = xsz) elems ->
         Permutation.Permutation (concat shares) (combine offs elems) ->
         disk_eq (apply_shares shares d) (Disk.dk_scatter d xsz offs (concat elems)).
Proof. exact @decomposition_irrelevant. Qed.
Print Assumptions C01_decomposition_irrelevant.

Theorem C01_request_offsets_disjoint :
  forall (g : Access.geom) (start count stride : list Z),
         wf_geom g ->
         rec_fits g ->
         req_ok (Access.g_shape g) start count stride ->
         elems_disjoint (Access.g_xsz g) (Access.model_offsets g start count (Some stride)).
Proof. exact @request_offsets_disjoint. Qed.
Print Assumptions C01_request_offsets_disjoint.

Theorem C01_put_get_roundtrip :
  forall (g : Access.geom) (start count stride : list Z) (d : Disk.disk) (bs : list Base.byte),
         wf_geom g ->
         rec_fits g ->
         req_ok (Access.g_shape g) start count stride ->
         Base.Zlen bs = (Access.g_xsz g * Base.zprod count)%Z ->
         let offs := Access.model_offsets g start count (Some stride) in
         Disk.dk_gather (Disk.dk_scatter d (Access.g_xsz g) offs bs) (Access.g_xsz g) offs = bs.
Proof. exact @put_get_roundtrip. Qed.
Print Assumptions C01_put_get_roundtrip.

Theorem C01_get_other_request :
  forall (g : Access.geom) (st cn sd st' cn' sd' : list Z) (d : Disk.disk)
           (bs : list Base.byte) (k' : Z),
         wf_geom g ->
         rec_fits g ->
         req_ok (Access.g_shape g) st cn sd ->
         req_ok (Access.g_shape g) st' cn' sd' ->
         Base.Zlen bs = (Access.g_xsz g * Base.zprod cn)%Z ->
         (0 <= k' < Base.zprod cn')%Z ->
         let D := Disk.dk_scatter d (Access.g_xsz g) (Access.model_offsets g st cn (Some sd)) bs in
         let got := Disk.dk_gather D (Access.g_xsz g) (Access.model_offsets g st' cn' (Some sd')) in
         let idx' := Base.znth (Access.req_indices st' cn' sd') k' nil in
         (forall k : Z,
          (0 <= k < Base.zprod cn)%Z ->
          Base.znth (Access.req_indices st cn sd) k nil = idx' ->
          stream_elem (Access.g_xsz g) got k' = stream_elem (Access.g_xsz g) bs k) /\
         (~ In idx' (Access.req_indices st cn sd) ->
          stream_elem (Access.g_xsz g) got k' =
          Disk.dk_read d (Access.elem_off g idx') (Access.g_xsz g)).
Proof. exact @get_other_request. Qed.
Print Assumptions C01_get_other_request.

Theorem C01_put_frame :
  forall (g : Access.geom) (start count stride : list Z) (d : Disk.disk) 
           (bs : list Base.byte) (x : Z),
         wf_geom g ->
         req_ok (Access.g_shape g) start count stride ->
         (forall idx : list Z,
          In idx (Access.req_indices start count stride) ->
          ~ in_elem (Access.g_xsz g) (Access.elem_off g idx) x) ->
         Disk.dk_get
           (Disk.dk_scatter d (Access.g_xsz g) (Access.model_offsets g start count (Some stride)) bs)
           x = Disk.dk_get d x.
Proof. exact @put_frame. Qed.
Print Assumptions C01_put_frame.

(* the same facts stated about the interpreter functions that are run against the library (Exec.v) *)
Theorem C01_two_vars_disjoint :
  forall (g1 : Access.geom) (st1 cn1 sd1 : list Z) (bs1 : list Base.byte) 
           (g2 : Access.geom) (st2 cn2 sd2 : list Z) (bs2 : list Base.byte) 
           (d : Disk.disk),
         wf_geom g1 ->
         rec_fits g1 ->
         req_ok (Access.g_shape g1) st1 cn1 sd1 ->
         Base.Zlen bs1 = (Access.g_xsz g1 * Base.zprod cn1)%Z ->
         wf_geom g2 ->
         rec_fits g2 ->
         req_ok (Access.g_shape g2) st2 cn2 sd2 ->
         Base.Zlen bs2 = (Access.g_xsz g2 * Base.zprod cn2)%Z ->
         regions_disjoint g1 g2 ->
         let offs1 := Access.model_offsets g1 st1 cn1 (Some sd1) in
         let offs2 := Access.model_offsets g2 st2 cn2 (Some sd2) in
         let D :=
           Disk.dk_scatter (Disk.dk_scatter d (Access.g_xsz g1) offs1 bs1) 
             (Access.g_xsz g2) offs2 bs2 in
         Disk.dk_gather D (Access.g_xsz g1) offs1 = bs1 /\
         Disk.dk_gather D (Access.g_xsz g2) offs2 = bs2 /\
         (forall x : Z,
          Disk.dk_get D x =
          Disk.dk_get
            (Disk.dk_scatter (Disk.dk_scatter d (Access.g_xsz g2) offs2 bs2) 
               (Access.g_xsz g1) offs1 bs1) x) /\
         (forall x : Z, ~ var_region g1 x -> ~ var_region g2 x -> Disk.dk_get D x = Disk.dk_get d x).
Proof. exact @two_vars_disjoint. Qed.
Print Assumptions C01_two_vars_disjoint.

Theorem C01_exec_put_rank_effect :
  forall (w : Exec.world) (id : Z) (f : Exec.filest) (rank : Z) (coll : bool)
           (a : Exec.access) (r : Exec.rreq),
         (0 <= Exec.f_slot f < Base.Zlen (Exec.w_disks w))%Z ->
         Exec.sanity f true true coll a = Gen_consts.NC_NOERR ->
         Exec.check_request w f rank false a = (Gen_consts.NC_NOERR, Some (r :: nil)) ->
         Exec.iomismatch a (r :: nil) = false ->
         exists w' : Exec.world,
           Exec.put_rank w id f rank coll a =
           (w', Gen_consts.NC_NOERR, put_newrecs f a r, negb (Exec.nelems_of r =? 0)%Z) /\
           Exec.disk_of w' f = put_disk f a r (Exec.disk_of w f) /\
           (forall s : Z, s <> Exec.f_slot f -> Exec.get_disk w' s = Exec.get_disk w s) /\
           same_but_disks w w'.
Proof. exact @put_rank_effect. Qed.
Print Assumptions C01_exec_put_rank_effect.

Theorem C01_exec_put_rank_frame :
  forall (w : Exec.world) (id : Z) (f : Exec.filest) (rank : Z) (coll : bool)
           (a : Exec.access) (r : Exec.rreq),
         put_accepted w f rank coll a r ->
         let g := acc_geom f a in
         let xt := acc_xt f a in
         exists w' : Exec.world,
           Exec.put_rank w id f rank coll a =
           (w', Gen_consts.NC_NOERR, put_newrecs f a r, negb (Exec.nelems_of r =? 0)%Z) /\
           same_but_disks w w' /\
           (forall s : Z, s <> Exec.f_slot f -> Exec.get_disk w' s = Exec.get_disk w s) /\
           Exec.disk_of w' f = put_disk f a r (Exec.disk_of w f) /\
           Disk.dk_gather (Exec.disk_of w' f) (Access.g_xsz g) (req_offsets g r) =
           Exec.put_stream a xt 0 r /\
           (forall k : Z,
            (0 <= k < Exec.nelems_of r)%Z ->
            Disk.dk_read (Exec.disk_of w' f) (Access.elem_off g (Base.znth (rq_indices g r) k nil))
              (Access.g_xsz g) = put_elem a xt k) /\
           (forall x : Z,
            (forall idx : list Z,
             In idx (rq_indices g r) -> ~ in_elem (Access.g_xsz g) (Access.elem_off g idx) x) ->
            Disk.dk_get (Exec.disk_of w' f) x = Disk.dk_get (Exec.disk_of w f) x) /\
           (forall x : Z,
            ~ var_region g x -> Disk.dk_get (Exec.disk_of w' f) x = Disk.dk_get (Exec.disk_of w f) x) /\
           (forall x : Z,
            (x < Access.g_begin g)%Z ->
            Disk.dk_get (Exec.disk_of w' f) x = Disk.dk_get (Exec.disk_of w f) x) /\
           (forall (g2 : Access.geom) (x : Z),
            regions_disjoint g g2 ->
            var_region g2 x -> Disk.dk_get (Exec.disk_of w' f) x = Disk.dk_get (Exec.disk_of w f) x) /\
           (Disk.dk_size (Exec.disk_of w f) <= Disk.dk_size (Exec.disk_of w' f))%Z.
Proof. exact @put_rank_frame. Qed.
Print Assumptions C01_exec_put_rank_frame.

Theorem C01_exec_get_after_put :
  forall (w : Exec.world) (f : Exec.filest) (rank : Z) (coll : bool) 
           (a : Exec.access) (r : Exec.rreq) (d : Disk.disk) (w2 : Exec.world) 
           (f2 : Exec.filest) (rank2 : Z) (coll2 : bool) (a2 : Exec.access),
         put_accepted w f rank coll a r ->
         get_accepted w2 f2 rank2 coll2 a2 r ->
         sees_put_at w2 f2 a2 f a r d r ->
         Exec.get_rank_op w2 f2 rank2 coll2 a2 =
         (Gen_consts.NC_NOERR,
          Exec.THex
            (Exec.guard_bytes ++
             flat_map (fun k : Z => Data.mem_of_be (put_elem a (acc_xt f a) k))
               (Base.zrange 0 (Exec.nelems_of r)) ++ Exec.guard_bytes) :: nil).
Proof. exact @get_after_put. Qed.
Print Assumptions C01_exec_get_after_put.

Theorem C01_exec_get_after_put_other :
  forall (w : Exec.world) (f : Exec.filest) (rank : Z) (coll : bool) 
           (a : Exec.access) (r : Exec.rreq) (d : Disk.disk) (w2 : Exec.world) 
           (f2 : Exec.filest) (rank2 : Z) (coll2 : bool) (a2 : Exec.access) 
           (r' : Exec.rreq),
         put_accepted w f rank coll a r ->
         get_accepted w2 f2 rank2 coll2 a2 r' ->
         sees_put_at w2 f2 a2 f a r d r' ->
         let g := acc_geom f a in
         let xt := acc_xt f a in
         let elems := get_elems w2 f2 a2 r' in
         Exec.get_rank_op w2 f2 rank2 coll2 a2 =
         (if existsb (existsb Disk.is_undef) elems then Exec.RC_ANY else Gen_consts.NC_NOERR,
          Exec.THex
            (Exec.guard_bytes ++ flat_map (elem_image (Access.g_xsz g)) elems ++ Exec.guard_bytes)
          :: nil) /\
         Base.Zlen elems = Exec.nelems_of r' /\
         (forall k' : Z,
          (0 <= k' < Exec.nelems_of r')%Z ->
          let idx' := Base.znth (rq_indices g r') k' nil in
          (forall k : Z,
           (0 <= k < Exec.nelems_of r)%Z ->
           Base.znth (rq_indices g r) k nil = idx' -> Base.znth elems k' nil = put_elem a xt k) /\
          (~ In idx' (rq_indices g r) ->
           Base.znth elems k' nil = Disk.dk_read d (Access.elem_off g idx') (Access.g_xsz g))).
Proof. exact @get_after_put_other. Qed.
Print Assumptions C01_exec_get_after_put_other.

Theorem C01_exec_indep_put_then_get :
  forall (w : Exec.world) (id : Z) (f : Exec.filest) (rank : Z) (a : Exec.access)
           (r : Exec.rreq) (w'' : Exec.world) (obs : list Exec.obs) (rank2 : Z) 
           (coll2 : bool) (a2 : Exec.access),
         put_accepted w f rank false a r ->
         Base.znth (Exec.w_files w) id None = Some f ->
         Exec.indep_put w id f rank a = (w'', obs) ->
         let f' := Exec.indep_numrecs f rank (put_newrecs f a r) in
         Exec.ac_var a2 = Exec.ac_var a ->
         get_accepted w'' f' rank2 coll2 a2 r ->
         Base.znth (Exec.w_files w'') id None = Some f' /\
         Exec.get_rank_op w'' f' rank2 coll2 a2 =
         (Gen_consts.NC_NOERR,
          Exec.THex
            (Exec.guard_bytes ++
             flat_map (fun k : Z => Data.mem_of_be (put_elem a (acc_xt f a) k))
               (Base.zrange 0 (Exec.nelems_of r)) ++ Exec.guard_bytes) :: nil).
Proof. exact @indep_put_then_get. Qed.
Print Assumptions C01_exec_indep_put_then_get.

Theorem C01_exec_coll_put_effect :
  forall (w : Exec.world) (id : Z) (f : Exec.filest) (ras : list (Z * Exec.access))
           (rs : list Exec.rreq),
         (0 <= Exec.f_slot f < Base.Zlen (Exec.w_disks w))%Z ->
         Base.znth (Exec.w_files w) id None = Some f ->
         Forall2 (rank_put_ok w f) ras rs ->
         let D1 := coll_disk f (Base.zip (map snd ras) rs) (Exec.disk_of w f) in
         exists (w2 : Exec.world) (f2 : Exec.filest),
           Exec.coll_put w id f ras =
           (w2,
            map (fun ra : Z * Exec.access => (fst ra, Gen_consts.NC_NOERR, Exec.TSame :: nil)) ras) /\
           Base.znth (Exec.w_files w2) id None = Some f2 /\
           Exec.f_slot f2 = Exec.f_slot f /\
           Exec.f_lay f2 = Exec.f_lay f /\
           Header.h_dims (Exec.f_hdr f2) = Header.h_dims (Exec.f_hdr f) /\
           Header.h_vars (Exec.f_hdr f2) = Header.h_vars (Exec.f_hdr f) /\
           Header.h_format (Exec.f_hdr f2) = Header.h_format (Exec.f_hdr f) /\
           (forall a : Exec.access, acc_geom f2 a = acc_geom f a /\ acc_xt f2 a = acc_xt f a) /\
           (forall x : Z,
            (x < 4)%Z \/ (12 <= x)%Z -> Disk.dk_get (Exec.disk_of w2 f2) x = Disk.dk_get D1 x) /\
           (forall s : Z, s <> Exec.f_slot f -> Exec.get_disk w2 s = Exec.get_disk w s) /\
           Exec.w_strict w2 = Exec.w_strict w /\ Exec.w_nprocs w2 = Exec.w_nprocs w.
Proof. exact @coll_put_effect. Qed.
Print Assumptions C01_exec_coll_put_effect.

Theorem C01_exec_coll_put_same_then_get :
  forall (w : Exec.world) (id : Z) (f : Exec.filest) (ranks : list Z) 
           (a : Exec.access) (r : Exec.rreq),
         ranks <> nil ->
         (0 <= Exec.f_slot f < Base.Zlen (Exec.w_disks w))%Z ->
         Base.znth (Exec.w_files w) id None = Some f ->
         (forall k : Z, In k ranks -> put_accepted w f k true a r) ->
         (12 <= Access.g_begin (acc_geom f a))%Z ->
         exists (w2 : Exec.world) (f2 : Exec.filest),
           Exec.coll_put w id f (map (fun k : Z => (k, a)) ranks) =
           (w2, map (fun k : Z => (k, Gen_consts.NC_NOERR, Exec.TSame :: nil)) ranks) /\
           Base.znth (Exec.w_files w2) id None = Some f2 /\
           (forall (rank2 : Z) (coll2 : bool) (a2 : Exec.access),
            Exec.ac_var a2 = Exec.ac_var a ->
            get_accepted w2 f2 rank2 coll2 a2 r ->
            Exec.get_rank_op w2 f2 rank2 coll2 a2 =
            (Gen_consts.NC_NOERR,
             Exec.THex
               (Exec.guard_bytes ++
                flat_map (fun k : Z => Data.mem_of_be (put_elem a (acc_xt f a) k))
                  (Base.zrange 0 (Exec.nelems_of r)) ++ Exec.guard_bytes) :: nil)).
Proof. exact @coll_put_same_then_get. Qed.
Print Assumptions C01_exec_coll_put_same_then_get.

(* the C function is_request_contiguous (ncmpio_filetype.c as built on this run, translated to Gen_contig.v by tools/tr_cfun.py) answers exactly as the hand-written Access.is_contig, without undefined behaviour *)
Theorem C01_gen_is_contig_eq :
  forall (isr nrv : Z) (shape count : list Z) (pstart : c_ptr Z),
         length count = length shape ->
         (Base.Zlen shape <= 2147483647)%Z ->
         is_request_contiguous_c isr nrv (Base.Zlen shape) (Some (shape, 0%Z)) pstart
           (Some (count, 0%Z)) = FVal (b2z (Access.is_contig (z2b isr) nrv shape count)).
Proof. exact @gen_is_contig_eq. Qed.
Print Assumptions C01_gen_is_contig_eq.

(* the translator met no construct outside its subset *)
(* ---- for EVERY reachable state of the API-level model (Proofs_Reach*.v) ---- *)
(* C01 put then get (for every history) ---------------- *)
(* any reachable state: an independent put the interpreter accepts, then a typed get of the same request, *)
(* returns NC_NOERR and the image of the data put; slot range / wf_geom / rec_fits come from the invariant *)
Theorem C01_gen_contig_subset_complete :
  tr_cfun_unsupported = nil.
Proof. exact @gen_contig_subset_complete. Qed.
Print Assumptions C01_gen_contig_subset_complete.

(* the same for any world satisfying the invariant (also: the invariant holds after the put) *)
Theorem C01_reachable_put_get :
  forall (n : Z) (cs : list cmd) (id : Z) (f : Exec.filest) (rank : Z) 
           (a : Exec.access) (r : Exec.rreq) (w'' : Exec.world) (obs : list Exec.obs) 
           (rank2 : Z) (coll2 : bool) (a2 : Exec.access),
         (1 <= n)%Z ->
         run_ok (Exec.world0 n) cs = true ->
         let w := run (Exec.world0 n) cs in
         Base.znth (Exec.w_files w) id None = Some f ->
         Exec.f_tainted f = false ->
         Exec.sanity f true true false a = Gen_consts.NC_NOERR ->
         Exec.check_request w f rank false a = (Gen_consts.NC_NOERR, Some (r :: nil)) ->
         Exec.iomismatch a (r :: nil) = false ->
         form_lengths (Exec.ac_form a) (length (Access.g_shape (acc_geom f a))) ->
         Exec.indep_put w id f rank a = (w'', obs) ->
         let f' := Exec.indep_numrecs f rank (put_newrecs f a r) in
         Exec.ac_var a2 = Exec.ac_var a ->
         Exec.sanity f' false true coll2 a2 = Gen_consts.NC_NOERR ->
         Exec.check_request w'' f' rank2 true a2 = (Gen_consts.NC_NOERR, Some (r :: nil)) ->
         Exec.ac_buf a2 = Exec.BTyped ->
         Exec.ac_memt a2 = acc_xt f' a2 ->
         form_lengths (Exec.ac_form a2) (length (Access.g_shape (acc_geom f' a2))) ->
         Exec.get_rank_op w'' f' rank2 coll2 a2 =
         (Gen_consts.NC_NOERR,
          Exec.THex
            (Exec.guard_bytes ++
             flat_map (fun k : Z => Data.mem_of_be (put_elem a (acc_xt f a) k))
               (Base.zrange 0 (Exec.nelems_of r)) ++ Exec.guard_bytes) :: nil).
Proof. exact @reachable_put_get. Qed.
Print Assumptions C01_reachable_put_get.

(* the collective put (per-rank accesses, numrecs agreement) and the independent put preserve the invariant *)
Theorem C01_inv_put_get :
  forall (w : Exec.world) (id : Z) (f : Exec.filest) (rank : Z) (a : Exec.access)
           (r : Exec.rreq) (w'' : Exec.world) (obs : list Exec.obs) (rank2 : Z) 
           (coll2 : bool) (a2 : Exec.access),
         Proofs_Reach.world_inv w ->
         Base.znth (Exec.w_files w) id None = Some f ->
         Exec.f_tainted f = false ->
         Exec.sanity f true true false a = Gen_consts.NC_NOERR ->
         Exec.check_request w f rank false a = (Gen_consts.NC_NOERR, Some (r :: nil)) ->
         Exec.iomismatch a (r :: nil) = false ->
         form_lengths (Exec.ac_form a) (length (Access.g_shape (acc_geom f a))) ->
         Exec.indep_put w id f rank a = (w'', obs) ->
         let f' := Exec.indep_numrecs f rank (put_newrecs f a r) in
         Exec.ac_var a2 = Exec.ac_var a ->
         Exec.sanity f' false true coll2 a2 = Gen_consts.NC_NOERR ->
         Exec.check_request w'' f' rank2 true a2 = (Gen_consts.NC_NOERR, Some (r :: nil)) ->
         Exec.ac_buf a2 = Exec.BTyped ->
         Exec.ac_memt a2 = acc_xt f' a2 ->
         form_lengths (Exec.ac_form a2) (length (Access.g_shape (acc_geom f' a2))) ->
         Proofs_Reach.world_inv w'' /\
         Base.znth (Exec.w_files w'') id None = Some f' /\
         Exec.get_rank_op w'' f' rank2 coll2 a2 =
         (Gen_consts.NC_NOERR,
          Exec.THex
            (Exec.guard_bytes ++
             flat_map (fun k : Z => Data.mem_of_be (put_elem a (acc_xt f a) k))
               (Base.zrange 0 (Exec.nelems_of r)) ++ Exec.guard_bytes) :: nil).
Proof. exact @inv_put_get. Qed.
Print Assumptions C01_inv_put_get.

Theorem C01_coll_put_inv :
  forall (w : Exec.world) (id : Z) (f : Exec.filest) (ras : list (Z * Exec.access)),
         Proofs_Reach.world_inv w ->
         Base.znth (Exec.w_files w) id None = Some f ->
         Exec.f_tainted f = false ->
         (forall ra : Z * Exec.access, In ra ras -> Proofs_Reach.put_acc_ok f (snd ra) = true) ->
         Proofs_Reach.world_inv (fst (Exec.coll_put w id f ras)).
Proof. exact @coll_put_inv. Qed.
Print Assumptions C01_coll_put_inv.

Theorem C01_indep_put_inv :
  forall (w : Exec.world) (id : Z) (f : Exec.filest) (rank : Z) (a : Exec.access),
         Proofs_Reach.world_inv w ->
         Base.znth (Exec.w_files w) id None = Some f ->
         Exec.f_tainted f = false ->
         Proofs_Reach.put_acc_ok f a = true ->
         Proofs_Reach.world_inv (fst (Exec.indep_put w id f rank a)) /\
         (exists f' : Exec.filest,
            Base.znth (Exec.w_files (fst (Exec.indep_put w id f rank a))) id None = Some f' /\
            Exec.f_tainted f' = false /\ Exec.f_hdr f' = Exec.f_hdr f).
Proof. exact @indep_put_inv. Qed.
Print Assumptions C01_indep_put_inv.
