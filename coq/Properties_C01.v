(* Properties_C01.v — statements only: each property theorem is stated in full and closed by
   `exact <lemma>`; the lemmas live in the Proofs_*.v files.  Assembled by tools/mkprops.py. *)
(* C01 Blocking put/get round-trip fidelity: the byte offsets the library's file view addresses for a *)
(* (start,count,stride) request (model of ncmpio_filetype.c, Access.v) are exactly the row-major *)
(* enumeration of the addressed elements (spec), for every dimensionality, shape and accepted request; *)
(* distinct elements occupy distinct bytes; the imap/segment enumeration has no duplicates. *)
From Coq Require Import ZArith List.
From Pnc Require Import Proofs_Access.
From Pnc Require Import Proofs_RoundTrip.
Set Printing Width 100.
Set Printing Depth 100000.

Theorem C01_segments_correct :
  forall (g : Access.geom) (start count stride : list Z),
         wf_geom g ->
         req_ok (Access.g_shape g) start count stride ->
         Access.model_offsets g start count (Some stride) =
         (if (Base.zprod count =? 0)%Z then nil else Access.spec_offsets g start count stride).
Proof. exact @model_offsets_spec. Qed.
Print Assumptions C01_segments_correct.

Theorem C01_segments_correct_null_stride :
  forall (g : Access.geom) (start count : list Z),
         wf_geom g ->
         req_ok (Access.g_shape g) start count (Access.ones (length (Access.g_shape g))) ->
         Access.model_offsets g start count None =
         (if (Base.zprod count =? 0)%Z
          then nil
          else Access.spec_offsets g start count (Access.ones (length (Access.g_shape g)))).
Proof. exact @model_offsets_spec_none. Qed.
Print Assumptions C01_segments_correct_null_stride.

Theorem C01_vara_segments_correct :
  forall (g : Access.geom) (start count : list Z),
         rec_packed g ->
         req_ok (Access.g_shape g) start count (Access.ones (length (Access.g_shape g))) ->
         Access.vara_offsets g start count =
         Access.spec_offsets g start count (Access.ones (length (Access.g_shape g))).
Proof. exact @vara_offsets_spec_min. Qed.
Print Assumptions C01_vara_segments_correct.

Theorem C01_accepted_request_offsets :
  forall (fmt : Z) (strict isread : bool) (kind : Access.apikind) 
           (g : Access.geom) (numrecs : Z) (st cn stride : list Z),
         wf_geom g ->
         length st = length (Access.g_shape g) ->
         length cn = length (Access.g_shape g) ->
         length stride = length (Access.g_shape g) ->
         Access.check_scs fmt strict (Access.g_isrec g) isread kind (Access.g_shape g) numrecs
           (Some st) (Some cn) (Some stride) = Gen_consts.NC_NOERR ->
         Access.model_offsets g st cn (Some stride) = Access.spec_offsets g st cn stride.
Proof. exact @accepted_request_offsets. Qed.
Print Assumptions C01_accepted_request_offsets.

Theorem C01_elem_off_injective :
  forall (g : Access.geom) (i j : list Z),
         wf_geom g ->
         rec_fits g -> idx_ok g i -> idx_ok g j -> Access.elem_off g i = Access.elem_off g j -> i = j.
Proof. exact @elem_off_inj. Qed.
Print Assumptions C01_elem_off_injective.

Theorem C01_offsets_nodup :
  forall (g : Access.geom) (start count stride : list Z),
         wf_geom g ->
         rec_fits g ->
         req_ok (Access.g_shape g) start count stride ->
         NoDup (Access.model_offsets g start count (Some stride)).
Proof. exact @model_offsets_NoDup. Qed.
Print Assumptions C01_offsets_nodup.

Theorem C01_offsets_length :
  forall (g : Access.geom) (start count stride : list Z),
         wf_geom g ->
         req_ok (Access.g_shape g) start count stride ->
         length (Access.model_offsets g start count (Some stride)) = Z.to_nat (Base.zprod count).
Proof. exact @model_offsets_length. Qed.
Print Assumptions C01_offsets_length.

(* disk level: what a put stores is what any later get of those elements returns; nothing else changes; the *)
(* result does not depend on the order or on how the (offset, element) pairs are split among writers *)
Theorem C01_old_stride_flatten_refuted :
  exists (g : Access.geom) (start count stride : list Z),
           wf_geom g /\
           req_ok (Access.g_shape g) start count stride /\
           model_offsets_old g start count (Some stride) <> Access.spec_offsets g start count stride.
Proof. exact @model_offsets_old_refuted. Qed.
Print Assumptions C01_old_stride_flatten_refuted.

Theorem C01_gather_scatter :
  forall (d : Disk.disk) (xsz : Z) (offs : list Z) (bs : list Base.byte),
         elems_disjoint xsz offs ->
         Base.Zlen bs = (xsz * Base.Zlen offs)%Z ->
         Disk.dk_gather (Disk.dk_scatter d xsz offs bs) xsz offs = bs.
Proof. exact @gather_scatter. Qed.
Print Assumptions C01_gather_scatter.

Theorem C01_gather_after_scatter :
  forall (d : Disk.disk) (xsz : Z) (offs : list Z) (bs : list Base.byte) 
           (offs' : list Z) (k' : Z),
         elems_disjoint xsz offs ->
         Base.Zlen bs = (xsz * Base.Zlen offs)%Z ->
         (0 <= k' < Base.Zlen offs')%Z ->
         let got := Disk.dk_gather (Disk.dk_scatter d xsz offs bs) xsz offs' in
         (forall k : Z,
          (0 <= k < Base.Zlen offs)%Z ->
          Base.znth offs' k' 0%Z = Base.znth offs k 0%Z ->
          stream_elem xsz got k' = stream_elem xsz bs k) /\
         ((forall o : Z, In o offs -> apart xsz o (Base.znth offs' k' 0%Z)) ->
          stream_elem xsz got k' = Disk.dk_read d (Base.znth offs' k' 0%Z) xsz).
Proof. exact @gather_after_scatter. Qed.
Print Assumptions C01_gather_after_scatter.

Theorem C01_scatter_frame :
  forall (offs : list Z) (d : Disk.disk) (xsz : Z) (bs : list Base.byte) (x : Z),
         (forall o : Z, In o offs -> ~ in_elem xsz o x) ->
         Disk.dk_get (Disk.dk_scatter d xsz offs bs) x = Disk.dk_get d x.
Proof. exact @scatter_get_out. Qed.
Print Assumptions C01_scatter_frame.

Theorem C01_scatter_perm :
  forall (d : Disk.disk) (xsz : Z) (offs : list Z) (elems : list (list Base.byte))
           (offs2 : list Z) (elems2 : list (list Base.byte)),
         elems_disjoint xsz offs ->
         length elems = length offs ->
         length elems2 = length offs2 ->
         Forall (fun e : list Base.byte => Base.Zlen e = xsz) elems ->
         Permutation.Permutation (combine offs elems) (combine offs2 elems2) ->
         disk_eq (Disk.dk_scatter d xsz offs (concat elems))
           (Disk.dk_scatter d xsz offs2 (concat elems2)).
Proof. exact @scatter_perm. Qed.
Print Assumptions C01_scatter_perm.

Theorem C01_decomposition_irrelevant :
  forall (d : Disk.disk) (xsz : Z) (offs : list Z) (elems : list (list Base.byte))
           (shares : list (list (Z * list Base.byte))),
         elems_disjoint xsz offs ->
         length elems = length offs ->
         Forall (fun e : list Base.byte => Base.Zlen e = xsz) elems ->
         Permutation.Permutation (concat shares) (combine offs elems) ->
         disk_eq (apply_shares shares d) (Disk.dk_scatter d xsz offs (concat elems)).
Proof. exact @decomposition_irrelevant. Qed.
Print Assumptions C01_decomposition_irrelevant.

Theorem C01_request_offsets_disjoint :
  forall (g : Access.geom) (start count stride : list Z),
         wf_geom g ->
         rec_fits g ->
         req_ok (Access.g_shape g) start count stride ->
         elems_disjoint (Access.g_xsz g) (Access.model_offsets g start count (Some stride)).
Proof. exact @request_offsets_disjoint. Qed.
Print Assumptions C01_request_offsets_disjoint.

Theorem C01_put_get_roundtrip :
  forall (g : Access.geom) (start count stride : list Z) (d : Disk.disk) (bs : list Base.byte),
         wf_geom g ->
         rec_fits g ->
         req_ok (Access.g_shape g) start count stride ->
         Base.Zlen bs = (Access.g_xsz g * Base.zprod count)%Z ->
         let offs := Access.model_offsets g start count (Some stride) in
         Disk.dk_gather (Disk.dk_scatter d (Access.g_xsz g) offs bs) (Access.g_xsz g) offs = bs.
Proof. exact @put_get_roundtrip. Qed.
Print Assumptions C01_put_get_roundtrip.

Theorem C01_get_other_request :
  forall (g : Access.geom) (st cn sd st' cn' sd' : list Z) (d : Disk.disk)
           (bs : list Base.byte) (k' : Z),
         wf_geom g ->
         rec_fits g ->
         req_ok (Access.g_shape g) st cn sd ->
         req_ok (Access.g_shape g) st' cn' sd' ->
         Base.Zlen bs = (Access.g_xsz g * Base.zprod cn)%Z ->
         (0 <= k' < Base.zprod cn')%Z ->
         let D := Disk.dk_scatter d (Access.g_xsz g) (Access.model_offsets g st cn (Some sd)) bs in
         let got := Disk.dk_gather D (Access.g_xsz g) (Access.model_offsets g st' cn' (Some sd')) in
         let idx' := Base.znth (Access.req_indices st' cn' sd') k' nil in
         (forall k : Z,
          (0 <= k < Base.zprod cn)%Z ->
          Base.znth (Access.req_indices st cn sd) k nil = idx' ->
          stream_elem (Access.g_xsz g) got k' = stream_elem (Access.g_xsz g) bs k) /\
         (~ In idx' (Access.req_indices st cn sd) ->
          stream_elem (Access.g_xsz g) got k' =
          Disk.dk_read d (Access.elem_off g idx') (Access.g_xsz g)).
Proof. exact @get_other_request. Qed.
Print Assumptions C01_get_other_request.

Theorem C01_put_frame :
  forall (g : Access.geom) (start count stride : list Z) (d : Disk.disk) 
           (bs : list Base.byte) (x : Z),
         wf_geom g ->
         req_ok (Access.g_shape g) start count stride ->
         (forall idx : list Z,
          In idx (Access.req_indices start count stride) ->
          ~ in_elem (Access.g_xsz g) (Access.elem_off g idx) x) ->
         Disk.dk_get
           (Disk.dk_scatter d (Access.g_xsz g) (Access.model_offsets g start count (Some stride)) bs)
           x = Disk.dk_get d x.
Proof. exact @put_frame. Qed.
Print Assumptions C01_put_frame.

Theorem C01_two_vars_disjoint :
  forall (g1 : Access.geom) (st1 cn1 sd1 : list Z) (bs1 : list Base.byte) 
           (g2 : Access.geom) (st2 cn2 sd2 : list Z) (bs2 : list Base.byte) 
           (d : Disk.disk),
         wf_geom g1 ->
         rec_fits g1 ->
         req_ok (Access.g_shape g1) st1 cn1 sd1 ->
         Base.Zlen bs1 = (Access.g_xsz g1 * Base.zprod cn1)%Z ->
         wf_geom g2 ->
         rec_fits g2 ->
         req_ok (Access.g_shape g2) st2 cn2 sd2 ->
         Base.Zlen bs2 = (Access.g_xsz g2 * Base.zprod cn2)%Z ->
         regions_disjoint g1 g2 ->
         let offs1 := Access.model_offsets g1 st1 cn1 (Some sd1) in
         let offs2 := Access.model_offsets g2 st2 cn2 (Some sd2) in
         let D :=
           Disk.dk_scatter (Disk.dk_scatter d (Access.g_xsz g1) offs1 bs1) 
             (Access.g_xsz g2) offs2 bs2 in
         Disk.dk_gather D (Access.g_xsz g1) offs1 = bs1 /\
         Disk.dk_gather D (Access.g_xsz g2) offs2 = bs2 /\
         (forall x : Z,
          Disk.dk_get D x =
          Disk.dk_get
            (Disk.dk_scatter (Disk.dk_scatter d (Access.g_xsz g2) offs2 bs2) 
               (Access.g_xsz g1) offs1 bs1) x) /\
         (forall x : Z, ~ var_region g1 x -> ~ var_region g2 x -> Disk.dk_get D x = Disk.dk_get d x).
Proof. exact @two_vars_disjoint. Qed.
Print Assumptions C01_two_vars_disjoint.
