(* Properties_C01.v — statements only: each property theorem is stated in full and closed by
   `exact <lemma>`; the lemmas live in the Proofs_*.v files.  Assembled by tools/mkprops.py. *)
(* C01 Blocking put/get round-trip fidelity: the byte offsets the library's file view addresses for a *)
(* (start,count,stride) request (model of ncmpio_filetype.c, Access.v) are exactly the row-major *)
(* enumeration of the addressed elements (spec), for every dimensionality, shape and accepted request; *)
(* distinct elements occupy distinct bytes; the imap/segment enumeration has no duplicates. *)
From Coq Require Import ZArith List.
From Pnc Require Import Proofs_Access.
Set Printing Width 100.
Set Printing Depth 100000.

Theorem C01_segments_correct :
  forall (g : Access.geom) (start count stride : list Z),
         wf_geom g ->
         req_ok (Access.g_shape g) start count stride ->
         Access.model_offsets g start count (Some stride) =
         (if (Base.zprod count =? 0)%Z then nil else Access.spec_offsets g start count stride).
Proof. exact @model_offsets_spec. Qed.
Print Assumptions C01_segments_correct.

Theorem C01_segments_correct_null_stride :
  forall (g : Access.geom) (start count : list Z),
         wf_geom g ->
         req_ok (Access.g_shape g) start count (Access.ones (length (Access.g_shape g))) ->
         Access.model_offsets g start count None =
         (if (Base.zprod count =? 0)%Z
          then nil
          else Access.spec_offsets g start count (Access.ones (length (Access.g_shape g)))).
Proof. exact @model_offsets_spec_none. Qed.
Print Assumptions C01_segments_correct_null_stride.

Theorem C01_vara_segments_correct :
  forall (g : Access.geom) (start count : list Z),
         rec_packed g ->
         req_ok (Access.g_shape g) start count (Access.ones (length (Access.g_shape g))) ->
         Access.vara_offsets g start count =
         Access.spec_offsets g start count (Access.ones (length (Access.g_shape g))).
Proof. exact @vara_offsets_spec_min. Qed.
Print Assumptions C01_vara_segments_correct.

Theorem C01_accepted_request_offsets :
  forall (fmt : Z) (strict isread : bool) (kind : Access.apikind) 
           (g : Access.geom) (numrecs : Z) (st cn stride : list Z),
         wf_geom g ->
         length st = length (Access.g_shape g) ->
         length cn = length (Access.g_shape g) ->
         length stride = length (Access.g_shape g) ->
         Access.check_scs fmt strict (Access.g_isrec g) isread kind (Access.g_shape g) numrecs
           (Some st) (Some cn) (Some stride) = Gen_consts.NC_NOERR ->
         Access.model_offsets g st cn (Some stride) = Access.spec_offsets g st cn stride.
Proof. exact @accepted_request_offsets. Qed.
Print Assumptions C01_accepted_request_offsets.

Theorem C01_elem_off_injective :
  forall (g : Access.geom) (i j : list Z),
         wf_geom g ->
         rec_fits g -> idx_ok g i -> idx_ok g j -> Access.elem_off g i = Access.elem_off g j -> i = j.
Proof. exact @elem_off_inj. Qed.
Print Assumptions C01_elem_off_injective.

Theorem C01_offsets_nodup :
  forall (g : Access.geom) (start count stride : list Z),
         wf_geom g ->
         rec_fits g ->
         req_ok (Access.g_shape g) start count stride ->
         NoDup (Access.model_offsets g start count (Some stride)).
Proof. exact @model_offsets_NoDup. Qed.
Print Assumptions C01_offsets_nodup.

Theorem C01_offsets_length :
  forall (g : Access.geom) (start count stride : list Z),
         wf_geom g ->
         req_ok (Access.g_shape g) start count stride ->
         length (Access.model_offsets g start count (Some stride)) = Z.to_nat (Base.zprod count).
Proof. exact @model_offsets_length. Qed.
Print Assumptions C01_offsets_length.

Theorem C01_old_stride_flatten_refuted :
  exists (g : Access.geom) (start count stride : list Z),
           wf_geom g /\
           req_ok (Access.g_shape g) start count stride /\
           model_offsets_old g start count (Some stride) <> Access.spec_offsets g start count stride.
Proof. exact @model_offsets_old_refuted. Qed.
Print Assumptions C01_old_stride_flatten_refuted.
