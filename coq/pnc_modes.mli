
val negb : bool -> bool

type nat =
| O
| S of nat

val fst : ('a1 * 'a2) -> 'a1

val snd : ('a1 * 'a2) -> 'a2

val app : 'a1 list -> 'a1 list -> 'a1 list

val add : nat -> nat -> nat

type positive =
| XI of positive
| XO of positive
| XH

type n =
| N0
| Npos of positive

type z =
| Z0
| Zpos of positive
| Zneg of positive

val eqb : bool -> bool -> bool

module Nat :
 sig
  val eqb : nat -> nat -> bool
 end

module Pos :
 sig
  val succ : positive -> positive

  val add : positive -> positive -> positive

  val add_carry : positive -> positive -> positive

  val pred_double : positive -> positive

  val pred_N : positive -> n

  val eqb : positive -> positive -> bool

  val coq_Nsucc_double : n -> n

  val coq_Ndouble : n -> n

  val coq_lor : positive -> positive -> positive

  val coq_land : positive -> positive -> n

  val ldiff : positive -> positive -> n

  val of_succ_nat : nat -> positive
 end

module N :
 sig
  val succ_pos : n -> positive

  val coq_lor : n -> n -> n

  val coq_land : n -> n -> n

  val ldiff : n -> n -> n
 end

module Z :
 sig
  val double : z -> z

  val succ_double : z -> z

  val pred_double : z -> z

  val pos_sub : positive -> positive -> z

  val add : z -> z -> z

  val eqb : z -> z -> bool

  val of_nat : nat -> z

  val of_N : n -> z

  val coq_lor : z -> z -> z

  val coq_land : z -> z -> z

  val ldiff : z -> z -> z
 end

val map : ('a1 -> 'a2) -> 'a1 list -> 'a2 list

val flat_map : ('a1 -> 'a2 list) -> 'a1 list -> 'a2 list

val fold_left : ('a1 -> 'a2 -> 'a1) -> 'a2 list -> 'a1 -> 'a1

val existsb : ('a1 -> bool) -> 'a1 list -> bool

val find : ('a1 -> bool) -> 'a1 list -> 'a1 option

val nC_NOERR : z

val nC_EBADID : z

val nC_EINVAL : z

val nC_EPERM : z

val nC_ENOTINDEFINE : z

val nC_EINDEFINE : z

val nC_ENOTATT : z

val nC_EBADTYPE : z

val nC_ENOTVAR : z

val nC_ENOTINDEP : z

val nC_EINDEP : z

val nC_EPREVATTACHBUF : z

val nC_ENULLABUF : z

val nC_EPENDINGBPUT : z

val nC_ENOTRECVAR : z

val nC_EPENDING : z

val nC_MODE_RDONLY : z

val nC_MODE_DEF : z

val nC_MODE_INDEP : z

val nC_MODE_CREATE : z

val nC_MODE_FILL : z

val nC_MODE_SAFE : z

val macro_NC_readonly_tests : z

val macro_NC_IsNew_tests : z

val macro_NC_indef_tests : z

val macro_NC_indep_tests : z

val eNABLE_REQ_AGGREGATION : bool

val fILL_VAR_REC_RETURNS_ERR : bool

val flagops_ncmpi_enddef : (bool * z) list

val flagops_ncmpi__enddef : (bool * z) list

val flagops_ncmpi_redef : (bool * z) list

val flagops_ncmpi_begin_indep_data : (bool * z) list

val flagops_ncmpi_end_indep_data : (bool * z) list

val create_flag_init : z

val open_flag_init : z

val fIsSet : z -> z -> bool

val fSet : z -> z -> z

val fClr : z -> z -> z

val apply_ops : z -> (bool * z) list -> z

val ok : z -> bool

type ost = { dflag : z; nflags : z; old : bool; nrecv : bool; hasrec : bool }

type core =
| CClosed
| COpen of ost

type auxv = { v_put : bool; v_get : bool; v_bput : bool; v_abuf : bool }

type aux = { a_put : nat; a_get : nat; a_bput : nat; a_abuf : bool }

val aux0 : aux

val view_aux : aux -> auxv

type state = { co : core; ax : aux }

val state0 : state

type attk =
| AttNew
| AttSame
| AttGrow
| AttBadVar
| AttNewBadType

type call =
| Create of bool
| Open of bool * bool * bool
| Enddef
| EnddefX of bool
| Redef
| BeginIndep
| EndIndep
| Close
| Abort
| Sync
| SyncNumrecs
| Flush
| SetFill of bool
| DefDim
| DefVar of bool
| DefVarFill
| PutAtt of attk
| DelAtt of bool
| GetAtt
| RenameVar
| RenameDim
| Put of bool * bool
| Get of bool * bool
| IPut of bool
| IGet
| BPut
| Wait of bool * bool
| Cancel
| Attach
| Detach
| InqBuffer
| FillVarRec
| Inq

val d_ro : ost -> bool

val d_def : ost -> bool

val d_indep : ost -> bool

val d_safe : ost -> bool

val n_ro : ost -> bool

val n_def : ost -> bool

val n_indep : ost -> bool

val n_new : ost -> bool

val set_dflag : ost -> z -> ost

val set_nflags : ost -> z -> ost

val n_end_indep_data : ost -> ost * z

val n_begin_indep_data : ost -> ost * z

val n_redef : ost -> ost * z

val n__enddef : ost -> ost * z

val n_sync : ost -> z

val n_sync_numrecs : ost -> z

val first_err : z -> z -> z

val n_close : ost -> auxv -> z

val n_abort : ost -> z

val n_wait : ost -> bool -> bool -> z

val sanity_check : ost -> bool -> bool -> bool -> bool -> z

val attk_needs_define : attk -> bool

val cstep : core -> auxv -> call -> core * z

val aux_step : core -> aux -> call -> z -> core -> aux

val step : state -> call -> state * z

type amode =
| MDefine
| MColl
| MIndep

type fview = { w_ro : bool; w_mode : amode; w_hasrec : bool; w_nrecv : bool }

val view_of : ost -> fview

val isdef : fview -> bool

val isindep : fview -> bool

val iscoll : fview -> bool

type rule = z * bool

val rules : call -> fview -> auxv -> rule list

val first_applicable : rule list -> z

val spec_err : core -> auxv -> call -> z

val bools : bool list

val all_attk : attk list

val all_calls : call list

val ost_eqb : ost -> ost -> bool

val core_eqb : core -> core -> bool

val cnext : core -> call -> core

val path_mem : core -> (core * call list) list -> bool

val bfs_round : (core * call list) list -> (core * call list) list

val bfs : nat -> (core * call list) list -> (core * call list) list

val rEACH_K : nat

val reach_table : (core * call list) list

val call_code : call -> nat

val call_of_code : nat -> call option

val core_sig : core -> (z * z) * z

type obs = { o_rc : z; o_spec : z; o_sig : ((z * z) * z); o_nreq : z;
             o_abuf : z }

val run_codes : state -> nat list -> obs option list
