(* Extract_Reader.v — extraction of the reader model (Reader.v) to OCaml for the correspondence
   runs of checks/C04.py and checks/C19.py.  ExtrOcamlBasic only; Z/positive/nat stay Coq datatypes;
   no Extract Constant. *)
Require Extraction.
Require ExtrOcamlBasic.
From Pnc Require Import Reader.
Extraction Language OCaml.
Extraction "reader_model.ml" open_model open_flat consistent decode c04_valid expected_open
  w_rndup_int w_attr_null w_attrV_mul w_attr_xlen w_shape_product w_var_calloc w_check_vlen w_begin_len
  w_numrecs_neg w_dim_neg w_alloc_dims w_read_zeros.
