(* Proofs_RoundTrip.v — disk-level round trip of a put followed by gets (property C01).
   Disk.dk_scatter d xsz offs bs  models a put  (element stream bs written at the element
                                   byte offsets offs, in order),
   Disk.dk_gather  d xsz offs     models a get.
   Main results (all closed under the global context, no axioms)
     scatter_get_in / scatter_get_out      the bytes of a scatter; frame
     scatter_size_char                     dk_size after a scatter is the max of the ends
     gather_scatter                        get (same request) after put returns the stream
     gather_after_scatter(_in/_out)        get through ANY other offset list, per element
     scatter_perm, decomposition_irrelevant(_scatter)
                                           the (offset, element) pairs may be applied in any order
                                           and split into any number of shares
     scatter_commute                       puts on disjoint element sets commute
     elem_off_apart, request_offsets_disjoint
                                           the elements of one request occupy disjoint bytes
     put_get_roundtrip, put_get_element, get_other_request, put_frame,
     two_vars_disjoint                     the same for (start,count,stride) requests *)
From Pnc Require Import Base Header Access Disk Proofs_Lists Proofs_Access Proofs_Disk.
Require Import Lia ZArith List Bool ZifyBool Permutation.
Import ListNotations.
Local Open Scope Z_scope.
Local Arguments Z.mul : simpl never.
Local Arguments Z.add : simpl never.
Local Arguments Z.sub : simpl never.

(* ================================================================== *)
(* 1. Z-indexed list helpers                                           *)
(* ================================================================== *)
Lemma znth_cons_0 {A} (x : A) r d : znth (x :: r) 0 d = x.
Proof. reflexivity. Qed.

Lemma znth_cons_pos {A} (x : A) r i d : i <> 0 -> znth (x :: r) i d = znth r (i - 1) d.
Proof. intros H. cbn [znth]. destruct (Z.eqb_spec i 0); [contradiction | reflexivity]. Qed.

Lemma znth_oob {A} (l : list A) i d : i < 0 \/ Zlen l <= i -> znth l i d = d.
Proof.
  revert i. induction l as [|a l IH]; intros i Hi; [reflexivity|].
  rewrite Zlen_cons in Hi. pose proof (Zlen_nonneg l) as Hl.
  rewrite znth_cons_pos by lia. apply IH. lia.
Qed.

Lemma znth_app_l {A} (a b : list A) i d : 0 <= i < Zlen a -> znth (a ++ b) i d = znth a i d.
Proof.
  revert i. induction a as [|x a IH]; intros i Hi.
  - rewrite Zlen_nil in Hi. lia.
  - rewrite Zlen_cons in Hi. cbn [app].
    destruct (Z.eq_dec i 0) as [->|Hn]; [reflexivity|].
    rewrite !znth_cons_pos by assumption. apply IH. lia.
Qed.

Lemma znth_app_r {A} (a b : list A) i d : Zlen a <= i -> znth (a ++ b) i d = znth b (i - Zlen a) d.
Proof.
  revert i. induction a as [|x a IH]; intros i Hi.
  - rewrite Zlen_nil. cbn [app]. f_equal. lia.
  - rewrite Zlen_cons in *. pose proof (Zlen_nonneg a) as Ha. cbn [app].
    rewrite znth_cons_pos by lia. rewrite IH by lia. f_equal. lia.
Qed.

Lemma znth_ext {A} (a b : list A) d :
  Zlen a = Zlen b -> (forall i, 0 <= i < Zlen a -> znth a i d = znth b i d) -> a = b.
Proof.
  revert b. induction a as [|x a IH]; intros b Hl H.
  - rewrite Zlen_nil in Hl. symmetry. apply Zlen_zero_nil. lia.
  - destruct b as [|y b].
    + rewrite Zlen_cons, Zlen_nil in Hl. pose proof (Zlen_nonneg a). lia.
    + rewrite !Zlen_cons in Hl. pose proof (Zlen_nonneg a) as Ha. f_equal.
      * specialize (H 0). rewrite !znth_cons_0 in H. apply H. rewrite Zlen_cons. lia.
      * apply IH; [lia|]. intros i Hi. specialize (H (i + 1)).
        rewrite !znth_cons_pos in H by lia. replace (i + 1 - 1) with i in H by lia.
        apply H. rewrite Zlen_cons. lia.
Qed.

Lemma Forall_znth {A} (P : A -> Prop) (l : list A) d :
  Forall P l <-> forall i, 0 <= i < Zlen l -> P (znth l i d).
Proof.
  induction l as [|a l IH].
  - split; [intros _ i Hi; rewrite Zlen_nil in Hi; lia | constructor].
  - rewrite Forall_cons_iff, IH. pose proof (Zlen_nonneg l) as Hl. split.
    + intros [Ha Hal] i Hi. rewrite Zlen_cons in Hi. destruct (Z.eq_dec i 0) as [->|Hn].
      * exact Ha.
      * rewrite znth_cons_pos by assumption. apply Hal. lia.
    + intros H. split.
      * apply (H 0). rewrite Zlen_cons. lia.
      * intros i Hi. specialize (H (i + 1)). rewrite znth_cons_pos in H by lia.
        replace (i + 1 - 1) with i in H by lia. apply H. rewrite Zlen_cons. lia.
Qed.

Lemma In_znth {A} (l : list A) x d : In x l -> exists i, 0 <= i < Zlen l /\ znth l i d = x.
Proof.
  induction l as [|a l IH]; intros H; [destruct H|].
  pose proof (Zlen_nonneg l) as Hl. destruct H as [<-|H].
  - exists 0. rewrite Zlen_cons. split; [lia | reflexivity].
  - destruct (IH H) as [i [Hi E]]. exists (i + 1). rewrite Zlen_cons. split; [lia|].
    rewrite znth_cons_pos by lia. replace (i + 1 - 1) with i by lia. exact E.
Qed.

Lemma Zlen_zfirstn {A} n (l : list A) : Zlen (zfirstn n l) = Z.max 0 (Z.min n (Zlen l)).
Proof.
  revert n. induction l as [|a l IH]; intros n.
  - cbn [zfirstn]. rewrite Zlen_nil. lia.
  - cbn [zfirstn]. pose proof (Zlen_nonneg l) as Hl. destruct (Z.leb_spec n 0) as [Hn|Hn].
    + rewrite Zlen_nil, Zlen_cons. lia.
    + rewrite !Zlen_cons, IH. lia.
Qed.

Lemma Zlen_zskipn {A} n (l : list A) : Zlen (zskipn n l) = Zlen l - Z.max 0 (Z.min n (Zlen l)).
Proof.
  revert n. induction l as [|a l IH]; intros n.
  - cbn [zskipn]. rewrite Zlen_nil. lia.
  - cbn [zskipn]. pose proof (Zlen_nonneg l) as Hl. destruct (Z.leb_spec n 0) as [Hn|Hn].
    + rewrite Zlen_cons. lia.
    + rewrite Zlen_cons, IH. lia.
Qed.

Lemma znth_zfirstn {A} n (l : list A) i d : 0 <= i < n -> znth (zfirstn n l) i d = znth l i d.
Proof.
  revert n i. induction l as [|a l IH]; intros n i Hi; [reflexivity|].
  cbn [zfirstn]. destruct (Z.leb_spec n 0) as [Hn|Hn]; [lia|].
  destruct (Z.eq_dec i 0) as [->|Hi0]; [reflexivity|].
  rewrite !znth_cons_pos by assumption. apply IH. lia.
Qed.

Lemma znth_zskipn {A} n (l : list A) i d :
  0 <= n -> 0 <= i -> znth (zskipn n l) i d = znth l (n + i) d.
Proof.
  revert n. induction l as [|a l IH]; intros n Hn Hi; [reflexivity|].
  cbn [zskipn]. destruct (Z.leb_spec n 0) as [Hn0|Hn0].
  - f_equal. lia.
  - rewrite IH by lia. rewrite (znth_cons_pos a l (n + i)) by lia. f_equal. lia.
Qed.

Lemma zfirstn_zskipn {A} n (l : list A) : zfirstn n l ++ zskipn n l = l.
Proof.
  revert n. induction l as [|a l IH]; intros n; [reflexivity|].
  cbn [zfirstn zskipn]. destruct (n <=? 0); [reflexivity|].
  cbn [app]. now rewrite IH.
Qed.

Lemma zfirstn_app_exact {A} (a b : list A) : zfirstn (Zlen a) (a ++ b) = a.
Proof.
  induction a as [|x a IH].
  - rewrite Zlen_nil. cbn [app]. destruct b; reflexivity.
  - cbn [app zfirstn]. rewrite Zlen_cons. pose proof (Zlen_nonneg a) as Ha.
    destruct (Z.leb_spec (Zlen a + 1) 0) as [H|H]; [lia|].
    replace (Zlen a + 1 - 1) with (Zlen a) by lia. now rewrite IH.
Qed.

Lemma zskipn_app_exact {A} (a b : list A) : zskipn (Zlen a) (a ++ b) = b.
Proof.
  induction a as [|x a IH].
  - rewrite Zlen_nil. cbn [app]. destruct b; reflexivity.
  - cbn [app zskipn]. rewrite Zlen_cons. pose proof (Zlen_nonneg a) as Ha.
    destruct (Z.leb_spec (Zlen a + 1) 0) as [H|H]; [lia|].
    replace (Zlen a + 1 - 1) with (Zlen a) by lia. exact IH.
Qed.

Lemma split_index xsz n i : 0 < xsz -> 0 <= i < xsz * n ->
  exists k j, 0 <= k < n /\ 0 <= j < xsz /\ i = k * xsz + j.
Proof.
  intros Hx Hi. exists (i / xsz), (i mod xsz).
  pose proof (Z.div_mod i xsz ltac:(lia)) as E.
  pose proof (Z.mod_pos_bound i xsz Hx) as Hm.
  assert (H0 : 0 <= i / xsz) by (apply Z.div_pos; lia).
  assert (H1 : i / xsz < n) by (apply Z.div_lt_upper_bound; lia).
  repeat split; try lia.
Qed.

Lemma mul_succ_le k n x : 0 <= k < n -> 0 <= x -> (k + 1) * x <= x * n.
Proof. intros Hk Hx. nia. Qed.

(* the k-th element (xsz bytes) of an element stream *)
Definition stream_elem (xsz : Z) (bs : list byte) (k : Z) : list byte :=
  zfirstn xsz (zskipn (k * xsz) bs).

Lemma Zlen_stream_elem xsz (bs : list byte) k :
  0 <= xsz -> 0 <= k -> (k + 1) * xsz <= Zlen bs -> Zlen (stream_elem xsz bs k) = xsz.
Proof.
  intros Hx Hk Hl. unfold stream_elem. rewrite Zlen_zfirstn, Zlen_zskipn.
  assert (0 <= k * xsz) by nia. lia.
Qed.

Lemma znth_stream_elem xsz (bs : list byte) k j :
  0 <= xsz -> 0 <= k -> 0 <= j < xsz ->
  znth (stream_elem xsz bs k) j 0 = znth bs (k * xsz + j) 0.
Proof.
  intros Hx Hk Hj. unfold stream_elem. rewrite znth_zfirstn by assumption.
  apply znth_zskipn; nia.
Qed.

Lemma stream_elem_ext xsz (a : list byte) ka (b : list byte) kb :
  0 <= xsz -> 0 <= ka -> 0 <= kb -> (ka + 1) * xsz <= Zlen a -> (kb + 1) * xsz <= Zlen b ->
  (forall j, 0 <= j < xsz -> znth a (ka * xsz + j) 0 = znth b (kb * xsz + j) 0) ->
  stream_elem xsz a ka = stream_elem xsz b kb.
Proof.
  intros Hx Hka Hkb Ha Hb H. apply (@znth_ext byte _ _ 0).
  - rewrite !Zlen_stream_elem by assumption. reflexivity.
  - intros j Hj. rewrite Zlen_stream_elem in Hj by assumption.
    rewrite !znth_stream_elem by assumption. apply H. assumption.
Qed.

(* ================================================================== *)
(* 2. Disjoint elements; the bytes of a scatter                        *)
(* ================================================================== *)
(* byte x belongs to the element at offset o *)
Definition in_elem (xsz o x : Z) : Prop := o <= x < o + xsz.
(* the byte ranges [a,a+xsz) and [b,b+xsz) do not meet *)
Definition apart (xsz a b : Z) : Prop := a + xsz <= b \/ b + xsz <= a.

(* the byte ranges of the elements at two different POSITIONS of the list are disjoint *)
Definition elems_disjoint (xsz : Z) (offs : list Z) : Prop :=
  0 < xsz /\
  forall i j, 0 <= i < Zlen offs -> 0 <= j < Zlen offs -> i <> j ->
    apart xsz (znth offs i 0) (znth offs j 0).

Fixpoint disj_rec (xsz : Z) (offs : list Z) : Prop :=
  match offs with
  | [] => True
  | o :: r => Forall (apart xsz o) r /\ disj_rec xsz r
  end.

Lemma apart_sym xsz a b : apart xsz a b -> apart xsz b a.
Proof. unfold apart. lia. Qed.

Lemma elems_disjoint_rec xsz offs : elems_disjoint xsz offs <-> 0 < xsz /\ disj_rec xsz offs.
Proof.
  unfold elems_disjoint. split; intros [Hx H]; (split; [exact Hx|]).
  - induction offs as [|o r IH]; [exact I|]. pose proof (Zlen_nonneg r) as Hr.
    cbn [disj_rec]. split.
    + apply (Forall_znth _ _ 0). intros i Hi.
      specialize (H 0 (i + 1)). rewrite znth_cons_0, znth_cons_pos in H by lia.
      replace (i + 1 - 1) with i in H by lia. apply H; rewrite ?Zlen_cons; lia.
    + apply IH. intros i j Hi Hj Hne. specialize (H (i + 1) (j + 1)).
      rewrite !znth_cons_pos in H by lia.
      replace (i + 1 - 1) with i in H by lia. replace (j + 1 - 1) with j in H by lia.
      apply H; rewrite ?Zlen_cons; lia.
  - induction offs as [|o r IH]; intros i j Hi Hj Hne.
    + rewrite Zlen_nil in Hi. lia.
    + rewrite Zlen_cons in Hi, Hj. destruct H as [Hfa Hd].
      rewrite (Forall_znth _ _ 0) in Hfa.
      destruct (Z.eq_dec i 0) as [->|Hi0]; destruct (Z.eq_dec j 0) as [->|Hj0].
      * lia.
      * rewrite znth_cons_0, znth_cons_pos by assumption. apply Hfa. lia.
      * rewrite znth_cons_0, znth_cons_pos by assumption. apply apart_sym. apply Hfa. lia.
      * rewrite !znth_cons_pos by assumption. apply IH; [assumption | lia | lia | lia].
Qed.

Lemma elems_disjoint_cons xsz o r :
  elems_disjoint xsz (o :: r) <-> Forall (apart xsz o) r /\ elems_disjoint xsz r.
Proof. rewrite !elems_disjoint_rec. cbn [disj_rec]. tauto. Qed.

Lemma elems_disjoint_In xsz offs a b :
  elems_disjoint xsz offs -> In a offs -> In b offs -> a = b \/ apart xsz a b.
Proof.
  intros [Hx H] Ha Hb.
  destruct (In_znth _ _ 0 Ha) as [i [Hi Ei]]. destruct (In_znth _ _ 0 Hb) as [j [Hj Ej]].
  destruct (Z.eq_dec i j) as [->|Hne]; [left; congruence|].
  right. rewrite <- Ei, <- Ej. apply H; assumption.
Qed.

(* FRAME: a byte that lies in no addressed element keeps its value *)
Theorem scatter_get_out : forall offs d xsz bs x,
  (forall o, In o offs -> ~ in_elem xsz o x) ->
  dk_get (dk_scatter d xsz offs bs) x = dk_get d x.
Proof.
  induction offs as [|o r IH]; intros d xsz bs x H; [reflexivity|].
  cbn [dk_scatter]. rewrite IH by (intros o' Ho'; apply H; now right).
  rewrite dk_get_write.
  destruct ((o <=? x) && (x <? o + Zlen (zfirstn xsz bs))) eqn:E; [|reflexivity].
  exfalso. apply (H o); [now left|]. unfold in_elem. rewrite Zlen_zfirstn in E. lia.
Qed.

Lemma scatter_get_in_rec : forall offs d xsz bs k j,
  0 < xsz -> disj_rec xsz offs -> Zlen bs = xsz * Zlen offs ->
  0 <= k < Zlen offs -> 0 <= j < xsz ->
  dk_get (dk_scatter d xsz offs bs) (znth offs k 0 + j) = znth bs (k * xsz + j) 0.
Proof.
  induction offs as [|o r IH]; intros d xsz bs k j Hx Hd Hlen Hk Hj.
  - rewrite Zlen_nil in Hk. lia.
  - rewrite Zlen_cons in Hlen, Hk. destruct Hd as [Hfa Hd]. cbn [dk_scatter].
    pose proof (Zlen_nonneg r) as Hr.
    assert (Hge : xsz <= Zlen bs) by nia.
    assert (Hf : Zlen (zfirstn xsz bs) = xsz) by (rewrite Zlen_zfirstn; lia).
    destruct (Z.eq_dec k 0) as [->|Hk0].
    + rewrite znth_cons_0. rewrite scatter_get_out.
      * rewrite dk_get_write, Hf.
        replace ((o <=? o + j) && (o + j <? o + xsz)) with true by lia.
        rewrite znth_zfirstn by lia. f_equal. lia.
      * intros o' Ho'. rewrite Forall_forall in Hfa. specialize (Hfa o' Ho').
        unfold apart in Hfa. unfold in_elem. lia.
    + rewrite znth_cons_pos by assumption.
      rewrite IH; try assumption; try lia.
      * rewrite znth_zskipn by nia. f_equal. lia.
      * rewrite Zlen_zskipn. lia.
Qed.

(* the k-th addressed element holds the k-th element of the stream *)
Theorem scatter_get_in : forall offs d xsz bs k j,
  elems_disjoint xsz offs -> Zlen bs = xsz * Zlen offs ->
  0 <= k < Zlen offs -> 0 <= j < xsz ->
  dk_get (dk_scatter d xsz offs bs) (znth offs k 0 + j) = znth bs (k * xsz + j) 0.
Proof.
  intros offs d xsz bs k j Hd. apply elems_disjoint_rec in Hd. destruct Hd as [Hx Hd].
  apply scatter_get_in_rec; assumption.
Qed.

(* the file extent after a put: the maximum of the old extent and the ends of the elements *)
Theorem scatter_size_char : forall offs d xsz bs B,
  0 < xsz -> Zlen bs = xsz * Zlen offs ->
  (dk_size (dk_scatter d xsz offs bs) <= B <->
   dk_size d <= B /\ forall o, In o offs -> o + xsz <= B).
Proof.
  induction offs as [|o r IH]; intros d xsz bs B Hx Hlen.
  - cbn [dk_scatter In]. split; [intros H; split; [exact H | intros o []] | tauto].
  - rewrite Zlen_cons in Hlen. pose proof (Zlen_nonneg r) as Hr. cbn [dk_scatter].
    assert (Hge : xsz <= Zlen bs) by nia.
    rewrite IH by (try assumption; rewrite Zlen_zskipn; lia).
    rewrite dk_size_write, Zlen_zfirstn.
    replace (0 <? Z.max 0 (Z.min xsz (Zlen bs))) with true by lia.
    replace (Z.max 0 (Z.min xsz (Zlen bs))) with xsz by lia.
    split.
    + intros [H1 H2]. split; [lia|]. intros o' [<-|Ho']; [lia | now apply H2].
    + intros [H1 H2]. split.
      * specialize (H2 o (or_introl eq_refl)). lia.
      * intros o' Ho'. apply H2. now right.
Qed.

Lemma scatter_size_mono d xsz offs bs :
  0 < xsz -> Zlen bs = xsz * Zlen offs -> dk_size d <= dk_size (dk_scatter d xsz offs bs).
Proof.
  intros Hx Hl.
  destruct (proj1 (scatter_size_char offs d xsz bs _ Hx Hl) (Z.le_refl _)) as [H _]. exact H.
Qed.

Lemma scatter_size_ge d xsz offs bs o :
  0 < xsz -> Zlen bs = xsz * Zlen offs -> In o offs ->
  o + xsz <= dk_size (dk_scatter d xsz offs bs).
Proof.
  intros Hx Hl Ho.
  destruct (proj1 (scatter_size_char offs d xsz bs _ Hx Hl) (Z.le_refl _)) as [_ H]. now apply H.
Qed.

(* ================================================================== *)
(* 3. gather                                                           *)
(* ================================================================== *)
Lemma dk_gather_cons d xsz o r :
  dk_gather d xsz (o :: r) = dk_read d o xsz ++ dk_gather d xsz r.
Proof. reflexivity. Qed.

Lemma Zlen_gather d xsz offs : 0 <= xsz -> Zlen (dk_gather d xsz offs) = xsz * Zlen offs.
Proof.
  intros Hx. induction offs as [|o r IH].
  - rewrite Zlen_nil. cbn. lia.
  - rewrite dk_gather_cons, Zlen_app, IH, Zlen_dk_read, Zlen_cons. lia.
Qed.

Lemma znth_gather : forall offs d xsz k j,
  0 < xsz -> 0 <= k < Zlen offs -> 0 <= j < xsz ->
  znth (dk_gather d xsz offs) (k * xsz + j) 0 = dk_get d (znth offs k 0 + j).
Proof.
  induction offs as [|o r IH]; intros d xsz k j Hx Hk Hj.
  - rewrite Zlen_nil in Hk. lia.
  - rewrite Zlen_cons in Hk. rewrite dk_gather_cons.
    destruct (Z.eq_dec k 0) as [->|Hk0].
    + rewrite znth_app_l by (rewrite Zlen_dk_read; lia).
      replace (0 * xsz + j) with j by lia. rewrite znth_cons_0. apply znth_dk_read. assumption.
    + rewrite znth_app_r by (rewrite Zlen_dk_read; nia).
      rewrite Zlen_dk_read. rewrite znth_cons_pos by assumption.
      replace (k * xsz + j - Z.max 0 xsz) with ((k - 1) * xsz + j) by lia.
      apply IH; lia.
Qed.

(* an element read back, as a list *)
Lemma stream_elem_gather d xsz offs k :
  0 < xsz -> 0 <= k < Zlen offs ->
  stream_elem xsz (dk_gather d xsz offs) k = dk_read d (znth offs k 0) xsz.
Proof.
  intros Hx Hk.
  assert (Hle : (k + 1) * xsz <= Zlen (dk_gather d xsz offs))
    by (rewrite Zlen_gather by lia; apply mul_succ_le; lia).
  apply (@znth_ext byte _ _ 0).
  - rewrite Zlen_stream_elem, Zlen_dk_read; try lia.
  - intros j Hj. rewrite Zlen_stream_elem in Hj; try lia.
    rewrite znth_stream_elem, znth_gather, znth_dk_read by lia. reflexivity.
Qed.

(* ROUND TRIP, same request *)
Theorem gather_scatter : forall d xsz offs bs,
  elems_disjoint xsz offs -> Zlen bs = xsz * Zlen offs ->
  dk_gather (dk_scatter d xsz offs bs) xsz offs = bs.
Proof.
  intros d xsz offs bs Hd Hlen. pose proof Hd as [Hx _].
  apply (@znth_ext byte _ _ 0).
  - rewrite Zlen_gather by lia. symmetry. exact Hlen.
  - intros i Hi. rewrite Zlen_gather in Hi by lia.
    destruct (split_index xsz (Zlen offs) i Hx Hi) as (k & j & Hk & Hj & ->).
    rewrite znth_gather by assumption. apply scatter_get_in; assumption.
Qed.

(* A get through ANY offset list offs' after the put (offs, bs): byte level. *)
Theorem gather_after_scatter_in : forall d xsz offs bs offs' k' k j,
  elems_disjoint xsz offs -> Zlen bs = xsz * Zlen offs ->
  0 <= k' < Zlen offs' -> 0 <= k < Zlen offs -> 0 <= j < xsz ->
  znth offs' k' 0 = znth offs k 0 ->
  znth (dk_gather (dk_scatter d xsz offs bs) xsz offs') (k' * xsz + j) 0 =
  znth bs (k * xsz + j) 0.
Proof.
  intros d xsz offs bs offs' k' k j Hd Hlen Hk' Hk Hj E. pose proof Hd as [Hx _].
  rewrite znth_gather by assumption. rewrite E. apply scatter_get_in; assumption.
Qed.

Theorem gather_after_scatter_out : forall d xsz offs bs offs' k' j,
  0 < xsz -> 0 <= k' < Zlen offs' -> 0 <= j < xsz ->
  (forall o, In o offs -> apart xsz o (znth offs' k' 0)) ->
  znth (dk_gather (dk_scatter d xsz offs bs) xsz offs') (k' * xsz + j) 0 =
  dk_get d (znth offs' k' 0 + j).
Proof.
  intros d xsz offs bs offs' k' j Hx Hk' Hj Hap.
  rewrite znth_gather by assumption. apply scatter_get_out.
  intros o Ho. specialize (Hap o Ho). unfold apart in Hap. unfold in_elem. lia.
Qed.

(* ... and per element: the element read at position k' of offs' is the stream element last
   written to that offset when the offset is one of offs, and the old disk content when its
   byte range meets none of them *)
Theorem gather_after_scatter : forall d xsz offs bs offs' k',
  elems_disjoint xsz offs -> Zlen bs = xsz * Zlen offs -> 0 <= k' < Zlen offs' ->
  let got := dk_gather (dk_scatter d xsz offs bs) xsz offs' in
  (forall k, 0 <= k < Zlen offs -> znth offs' k' 0 = znth offs k 0 ->
     stream_elem xsz got k' = stream_elem xsz bs k) /\
  ((forall o, In o offs -> apart xsz o (znth offs' k' 0)) ->
     stream_elem xsz got k' = dk_read d (znth offs' k' 0) xsz).
Proof.
  intros d xsz offs bs offs' k' Hd Hlen Hk' got. pose proof Hd as [Hx _].
  assert (Hgl : Zlen got = xsz * Zlen offs') by (apply Zlen_gather; lia).
  split.
  - intros k Hk E. apply stream_elem_ext; try lia.
    + rewrite Hgl. apply mul_succ_le; lia.
    + rewrite Hlen. apply mul_succ_le; lia.
    + intros j Hj. apply gather_after_scatter_in; assumption.
  - intros Hap.
    assert (Hle : (k' + 1) * xsz <= Zlen got) by (rewrite Hgl; apply mul_succ_le; lia).
    apply (@znth_ext byte _ _ 0).
    + rewrite Zlen_stream_elem, Zlen_dk_read; try lia.
    + intros j Hj. rewrite Zlen_stream_elem in Hj; try lia.
      rewrite znth_stream_elem, znth_dk_read by lia.
      apply gather_after_scatter_out; assumption.
Qed.

(* a get whose elements meet none of the put's elements is not affected by the put *)
Lemma gather_scatter_frame d xa offsA xb offsB bsB :
  (forall a b x, In a offsA -> In b offsB -> in_elem xa a x -> in_elem xb b x -> False) ->
  dk_gather (dk_scatter d xb offsB bsB) xa offsA = dk_gather d xa offsA.
Proof.
  intros H. unfold dk_gather. apply flat_map_ext_In. intros a Ha.
  unfold dk_read. apply map_ext_in. intros x Hx. apply In_zrange in Hx.
  apply scatter_get_out. intros b Hb Hin. apply (H a b x Ha Hb); [exact Hx | exact Hin].
Qed.

Lemma in_elems_dec xsz offs x :
  (exists k, 0 <= k < Zlen offs /\ in_elem xsz (znth offs k 0) x) \/
  (forall o, In o offs -> ~ in_elem xsz o x).
Proof.
  induction offs as [|o r IH].
  - right. intros o [].
  - pose proof (Zlen_nonneg r) as Hr.
    destruct (Z_le_dec o x) as [H1|H1]; [destruct (Z_lt_dec x (o + xsz)) as [H2|H2]|].
    + left. exists 0. rewrite Zlen_cons, znth_cons_0. unfold in_elem. lia.
    + destruct IH as [[k [Hk Hin]]|IH].
      * left. exists (k + 1). rewrite Zlen_cons, znth_cons_pos by lia.
        replace (k + 1 - 1) with k by lia. split; [lia | exact Hin].
      * right. intros o' [<-|Ho']; [unfold in_elem; lia | now apply IH].
    + destruct IH as [[k [Hk Hin]]|IH].
      * left. exists (k + 1). rewrite Zlen_cons, znth_cons_pos by lia.
        replace (k + 1 - 1) with k by lia. split; [lia | exact Hin].
      * right. intros o' [<-|Ho']; [unfold in_elem; lia | now apply IH].
Qed.

(* two puts whose element sets do not meet commute *)
Theorem scatter_commute : forall d xa offsA bsA xb offsB bsB,
  elems_disjoint xa offsA -> Zlen bsA = xa * Zlen offsA ->
  elems_disjoint xb offsB -> Zlen bsB = xb * Zlen offsB ->
  (forall a b x, In a offsA -> In b offsB -> in_elem xa a x -> in_elem xb b x -> False) ->
  forall x, dk_get (dk_scatter (dk_scatter d xa offsA bsA) xb offsB bsB) x =
            dk_get (dk_scatter (dk_scatter d xb offsB bsB) xa offsA bsA) x.
Proof.
  intros d xa offsA bsA xb offsB bsB HdA HlA HdB HlB Hcross x.
  destruct (in_elems_dec xb offsB x) as [[k [Hk Hin]]|HoutB].
  - assert (HoutA : forall a, In a offsA -> ~ in_elem xa a x).
    { intros a Ha HinA. apply (Hcross a (znth offsB k 0) x); try assumption.
      apply znth_In. assumption. }
    rewrite (scatter_get_out offsA) by assumption.
    unfold in_elem in Hin.
    replace x with (znth offsB k 0 + (x - znth offsB k 0)) by lia.
    rewrite !scatter_get_in by (try assumption; lia). reflexivity.
  - rewrite (scatter_get_out offsB) by assumption.
    destruct (in_elems_dec xa offsA x) as [[k [Hk Hin]]|HoutA].
    + unfold in_elem in Hin.
      assert (Ex : x = znth offsA k 0 + (x - znth offsA k 0)) by lia.
      rewrite Ex. rewrite !scatter_get_in by (try assumption; lia). reflexivity.
    + rewrite !(scatter_get_out offsA) by assumption.
      rewrite (scatter_get_out offsB) by assumption. reflexivity.
Qed.

(* ================================================================== *)
(* 4. (offset, element) pairs: order and decomposition are irrelevant  *)
(* ================================================================== *)
Definition tile_apart (p q : Z * list byte) : Prop :=
  fst p + Zlen (snd p) <= fst q \/ fst q + Zlen (snd q) <= fst p.

Definition tiles_disjoint (data : list (Z * list byte)) : Prop :=
  ForallOrdPairs tile_apart data.

Lemma write_tiles_cons p data d :
  write_tiles (p :: data) d = write_tiles data (dk_write d (fst p) (snd p)).
Proof. reflexivity. Qed.

Lemma write_tiles_disjoint_get data d x p :
  tiles_disjoint data -> In p data -> covers p x ->
  dk_get (write_tiles data d) x = znth (snd p) (x - fst p) 0.
Proof.
  intros Hd Hp Hc. apply write_tiles_get_in; [exists p; auto|].
  intros q Hq Hcq.
  destruct (ForallOrdPairs_In Hd _ _ Hp Hq) as [E|[E|E]]; [subst; reflexivity | |];
    unfold tile_apart, covers in *; lia.
Qed.

Definition coversb (x : Z) (p : Z * list byte) : bool :=
  (fst p <=? x) && (x <? fst p + Zlen (snd p)).

Lemma coversb_spec x p : coversb x p = true <-> covers p x.
Proof. unfold coversb, covers. lia. Qed.

(* the byte map does not depend on the order in which pairwise disjoint tiles are written *)
Lemma write_tiles_perm_get data data' d x :
  tiles_disjoint data -> Permutation data data' ->
  dk_get (write_tiles data d) x = dk_get (write_tiles data' d) x.
Proof.
  intros Hd Hp. destruct (existsb (coversb x) data) eqn:E.
  - apply existsb_exists in E. destruct E as [p [Hin Hc]]. apply coversb_spec in Hc.
    rewrite (write_tiles_disjoint_get data d x p) by assumption.
    symmetry. apply write_tiles_get_in.
    + exists p. split; [eapply Permutation_in; eassumption | assumption].
    + intros q Hq Hcq. apply Permutation_sym in Hp. pose proof (Permutation_in _ Hp Hq) as Hq'.
      destruct (ForallOrdPairs_In Hd _ _ Hin Hq') as [E|[E|E]]; [subst; reflexivity | |];
        unfold tile_apart, covers in *; lia.
  - assert (Hout : forall p, In p data -> ~ covers p x).
    { intros p Hin Hc. apply coversb_spec in Hc.
      assert (existsb (coversb x) data = true) by (apply existsb_exists; eauto). congruence. }
    rewrite !write_tiles_get_out; [reflexivity | | assumption].
    intros p Hin. apply Hout. apply Permutation_sym in Hp. eapply Permutation_in; eassumption.
Qed.

Lemma write_tiles_size_congr data : forall d1 d2,
  dk_size d1 = dk_size d2 -> dk_size (write_tiles data d1) = dk_size (write_tiles data d2).
Proof.
  induction data as [|p data IH]; intros d1 d2 H; [exact H|].
  rewrite !write_tiles_cons. apply IH. rewrite !dk_size_write, H. reflexivity.
Qed.

(* ... nor does the extent (no disjointness needed) *)
Lemma write_tiles_perm_size data data' :
  Permutation data data' ->
  forall d1 d2, dk_size d1 = dk_size d2 ->
  dk_size (write_tiles data d1) = dk_size (write_tiles data' d2).
Proof.
  induction 1 as [|p l l' Hp IH|p q l|l l' l'' H1 IH1 H2 IH2]; intros d1 d2 H.
  - exact H.
  - rewrite !write_tiles_cons. apply IH. rewrite !dk_size_write, H. reflexivity.
  - rewrite !write_tiles_cons. apply write_tiles_size_congr.
    rewrite !dk_size_write, H.
    destruct (0 <? Zlen (snd p)); destruct (0 <? Zlen (snd q)); lia.
  - rewrite (IH1 d1 d2 H). apply IH2. reflexivity.
Qed.

Lemma write_tiles_perm_exists data data' d :
  Permutation data data' -> dk_exists (write_tiles data d) = dk_exists (write_tiles data' d).
Proof.
  intros Hp. rewrite !write_tiles_exists. f_equal.
  destruct (existsb (fun p => 0 <? Zlen (snd p)) data) eqn:E1;
    destruct (existsb (fun p => 0 <? Zlen (snd p)) data') eqn:E2; try reflexivity; exfalso.
  - apply existsb_exists in E1. destruct E1 as [p [Hin Hc]].
    assert (existsb (fun p => 0 <? Zlen (snd p)) data' = true)
      by (apply existsb_exists; exists p; split; [eapply Permutation_in; eassumption | assumption]).
    congruence.
  - apply existsb_exists in E2. destruct E2 as [p [Hin Hc]]. apply Permutation_sym in Hp.
    assert (existsb (fun p => 0 <? Zlen (snd p)) data = true)
      by (apply existsb_exists; exists p; split; [eapply Permutation_in; eassumption | assumption]).
    congruence.
Qed.

(* a put of the elements [elems] at [offs] is the fold of the (offset, element) tiles *)
Lemma dk_scatter_tiles : forall offs elems d xsz,
  length elems = length offs -> Forall (fun e : list byte => Zlen e = xsz) elems ->
  dk_scatter d xsz offs (concat elems) = write_tiles (combine offs elems) d.
Proof.
  induction offs as [|o r IH]; intros elems d xsz Hl Hall.
  - reflexivity.
  - destruct elems as [|e es]; [discriminate|]. cbn [length] in Hl.
    inversion Hall as [|? ? He Hes]; subst.
    cbn [dk_scatter concat combine]. rewrite write_tiles_cons. cbn [fst snd].
    rewrite zfirstn_app_exact, zskipn_app_exact. apply IH; [lia | assumption].
Qed.

Lemma tiles_disjoint_combine xsz : forall offs elems,
  disj_rec xsz offs -> length elems = length offs ->
  Forall (fun e : list byte => Zlen e = xsz) elems ->
  tiles_disjoint (combine offs elems).
Proof.
  induction offs as [|o r IH]; intros elems Hd Hl Hall.
  - constructor.
  - destruct elems as [|e es]; [discriminate|]. cbn [length] in Hl.
    inversion Hall as [|? ? He Hes]; subst. destruct Hd as [Hfa Hd].
    cbn [combine]. constructor.
    + apply Forall_forall. intros [o' e'] Hin.
      pose proof (in_combine_l _ _ _ _ Hin) as Ho'. pose proof (in_combine_r _ _ _ _ Hin) as He'.
      rewrite Forall_forall in Hfa, Hes. specialize (Hfa o' Ho'). specialize (Hes e' He').
      unfold tile_apart, apart in *. cbn [fst snd]. lia.
    + apply IH; [assumption | lia | assumption].
Qed.

Lemma in_combine_r_ex {A B} : forall (a : list A) (b : list B) y,
  length a = length b -> In y b -> exists x, In (x, y) (combine a b).
Proof.
  induction a as [|x a IH]; intros b y Hl Hy; destruct b as [|y0 b]; try discriminate.
  - destruct Hy.
  - cbn [length] in Hl. cbn [combine]. destruct Hy as [<-|Hy].
    + exists x. now left.
    + destruct (IH b y ltac:(lia) Hy) as [x' Hx']. exists x'. now right.
Qed.

(* extensional equality of two disks *)
Definition disk_eq (d1 d2 : disk) : Prop :=
  (forall x, dk_get d1 x = dk_get d2 x) /\ dk_size d1 = dk_size d2 /\ dk_exists d1 = dk_exists d2.

(* ORDER IRRELEVANT: the same (offset, element) pairs written in another order (e.g. the
   sorted order of an aggregated write) give the same file *)
Theorem scatter_perm : forall d xsz offs elems offs2 elems2,
  elems_disjoint xsz offs ->
  length elems = length offs -> length elems2 = length offs2 ->
  Forall (fun e : list byte => Zlen e = xsz) elems ->
  Permutation (combine offs elems) (combine offs2 elems2) ->
  disk_eq (dk_scatter d xsz offs (concat elems)) (dk_scatter d xsz offs2 (concat elems2)).
Proof.
  intros d xsz offs elems offs2 elems2 Hd Hl Hl2 Hall Hp.
  apply elems_disjoint_rec in Hd. destruct Hd as [Hx Hd].
  assert (Hall2 : Forall (fun e : list byte => Zlen e = xsz) elems2).
  { apply Forall_forall. intros e He.
    destruct (in_combine_r_ex offs2 elems2 e ltac:(lia) He) as [o Ho].
    apply Permutation_sym in Hp. pose proof (Permutation_in _ Hp Ho) as Ho'.
    apply in_combine_r in Ho'. rewrite Forall_forall in Hall. now apply Hall. }
  rewrite !dk_scatter_tiles by assumption.
  pose proof (tiles_disjoint_combine xsz offs elems Hd Hl Hall) as Htd.
  repeat split.
  - intros x. apply write_tiles_perm_get; assumption.
  - apply write_tiles_perm_size; [assumption | reflexivity].
  - apply write_tiles_perm_exists; assumption.
Qed.

(* the ranks' shares of the pairs, applied one after the other *)
Definition apply_shares (shares : list (list (Z * list byte))) (d : disk) : disk :=
  fold_left (fun acc sh => write_tiles sh acc) shares d.

Lemma apply_shares_concat : forall shares d,
  apply_shares shares d = write_tiles (concat shares) d.
Proof.
  induction shares as [|sh shares IH]; intros d; [reflexivity|].
  cbn [concat]. rewrite write_tiles_app. unfold apply_shares in *. cbn [fold_left]. apply IH.
Qed.

(* DECOMPOSITION IRRELEVANT: split the pairs of one request into any number of shares (with
   any assignment of pairs to shares, in any order inside a share and any order of the shares):
   the result is the file the single put produces *)
Theorem decomposition_irrelevant : forall d xsz offs elems shares,
  elems_disjoint xsz offs -> length elems = length offs ->
  Forall (fun e : list byte => Zlen e = xsz) elems ->
  Permutation (concat shares) (combine offs elems) ->
  disk_eq (apply_shares shares d) (dk_scatter d xsz offs (concat elems)).
Proof.
  intros d xsz offs elems shares Hd Hl Hall Hp.
  apply elems_disjoint_rec in Hd. destruct Hd as [Hx Hd].
  rewrite apply_shares_concat, dk_scatter_tiles by assumption.
  pose proof (tiles_disjoint_combine xsz offs elems Hd Hl Hall) as Htd.
  apply Permutation_sym in Hp.
  repeat split.
  - intros x. symmetry. apply write_tiles_perm_get; assumption.
  - symmetry. apply write_tiles_perm_size; [assumption | reflexivity].
  - symmetry. apply write_tiles_perm_exists; assumption.
Qed.

(* the same with every share written by dk_scatter (a rank's put of its own sub-request) *)
Definition scatter_shares (xsz : Z) (shares : list (list Z * list (list byte))) (d : disk) : disk :=
  fold_left (fun acc s => dk_scatter acc xsz (fst s) (concat (snd s))) shares d.

Definition share_wf (xsz : Z) (s : list Z * list (list byte)) : Prop :=
  length (snd s) = length (fst s) /\ Forall (fun e : list byte => Zlen e = xsz) (snd s).

Lemma scatter_shares_tiles xsz : forall shares d,
  Forall (share_wf xsz) shares ->
  scatter_shares xsz shares d =
  apply_shares (map (fun s => combine (fst s) (snd s)) shares) d.
Proof.
  induction shares as [|s shares IH]; intros d Hwf; [reflexivity|].
  inversion Hwf as [|? ? [Hs1 Hs2] Hrest]; subst.
  unfold scatter_shares, apply_shares in *. cbn [fold_left map].
  rewrite dk_scatter_tiles by assumption. apply IH. assumption.
Qed.

Theorem decomposition_irrelevant_scatter : forall d xsz offs elems shares,
  elems_disjoint xsz offs -> length elems = length offs ->
  Forall (fun e : list byte => Zlen e = xsz) elems ->
  Forall (share_wf xsz) shares ->
  Permutation (flat_map (fun s => combine (fst s) (snd s)) shares) (combine offs elems) ->
  disk_eq (scatter_shares xsz shares d) (dk_scatter d xsz offs (concat elems)).
Proof.
  intros d xsz offs elems shares Hd Hl Hall Hwf Hp.
  rewrite scatter_shares_tiles by assumption.
  apply decomposition_irrelevant; try assumption.
  rewrite <- flat_map_concat_map. exact Hp.
Qed.

(* every stream is the concatenation of its elements *)
Fixpoint chunks (xsz : Z) (n : nat) (bs : list byte) : list (list byte) :=
  match n with
  | O => []
  | S k => zfirstn xsz bs :: chunks xsz k (zskipn xsz bs)
  end.

Lemma chunks_spec xsz : forall n bs, 0 <= xsz -> Zlen bs = xsz * Z.of_nat n ->
  length (chunks xsz n bs) = n /\
  Forall (fun e : list byte => Zlen e = xsz) (chunks xsz n bs) /\
  concat (chunks xsz n bs) = bs.
Proof.
  induction n as [|n IH]; intros bs Hx Hl.
  - cbn [chunks length concat]. split; [reflexivity|]. split; [constructor|].
    symmetry. apply Zlen_zero_nil. lia.
  - cbn [chunks length concat].
    assert (Hge : xsz <= Zlen bs) by nia.
    destruct (IH (zskipn xsz bs) Hx) as (H1 & H2 & H3); [rewrite Zlen_zskipn; lia|].
    split; [now rewrite H1|]. split.
    + constructor; [rewrite Zlen_zfirstn; lia | assumption].
    + rewrite H3. apply zfirstn_zskipn.
Qed.

(* ================================================================== *)
(* 5. (start, count, stride) requests                                  *)
(* ================================================================== *)
(* two different elements of one variable occupy disjoint bytes (also across records, also
   when the record size is not a multiple of the element size) *)
Theorem elem_off_apart : forall g i j,
  wf_geom g -> rec_fits g -> idx_ok g i -> idx_ok g j -> i <> j ->
  apart (g_xsz g) (elem_off g i) (elem_off g j).
Proof.
  intros g i j (Hx & Hrs & _ & _) Hfit Hi Hj Hne. unfold idx_ok in Hi, Hj. unfold apart.
  destruct (g_isrec g) eqn:Erec.
  - destruct i as [|i0 ri]; [contradiction|]. destruct j as [|j0 rj]; [contradiction|].
    destruct Hi as [Hi0 Hi]. destruct Hj as [Hj0 Hj].
    specialize (Hfit Erec).
    destruct (elem_off_bounds_rec g i0 ri ltac:(lia) Erec Hi) as [Bi1 Bi2].
    destruct (elem_off_bounds_rec g j0 rj ltac:(lia) Erec Hj) as [Bj1 Bj2].
    destruct (Z.lt_trichotomy i0 j0) as [Hlt|[Heq|Hgt]].
    + left. assert ((i0 + 1) * g_recsize g <= j0 * g_recsize g) by nia. lia.
    + subst j0.
      assert (Hl : lin (tl (g_shape g)) ri <> lin (tl (g_shape g)) rj).
      { intros E. apply Hne. f_equal. eapply lin_inj; eassumption. }
      rewrite !elem_off_rec by assumption.
      destruct (Z.lt_trichotomy (lin (tl (g_shape g)) ri) (lin (tl (g_shape g)) rj))
        as [H|[H|H]]; [left; nia | contradiction | right; nia].
    + right. assert ((j0 + 1) * g_recsize g <= i0 * g_recsize g) by nia. lia.
  - assert (Hl : lin (g_shape g) i <> lin (g_shape g) j)
      by (intros E; apply Hne; eapply lin_inj; eassumption).
    rewrite !elem_off_fixed by assumption.
    destruct (Z.lt_trichotomy (lin (g_shape g) i) (lin (g_shape g) j))
      as [H|[H|H]]; [left; nia | contradiction | right; nia].
Qed.

Lemma disj_rec_map_NoDup {A} (f : A -> Z) xsz : forall l,
  NoDup l -> (forall a b, In a l -> In b l -> a <> b -> apart xsz (f a) (f b)) ->
  disj_rec xsz (map f l).
Proof.
  induction l as [|a l IH]; intros Hnd H; [exact I|].
  inversion Hnd as [|? ? Hnotin Hnd']; subst. cbn [map disj_rec]. split.
  - apply Forall_forall. intros y Hy. apply in_map_iff in Hy. destruct Hy as [b [<- Hb]].
    apply H; [now left | now right | intros ->; contradiction].
  - apply IH; [assumption|]. intros x y Hx Hy. apply H; now right.
Qed.

Lemma spec_offsets_disjoint : forall g start count stride,
  wf_geom g -> rec_fits g -> req_ok (g_shape g) start count stride ->
  elems_disjoint (g_xsz g) (spec_offsets g start count stride).
Proof.
  intros g start count stride Hwf Hfit Hreq. apply elems_disjoint_rec.
  split; [destruct Hwf as [Hx _]; exact Hx|].
  unfold spec_offsets. apply disj_rec_map_NoDup.
  - apply req_indices_NoDup. eapply req_ok_stride_pos; eassumption.
  - intros a b Ha Hb Hne.
    apply elem_off_apart; try assumption; eapply req_indices_idx_ok; eassumption.
Qed.

(* the elements addressed by one accepted request occupy pairwise disjoint bytes *)
Theorem request_offsets_disjoint : forall g start count stride,
  wf_geom g -> rec_fits g -> req_ok (g_shape g) start count stride ->
  elems_disjoint (g_xsz g) (model_offsets g start count (Some stride)).
Proof.
  intros. rewrite model_offsets_eq_spec by assumption. apply spec_offsets_disjoint; assumption.
Qed.

Lemma Zlen_model_offsets : forall g start count stride,
  wf_geom g -> req_ok (g_shape g) start count stride ->
  Zlen (model_offsets g start count (Some stride)) = zprod count.
Proof.
  intros g start count stride Hwf Hreq. unfold Zlen.
  rewrite model_offsets_length by assumption.
  pose proof (zprod_nonneg count (req_ok_count_nonneg _ _ _ _ Hreq)). lia.
Qed.

Lemma Zlen_req_indices : forall g start count stride,
  req_ok (g_shape g) start count stride -> Zlen (req_indices start count stride) = zprod count.
Proof.
  intros g start count stride Hreq. unfold Zlen.
  destruct (req_ok_lengths _ _ _ _ Hreq) as (Hls & Hlc & Hlt).
  pose proof (req_ok_count_nonneg _ _ _ _ Hreq) as Hc.
  rewrite req_indices_length by (try assumption; lia).
  pose proof (zprod_nonneg count Hc). lia.
Qed.

(* the k-th offset of the request is the offset of its k-th index vector *)
Lemma znth_model_offsets : forall g start count stride k,
  wf_geom g -> req_ok (g_shape g) start count stride -> 0 <= k < zprod count ->
  znth (model_offsets g start count (Some stride)) k 0 =
  elem_off g (znth (req_indices start count stride) k []).
Proof.
  intros g start count stride k Hwf Hreq Hk.
  rewrite model_offsets_eq_spec by assumption. unfold spec_offsets.
  apply znth_map. rewrite (Zlen_req_indices g) by assumption. exact Hk.
Qed.

(* ROUND TRIP for a request: what a put stored is what a get of the same request returns *)
Theorem put_get_roundtrip : forall g start count stride d bs,
  wf_geom g -> rec_fits g -> req_ok (g_shape g) start count stride ->
  Zlen bs = g_xsz g * zprod count ->
  let offs := model_offsets g start count (Some stride) in
  dk_gather (dk_scatter d (g_xsz g) offs bs) (g_xsz g) offs = bs.
Proof.
  intros g start count stride d bs Hwf Hfit Hreq Hlen offs. apply gather_scatter.
  - apply request_offsets_disjoint; assumption.
  - unfold offs. rewrite Zlen_model_offsets by assumption. exact Hlen.
Qed.

(* ... and the element with the k-th index vector holds the k-th stream element *)
Theorem put_get_element : forall g start count stride d bs k,
  wf_geom g -> rec_fits g -> req_ok (g_shape g) start count stride ->
  Zlen bs = g_xsz g * zprod count -> 0 <= k < zprod count ->
  let D := dk_scatter d (g_xsz g) (model_offsets g start count (Some stride)) bs in
  dk_read D (elem_off g (znth (req_indices start count stride) k [])) (g_xsz g) =
  stream_elem (g_xsz g) bs k.
Proof.
  intros g start count stride d bs k Hwf Hfit Hreq Hlen Hk D.
  pose proof Hwf as (Hx & _).
  pose proof (Zlen_model_offsets g start count stride Hwf Hreq) as Hzl.
  rewrite <- znth_model_offsets by assumption.
  rewrite <- stream_elem_gather by lia.
  unfold D. rewrite gather_scatter; [reflexivity | |].
  - apply request_offsets_disjoint; assumption.
  - rewrite Hzl. exact Hlen.
Qed.

(* A get through ANY other accepted request on the same variable (another start/count/stride
   reading overlapping elements): every element it returns is the stream element the put
   stored for that index vector, or, for an index vector the put did not address, the
   previous content of the file. *)
Theorem get_other_request : forall g st cn sd st' cn' sd' d bs k',
  wf_geom g -> rec_fits g ->
  req_ok (g_shape g) st cn sd -> req_ok (g_shape g) st' cn' sd' ->
  Zlen bs = g_xsz g * zprod cn -> 0 <= k' < zprod cn' ->
  let D := dk_scatter d (g_xsz g) (model_offsets g st cn (Some sd)) bs in
  let got := dk_gather D (g_xsz g) (model_offsets g st' cn' (Some sd')) in
  let idx' := znth (req_indices st' cn' sd') k' [] in
  (forall k, 0 <= k < zprod cn -> znth (req_indices st cn sd) k [] = idx' ->
     stream_elem (g_xsz g) got k' = stream_elem (g_xsz g) bs k) /\
  (~ In idx' (req_indices st cn sd) ->
     stream_elem (g_xsz g) got k' = dk_read d (elem_off g idx') (g_xsz g)).
Proof.
  intros g st cn sd st' cn' sd' d bs k' Hwf Hfit Hreq Hreq' Hlen Hk' D got idx'.
  pose proof (Zlen_model_offsets g st cn sd Hwf Hreq) as Hzl.
  pose proof (Zlen_model_offsets g st' cn' sd' Hwf Hreq') as Hzl'.
  pose proof (request_offsets_disjoint g st cn sd Hwf Hfit Hreq) as Hdis.
  destruct (gather_after_scatter d (g_xsz g) (model_offsets g st cn (Some sd)) bs
              (model_offsets g st' cn' (Some sd')) k' Hdis) as [Hin Hout];
    [rewrite Hzl; exact Hlen | rewrite Hzl'; exact Hk' |].
  fold D in Hin, Hout. fold got in Hin, Hout.
  rewrite znth_model_offsets in Hin, Hout by assumption. fold idx' in Hin, Hout.
  assert (Hidx' : idx_ok g idx').
  { eapply req_indices_idx_ok; [exact Hreq'|]. apply znth_In.
    rewrite (Zlen_req_indices g) by assumption. exact Hk'. }
  split.
  - intros k Hk E. apply Hin; [rewrite Hzl; exact Hk|].
    rewrite znth_model_offsets by assumption. now rewrite E.
  - intros Hnot. apply Hout. intros o Ho.
    rewrite model_offsets_eq_spec in Ho by assumption. unfold spec_offsets in Ho.
    apply in_map_iff in Ho. destruct Ho as [idx [<- Hidx]].
    apply elem_off_apart; try assumption.
    + eapply req_indices_idx_ok; [exact Hreq | exact Hidx].
    + intros E. apply Hnot. rewrite <- E. exact Hidx.
Qed.

(* FRAME for a request: a byte that belongs to no addressed element keeps its value *)
Theorem put_frame : forall g start count stride d bs x,
  wf_geom g -> req_ok (g_shape g) start count stride ->
  (forall idx, In idx (req_indices start count stride) ->
     ~ in_elem (g_xsz g) (elem_off g idx) x) ->
  dk_get (dk_scatter d (g_xsz g) (model_offsets g start count (Some stride)) bs) x = dk_get d x.
Proof.
  intros g start count stride d bs x Hwf Hreq H. apply scatter_get_out.
  intros o Ho. rewrite model_offsets_eq_spec in Ho by assumption. unfold spec_offsets in Ho.
  apply in_map_iff in Ho. destruct Ho as [idx [<- Hidx]]. now apply H.
Qed.

(* in particular every other element of the same variable is untouched *)
Corollary put_frame_element : forall g start count stride d bs idx,
  wf_geom g -> rec_fits g -> req_ok (g_shape g) start count stride ->
  idx_ok g idx -> ~ In idx (req_indices start count stride) ->
  dk_read (dk_scatter d (g_xsz g) (model_offsets g start count (Some stride)) bs)
          (elem_off g idx) (g_xsz g) =
  dk_read d (elem_off g idx) (g_xsz g).
Proof.
  intros g start count stride d bs idx Hwf Hfit Hreq Hidx Hnot.
  unfold dk_read. apply map_ext_in. intros x Hx. apply In_zrange in Hx.
  apply put_frame; try assumption. intros idx2 Hin2 Hin.
  assert (Hap : apart (g_xsz g) (elem_off g idx2) (elem_off g idx)).
  { apply elem_off_apart; try assumption.
    - eapply req_indices_idx_ok; eassumption.
    - intros ->. contradiction. }
  unfold apart in Hap. unfold in_elem in Hin. lia.
Qed.

(* ---------- two variables ---------- *)
(* the bytes that belong to a variable: one block for a fixed-size variable, one slot in
   every record for a record variable *)
Definition var_region (g : geom) (x : Z) : Prop :=
  if g_isrec g then
    exists i0, 0 <= i0 /\
      g_begin g + i0 * g_recsize g <= x <
      g_begin g + i0 * g_recsize g + zprod (tl (g_shape g)) * g_xsz g
  else g_begin g <= x < g_begin g + zprod (g_shape g) * g_xsz g.

Definition regions_disjoint (g1 g2 : geom) : Prop :=
  forall x, var_region g1 x -> var_region g2 x -> False.

Lemma regions_disjoint_sym g1 g2 : regions_disjoint g1 g2 -> regions_disjoint g2 g1.
Proof. unfold regions_disjoint. intros H x H2 H1. exact (H x H1 H2). Qed.

(* (begin, size) of two fixed-size variables *)
Lemma regions_disjoint_fixed_fixed g1 g2 :
  g_isrec g1 = false -> g_isrec g2 = false ->
  g_begin g1 + zprod (g_shape g1) * g_xsz g1 <= g_begin g2 \/
  g_begin g2 + zprod (g_shape g2) * g_xsz g2 <= g_begin g1 ->
  regions_disjoint g1 g2.
Proof.
  intros H1 H2 H x. unfold var_region. rewrite H1, H2. lia.
Qed.

(* a fixed-size variable lies before the record section *)
Lemma regions_disjoint_fixed_rec g1 g2 :
  g_isrec g1 = false -> g_isrec g2 = true -> 0 <= g_recsize g2 ->
  g_begin g1 + zprod (g_shape g1) * g_xsz g1 <= g_begin g2 ->
  regions_disjoint g1 g2.
Proof.
  intros H1 H2 Hrs H x. unfold var_region. rewrite H1, H2. intros Hx1 [i0 [Hi0 Hx2]].
  assert (0 <= i0 * g_recsize g2) by nia. lia.
Qed.

(* two record variables of one file: their slots inside the record do not overlap *)
Lemma regions_disjoint_rec_rec g1 g2 :
  g_isrec g1 = true -> g_isrec g2 = true ->
  g_recsize g1 = g_recsize g2 -> 0 <= g_recsize g1 ->
  g_begin g1 + zprod (tl (g_shape g1)) * g_xsz g1 <= g_begin g2 ->
  g_begin g2 + zprod (tl (g_shape g2)) * g_xsz g2 <= g_begin g1 + g_recsize g1 ->
  regions_disjoint g1 g2.
Proof.
  intros H1 H2 Ers Hrs Ha Hb x. unfold var_region. rewrite H1, H2, <- Ers.
  intros [i [Hi Hx1]] [k [Hk Hx2]].
  destruct (Z_le_gt_dec i k) as [Hik|Hik].
  - assert (i * g_recsize g1 <= k * g_recsize g1) by nia. lia.
  - assert ((k + 1) * g_recsize g1 <= i * g_recsize g1) by nia. lia.
Qed.

Lemma elem_in_region : forall g idx x,
  0 <= g_xsz g -> idx_ok g idx -> in_elem (g_xsz g) (elem_off g idx) x -> var_region g x.
Proof.
  intros g idx x Hx Hidx Hin. unfold idx_ok in Hidx. unfold var_region, in_elem in *.
  destruct (g_isrec g) eqn:Erec.
  - destruct idx as [|i0 r]; [contradiction|]. destruct Hidx as [Hi0 Hr].
    destruct (elem_off_bounds_rec g i0 r Hx Erec Hr) as [B1 B2].
    exists i0. split; [assumption | lia].
  - destruct (elem_off_bounds_fixed g idx Hx Erec Hidx) as [B1 B2]. lia.
Qed.

(* requests on two variables whose regions do not meet do not disturb each other: after both
   puts (in either order: the two orders give the same file) each request reads back its own
   stream *)
Theorem two_vars_disjoint : forall g1 st1 cn1 sd1 bs1 g2 st2 cn2 sd2 bs2 d,
  wf_geom g1 -> rec_fits g1 -> req_ok (g_shape g1) st1 cn1 sd1 ->
  Zlen bs1 = g_xsz g1 * zprod cn1 ->
  wf_geom g2 -> rec_fits g2 -> req_ok (g_shape g2) st2 cn2 sd2 ->
  Zlen bs2 = g_xsz g2 * zprod cn2 ->
  regions_disjoint g1 g2 ->
  let offs1 := model_offsets g1 st1 cn1 (Some sd1) in
  let offs2 := model_offsets g2 st2 cn2 (Some sd2) in
  let D := dk_scatter (dk_scatter d (g_xsz g1) offs1 bs1) (g_xsz g2) offs2 bs2 in
  dk_gather D (g_xsz g1) offs1 = bs1 /\
  dk_gather D (g_xsz g2) offs2 = bs2 /\
  (forall x, dk_get D x =
             dk_get (dk_scatter (dk_scatter d (g_xsz g2) offs2 bs2) (g_xsz g1) offs1 bs1) x) /\
  (forall x, ~ var_region g1 x -> ~ var_region g2 x -> dk_get D x = dk_get d x).
Proof.
  intros g1 st1 cn1 sd1 bs1 g2 st2 cn2 sd2 bs2 d Hwf1 Hfit1 Hreq1 Hl1 Hwf2 Hfit2 Hreq2 Hl2
         Hdisj offs1 offs2 D.
  pose proof (request_offsets_disjoint g1 st1 cn1 sd1 Hwf1 Hfit1 Hreq1) as Hd1.
  pose proof (request_offsets_disjoint g2 st2 cn2 sd2 Hwf2 Hfit2 Hreq2) as Hd2.
  fold offs1 in Hd1. fold offs2 in Hd2.
  assert (Hz1 : Zlen bs1 = g_xsz g1 * Zlen offs1)
    by (unfold offs1; rewrite Zlen_model_offsets by assumption; exact Hl1).
  assert (Hz2 : Zlen bs2 = g_xsz g2 * Zlen offs2)
    by (unfold offs2; rewrite Zlen_model_offsets by assumption; exact Hl2).
  assert (Hreg1 : forall a x, In a offs1 -> in_elem (g_xsz g1) a x -> var_region g1 x).
  { intros a x Ha Hin. unfold offs1 in Ha. rewrite model_offsets_eq_spec in Ha by assumption.
    unfold spec_offsets in Ha. apply in_map_iff in Ha. destruct Ha as [idx [<- Hidx]].
    destruct Hwf1 as (Hx & _).
    eapply elem_in_region; [lia | eapply req_indices_idx_ok; eassumption | exact Hin]. }
  assert (Hreg2 : forall a x, In a offs2 -> in_elem (g_xsz g2) a x -> var_region g2 x).
  { intros a x Ha Hin. unfold offs2 in Ha. rewrite model_offsets_eq_spec in Ha by assumption.
    unfold spec_offsets in Ha. apply in_map_iff in Ha. destruct Ha as [idx [<- Hidx]].
    destruct Hwf2 as (Hx & _).
    eapply elem_in_region; [lia | eapply req_indices_idx_ok; eassumption | exact Hin]. }
  assert (Hcross : forall a b x, In a offs1 -> In b offs2 ->
                     in_elem (g_xsz g1) a x -> in_elem (g_xsz g2) b x -> False).
  { intros a b x Ha Hb Hia Hib. apply (Hdisj x); eauto. }
  split; [|split; [|split]].
  - unfold D. rewrite gather_scatter_frame by exact Hcross. apply gather_scatter; assumption.
  - unfold D. apply gather_scatter; assumption.
  - intros x. unfold D. apply scatter_commute; assumption.
  - intros x Hn1 Hn2. unfold D.
    rewrite scatter_get_out by (intros o Ho Hin; apply Hn2; eapply Hreg2; eassumption).
    apply scatter_get_out. intros o Ho Hin. apply Hn1. eapply Hreg1; eassumption.
Qed.

(* ================================================================== *)
(* 6. Examples: a file with two 2-D record variables and a fixed one   *)
(* ================================================================== *)
(* record size 20; x: unlimited x 3 of 4-byte elements in record bytes [0,12);
   y: unlimited x 4 of 2-byte elements in record bytes [12,20); records start at byte 64;
   f: fixed 2 x 3 of 4-byte elements at bytes [16,40) *)
Definition ex_gx : geom := mkgeom 64 4 [0; 3] 20 2.
Definition ex_gy : geom := mkgeom 76 2 [0; 4] 20 2.
Definition ex_gf : geom := mkgeom 16 4 [2; 3] 0 0.

Example ex_gx_wf : wf_geom ex_gx /\ rec_fits ex_gx.
Proof.
  unfold wf_geom, rec_fits, ex_gx. cbn [g_xsz g_recsize g_shape dims_wf tl]. split.
  - refine (conj _ (conj _ (conj (conj _ _) _))); try lia.
    + repeat constructor; lia.
    + intros _ H. cbn [g_nrecvars] in H. lia.
  - intros _. vm_compute. discriminate.
Qed.

Example ex_gy_wf : wf_geom ex_gy /\ rec_fits ex_gy.
Proof.
  unfold wf_geom, rec_fits, ex_gy. cbn [g_xsz g_recsize g_shape dims_wf tl]. split.
  - refine (conj _ (conj _ (conj (conj _ _) _))); try lia.
    + repeat constructor; lia.
    + intros _ H. cbn [g_nrecvars] in H. lia.
  - intros _. vm_compute. discriminate.
Qed.

Example ex_gf_wf : wf_geom ex_gf /\ rec_fits ex_gf.
Proof.
  unfold wf_geom, rec_fits, ex_gf. cbn [g_xsz g_recsize g_shape dims_wf tl]. split.
  - refine (conj _ (conj _ (conj (conj _ _) _))); try lia.
    + repeat constructor; lia.
    + intros H. vm_compute in H. discriminate.
  - intros H. vm_compute in H. discriminate.
Qed.

(* strided request on x: records 1 and 3, columns 0 and 2 *)
Example ex_req : req_ok (g_shape ex_gx) [1; 0] [2; 2] [2; 2].
Proof. cbn [ex_gx g_shape req_ok dims_ok]. lia. Qed.

Definition ex_offs : list Z := model_offsets ex_gx [1; 0] [2; 2] (Some [2; 2]).
Definition ex_bs : list byte := [1; 2; 3; 4; 5; 6; 7; 8; 9; 10; 11; 12; 13; 14; 15; 16].
(* a file whose byte x in [64,144) holds 100 + (x - 64) *)
Definition ex_d0 : disk := dk_write empty_disk 64 (map (Z.add 100) (zrange 0 80)).

Example ex_offs_value : ex_offs = [84; 92; 124; 132].
Proof. vm_compute. reflexivity. Qed.

Example ex_offs_disjoint : elems_disjoint 4 ex_offs.
Proof.
  destruct ex_gx_wf as [Hwf Hfit].
  exact (request_offsets_disjoint ex_gx [1; 0] [2; 2] [2; 2] Hwf Hfit ex_req).
Qed.

Example ex_scatter_get_in_out :
  let D := dk_scatter ex_d0 4 ex_offs ex_bs in
  dk_get D (92 + 1) = 6 /\ dk_get D 88 = dk_get ex_d0 88 /\ dk_get D 88 = 124 /\
  dk_size D = 144 /\ dk_size (dk_scatter empty_disk 4 ex_offs ex_bs) = 136.
Proof. vm_compute. repeat split; reflexivity. Qed.

Example ex_roundtrip_compute :
  dk_gather (dk_scatter ex_d0 4 ex_offs ex_bs) 4 ex_offs = ex_bs.
Proof. vm_compute. reflexivity. Qed.

Example ex_roundtrip_by_theorem : forall d,
  dk_gather (dk_scatter d 4 ex_offs ex_bs) 4 ex_offs = ex_bs.
Proof.
  intros d. destruct ex_gx_wf as [Hwf Hfit].
  apply (put_get_roundtrip ex_gx [1; 0] [2; 2] [2; 2] d ex_bs Hwf Hfit ex_req).
  vm_compute. reflexivity.
Qed.

(* another access form: the whole record 1 (columns 0,1,2, stride 1) read after the put
   returns the put's elements 0 and 1 in columns 0 and 2, and the old bytes in column 1 *)
Example ex_other_request_compute :
  dk_gather (dk_scatter ex_d0 4 ex_offs ex_bs) 4 (model_offsets ex_gx [1; 0] [1; 3] (Some [1; 1]))
  = [1; 2; 3; 4; 124; 125; 126; 127; 5; 6; 7; 8].
Proof. vm_compute. reflexivity. Qed.

Example ex_other_request_by_theorem : forall d,
  let got := dk_gather (dk_scatter d 4 ex_offs ex_bs) 4
                       (model_offsets ex_gx [1; 0] [1; 3] (Some [1; 1])) in
  stream_elem 4 got 2 = [5; 6; 7; 8] /\ stream_elem 4 got 1 = dk_read d 88 4.
Proof.
  intros d got. destruct ex_gx_wf as [Hwf Hfit].
  assert (Hreq' : req_ok (g_shape ex_gx) [1; 0] [1; 3] [1; 1])
    by (cbn [ex_gx g_shape req_ok dims_ok]; lia).
  assert (Hlen : Zlen ex_bs = g_xsz ex_gx * zprod [2; 2]) by (vm_compute; reflexivity).
  split.
  - destruct (get_other_request ex_gx [1; 0] [2; 2] [2; 2] [1; 0] [1; 3] [1; 1] d ex_bs 2
                Hwf Hfit ex_req Hreq' Hlen ltac:(vm_compute; split; congruence)) as [Hin _].
    apply (Hin 1); [vm_compute; split; congruence | vm_compute; reflexivity].
  - destruct (get_other_request ex_gx [1; 0] [2; 2] [2; 2] [1; 0] [1; 3] [1; 1] d ex_bs 1
                Hwf Hfit ex_req Hreq' Hlen ltac:(vm_compute; split; congruence)) as [_ Hout].
    apply Hout. vm_compute. intros [H|[H|[H|[H|[]]]]]; discriminate.
Qed.

(* the four (offset, element) pairs in reverse order, and split over three ranks *)
Definition ex_elems : list (list byte) := chunks 4 4 ex_bs.

Example ex_elems_value :
  ex_elems = [[1; 2; 3; 4]; [5; 6; 7; 8]; [9; 10; 11; 12]; [13; 14; 15; 16]] /\
  concat ex_elems = ex_bs.
Proof. vm_compute. split; reflexivity. Qed.

Example ex_perm : forall d,
  disk_eq (dk_scatter d 4 ex_offs (concat ex_elems))
          (dk_scatter d 4 (rev ex_offs) (concat (rev ex_elems))).
Proof.
  intros d. apply scatter_perm.
  - exact ex_offs_disjoint.
  - reflexivity.
  - reflexivity.
  - vm_compute. repeat constructor.
  - replace (combine (rev ex_offs) (rev ex_elems)) with (rev (combine ex_offs ex_elems))
      by (vm_compute; reflexivity).
    apply Permutation_rev.
Qed.

Example ex_decomposition : forall d,
  let p0 := (84, [1; 2; 3; 4]) in let p1 := (92, [5; 6; 7; 8]) in
  let p2 := (124, [9; 10; 11; 12]) in let p3 := (132, [13; 14; 15; 16]) in
  disk_eq (apply_shares [[p0; p3]; [p2]; [p1]] d) (dk_scatter d 4 ex_offs ex_bs).
Proof.
  intros d p0 p1 p2 p3.
  replace ex_bs with (concat ex_elems) by (vm_compute; reflexivity).
  apply decomposition_irrelevant.
  - exact ex_offs_disjoint.
  - reflexivity.
  - vm_compute. repeat constructor.
  - replace (combine ex_offs ex_elems) with [p0; p1; p2; p3] by (vm_compute; reflexivity).
    cbn [concat app]. apply perm_skip.
    apply Permutation_sym. apply (Permutation_rev [p1; p2; p3]).
Qed.

Example ex_decomposition_compute :
  let D := apply_shares [[(84, [1; 2; 3; 4]); (132, [13; 14; 15; 16])];
                         [(124, [9; 10; 11; 12])]; [(92, [5; 6; 7; 8])]] ex_d0 in
  dk_read D 64 80 = dk_read (dk_scatter ex_d0 4 ex_offs ex_bs) 64 80.
Proof. vm_compute. reflexivity. Qed.

(* x and y share the records; f precedes them *)
Example ex_regions : regions_disjoint ex_gx ex_gy /\ regions_disjoint ex_gf ex_gx.
Proof.
  split.
  - apply regions_disjoint_rec_rec; vm_compute; try reflexivity; discriminate.
  - apply regions_disjoint_fixed_rec; vm_compute; try reflexivity; discriminate.
Qed.

Example ex_two_vars : forall d,
  let offs2 := model_offsets ex_gy [0; 1] [3; 2] (Some [1; 2]) in
  let bs2 := [21; 22; 23; 24; 25; 26; 27; 28; 29; 30; 31; 32] in
  let D := dk_scatter (dk_scatter d 4 ex_offs ex_bs) 2 offs2 bs2 in
  dk_gather D 4 ex_offs = ex_bs /\ dk_gather D 2 offs2 = bs2.
Proof.
  intros d offs2 bs2 D.
  destruct ex_gx_wf as [Hwf1 Hfit1]. destruct ex_gy_wf as [Hwf2 Hfit2].
  assert (Hreq2 : req_ok (g_shape ex_gy) [0; 1] [3; 2] [1; 2])
    by (cbn [ex_gy g_shape req_ok dims_ok]; lia).
  destruct (two_vars_disjoint ex_gx [1; 0] [2; 2] [2; 2] ex_bs ex_gy [0; 1] [3; 2] [1; 2] bs2 d
              Hwf1 Hfit1 ex_req ltac:(vm_compute; reflexivity)
              Hwf2 Hfit2 Hreq2 ltac:(vm_compute; reflexivity) (proj1 ex_regions))
    as (H1 & H2 & _).
  split; assumption.
Qed.

Example ex_two_vars_compute :
  let offs2 := model_offsets ex_gy [0; 1] [3; 2] (Some [1; 2]) in
  let bs2 := [21; 22; 23; 24; 25; 26; 27; 28; 29; 30; 31; 32] in
  offs2 = [78; 82; 98; 102; 118; 122] /\
  dk_gather (dk_scatter (dk_scatter ex_d0 4 ex_offs ex_bs) 2 offs2 bs2) 4 ex_offs = ex_bs.
Proof. vm_compute. split; reflexivity. Qed.

(* the hypothesis elems_disjoint is necessary for the round trip: an offset list with a
   repeated element reads back the LAST value for both positions *)
Example ex_overlap_not_roundtrip :
  dk_gather (dk_scatter empty_disk 2 [10; 10] [1; 2; 3; 4]) 2 [10; 10] = [3; 4; 3; 4].
Proof. vm_compute. reflexivity. Qed.

Print Assumptions scatter_get_in.
Print Assumptions scatter_get_out.
Print Assumptions gather_scatter.
Print Assumptions gather_after_scatter.
Print Assumptions scatter_perm.
Print Assumptions decomposition_irrelevant_scatter.
Print Assumptions scatter_commute.
Print Assumptions request_offsets_disjoint.
Print Assumptions put_get_roundtrip.
Print Assumptions put_get_element.
Print Assumptions get_other_request.
Print Assumptions put_frame_element.
Print Assumptions two_vars_disjoint.
