(** * BurstBuffer: executable model of the burst-buffer driver (src/drivers/ncbbio) and of the
    specification it must be transparent to (the default driver = apply every put directly).

    Mirrors (read the C next to it):
      ncbbio_log_put.c      ncbbio_log_put_var / ncbbio_log_put_varn      -> [log_put]
      ncbbio_var.c          ncbbio_iput_var(n) / put_var(n) / get_var(n)  -> [do_put] [do_iput] [OGet]
      ncbbio_nonblocking.c  put list (id pool, handle / cancel)           -> [pl_*] [id_alloc] [id_free]
      ncbbio_log_flush.c    ncbbio_log_flush_core                         -> [buffer_size] [count_loop]
                                                                             [scan_batch] [batch_loop] [deliver_c]
      ncbbio_log.c          ncbbio_log_flush / ncbbio_log_close           -> [flush_rank] [flush_all] [OClose]
      ncbbio_file.c         wait / cancel / sync / flush / redef / close / begin,end_indep_data
      ncbbio_dim.c          ncbbio_inq_dim (record count as seen by the application)
    Structural facts that the proofs depend on (shape of the status loop, presence of the flush
    triggers, unlink at close, constants) come from Gen_bbflush.v, regenerated from the sources on
    every run by tools/tr_bbflush.py.

    Simplifications (all listed in the check's ASSUMPTIONS): the destination file is a map from
    (varid, index vector) to a value (no byte offsets, no type conversion: values are the logical
    numbers); ncmpio is modelled by its effect (a batch of posted puts completed by one wait applies
    their element writes in an order chosen by the parameter [ord], and raises the record count);
    the data log is represented by the data carried in each entry plus its offset/length
    bookkeeping; MPI is modelled by evaluating all ranks of a collective together.

    NO proofs in this file (Proofs_BurstBuffer.v). *)
From Coq Require Import ZArith List Bool.
From Pnc Require Import Gen_consts Gen_bbflush.
Import ListNotations.
Local Open Scope Z_scope.

(* ------------------------------------------------------------------------------------------- *)
(** ** 1. Logical file: the SPEC side *)

Definition key : Type := (Z * list Z)%type.          (* varid, index vector *)

Fixpoint zlist_eqb (a b : list Z) : bool :=
  match a, b with
  | [], [] => true
  | x :: a', y :: b' => (x =? y) && zlist_eqb a' b'
  | _, _ => false
  end.

Definition key_eqb (a b : key) : bool := (fst a =? fst b) && zlist_eqb (snd a) (snd b).

Definition fmap : Type := key -> option Z.
Definition fempty : fmap := fun _ => None.
Definition upd (f : fmap) (k : key) (v : Z) : fmap :=
  fun k' => if key_eqb k' k then Some v else f k'.

Definition wr : Type := (key * Z)%type.

Fixpoint apply_writes (ws : list wr) (f : fmap) : fmap :=
  match ws with
  | [] => f
  | kv :: r => apply_writes r (upd f (fst kv) (snd kv))
  end.

(** Requests as they reach the driver (after the dispatcher turned var/var1 into start/count). *)
Inductive request : Type :=
| RVar (vid : Z) (isrec : bool) (elsz : Z) (start : list Z) (count : option (list Z))
       (stride : option (list Z)) (data : list Z)
| RVarn (vid : Z) (isrec : bool) (elsz : Z) (subs : list (list Z * option (list Z)))
        (hascounts : bool) (data : list Z).

Definition req_vid (r : request) : Z :=
  match r with RVar v _ _ _ _ _ _ => v | RVarn v _ _ _ _ _ => v end.
Definition req_isrec (r : request) : bool :=
  match r with RVar _ b _ _ _ _ _ => b | RVarn _ b _ _ _ _ => b end.
Definition req_data (r : request) : list Z :=
  match r with RVar _ _ _ _ _ _ d => d | RVarn _ _ _ _ _ d => d end.
Definition req_ndims (r : request) : Z :=
  match r with
  | RVar _ _ _ st _ _ _ => Z.of_nat (length st)
  | RVarn _ _ _ subs _ _ => match subs with [] => 0 | sc :: _ => Z.of_nat (length (fst sc)) end
  end.

Definition ones (n : nat) : list Z := repeat 1 n.
Definition zprod (l : list Z) : Z := fold_right Z.mul 1 l.

(** row-major enumeration of the index vectors of (start, count, stride) *)
Fixpoint cart (start count stride : list Z) : list (list Z) :=
  match start, count, stride with
  | s :: ss, c :: cs, t :: ts =>
      flat_map (fun i => map (cons (s + Z.of_nat i * t)) (cart ss cs ts)) (seq 0 (Z.to_nat c))
  | _, _, _ => [[]]
  end.

Definition sub_count (hc : bool) (sc : list Z * option (list Z)) : option (list Z) :=
  if hc then snd sc else None.

Definition eff_count (n : nat) (c : option (list Z)) : list Z :=
  match c with Some c => c | None => ones n end.

Definition sub_indices (hc : bool) (sc : list Z * option (list Z)) : list (list Z) :=
  cart (fst sc) (eff_count (length (fst sc)) (sub_count hc sc)) (ones (length (fst sc))).

Definition req_indices (r : request) : list (list Z) :=
  match r with
  | RVar _ _ _ st cnt str _ => cart st (eff_count (length st) cnt) (eff_count (length st) str)
  | RVarn _ _ _ subs hc _ => flat_map (sub_indices hc) subs
  end.

Definition req_writes (r : request) : list wr :=
  combine (map (pair (req_vid r)) (req_indices r)) (req_data r).

(** record count implied by a request: the default driver's rule (ncmpio: start[0] +
    (count[0]-1)*stride[0] + 1 for a non-empty request on a record variable) *)
Definition recs_of (st cnt str : list Z) : Z :=
  if zprod cnt =? 0 then 0 else hd 0 st + (hd 1 cnt - 1) * hd 1 str + 1.

Definition sub_recs (hc : bool) (sc : list Z * option (list Z)) : Z :=
  recs_of (fst sc) (eff_count (length (fst sc)) (sub_count hc sc)) (ones (length (fst sc))).

Definition req_recs (r : request) : Z :=
  if negb (req_isrec r) then 0 else
  match r with
  | RVar _ _ _ st cnt str _ => recs_of st (eff_count (length st) cnt) (eff_count (length st) str)
  | RVarn _ _ _ subs hc _ => fold_left (fun m sc => Z.max m (sub_recs hc sc)) subs 0
  end.

(** The SPEC: state of a file written through the default driver. *)
Record lfile : Type := mkLfile { lf_map : fmap; lf_numrecs : Z }.

Definition direct_put (r : request) (f : lfile) : lfile :=
  mkLfile (apply_writes (req_writes r) (lf_map f)) (Z.max (lf_numrecs f) (req_recs r)).

(* ------------------------------------------------------------------------------------------- *)
(** ** 2. Log entries and [log_put] *)

Record entry : Type := mkEntry {
  e_valid : bool;        (* metaidx.entries[i].valid *)
  e_reqid : Z;           (* metaidx.entries[i].reqid, -1 = none (blocking put) *)
  e_esize : Z;           (* entryp->esize *)
  e_kind : Z;            (* entryp->api_kind *)
  e_dataoff : Z;         (* entryp->data_off *)
  e_datalen : Z;         (* entryp->data_len = entrydatasize.values[i] *)
  e_req : request;       (* varid, ndims, start/count/stride arrays, and the bytes in the data log *)
  e_line : Z             (* script line that created the entry (observation only) *)
}.

Definition set_valid (b : bool) (e : entry) : entry :=
  mkEntry b (e_reqid e) (e_esize e) (e_kind e) (e_dataoff e) (e_datalen e) (e_req e) (e_line e).
Definition set_reqid (id : Z) (e : entry) : entry :=
  mkEntry (e_valid e) id (e_esize e) (e_kind e) (e_dataoff e) (e_datalen e) (e_req e) (e_line e).

Definition entry_writes (e : entry) : list wr := if e_valid e then req_writes (e_req e) else [].
Definition entry_recs (e : entry) : Z := if e_valid e then req_recs (e_req e) else 0.
Definition log_writes (es : list entry) : list wr := flat_map entry_writes es.
Definition log_recs (es : list entry) : Z := fold_left (fun m e => Z.max m (entry_recs e)) es 0.

(** per-rank log state (the NC_bb fields that matter) *)
Record logst : Type := mkLogst {
  l_entries : list entry;    (* metadata index, in order *)
  l_datalogsize : Z;         (* ncbbp->datalogsize (BB_DATALOG_HDR = empty: the magic) *)
  l_maxentry : Z;            (* ncbbp->maxentrysize (never reset) *)
  l_recdim : Z               (* ncbbp->recdimsize (never lowered) *)
}.

Definition log_init : logst := mkLogst [] BB_DATALOG_HDR 0 0.

(** ncbbio_log_put_var: the record-size rule with its three branches *)
Definition bb_recsize_var (st : list Z) (cnt str : option (list Z)) : Z :=
  match str with
  | None => hd 0 st + match cnt with None => 1 | Some c => hd 1 c end
  | Some t =>
      match cnt with
      | None => hd 0 st + 1
      | Some c => hd 0 st + (hd 1 c - 1) * hd 1 t + 1
      end
  end.

Definition put_size_var (elsz : Z) (cnt : option (list Z)) : Z :=
  elsz * match cnt with Some c => zprod c | None => 1 end.

(** ncbbio_log_put_varn: the loop over sub-requests: (total size, record size) *)
Definition varn_step (elsz : Z) (isrec hc : bool) (acc : Z * Z) (sc : list Z * option (list Z)) : Z * Z :=
  let c := sub_count hc sc in
  let psz := put_size_var elsz c in
  let tot := fst acc + psz in
  if psz =? 0 then (tot, snd acc)
  else if isrec
       then (tot, Z.max (snd acc) (hd 0 (fst sc) + match c with None => 1 | Some c => hd 1 c end))
       else (tot, snd acc).

Definition varn_scan (elsz : Z) (isrec hc : bool) (subs : list (list Z * option (list Z))) (recdim : Z)
  : Z * Z := fold_left (varn_step elsz isrec hc) subs (0, recdim).

Definition log_put (line : Z) (r : request) (l : logst) : logst :=
  match r with
  | RVar vid isrec elsz st cnt str data =>
      let psz := put_size_var elsz cnt in
      if psz =? 0 then l                                   (* "Skip zero-length request" *)
      else
        let maxe := Z.max (l_maxentry l) psz in
        let rd := if isrec then Z.max (l_recdim l) (bb_recsize_var st cnt str) else l_recdim l in
        let nd := Z.of_nat (length st) in
        let e := mkEntry true (-1) (BB_SIZEOF_ENTRY + nd * 3 * BB_SIZEOF_OFF)
                         (match str with None => BB_KIND_VARA | Some _ => BB_KIND_VARS end)
                         (l_datalogsize l) psz r line in
        mkLogst (l_entries l ++ [e]) (l_datalogsize l + psz) maxe rd
  | RVarn vid isrec elsz subs hc data =>
      let tr := varn_scan elsz isrec hc subs (l_recdim l) in
      let nd := req_ndims r in
      let num := Z.of_nat (length subs) in
      let e := mkEntry true (-1)
                       (BB_SIZEOF_ENTRY + nd * (if hc then 2 else 1) * BB_SIZEOF_OFF * num)
                       num (l_datalogsize l) (fst tr) r line in
      mkLogst (l_entries l ++ [e]) (l_datalogsize l + fst tr) (Z.max (l_maxentry l) (fst tr)) (snd tr)
  end.

(* ------------------------------------------------------------------------------------------- *)
(** ** 3. ncbbio_log_flush_core *)

(** "(Buffer size) = max(largest entry, min(size of data log, hint))", hint 0 = unlimited *)
Definition buffer_size (hint : Z) (l : logst) : Z :=
  let b := l_datalogsize l in
  let b := if (0 <? hint) && (hint <? b) then hint else b in
  if b <? l_maxentry l then l_maxentry l else b.

(** first loop ("Sync rounds"): state (nrounds, databufferused) *)
Definition count_step (buf : Z) (st : Z * Z) (e : entry) : Z * Z :=
  if e_valid e
  then if buf <? e_datalen e + snd st then (fst st + 1, e_datalen e) else (fst st, snd st + e_datalen e)
  else st.

Definition count_loop (buf : Z) (es : list entry) : Z :=
  fst (fold_left (count_step buf) es (0, 0)) + 1.

(** second loop, inner scan [for (ub = lb; ub < nused; ub++)]: returns (batch, rest) *)
Fixpoint scan_batch (buf used : Z) (es : list entry) : list entry * list entry :=
  match es with
  | [] => ([], [])
  | e :: r =>
      if e_valid e
      then if buf <? e_datalen e + used then ([], es)             (* break: buffer full *)
           else (e :: fst (scan_batch buf (used + e_datalen e) r), snd (scan_batch buf (used + e_datalen e) r))
      else (e :: fst (scan_batch buf used r), snd (scan_batch buf used r))  (* cancelled entry *)
  end.

(** second loop, outer [for (lb = 0; lb < nused;) { ...; lb = ub; }].  The C loop does not
    terminate when a batch makes no progress; [None] = out of fuel = spinning. *)
Fixpoint batch_loop (fuel : nat) (buf : Z) (es : list entry) : option (list (list entry)) :=
  match es with
  | [] => Some []
  | _ =>
      match fuel with
      | O => None
      | S f =>
          match batch_loop f buf (snd (scan_batch buf 0 es)) with
          | Some bs => Some (fst (scan_batch buf 0 es) :: bs)
          | None => None
          end
      end
  end.

(** put list = the request objects of the nonblocking puts that are in use *)
Record preq : Type := mkPreq { p_ready : bool; p_status : Z; p_start : nat; p_end : nat }.
Definition putlist : Type := list (Z * preq).

Fixpoint pl_get (pl : putlist) (id : Z) : option preq :=
  match pl with
  | [] => None
  | ip :: r => if fst ip =? id then Some (snd ip) else pl_get r id
  end.
Fixpoint pl_set (pl : putlist) (id : Z) (p : preq) : putlist :=
  match pl with
  | [] => []
  | ip :: r => if fst ip =? id then (id, p) :: r else ip :: pl_set r id p
  end.
Fixpoint pl_del (pl : putlist) (id : Z) : putlist :=
  match pl with
  | [] => []
  | ip :: r => if fst ip =? id then r else ip :: pl_del r id
  end.
Definition pl_complete (pl : putlist) (id st : Z) : putlist :=
  match pl_get pl id with
  | Some p => pl_set pl id (mkPreq true st (p_start p) (p_end p))
  | None => pl
  end.

(** "Fill up the status for nonblocking request" (ncbbio_log_flush.c, after the wait of a batch):
<<
        j = 0;                                    <- [reset_inside = false] (current tree)
        for(i = lb; i < ub; i++){
            ip = ncbbp->metaidx.entries + i;
            j = 0;                                <- [reset_inside = true]  (tree before adb6eb2b: F10)
            if (ip->valid) {
                if (ip->reqid >= 0){ putlist.reqs[ip->reqid].status = stats[j]; ...ready = 1; }
                j++;
            }
        }
>>  *)
Fixpoint deliver_loop (reset_inside : bool) (batch : list entry) (stats : list Z) (j : nat) (pl : putlist)
  : putlist :=
  match batch with
  | [] => pl
  | e :: r =>
      let j := if reset_inside then 0%nat else j in
      if e_valid e
      then deliver_loop reset_inside r stats (S j)
                        (if 0 <=? e_reqid e then pl_complete pl (e_reqid e) (nth j stats 0) else pl)
      else deliver_loop reset_inside r stats j pl
  end.

(** the loop of the tree as built (shape taken from the source by the translator) *)
Definition deliver_c (batch : list entry) (stats : list Z) (pl : putlist) : putlist :=
  deliver_loop bb_status_j_reset_inside batch stats 0 pl.

(** internal traffic towards ncmpio, as observed by harness/c12_hook.c *)
Inductive event : Type :=
| EvI (line : Z)                      (* iput_var/iput_varn replaying the entry created at [line] *)
| EvW (n : Z) (coll : bool).          (* driver->wait(n requests, NC_REQ_COLL / NC_REQ_INDEP) *)

Definition valid_entries (b : list entry) : list entry := filter e_valid b.

Definition batch_events (coll : bool) (b : list entry) : list event :=
  map (fun e => EvI (e_line e)) (valid_entries b) ++ [EvW (Z.of_nat (length (valid_entries b))) coll].

(** statuses returned by ncmpio's wait for the batch whose first replayed put has global index g
    ([inj g'] = status of the g'-th put replayed on this rank; 0 everywhere on a healthy system) *)
Definition batch_stats (inj : Z -> Z) (g : Z) (b : list entry) : list Z :=
  map (fun i => inj (g + Z.of_nat i)) (seq 0 (length (valid_entries b))).

Fixpoint run_batches (coll : bool) (inj : Z -> Z) (bs : list (list entry)) (g : Z) (pl : putlist)
  : list event * (putlist * Z) :=
  match bs with
  | [] => ([], (pl, g))
  | b :: r =>
      let res := run_batches coll inj r (g + Z.of_nat (length (valid_entries b)))
                             (deliver_c b (batch_stats inj g b) pl) in
      (batch_events coll b ++ fst res, snd res)
  end.

(** one rank's part of flush_core.  [None] = the rank spins (batch loop without progress, or a
    negative [nrounds_all] entering [while(nrounds_all--)]). *)
Record flushres : Type := mkFlushres {
  fr_batches : list (list entry);
  fr_events : list event;
  fr_putlist : putlist;
  fr_g : Z;
  fr_trailing : Z                      (* number of trailing empty collective waits *)
}.

Definition flush_core_rank (hint : Z) (indep : bool) (inj : Z -> Z) (nrounds_all : Z)
           (l : logst) (pl : putlist) (g : Z) : option flushres :=
  let buf := buffer_size hint l in
  match batch_loop (S (length (l_entries l))) buf (l_entries l) with
  | None => None
  | Some bs =>
      let trailing := nrounds_all - Z.of_nat (length bs) in
      if trailing <? 0 then None
      else
        let res := run_batches (negb indep) inj bs g pl in
        Some (mkFlushres bs (fst res ++ repeat (EvW 0 true) (Z.to_nat trailing))
                         (fst (snd res)) (snd (snd res)) trailing)
  end.

(** effect on the destination file of completing one batch (one ncmpio wait): the element
    writes of its valid entries, in an order chosen by [ord] (ncmpio sorts by file offset) *)
Definition commit_batch (ord : list wr -> list wr) (b : list entry) (f : fmap) : fmap :=
  apply_writes (ord (log_writes b)) f.

Definition replay (ord : list wr -> list wr) (bs : list (list entry)) (f : fmap) : fmap :=
  fold_left (fun f b => commit_batch ord b f) bs f.

(* ------------------------------------------------------------------------------------------- *)
(** ** 4. Ranks, world, operations *)

Record rstate : Type := mkR {
  r_log : logst;
  r_pl : putlist;
  r_slots : list (Z * Z);      (* harness slot -> put-list id *)
  r_stack : list Z;            (* recycled ids, most recent first (ids[nused..] = stack ++ fresh..) *)
  r_fresh : Z;                 (* first id never issued *)
  r_nr : Z;                    (* ncmpio's numrecs on this rank *)
  r_g : Z;                     (* number of puts replayed so far on this rank *)
  r_ev : list event            (* internal traffic so far *)
}.

Definition rank_init : rstate := mkR log_init [] [] [] 0 0 0 [].

Definition set_log (l : logst) (r : rstate) : rstate :=
  mkR l (r_pl r) (r_slots r) (r_stack r) (r_fresh r) (r_nr r) (r_g r) (r_ev r).
Definition set_pl (pl : putlist) (r : rstate) : rstate :=
  mkR (r_log r) pl (r_slots r) (r_stack r) (r_fresh r) (r_nr r) (r_g r) (r_ev r).
Definition set_nr (n : Z) (r : rstate) : rstate :=
  mkR (r_log r) (r_pl r) (r_slots r) (r_stack r) (r_fresh r) n (r_g r) (r_ev r).
Definition add_ev (ev : list event) (r : rstate) : rstate :=
  mkR (r_log r) (r_pl r) (r_slots r) (r_stack r) (r_fresh r) (r_nr r) (r_g r) (r_ev r ++ ev).

(** ncbbio_put_list_add / _remove: ids[nused++] and ids[--nused] = id *)
Definition id_alloc (r : rstate) : Z * rstate :=
  match r_stack r with
  | x :: s => (x, mkR (r_log r) (r_pl r) (r_slots r) s (r_fresh r) (r_nr r) (r_g r) (r_ev r))
  | [] => (r_fresh r, mkR (r_log r) (r_pl r) (r_slots r) [] (r_fresh r + 1) (r_nr r) (r_g r) (r_ev r))
  end.
Definition id_free (id : Z) (r : rstate) : rstate :=
  mkR (r_log r) (pl_del (r_pl r) id) (r_slots r) (id :: r_stack r) (r_fresh r) (r_nr r) (r_g r) (r_ev r).

Fixpoint slot_get (m : list (Z * Z)) (s : Z) : option Z :=
  match m with
  | [] => None
  | p :: r => if fst p =? s then Some (snd p) else slot_get r s
  end.
Definition slot_set (m : list (Z * Z)) (s id : Z) : list (Z * Z) :=
  (s, id) :: filter (fun p => negb (fst p =? s)) m.

Record config : Type := mkCfg {
  c_hint : Z;                         (* nc_burst_buf_flush_buffer_size, 0 = unlimited *)
  c_del : bool;                       (* nc_burst_buf_del_on_close *)
  c_inj : nat -> Z -> Z               (* rank -> replay index -> status returned by ncmpio *)
}.

Record world : Type := mkW {
  w_file : fmap;
  w_rs : list rstate;
  w_indep : bool;                     (* NC_MODE_INDEP *)
  w_logs : bool;                      (* log files exist in the log directory *)
  w_spin : bool                       (* some rank hangs/spins in flush_core *)
}.

Definition world_init (np : nat) : world := mkW fempty (repeat rank_init np) false true false.

Fixpoint upd_nth {A} (n : nat) (x : A) (l : list A) : list A :=
  match l, n with
  | [], _ => []
  | _ :: r, O => x :: r
  | y :: r, S n' => y :: upd_nth n' x r
  end.

Definition get_rank (w : world) (r : nat) : rstate := nth r (w_rs w) rank_init.
Definition set_rank (w : world) (r : nat) (s : rstate) : world :=
  mkW (w_file w) (upd_nth r s (w_rs w)) (w_indep w) (w_logs w) (w_spin w).
Definition set_file (w : world) (f : fmap) : world :=
  mkW f (w_rs w) (w_indep w) (w_logs w) (w_spin w).
Definition set_spin (w : world) : world := mkW (w_file w) (w_rs w) (w_indep w) (w_logs w) true.

(** blocking put: ncbbio_put_var / ncbbio_put_varn *)
Definition do_put (line : Z) (req : request) (r : rstate) : rstate :=
  set_log (log_put line req (r_log r)) r.

(** ncbbio_iput_var / ncbbio_iput_varn: returns the put-list id (the user sees id*2) *)
Definition mark_range (id : Z) (a b : nat) (es : list entry) : list entry :=
  firstn a es ++ map (set_reqid id) (firstn (b - a) (skipn a es)) ++ skipn b es.

Definition do_iput (line slot : Z) (req : request) (r : rstate) : Z * rstate :=
  let '(id, r1) := id_alloc r in
  let a := length (l_entries (r_log r1)) in
  let l2 := log_put line req (r_log r1) in
  let b := length (l_entries l2) in
  let l3 := mkLogst (mark_range id a b (l_entries l2)) (l_datalogsize l2) (l_maxentry l2) (l_recdim l2) in
  let p := mkPreq (negb (a <? b)%nat) 0 a b in
  (id, mkR l3 ((id, p) :: r_pl r1) (slot_set (r_slots r1) slot id) (r_stack r1) (r_fresh r1)
           (r_nr r1) (r_g r1) (r_ev r1)).

(** ncbbio_log_flush resets the log after flush_core (maxentrysize and recdimsize are kept) *)
Definition log_reset (l : logst) : logst := mkLogst [] BB_DATALOG_HDR (l_maxentry l) (l_recdim l).

(** independent-mode flush of one rank (ncbbio_log_flush with NC_MODE_INDEP set) *)
Definition flush_rank (cfg : config) (ord : list wr -> list wr) (k : nat) (w : world) : world :=
  let r := get_rank w k in
  match l_entries (r_log r) with
  | [] => w                              (* num_entries == 0 && INDEP: return *)
  | es =>
      let n := count_loop (buffer_size (c_hint cfg) (r_log r)) es in
      match flush_core_rank (c_hint cfg) true (c_inj cfg k) n (r_log r) (r_pl r) (r_g r) with
      | None => set_spin w
      | Some fr =>
          let r' := mkR (log_reset (r_log r)) (fr_putlist fr) (r_slots r) (r_stack r) (r_fresh r)
                        (Z.max (r_nr r) (log_recs es)) (fr_g fr) (r_ev r ++ fr_events fr) in
          set_rank (set_file w (replay ord (fr_batches fr) (w_file w))) k r'
      end
  end.

(** collective flush: all ranks are inside ncbbio_log_flush_core together *)
Definition rank_rounds (cfg : config) (r : rstate) : Z :=
  count_loop (buffer_size (c_hint cfg) (r_log r)) (l_entries (r_log r)).

Definition zmax_list (l : list Z) : Z := fold_left Z.max l 0.

Fixpoint flush_ranks (cfg : config) (nall : Z) (k : nat) (rs : list rstate)
  : option (list (rstate * list (list entry))) :=
  match rs with
  | [] => Some []
  | r :: rest =>
      match flush_core_rank (c_hint cfg) false (c_inj cfg k) nall (r_log r) (r_pl r) (r_g r),
            flush_ranks cfg nall (S k) rest with
      | Some fr, Some l =>
          Some ((mkR (log_reset (r_log r)) (fr_putlist fr) (r_slots r) (r_stack r) (r_fresh r)
                     (r_nr r) (fr_g fr) (r_ev r ++ fr_events fr), fr_batches fr) :: l)
      | _, _ => None
      end
  end.

(** round k of the collective replay completes the k-th batch of every rank in one wait_all *)
Definition round_entries (bss : list (list (list entry))) (k : nat) : list entry :=
  flat_map (fun bs => nth k bs []) bss.

Definition replay_rounds (ord : list wr -> list wr) (bss : list (list (list entry))) (n : nat) (f : fmap)
  : fmap := fold_left (fun f k => commit_batch ord (round_entries bss k) f) (seq 0 n) f.

Definition flush_all (cfg : config) (ord : list wr -> list wr) (w : world) : world :=
  let nall := zmax_list (map (rank_rounds cfg) (w_rs w)) in      (* MPI_Allreduce(MAX) *)
  match flush_ranks cfg nall 0 (w_rs w) with
  | None => set_spin w
  | Some l =>
      let m := zmax_list (map (fun r => log_recs (l_entries (r_log r))) (w_rs w)) in
      let rs' := map (fun x => set_nr (Z.max (r_nr (fst x)) m) (fst x)) l in
      mkW (replay_rounds ord (map snd l) (Z.to_nat nall) (w_file w)) rs' (w_indep w) (w_logs w) (w_spin w)
  end.

(** the flush performed by a trigger executed by the ranks [who] *)
Definition trigger_flush (cfg : config) (ord : list wr -> list wr) (who : list nat) (w : world) : world :=
  if w_indep w then fold_left (fun w k => flush_rank cfg ord k w) who w
  else flush_all cfg ord w.

(** numrecs agreement performed by ncmpio (sync in independent mode, end_indep_data, close) *)
Definition sync_numrecs (w : world) : world :=
  let m := zmax_list (map r_nr (w_rs w)) in
  mkW (w_file w) (map (set_nr m) (w_rs w)) (w_indep w) (w_logs w) (w_spin w).

(** ncbbio_inq_dim on the record dimension *)
Definition numrecs_view (r : rstate) : Z := Z.max (r_nr r) (l_recdim (r_log r)).

Inductive wslot : Type := WPut (slot : Z) | WGet | WNull.
Inductive waitarg : Type := WList (l : list wslot) | WAllKind (num : Z).

Inductive op : Type :=
| OPut (line : Z) (rank : nat) (req : request)
| OIput (line : Z) (rank : nat) (slot : Z) (req : request)
| OCancel (line : Z) (rank : nat) (slots : list Z)
| OGet (line : Z) (who : list (nat * list key))
| OWait (line : Z) (coll : bool) (who : list (nat * waitarg))
| OSync (line : Z)
| OFlush (line : Z)
| ORedef (line : Z)                  (* redef ... enddef *)
| OBeginIndep
| OEndIndep
| OInq (line : Z)
| OClose (line : Z)
| OReopen (line : Z).                (* ncmpi_open(NC_WRITE) of the same file with the same hints *)

Definition all_ranks (w : world) : list nat := seq 0 (length (w_rs w)).

Definition optz (o : option Z) : Z := match o with Some v => v | None => -1 end.

(** ncbbio_handle_put_req for one listed id; returns the status given to the caller *)
Definition handle_put (slot : Z) (r : rstate) : Z * rstate :=
  match slot_get (r_slots r) slot with
  | None => (NC_EINVAL_REQUEST, r)
  | Some id =>
      match pl_get (r_pl r) id with
      | None => (NC_EINVAL_REQUEST, r)
      | Some p => (p_status p, id_free id r)
      end
  end.

Fixpoint handle_list (l : list wslot) (r : rstate) : list Z * rstate :=
  match l with
  | [] => ([], r)
  | WPut s :: rest =>
      let '(st, r1) := handle_put s r in
      let '(sts, r2) := handle_list rest r1 in (st :: sts, r2)
  | _ :: rest =>
      let '(sts, r2) := handle_list rest r in (0 :: sts, r2)
  end.

(** ncbbio_handle_all_put_req: linear search over the pool in id order *)
Fixpoint insert_z (x : Z) (l : list Z) : list Z :=
  match l with [] => [x] | y :: r => if x <=? y then x :: l else y :: insert_z x r end.
Definition sort_z (l : list Z) : list Z := fold_right insert_z [] l.
Definition handle_all (r : rstate) : rstate :=
  fold_left (fun r id => id_free id r) (sort_z (map fst (r_pl r))) r.

Definition count_gets (l : list wslot) : Z :=
  Z.of_nat (length (filter (fun s => match s with WGet => true | _ => false end) l)).

(** the part of ncbbio_wait after the flush, for one rank *)
Definition wait_rank (line : Z) (coll indep : bool) (k : nat) (a : waitarg) (r : rstate)
  : list Z * rstate :=
  match a with
  | WAllKind num =>
      let r1 := if (num =? NC_REQ_ALL) || (num =? NC_PUT_REQ_ALL) then handle_all r else r in
      let r2 := if (num =? NC_REQ_ALL) || (num =? NC_GET_REQ_ALL) then add_ev [EvW num coll] r1 else r1 in
      ([21; line; Z.of_nat k], r2)
  | WList l =>
      let '(sts, r1) := handle_list l r in
      let ng := count_gets l in
      let r2 := if (0 <? ng) || negb indep then add_ev [EvW ng coll] r1 else r1 in
      (21 :: line :: Z.of_nat k :: sts, r2)
  end.

(** does this rank's ncbbio_wait reach [ncmpio_driver->wait]? *)
Definition calls_ncmpio_wait (indep : bool) (a : waitarg) : bool :=
  match a with
  | WAllKind num => (num =? NC_REQ_ALL) || (num =? NC_GET_REQ_ALL)
  | WList l => (0 <? count_gets l) || negb indep
  end.

(** ncbbio_cancel_put_req *)
Definition invalidate (a b : nat) (es : list entry) : list entry :=
  firstn a es ++ map (set_valid false) (firstn (b - a) (skipn a es)) ++ skipn b es.

Definition cancel_put (slot : Z) (r : rstate) : Z * rstate :=
  match slot_get (r_slots r) slot with
  | None => (NC_EINVAL_REQUEST, r)
  | Some id =>
      match pl_get (r_pl r) id with
      | None => (NC_EINVAL_REQUEST, r)
      | Some p =>
          if p_ready p then (NC_EFLUSHED, id_free id r)
          else
            let l := r_log r in
            let l' := mkLogst (invalidate (p_start p) (p_end p) (l_entries l)) (l_datalogsize l)
                              (l_maxentry l) (l_recdim l) in
            (0, id_free id (set_log l' r))
      end
  end.

Fixpoint cancel_list (l : list Z) (r : rstate) : list Z * rstate :=
  match l with
  | [] => ([], r)
  | s :: rest =>
      let '(st, r1) := cancel_put s r in
      let '(sts, r2) := cancel_list rest r1 in (st :: sts, r2)
  end.

(** ncbbio_log_close(replay = 1) on one rank: flush_core if entries or collective mode; no reset *)
Definition close_all (cfg : config) (ord : list wr -> list wr) (w : world) : world :=
  let w1 := if bb_trig_close then trigger_flush cfg ord (all_ranks w) w else w in
  let w2 := sync_numrecs w1 in
  mkW (w_file w2) (w_rs w2) (w_indep w2)
      (if c_del cfg then negb bb_unlink_on_close else true) (w_spin w2).

Definition obs : Type := list Z.

(** one operation: new world and the observations it produces *)
Definition step (cfg : config) (ord : list wr -> list wr) (w : world) (o : op) : world * list obs :=
  match o with
  | OPut line k req => (set_rank w k (do_put line req (get_rank w k)), [])
  | OIput line k slot req =>
      let '(id, r') := do_iput line slot req (get_rank w k) in
      (set_rank w k r', [[20; line; Z.of_nat k; id * 2]])
  | OCancel line k slots =>
      let '(sts, r') := cancel_list slots (get_rank w k) in
      (set_rank w k r', [22 :: line :: Z.of_nat k :: sts])
  | OGet line who =>
      let w1 := if bb_trig_get && bb_trig_getn then trigger_flush cfg ord (map fst who) w else w in
      (w1, map (fun rk => 40 :: line :: Z.of_nat (fst rk) :: map (fun k => optz (w_file w1 k)) (snd rk)) who)
  | OWait line coll who =>
      let w1 := if bb_trig_wait then trigger_flush cfg ord (map fst who) w else w in
      (* in collective mode ncmpio's wait is a collective: a rank that does not call it (wait_all
         with NC_PUT_REQ_ALL returns after the put list) leaves the others waiting for ever *)
      let calls := map (fun ka => calls_ncmpio_wait (w_indep w1) (snd ka)) who in
      let w2 := if negb (w_indep w1) && existsb id calls && existsb negb calls then set_spin w1 else w1 in
      fold_left (fun (acc : world * list obs) (ka : nat * waitarg) =>
                   let '(sts, r') := wait_rank line coll (w_indep w2) (fst ka) (snd ka) (get_rank (fst acc) (fst ka)) in
                   (set_rank (fst acc) (fst ka) r', snd acc ++ [sts]))
                who (w2, [])
  | OSync line =>
      let w1 := if bb_trig_sync then trigger_flush cfg ord (all_ranks w) w else w in
      (if w_indep w1 then sync_numrecs w1 else w1, [])
  | OFlush line =>
      (if bb_trig_flush then trigger_flush cfg ord (all_ranks w) w else w, [])
  | ORedef line =>
      (if bb_trig_redef then trigger_flush cfg ord (all_ranks w) w else w, [])
  | OBeginIndep => (mkW (w_file w) (w_rs w) true (w_logs w) (w_spin w), [])
  | OEndIndep => let w1 := sync_numrecs w in (mkW (w_file w1) (w_rs w1) false (w_logs w1) (w_spin w1), [])
  | OInq line =>
      (w, map (fun k => [30; line; Z.of_nat k; numrecs_view (get_rank w k)]) (all_ranks w))
  | OClose line => (close_all cfg ord w, [])
  | OReopen line =>
      (* ncbbio_open: new log, new put list; ncmpio reads numrecs from the header *)
      let m := zmax_list (map r_nr (w_rs w)) in
      (mkW (w_file w) (map (fun r => mkR log_init [] [] [] 0 m (r_g r) (r_ev r)) (w_rs w)) false true (w_spin w), [])
  end.

Fixpoint run (cfg : config) (ord : list wr -> list wr) (w : world) (ops : list op) : world * list obs :=
  match ops with
  | [] => (w, [])
  | o :: r =>
      let '(w1, ob1) := step cfg ord w o in
      let '(w2, ob2) := run cfg ord w1 r in
      (w2, ob1 ++ ob2)
  end.

(* ------------------------------------------------------------------------------------------- *)
(** ** 5. The same operations on the SPEC (default driver): puts are applied directly; a
    nonblocking put is applied when it is waited for; a cancelled one never. *)

Record dworld : Type := mkD {
  d_file : lfile;
  d_pend : list (nat * Z * request)          (* rank, slot, request: posted, not yet waited *)
}.

Definition dworld_init : dworld := mkD (mkLfile fempty 0) [].

Definition d_take (k : nat) (sl : option (list Z)) (p : list (nat * Z * request))
  : list request * list (nat * Z * request) :=
  let sel := fun (x : nat * Z * request) =>
               Nat.eqb (fst (fst x)) k &&
               match sl with None => true | Some l => existsb (Z.eqb (snd (fst x))) l end in
  (map snd (filter sel p), filter (fun x => negb (sel x)) p).

Definition wslots_puts (l : list wslot) : list Z :=
  flat_map (fun s => match s with WPut x => [x] | _ => [] end) l.

Definition dstep (d : dworld) (o : op) : dworld * list obs :=
  match o with
  | OPut line k req => (mkD (direct_put req (d_file d)) (d_pend d), [])
  | OIput line k slot req => (mkD (d_file d) (d_pend d ++ [(k, slot, req)]), [])
  | OCancel line k slots => (mkD (d_file d) (snd (d_take k (Some slots) (d_pend d))), [])
  | OGet line who =>
      (d, map (fun rk => 40 :: line :: Z.of_nat (fst rk) :: map (fun k => optz (lf_map (d_file d) k)) (snd rk)) who)
  | OWait line coll who =>
      (fold_left (fun d (ka : nat * waitarg) =>
                    let sl := match snd ka with
                              | WList l => Some (wslots_puts l)
                              | WAllKind num => if num =? NC_GET_REQ_ALL then Some [] else None
                              end in
                    let '(reqs, rest) := d_take (fst ka) sl (d_pend d) in
                    mkD (fold_left (fun f r => direct_put r f) reqs (d_file d)) rest)
                 who d, [])
  | OInq line => (d, [[30; line; lf_numrecs (d_file d)]])
  | _ => (d, [])
  end.

Fixpoint drun (d : dworld) (ops : list op) : dworld * list obs :=
  match ops with
  | [] => (d, [])
  | o :: r =>
      let '(d1, ob1) := dstep d o in
      let '(d2, ob2) := drun d1 r in
      (d2, ob1 ++ ob2)
  end.

(* ------------------------------------------------------------------------------------------- *)
(** ** 5b. Reading the data log into the flush buffer (ncbbio_log_flush_core, batch scan)

    The data log holds the bytes of ALL entries in log order (cancelling an entry leaves its bytes in
    the file).  While a batch is scanned, valid entries only raise [databufferused]; when a cancelled
    entry is met, the valid bytes seen so far are read into the buffer at [databuffer + dataread]
    and the cancelled bytes are skipped with a seek; a last read follows the scan.  The replay then
    walks [databufferoff] over the valid entries.  The file position persists from round to round. *)
Section DataLog.
Variable A : Type.
Variable cells : entry -> list A.            (* the bytes an entry put into the data log *)

Record rdstate : Type := mkRd { rd_pos : nat; rd_buf : list A; rd_read : nat; rd_used : nat }.

Definition write_at (off : nat) (d buf : list A) : list A :=
  firstn off buf ++ d ++ skipn (off + length d) buf.

(** [if (dataread < databufferused) { read(datalog, databuffer + dataread, used - dataread); dataread = used; }]
    ([at_dataread = false]: the read before a cancelled entry targets [databuffer] itself) *)
Definition do_read (at_dataread : bool) (dl : list A) (s : rdstate) : rdstate :=
  if (rd_read s <? rd_used s)%nat
  then mkRd (rd_pos s + (rd_used s - rd_read s))
            (write_at (if at_dataread then rd_read s else 0%nat)
                      (firstn (rd_used s - rd_read s) (skipn (rd_pos s) dl)) (rd_buf s))
            (rd_used s) (rd_used s)
  else s.

Fixpoint scan_read (at_dataread : bool) (dl : list A) (b : list entry) (s : rdstate) : rdstate :=
  match b with
  | [] => do_read true dl s                 (* the read after the scan *)
  | e :: r =>
      if e_valid e
      then scan_read at_dataread dl r (mkRd (rd_pos s) (rd_buf s) (rd_read s) (rd_used s + length (cells e)))
      else let s' := do_read at_dataread dl s in
           scan_read at_dataread dl r (mkRd (rd_pos s' + length (cells e)) (rd_buf s') (rd_read s') (rd_used s'))
  end.

(** [databufferoff = databuffer; for valid entries: iput(..., databufferoff, ...); databufferoff += data_len] *)
Fixpoint slice_data (b : list entry) (buf : list A) : list (list A) :=
  match b with
  | [] => []
  | e :: r => if e_valid e
              then firstn (length (cells e)) buf :: slice_data r (skipn (length (cells e)) buf)
              else slice_data r buf
  end.

Fixpoint read_batches (at_dataread : bool) (dl : list A) (bs : list (list entry)) (pos : nat)
  : list (list (list A)) :=
  match bs with
  | [] => []
  | b :: r => let s := scan_read at_dataread dl b (mkRd pos [] 0 0) in
              slice_data b (rd_buf s) :: read_batches at_dataread dl r (rd_pos s)
  end.
End DataLog.

(** the bytes of an entry, named by (creating script line, byte index): line * 65536 + index *)
Definition entry_cells (e : entry) : list Z :=
  map (fun i => e_line e * 65536 + Z.of_nat i) (seq 0 (Z.to_nat (e_datalen e))).

(** the data every replayed iput of a flush of log [l] is given, in replay order: (line, bytes) *)
Definition flush_data (hint : Z) (l : logst) : option (list (Z * list Z)) :=
  match batch_loop (S (length (l_entries l))) (buffer_size hint l) (l_entries l) with
  | None => None
  | Some bs =>
      Some (combine (map e_line (valid_entries (l_entries l)))
                    (concat (read_batches Z entry_cells bb_read_at_dataread
                                          (flat_map entry_cells (l_entries l)) bs 0)))
  end.

(** ranks whose log is replayed by an operation (evaluated on the state BEFORE the operation) *)
Definition flushing_ranks (w : world) (o : op) : list nat :=
  let pick := fun who => if w_indep w then who else all_ranks w in
  let all := all_ranks w in
  let ranks := match o with
               | OGet _ who => pick (map fst who)
               | OWait _ _ who => pick (map fst who)
               | OSync _ | OFlush _ | ORedef _ | OClose _ => all
               | _ => []
               end in
  filter (fun k => negb (w_indep w) || match l_entries (r_log (get_rank w k)) with [] => false | _ => true end) ranks.

Definition op_data_obs (cfg : config) (w : world) (o : op) : list (list Z) :=
  flat_map (fun k => match flush_data (c_hint cfg) (r_log (get_rank w k)) with
                     | None => [[13; Z.of_nat k]]
                     | Some l => map (fun ld => 12 :: Z.of_nat k :: fst ld :: snd ld) l
                     end) (flushing_ranks w o).

Fixpoint run_data (cfg : config) (ord : list wr -> list wr) (w : world) (ops : list op) : list (list Z) :=
  match ops with
  | [] => []
  | o :: r => op_data_obs cfg w o ++ run_data cfg ord (fst (step cfg ord w o)) r
  end.

(* ------------------------------------------------------------------------------------------- *)
(** ** 6. Case runner used by the correspondence check (checks/C12.py writes cases as terms) *)

Definition ev_obs (k : nat) (e : event) : obs :=
  match e with
  | EvI line => [10; Z.of_nat k; line]
  | EvW n coll => [11; Z.of_nat k; n; if coll then 1 else 0]
  end.

Definition entry_obs (k : nat) (e : entry) : obs :=
  [70; Z.of_nat k; e_line e; if e_valid e then 1 else 0; e_esize e; e_kind e; req_vid (e_req e);
   req_ndims (e_req e); e_dataoff e; e_datalen e].

Definition inj_of (flags : list (nat * Z)) : nat -> Z -> Z :=
  fun k g => if existsb (fun p => Nat.eqb (fst p) k && (snd p =? g)) flags then - (1000 + g) else 0.

Definition ord_id : list wr -> list wr := fun l => l.

(** a case: np, flush-buffer hint, del_on_close, injected statuses, operations, keys to dump *)
Definition run_case (np : nat) (hint : Z) (del : bool) (flags : list (nat * Z)) (ops : list op)
           (keys : list key) : list obs :=
  let cfg := mkCfg hint del (inj_of flags) in
  (* the last epoch's entries, as they stay in the metadata log when the files are retained *)
  let pre := fst (run cfg ord_id (world_init np) (removelast ops)) in
  let '(w, ob) := run cfg ord_id (world_init np) ops in
  ob
  ++ flat_map (fun k => map (ev_obs k) (r_ev (get_rank w k))) (seq 0 np)
  ++ flat_map (fun k => map (entry_obs k) (l_entries (r_log (get_rank pre k)))) (seq 0 np)
  ++ run_data cfg ord_id (world_init np) ops
  ++ [[50; if w_logs w then 1 else 0]; [51; if w_spin w then 1 else 0];
      60 :: map (fun k => optz (w_file w k)) keys;
      [61; zmax_list (map r_nr (w_rs w))]]
  ++ (let '(d, dob) := drun dworld_init ops in
      [62 :: map (fun k => optz (lf_map (d_file d) k)) keys; [63; lf_numrecs (d_file d)]]).
