(* Proofs_Reach3.v — the invariant of Proofs_Reach.v is preserved by the data operations
   (put, collective and independent, every form; fill_var_rec; junk), then the case analysis
   exec_step_preserves_inv, the run theorem reachable_inv and its corollaries.
   No model definition is modified. *)
From Pnc Require Import Base Gen_consts Header HeaderSpec Access Data Disk Move Fill Exec.
From Pnc Require Import Proofs_Base Proofs_Header Proofs_Layout Proofs_Fill Proofs_Move Proofs_Redef.
From Pnc Require Import Proofs_Lists Proofs_Access Proofs_CheckScs Proofs_Disk Proofs_RoundTrip.
From Pnc Require Import Proofs_Exec2 Proofs_Exec Proofs_Reach Proofs_Reach2.
Require Import Lia ZArith List Bool ZifyBool.
Import ListNotations.
Ltac Zify.zify_post_hook ::= Z.div_mod_to_equations.
Local Open Scope Z_scope.

Local Arguments Z.mul : simpl never.
Local Arguments Z.add : simpl never.
Local Arguments Z.sub : simpl never.
Local Arguments Z.div : simpl never.
Local Arguments Z.modulo : simpl never.
Local Arguments Z.max : simpl never.
Local Arguments Z.min : simpl never.
Local Arguments Z.pow : simpl never.
Local Arguments Z.of_nat : simpl never.
Local Arguments Z.to_nat : simpl never.

(* ====================================================================== *)
(** * 1. Every variable begins at or after the header                       *)
(* ====================================================================== *)

Lemma var_begin_ge_hdr : forall d h lay i, data_ok d h lay -> hdr_wf h ->
  0 <= i < Zlen (h_vars h) -> hdr_len h <= v_begin (znth (h_vars h) i dv).
Proof.
  intros d h lay i (_ & L2 & L3 & L4 & _) Hwf Hi.
  assert (Hne : h_vars h <> []) by (intros C; rewrite C, Proofs_Base.Zlen_nil in Hi; lia).
  destruct (L2 Hne) as (Hlen & Hx & Hbi & Hbv & Hle & Hbr4 & Hc & Hrs).
  rewrite <- vsof_t3of in *.
  destruct (wf_t3_lens _ (wf_t3of h Hwf)) as [Hnn _]. rewrite <- vsof_t3of in Hnn.
  assert (Evs : Zlen (vsof h) = Zlen (h_vars h)) by (unfold vsof; apply Proofs_Base.Zlen_map).
  assert (Eb : znth (l_begins lay) i 0 = v_begin (znth (h_vars h) i dv)).
  { rewrite <- L3. apply (znth_map_in _ _ v_begin (h_vars h) i dv 0 Hi). }
  rewrite <- Eb.
  destruct (fst (znth (vsof h) i dvs)) eqn:Ek.
  - pose proof (contig_sel_index (vsof h) (l_begins lay) (l_begin_rec lay) Hlen Hc i ltac:(lia) Ek) as E.
    destruct (roff_bounds (vsof h) i Hnn ltac:(lia)) as [Hr0 _].
    pose proof (last_end_ge (sel false (vsof h) (l_begins lay)) (l_begin_var lay)
                  (sel_lens_Forall (fun x => 0 <= x) false _ _ Hnn) Hbi). lia.
  - destruct (bi_sel_index false (vsof h) (l_begins lay) (l_begin_var lay) Hlen Hnn Hbi) as [B1 _].
    destruct (B1 i ltac:(lia) Ek) as (B & _ & _). lia.
Qed.

(* ====================================================================== *)
(** * 2. What check_request accepts, every form                             *)
(* ====================================================================== *)

Lemma first_err_noerr : forall l, first_err l = NC_NOERR -> Forall (fun e => e = NC_NOERR) l.
Proof.
  induction l as [|e l IH]; intros H; [constructor|]. cbn [first_err] in H.
  destruct (Z.eqb_spec e NC_NOERR) as [E|E]; [|contradiction].
  constructor; [exact E|apply IH; exact H].
Qed.

Lemma dims_ok_whole : forall ss, Forall (fun s => 1 <= s) ss ->
  dims_ok ss (map (fun _ => 0) ss) ss (ones (length ss)).
Proof.
  induction ss as [|s ss IH]; intros H; [exact I|].
  inversion H as [|? ? Hs Hr]; subst. cbn [map length]. rewrite ones_S. cbn [dims_ok].
  split; [lia|]. split; [lia|]. split; [lia|]. split; [right; lia|]. apply IH. exact Hr.
Qed.

Lemma req_ok_whole : forall shape numrecs, dims_wf shape -> 0 <= numrecs ->
  req_ok shape (map (fun _ => 0) shape)
         (if match shape with s0 :: _ => s0 =? 0 | [] => false end then numrecs :: tl shape else shape)
         (ones (length shape)).
Proof.
  intros [|s0 ss] numrecs Hwf Hn; [exact I|]. destruct Hwf as [H0 Hss].
  cbn [map length tl]. rewrite ones_S.
  destruct (Z.eqb_spec s0 0) as [E|E]; cbn [req_ok].
  - split; [lia|]. split; [lia|]. split; [lia|]. split; [left; exact E|]. apply dims_ok_whole. exact Hss.
  - split; [lia|]. split; [lia|]. split; [lia|]. split; [right; right; lia|]. apply dims_ok_whole. exact Hss.
Qed.

(* a NULL count is accepted by the var1 API only *)
Lemma check_scs_count_none : forall fmt strict isrec isread kind shape numrecs st stride,
  kind <> API_VAR1 ->
  check_scs fmt strict isrec isread kind shape numrecs (Some st) None stride <> NC_NOERR.
Proof.
  intros fmt strict isrec isread kind shape numrecs st stride Hk H.
  unfold check_scs in H. cbv zeta in H.
  destruct (hd 0 st <? 0); [discriminate H|].
  match type of H with (if negb (?e =? NC_NOERR) then _ else _) = _ => destruct (Z.eqb_spec e NC_NOERR) as [E1|E1] end;
    cbn [negb] in H; [|contradiction].
  match type of H with (if negb (?e =? NC_NOERR) then _ else _) = _ => destruct (Z.eqb_spec e NC_NOERR) as [E2|E2] end;
    cbn [negb] in H; [|contradiction].
  destruct kind; try discriminate H. apply Hk. reflexivity.
Qed.

Definition rq_req_ok (shape : list Z) (r : rreq) : Prop :=
  req_ok shape (rq_start r) (rq_count r) (stride_or_ones (length shape) (rq_stride r)).

Lemma olen_some : forall l n, olen (Some l) n = true -> length l = n.
Proof. intros l n H. cbn [olen] in H. apply Nat.eqb_eq. exact H. Qed.

Lemma check_request_all_ok : forall w f rank isread a e rs,
  dims_wf (var_shape (h_dims (f_hdr f)) (the_var f a)) ->
  0 <= rk_numrecs (get_rank f rank) ->
  acc_lens_b (ac_form a) (length (v_dimids (the_var f a))) = true ->
  check_request w f rank isread a = (e, Some rs) ->
  Forall (rq_req_ok (var_shape (h_dims (f_hdr f)) (the_var f a))) rs.
Proof.
  intros w f rank isread a e rs Hdw Hnr Hlens H.
  unfold check_request in H. cbv zeta in H. unfold is_recvar in H.
  assert (Hn : length (v_dimids (the_var f a)) = length (var_shape (h_dims (f_hdr f)) (the_var f a)))
    by (unfold var_shape; rewrite map_length; reflexivity).
  rewrite Hn in Hlens. clear Hn.
  remember (var_shape (h_dims (f_hdr f)) (the_var f a)) as shape eqn:Eshape. clear Eshape.
  destruct (ac_form a) as [|s|s c|s c t|s c t m|reqs]; cbn [acc_lens_b] in Hlens.
  - (* var *)
    injection H as _ <-. constructor; [|constructor]. unfold rq_req_ok.
    cbn [rq_start rq_count rq_stride stride_or_ones]. apply req_ok_whole; assumption.
  - (* var1 *)
    cbn [form_args] in H. destruct shape as [|sh ss] eqn:Esh.
    { injection H as _ <-. constructor; [exact I|constructor]. }
    match type of H with (if negb (?e0 =? NC_NOERR) then _ else _) = _ => destruct (Z.eqb_spec e0 NC_NOERR) as [Ee|Ee] end;
      cbn [negb] in H; [|discriminate H].
    destruct s as [st|]; [|discriminate H]. injection H as _ <-.
    constructor; [|constructor]. unfold rq_req_ok. cbn [rq_start rq_count rq_stride stride_or_ones].
    apply (check_scs_var1_req_ok (h_format (f_hdr f)) (w_strict w) isread _
             (rk_numrecs (get_rank f rank)) st (olen_some _ _ Hlens)). exact Ee.
  - (* vara *)
    cbn [form_args] in H. destruct shape as [|sh ss] eqn:Esh.
    { injection H as _ <-. constructor; [exact I|constructor]. }
    match type of H with (if negb (?e0 =? NC_NOERR) then _ else _) = _ => destruct (Z.eqb_spec e0 NC_NOERR) as [Ee|Ee] end;
      cbn [negb] in H; [|discriminate H].
    destruct s as [st|]; [|discriminate H]. injection H as _ <-.
    apply andb_true_iff in Hlens. destruct Hlens as [Hls Hlc].
    destruct c as [cn|].
    2:{ exfalso. revert Ee. apply check_scs_count_none. discriminate. }
    constructor; [|constructor]. unfold rq_req_ok. cbn [rq_start rq_count rq_stride].
    exact (check_scs_req_ok (h_format (f_hdr f)) (w_strict w) isread API_VARA _
             (rk_numrecs (get_rank f rank)) st cn None (olen_some _ _ Hls) (olen_some _ _ Hlc) I Ee).
  - (* vars *)
    cbn [form_args] in H. destruct shape as [|sh ss] eqn:Esh.
    { injection H as _ <-. constructor; [exact I|constructor]. }
    match type of H with (if negb (?e0 =? NC_NOERR) then _ else _) = _ => destruct (Z.eqb_spec e0 NC_NOERR) as [Ee|Ee] end;
      cbn [negb] in H; [|discriminate H].
    destruct s as [st|]; [|discriminate H]. injection H as _ <-.
    rewrite !andb_true_iff in Hlens. destruct Hlens as [[Hls Hlc] Hlt].
    destruct c as [cn|].
    2:{ exfalso. revert Ee. apply check_scs_count_none. destruct t; discriminate. }
    constructor; [|constructor]. unfold rq_req_ok. cbn [rq_start rq_count rq_stride].
    eapply (check_scs_req_ok (h_format (f_hdr f)) (w_strict w) isread _ _
             (rk_numrecs (get_rank f rank)) st cn t (olen_some _ _ Hls) (olen_some _ _ Hlc)); [|exact Ee].
    destruct t as [tt|]; [exact (olen_some _ _ Hlt)|exact I].
  - (* varm *)
    cbn [form_args] in H. destruct shape as [|sh ss] eqn:Esh.
    { injection H as _ <-. constructor; [exact I|constructor]. }
    match type of H with (if negb (?e0 =? NC_NOERR) then _ else _) = _ => destruct (Z.eqb_spec e0 NC_NOERR) as [Ee|Ee] end;
      cbn [negb] in H; [|discriminate H].
    destruct s as [st|]; [|discriminate H]. injection H as _ <-.
    rewrite !andb_true_iff in Hlens. destruct Hlens as [[Hls Hlc] Hlt].
    destruct c as [cn|].
    2:{ exfalso. revert Ee. apply check_scs_count_none. destruct m as [mm|]; destruct t as [tt|]; intros C; discriminate C. }
    constructor; [|constructor]. unfold rq_req_ok. cbn [rq_start rq_count rq_stride].
    eapply (check_scs_req_ok (h_format (f_hdr f)) (w_strict w) isread _ _
             (rk_numrecs (get_rank f rank)) st cn t (olen_some _ _ Hls) (olen_some _ _ Hlc)); [|exact Ee].
    destruct t as [tt|]; [exact (olen_some _ _ Hlt)|exact I].
  - (* varn *)
    destruct reqs as [|rq0 reqs0] eqn:Erq; [injection H as _ <-; constructor|].
    rewrite <- Erq in H, Hlens. clear Erq.
    destruct shape as [|sh ss] eqn:Esh.
    { match type of H with (if ?c then _ else _) = _ => destruct c end; [|discriminate H].
      injection H as _ <-. constructor; [exact I|constructor]. }
    match type of H with (if negb (?e0 =? NC_NOERR) then _ else _) = _ => destruct (Z.eqb_spec e0 NC_NOERR) as [Ee|Ee] end;
      cbn [negb] in H; [|discriminate H].
    injection H as _ <-. apply first_err_noerr in Ee.
    rewrite forallb_forall in Hlens. rewrite Forall_forall in Ee.
    apply Forall_forall. intros r Hr. apply in_map_iff in Hr. destruct Hr as [sc [<- Hsc]].
    specialize (Hlens sc Hsc). apply andb_true_iff in Hlens. destruct Hlens as [Hls Hlc].
    apply Nat.eqb_eq in Hls, Hlc.
    unfold rq_req_ok. cbn [rq_start rq_count rq_stride].
    apply (check_scs_req_ok (h_format (f_hdr f)) (w_strict w) isread API_VARA _
             (rk_numrecs (get_rank f rank)) (fst sc) (snd sc) None Hls Hlc I).
    apply Ee. apply in_map_iff. exists sc. split; [reflexivity|exact Hsc].
Qed.

(* ====================================================================== *)
(** * 3. The offsets of an accepted request lie at or after the variable's begin *)
(* ====================================================================== *)

Lemma offsets_ge_begin : forall g start count stride,
  wf_geom g -> req_ok (g_shape g) start count (stride_or_ones (length (g_shape g)) stride) ->
  forall o, In o (model_offsets g start count stride) -> g_begin g <= o.
Proof.
  intros g start count stride Hwf Hreq o Ho.
  assert (Hspec : model_offsets g start count stride =
                  spec_offsets g start count (stride_or_ones (length (g_shape g)) stride)).
  { destruct stride as [t|]; cbn [stride_or_ones] in *.
    - apply model_offsets_eq_spec; assumption.
    - apply model_offsets_eq_spec_none; assumption. }
  rewrite Hspec in Ho. unfold spec_offsets in Ho. apply in_map_iff in Ho. destruct Ho as [idx [<- Hidx]].
  pose proof (req_indices_idx_ok g _ _ _ idx Hreq Hidx) as Hok.
  destruct Hwf as (Hx & Hrs & _). unfold idx_ok in Hok.
  destruct (g_isrec g) eqn:Erec.
  - destruct idx as [|i0 r]; [contradiction|]. destruct Hok as [Hi0 Hr].
    destruct (elem_off_bounds_rec g i0 r ltac:(lia) Erec Hr) as [B _].
    assert (0 <= i0 * g_recsize g) by nia. lia.
  - destruct (elem_off_bounds_fixed g idx ltac:(lia) Erec Hok) as [B _]. exact B.
Qed.

(* ---------- scatter below a bound ---------- *)
Lemma scatter_exists : forall offs d xsz bs, dk_exists d = true -> dk_exists (dk_scatter d xsz offs bs) = true.
Proof.
  induction offs as [|o r IH]; intros d xsz bs H; cbn [dk_scatter]; [exact H|].
  apply IH. rewrite dk_exists_write, H. apply orb_true_r.
Qed.

Lemma scatter_size : forall offs d xsz bs, dk_size d <= dk_size (dk_scatter d xsz offs bs).
Proof.
  induction offs as [|o r IH]; intros d xsz bs; cbn [dk_scatter]; [lia|].
  specialize (IH (dk_write d o (zfirstn xsz bs)) xsz (zskipn xsz bs)).
  rewrite dk_size_write in IH. destruct (0 <? Zlen (zfirstn xsz bs)); lia.
Qed.

Lemma scatter_frame_below : forall offs d xsz bs B x, (forall o, In o offs -> B <= o) -> x < B ->
  dk_get (dk_scatter d xsz offs bs) x = dk_get d x.
Proof.
  intros offs d xsz bs B x H Hx. apply scatter_get_out. intros o Ho. specialize (H o Ho).
  unfold in_elem. lia.
Qed.

(* the disk left by put_rank *)
Definition put_fold (f : filest) (a : access) (krs : list (Z * rreq)) (d : disk) : disk :=
  fold_left (fun dacc kr =>
               let r := snd kr in
               let offs := model_offsets (geom_of f (the_var f a)) (rq_start r) (rq_count r) (rq_stride r) in
               dk_scatter dacc (g_xsz (geom_of f (the_var f a))) offs
                          (put_stream a (v_type (the_var f a)) (fst kr) r))
            krs d.

Lemma in_with_bases : forall rs k0 kr, In kr (with_bases rs k0) -> In (snd kr) rs.
Proof.
  induction rs as [|r rs IH]; intros k0 kr H; [destruct H|]. cbn [with_bases] in H.
  destruct H as [<-|H]; [left; reflexivity|right; exact (IH _ _ H)].
Qed.

Definition put_one (f : filest) (a : access) (kr : Z * rreq) (d : disk) : disk :=
  dk_scatter d (g_xsz (geom_of f (the_var f a)))
    (model_offsets (geom_of f (the_var f a)) (rq_start (snd kr)) (rq_count (snd kr)) (rq_stride (snd kr)))
    (put_stream a (v_type (the_var f a)) (fst kr) (snd kr)).

Lemma put_fold_cons : forall f a kr krs d,
  put_fold f a (kr :: krs) d = put_fold f a krs (put_one f a kr d).
Proof. reflexivity. Qed.

Lemma put_fold_frame : forall f a krs d B,
  (forall kr o, In kr krs ->
     In o (model_offsets (geom_of f (the_var f a)) (rq_start (snd kr)) (rq_count (snd kr)) (rq_stride (snd kr))) ->
     B <= o) ->
  (dk_exists d = true -> dk_exists (put_fold f a krs d) = true) /\
  dk_size d <= dk_size (put_fold f a krs d) /\
  (forall x, x < B -> dk_get (put_fold f a krs d) x = dk_get d x).
Proof.
  intros f a krs. induction krs as [|kr krs IH]; intros d B H.
  - unfold put_fold. cbn [fold_left]. split; [intros E; exact E|]. split; [lia|]. intros; reflexivity.
  - rewrite put_fold_cons.
    destruct (IH (put_one f a kr d) B (fun kr0 o Hk Ho => H kr0 o (or_intror Hk) Ho)) as (I1 & I2 & I3).
    split; [intros E; apply I1; unfold put_one; apply scatter_exists; exact E|].
    split. { pose proof (scatter_size (model_offsets (geom_of f (the_var f a)) (rq_start (snd kr))
                           (rq_count (snd kr)) (rq_stride (snd kr))) d (g_xsz (geom_of f (the_var f a)))
                           (put_stream a (v_type (the_var f a)) (fst kr) (snd kr))) as Hs.
             fold (put_one f a kr d) in Hs. lia. }
    intros x Hx. rewrite (I3 x Hx). unfold put_one.
    apply (scatter_frame_below _ _ _ _ B); [|exact Hx].
    intros o Ho. exact (H kr o (or_introl eq_refl) Ho).
Qed.

(* ====================================================================== *)
(** * 4. The disk may change above the header                               *)
(* ====================================================================== *)

Lemma dk_read_ext' : forall d d' o n,
  (forall x, o <= x < o + n -> dk_get d' x = dk_get d x) -> dk_read d' o n = dk_read d o n.
Proof. intros. apply dk_read_ext. assumption. Qed.

Lemma data_ok_disk_frame : forall d d' h lay, data_ok d h lay ->
  (dk_exists d = true -> dk_exists d' = true) -> dk_size d <= dk_size d' ->
  (forall x, x < hdr_len h -> dk_get d' x = dk_get d x) -> data_ok d' h lay.
Proof.
  intros d d' h lay (L1 & L2 & L3 & L4 & L5) He Hs Hg. unfold data_ok.
  split; [exact L1|]. split; [exact L2|]. split; [exact L3|]. split; [exact L4|].
  intros Hwf. destruct (L5 Hwf) as (D1 & D2 & D3).
  split; [exact (He D1)|]. split; [lia|].
  rewrite <- D3. apply dk_read_ext'. intros x Hx. apply Hg. lia.
Qed.

Lemma file_ok_disk_frame : forall np nd d d' f, file_ok np nd d f -> f_indef f = false ->
  (dk_exists d = true -> dk_exists d' = true) -> dk_size d <= dk_size d' ->
  (forall x, x < hdr_len (f_hdr f) -> dk_get d' x = dk_get d x) -> file_ok np nd d' f.
Proof.
  intros np nd d d' f (Hs & Hg & Ha & Hr & Hm) Hindef He Hsz Hget. rewrite Hindef in Hm.
  destruct Hm as (O1 & O2 & O3).
  unfold file_ok. rewrite Hindef. repeat (split; [assumption|]).
  exact (data_ok_disk_frame d d' _ _ O3 He Hsz Hget).
Qed.

Lemma inv_set_disk : forall w id f d',
  world_inv w -> znth (w_files w) id None = Some f -> f_tainted f = false ->
  (file_inv w f -> file_ok (w_nprocs w) (Zlen (w_disks w)) d' f) ->
  world_inv (set_disk w (f_slot f) d').
Proof.
  intros w id f d' Hw Hz Ht Hn.
  pose proof (file_inv_of_znth w id f Hw Hz Ht) as Hf. pose proof Hf as (Hslot & _).
  apply (inv_update w _ id f Hw Hz (frame_set_disk w id (f_slot f) d')).
  rewrite w_files_set_disk, Hz. split; [reflexivity|]. intros _.
  unfold file_inv, disk_of. rewrite get_disk_set_disk_same by exact Hslot.
  rewrite Zlen_w_disks_set_disk. exact (Hn Hf).
Qed.

(* ====================================================================== *)
(** * 5. put_rank                                                           *)
(* ====================================================================== *)

Lemma sanity_ok_modes : forall f coll a, sanity f true true coll a = NC_NOERR ->
  f_rdonly f = false /\ f_indef f = false /\ f_indep f = negb coll /\
  0 <= ac_var a < Zlen (h_vars (f_hdr f)).
Proof.
  intros f coll a H. unfold sanity in H. cbv zeta in H. cbn [andb] in H.
  destruct (f_rdonly f); [vm_compute in H; discriminate H|].
  destruct (f_indef f); [vm_compute in H; discriminate H|].
  destruct coll; cbn [andb negb] in H.
  - destruct (f_indep f); [vm_compute in H; discriminate H|].
    destruct (ac_var a =? -1); [vm_compute in H; discriminate H|].
    destruct ((ac_var a <? 0) || (ac_var a >=? Zlen (h_vars (f_hdr f)))) eqn:E;
      [vm_compute in H; discriminate H|].
    repeat split; try reflexivity; lia.
  - destruct (f_indep f); cbn [negb] in H; [|vm_compute in H; discriminate H].
    destruct (ac_var a =? -1); [vm_compute in H; discriminate H|].
    destruct ((ac_var a <? 0) || (ac_var a >=? Zlen (h_vars (f_hdr f)))) eqn:E;
      [vm_compute in H; discriminate H|].
    repeat split; try reflexivity; lia.
Qed.

Lemma put_rank_cases : forall w id f rank coll a w' rc nn part,
  put_rank w id f rank coll a = (w', rc, nn, part) ->
  (w' = w /\ nn = None) \/
  (sanity f true true coll a = NC_NOERR /\
   exists e1 rs, check_request w f rank false a = (e1, Some rs) /\
     w' = set_disk w (f_slot f) (put_fold f a (with_bases rs 0) (disk_of w f)) /\
     (forall n, nn = Some n -> 0 <= n /\ g_isrec (geom_of f (the_var f a)) = true)).
Proof.
  intros w id f rank coll a w' rc nn part H. unfold put_rank in H. cbv zeta in H.
  destruct (Z.eqb_spec (sanity f true true coll a) NC_NOERR) as [Es|Es]; cbn [negb] in H.
  2:{ injection H as <- _ <- _. left. split; reflexivity. }
  destruct (check_request w f rank false a) as [e1 orq] eqn:Ec.
  destruct orq as [rs|]; [|injection H as <- _ <- _; left; split; reflexivity].
  destruct (iomismatch a rs); [injection H as <- _ <- _; left; split; reflexivity|].
  destruct (total_elems rs =? 0); [injection H as <- _ <- _; left; split; reflexivity|].
  injection H as <- _ <- _. right. split; [exact Es|]. exists e1, rs. split; [reflexivity|].
  split; [reflexivity|].
  intros n Hn. destruct (g_isrec (geom_of f (the_var f a))); [|discriminate Hn].
  injection Hn as <-. split; [apply fold_max_ge_init|reflexivity].
Qed.

Lemma num_rec_vars_pos : forall h v, In v (h_vars h) -> is_recvar (h_dims h) v = true ->
  0 < num_rec_vars h.
Proof.
  intros h v Hin Hrec. unfold num_rec_vars.
  assert (Hf : In v (filter (is_recvar (h_dims h)) (h_vars h))) by (apply filter_In; split; assumption).
  destruct (filter (is_recvar (h_dims h)) (h_vars h)) as [|x l]; [destruct Hf|].
  rewrite Proofs_Base.Zlen_cons. pose proof (Proofs_Base.Zlen_nonneg _ l). lia.
Qed.

Lemma rank_numrecs_nonneg : forall np nd d f rank, file_ok np nd d f -> 0 <= rk_numrecs (get_rank f rank).
Proof.
  intros np nd d f rank (_ & (_ & _ & G3) & _ & (_ & R2 & _) & _). unfold get_rank.
  apply (Proofs_Base.znth_Forall _ (fun r => 0 <= rk_numrecs r)); [cbn; lia|].
  eapply Forall_impl; [|exact R2]. intros r Hr. cbn beta in Hr. lia.
Qed.

(** an accepted put of a file in data mode writes above the header only *)
Lemma put_fold_file_ok : forall np nd d f w rank coll a e1 rs,
  file_ok np nd d f -> put_acc_ok f a = true ->
  sanity f true true coll a = NC_NOERR ->
  check_request w f rank false a = (e1, Some rs) ->
  file_ok np nd (put_fold f a (with_bases rs 0) d) f.
Proof.
  intros np nd d f w rank coll a e1 rs Hok Hacc Hsan Hchk.
  destruct (sanity_ok_modes f coll a Hsan) as (Hro & Hindef & Hindep & Hvar).
  pose proof Hok as (Hs & (G1 & G2 & G3) & Ha & Hr & Hm). rewrite Hindef in Hm.
  destruct Hm as (O1 & O2 & O3).
  set (v := the_var f a) in *.
  assert (Hin : In v (h_vars (f_hdr f))) by (unfold v, the_var; apply Proofs_Disk.znth_In; lia).
  assert (Hvg : var_good (h_dims (f_hdr f)) v) by (rewrite Forall_forall in G2; exact (G2 v Hin)).
  destruct (var_good_geom _ v G1 Hvg) as [Hx Hdw].
  assert (Hne : h_vars (f_hdr f) <> []) by (intros C; rewrite C in Hin; destruct Hin).
  pose proof O3 as (_ & L2 & _). destruct (L2 Hne) as (_ & _ & _ & _ & _ & _ & _ & Hrs).
  destruct (geom_of_wf f v G1 Hrs (conj Hin (conj Hx Hdw))) as [Hwg _].
  assert (Hlens : acc_lens_b (ac_form a) (length (v_dimids v)) = true).
  { unfold put_acc_ok in Hacc. fold v in Hacc.
    destruct ((ac_var a <? 0) || (ac_var a >=? Zlen (h_vars (f_hdr f)))) eqn:E; [lia|]. exact Hacc. }
  pose proof (check_request_all_ok w f rank false a e1 rs Hdw (rank_numrecs_nonneg _ _ _ f rank Hok)
                Hlens Hchk) as Hall. fold v in Hall.
  assert (Hbeg : hdr_len (f_hdr f) <= v_begin v).
  { unfold v, the_var. change (mkvar [] [] [] 0 0 true) with dv.
    apply (var_begin_ge_hdr d (f_hdr f) (f_lay f) (ac_var a) O3 G1). lia. }
  destruct (put_fold_frame f a (with_bases rs 0) d (hdr_len (f_hdr f))) as (F1 & F2 & F3).
  { intros kr o Hkr Ho. pose proof (in_with_bases rs 0 kr Hkr) as Hr'.
    rewrite Forall_forall in Hall. specialize (Hall _ Hr'). unfold rq_req_ok in Hall.
    fold v in Ho.
    pose proof (offsets_ge_begin (geom_of f v) _ _ _ Hwg Hall o Ho) as Hge.
    change (g_begin (geom_of f v)) with (v_begin v) in Hge. lia. }
  apply (file_ok_disk_frame np nd d _ f Hok Hindef F1 F2 F3).
Qed.

Lemma put_rank_inv : forall w id f rank coll a w' rc nn part,
  world_inv w -> znth (w_files w) id None = Some f -> f_tainted f = false ->
  put_acc_ok f a = true ->
  put_rank w id f rank coll a = (w', rc, nn, part) ->
  world_inv w' /\ w_files w' = w_files w /\
  (forall n, nn = Some n ->
     0 <= n /\ f_rdonly f = false /\ f_indef f = false /\ f_indep f = negb coll /\
     0 < num_rec_vars (f_hdr f)).
Proof.
  intros w id f rank coll a w' rc nn part Hw Hz Ht Hacc H.
  destruct (put_rank_cases _ _ _ _ _ _ _ _ _ _ H) as [[-> ->]|(Hsan & e1 & rs & Hchk & -> & Hnn)].
  { split; [exact Hw|]. split; [reflexivity|]. intros n C. discriminate C. }
  destruct (sanity_ok_modes f coll a Hsan) as (Hro & Hindef & Hindep & Hvar).
  split.
  { apply (inv_set_disk w id f _ Hw Hz Ht). intros Hf.
    exact (put_fold_file_ok _ _ _ f w rank coll a e1 rs Hf Hacc Hsan Hchk). }
  split; [reflexivity|].
  intros n Hn. destruct (Hnn n Hn) as [H0 Hrec].
  repeat split; try assumption.
  apply (num_rec_vars_pos (f_hdr f) (the_var f a)); [|exact Hrec].
  unfold the_var. apply Proofs_Disk.znth_In. lia.
Qed.

(* ====================================================================== *)
(** * 6. The collective put                                                 *)
(* ====================================================================== *)

Definition fatal_rc (rc : Z) : bool :=
  (rc =? NC_EPERM) || (rc =? NC_EINDEFINE) || (rc =? NC_EINDEP) || (rc =? NC_ENOTINDEP).

Definition bad_code (f : filest) : Z :=
  if f_rdonly f then NC_EPERM else if f_indef f then NC_EINDEFINE else NC_EINDEP.

Lemma put_rank_mode_bad : forall w id f rank a, f_rdonly f || f_indef f || f_indep f = true ->
  put_rank w id f rank true a = (w, bad_code f, None, false) /\ fatal_rc (bad_code f) = true.
Proof.
  intros w id f rank a H. unfold put_rank, sanity, bad_code. cbv zeta. cbn [andb].
  destruct (f_rdonly f); [split; reflexivity|].
  destruct (f_indef f); [split; reflexivity|].
  destruct (f_indep f); [split; reflexivity|]. discriminate H.
Qed.

Lemma cp_fold_bad : forall id f ras w out, f_rdonly f || f_indef f || f_indep f = true ->
  fold_left (cp_step id f) ras (w, out) =
  (w, out ++ map (fun ra : Z * access => (fst ra, bad_code f, @None Z)) ras).
Proof.
  intros id f ras. induction ras as [|ra ras IH]; intros w out H; cbn [fold_left map].
  - rewrite app_nil_r. reflexivity.
  - unfold cp_step at 2. rewrite (proj1 (put_rank_mode_bad w id f (fst ra) (snd ra) H)).
    rewrite (IH w _ H). rewrite <- app_assoc. reflexivity.
Qed.

Lemma cp_fold_inv : forall id f ras w out,
  world_inv w -> znth (w_files w) id None = Some f -> f_tainted f = false ->
  (forall ra, In ra ras -> put_acc_ok f (snd ra) = true) ->
  exists w1 res, fold_left (cp_step id f) ras (w, out) = (w1, res) /\
    world_inv w1 /\ w_files w1 = w_files w.
Proof.
  intros id f ras. induction ras as [|ra ras IH]; intros w out Hw Hz Ht Hacc; cbn [fold_left].
  - exists w, out. split; [reflexivity|]. split; [exact Hw|reflexivity].
  - unfold cp_step at 2.
    destruct (put_rank w id f (fst ra) true (snd ra)) as [[[w' rc] nn] part] eqn:E.
    destruct (put_rank_inv w id f _ _ _ _ _ _ _ Hw Hz Ht (Hacc ra (or_introl eq_refl)) E) as (Hw' & Hf' & _).
    destruct (IH w' (out ++ [(fst ra, rc, nn)]) Hw' ltac:(rewrite Hf'; exact Hz) Ht
                 (fun ra0 H0 => Hacc ra0 (or_intror H0))) as (w1 & res & E1 & Hw1 & Hf1).
    exists w1, res. split; [exact E1|]. split; [exact Hw1|congruence].
Qed.

Lemma coll_put_inv : forall w id f ras,
  world_inv w -> znth (w_files w) id None = Some f -> f_tainted f = false ->
  (forall ra, In ra ras -> put_acc_ok f (snd ra) = true) ->
  world_inv (fst (coll_put w id f ras)).
Proof.
  intros w id f ras Hw Hz Ht Hacc. rewrite coll_put_eq.
  destruct (cp_fold_inv id f ras w [] Hw Hz Ht Hacc) as (w1 & res & E & Hw1 & Hf1).
  rewrite E. cbv zeta.
  match goal with |- context [if ?c then _ else _] => destruct c eqn:Efatal end; [exact Hw|].
  rewrite Hf1, Hz.
  match goal with |- context [existsb ?p ras] => destruct (existsb p ras) eqn:Erec end; cbn [fst]; [|exact Hw1].
  apply existsb_exists in Erec. destruct Erec as [ra [Hra Hrec]]. cbv zeta in Hrec.
  destruct ((0 <=? ac_var (snd ra)) && (ac_var (snd ra) <? Zlen (h_vars (f_hdr f)))) eqn:Erange;
    [|discriminate Hrec].
  assert (Hmode : f_rdonly f || f_indef f || f_indep f = false).
  { destruct (f_rdonly f || f_indef f || f_indep f) eqn:Eb; [|reflexivity]. exfalso.
    rewrite (cp_fold_bad id f ras w [] Eb) in E. injection E as _ <-. cbn [app] in Efatal.
    assert (Ht' : existsb (fun x : Z * Z * option Z =>
                     (snd (fst x) =? NC_EPERM) || (snd (fst x) =? NC_EINDEFINE) ||
                     (snd (fst x) =? NC_EINDEP) || (snd (fst x) =? NC_ENOTINDEP))
                   (map (fun ra0 : Z * access => (fst ra0, bad_code f, @None Z)) ras) = true).
    { apply existsb_exists. exists (fst ra, bad_code f, None). split.
      - apply in_map_iff. exists ra. split; [reflexivity|exact Hra].
      - cbn [fst snd]. exact (proj2 (put_rank_mode_bad w id f 0 (snd ra) Eb)). }
    congruence. }
  apply orb_false_iff in Hmode. destruct Hmode as [Hmode Hindep].
  apply orb_false_iff in Hmode. destruct Hmode as [Hro Hindef].
  apply (coll_numrecs_sync_inv w1 id f _ Hw1 ltac:(rewrite Hf1; exact Hz) Ht Hindef Hindep).
  apply (num_rec_vars_pos (f_hdr f) (the_var f (snd ra))); [|exact Hrec].
  unfold the_var. apply Proofs_Disk.znth_In. lia.
Qed.

(* ====================================================================== *)
(** * 7. The independent put                                                *)
(* ====================================================================== *)

Lemma rz_Forall_zupd_in : forall A (P : A -> Prop) (l : list A) i v,
  Forall P l -> (0 <= i < Zlen l -> P v) -> Forall P (zupd l i v).
Proof.
  intros A P l. induction l as [|x l IH]; intros i v Hl Hv; [constructor|].
  inversion Hl as [|? ? Hx Hr]; subst. cbn [zupd]. rewrite Proofs_Base.Zlen_cons in Hv.
  pose proof (Proofs_Base.Zlen_nonneg _ l) as Hn.
  destruct (Z.eqb_spec i 0) as [E|E].
  - constructor; [apply Hv; lia|exact Hr].
  - constructor; [exact Hx|]. apply IH; [exact Hr|]. intros Hi. apply Hv. lia.
Qed.

Lemma indep_numrecs_ok : forall np nd d f rank nn, file_ok np nd d f ->
  (forall n, nn = Some n -> 0 <= n /\ f_rdonly f = false /\ f_indef f = false /\
                            f_indep f = true /\ 0 < num_rec_vars (f_hdr f)) ->
  file_ok np nd d (indep_numrecs f rank nn).
Proof.
  intros np nd d f rank nn Hok Hnn. unfold indep_numrecs. destruct nn as [n|]; [|exact Hok].
  destruct (Hnn n eq_refl) as (H0 & Hro & Hindef & Hindep & Hnrv).
  destruct (Z.ltb_spec (rk_numrecs (get_rank f rank)) n) as [Hlt|Hge]; [|exact Hok].
  destruct Hok as (Hs & Hg & Ha & (R1 & R2 & R3) & Hm).
  unfold file_ok, upd_rank, upd_ranks. cbn [f_slot f_hdr f_align f_indef f_old f_isnew f_lay].
  split; [exact Hs|]. split; [exact Hg|]. split; [exact Ha|]. split; [|exact Hm].
  unfold ranks_ok. cbn [f_ranks f_hdr f_indep f_rdonly]. rewrite Zlen_zupd.
  split; [exact R1|]. split.
  - apply rz_Forall_zupd_in; [exact R2|]. intros Hi. cbn [rk_set_numrecs rk_numrecs].
    rewrite (Forall_znth _ (f_ranks f) (rank_init 0)) in R2. specialize (R2 rank Hi).
    unfold get_rank in Hlt. lia.
  - intros [C|[C|C]]; [congruence|lia|congruence].
Qed.

Lemma indep_put_inv : forall w id f rank a,
  world_inv w -> znth (w_files w) id None = Some f -> f_tainted f = false ->
  put_acc_ok f a = true ->
  world_inv (fst (indep_put w id f rank a)) /\
  exists f', znth (w_files (fst (indep_put w id f rank a))) id None = Some f' /\
             f_tainted f' = false /\ f_hdr f' = f_hdr f.
Proof.
  intros w id f rank a Hw Hz Ht Hacc. unfold indep_put.
  destruct (put_rank w id f rank false a) as [[[w' rc] nn] part] eqn:E.
  destruct (put_rank_inv w id f _ _ _ _ _ _ _ Hw Hz Ht Hacc E) as (Hw' & Hf' & Hnn).
  rewrite Hf', Hz. cbn [fst].
  pose proof (rz_znth_some_range _ _ _ _ Hz) as Hid.
  assert (Hz' : znth (w_files w') id None = Some f) by (rewrite Hf'; exact Hz).
  assert (Hsl : f_slot (indep_numrecs f rank nn) = f_slot f).
  { unfold indep_numrecs. destruct nn; [|reflexivity].
    destruct (rk_numrecs (get_rank f rank) <? z); reflexivity. }
  assert (Hh : f_hdr (indep_numrecs f rank nn) = f_hdr f /\ f_tainted (indep_numrecs f rank nn) = f_tainted f).
  { unfold indep_numrecs. destruct nn; [|split; reflexivity].
    destruct (rk_numrecs (get_rank f rank) <? z); split; reflexivity. }
  split.
  - apply (inv_put_file w' id f (indep_numrecs f rank nn) Hw' Hz' Ht Hsl).
    intros Hf _. apply indep_numrecs_ok; [exact Hf|].
    intros n Hn. destruct (Hnn n Hn) as (N0 & N1 & N2 & N3 & N4). repeat split; assumption.
  - exists (indep_numrecs f rank nn). rewrite znth_put_file_same by (rewrite Hf'; exact Hid).
    split; [reflexivity|]. split; [rewrite (proj2 Hh); exact Ht|exact (proj1 Hh)].
Qed.

Lemma put_acc_ok_hdr : forall f f' a, f_hdr f' = f_hdr f -> put_acc_ok f' a = put_acc_ok f a.
Proof. intros f f' a E. unfold put_acc_ok, the_var. rewrite E. reflexivity. Qed.

Lemma indep_fold_inv : forall id f0 a ranks w out,
  world_inv w ->
  (exists fc, znth (w_files w) id None = Some fc /\ f_tainted fc = false /\ f_hdr fc = f_hdr f0) ->
  put_acc_ok f0 a = true ->
  world_inv (fst (fold_left (fun (acc : world * list obs) r =>
                    let '(wc, out) := acc in
                    match znth (w_files wc) id None with
                    | Some fc => let '(w', o') := indep_put wc id fc r a in (w', out ++ o')
                    | None => acc end) ranks (w, out))).
Proof.
  intros id f0 a ranks. induction ranks as [|r ranks IH]; intros w out Hw (fc & Hz & Ht & Eh) Hacc;
    cbn [fold_left]; [exact Hw|].
  rewrite Hz.
  assert (Hacc' : put_acc_ok fc a = true) by (rewrite (put_acc_ok_hdr f0 fc a Eh); exact Hacc).
  destruct (indep_put_inv w id fc r a Hw Hz Ht Hacc') as (Hw' & f' & Hz' & Ht' & Eh').
  destruct (indep_put w id fc r a) as [w' o'] eqn:E. cbn [fst] in *.
  apply IH; [exact Hw'| |exact Hacc].
  exists f'. split; [exact Hz'|]. split; [exact Ht'|congruence].
Qed.

(* ====================================================================== *)
(** * 8. fill_var_rec, junk                                                 *)
(* ====================================================================== *)

Ltac exec_all_file Hw :=
  unfold exec_all; cbv beta iota zeta delta [slot_of];
  apply with_file_inv; [exact Hw|]; intros id f Hl Ht.

Lemma exec_fill_var_rec_inv : forall w s varid recno, world_inv w ->
  world_inv (fst (exec_all w (OFillVarRec s varid recno))).
Proof.
  intros w s varid recno Hw. exec_all_file Hw. destruct (lookup_file_some w s id f Hl) as [Hz Hid].
  destruct (f_rdonly f); [exact Hw|].
  destruct (f_indef f) eqn:Hindef; [exact Hw|].
  destruct (varid =? -1); [exact Hw|].
  destruct ((varid <? 0) || (varid >=? Zlen (h_vars (f_hdr f)))) eqn:Evar; [exact Hw|].
  set (v := znth (h_vars (f_hdr f)) varid (mkvar [] [] [] 0 0 true)).
  destruct (is_recvar (h_dims (f_hdr f)) v) eqn:Hrec; cbn [negb]; [|exact Hw].
  destruct (f_indep f) eqn:Hindep; [exact Hw|].
  match goal with |- context [if ?c then (w, same_all w NC_ENOTFILL []) else _] => destruct c end; [exact Hw|].
  destruct (negb (fill_att_ok v)); [apply taint_slot_inv; exact Hw|].
  destruct (recno <? 0) eqn:Erec; [apply taint_slot_inv; exact Hw|].
  cbn [fst].
  assert (Hin : In v (h_vars (f_hdr f))) by (unfold v; apply Proofs_Disk.znth_In; lia).
  match goal with |- world_inv (coll_numrecs_sync (set_disk w (f_slot f) ?D) id f ?news) =>
    set (d1 := D); set (nw := news) end.
  assert (Hw1 : world_inv (set_disk w (f_slot f) d1)).
  { apply (inv_set_disk w id f d1 Hw Hz Ht). intros Hf.
    pose proof Hf as (_ & (G1 & _ & _) & _ & _ & Hm). rewrite Hindef in Hm. destruct Hm as (_ & _ & O3).
    assert (Hne : h_vars (f_hdr f) <> []) by (intros C; rewrite C in Hin; destruct Hin).
    pose proof O3 as (_ & L2 & _). destruct (L2 Hne) as (_ & _ & _ & _ & _ & _ & _ & Hrs).
    pose proof (proj1 (rs_rule_bounds _ (wf_t3of _ G1))) as Hrs0. rewrite <- Hrs in Hrs0.
    assert (Hbeg : hdr_len (f_hdr f) <= v_begin v).
    { unfold v. change (mkvar [] [] [] 0 0 true) with dv.
      apply (var_begin_ge_hdr _ (f_hdr f) (f_lay f) varid O3 G1). lia. }
    assert (Hoff : hdr_len (f_hdr f) <= v_begin v + l_recsize (f_lay f) * recno) by nia.
    apply (file_ok_disk_frame _ _ (disk_of w f) d1 f Hf Hindef).
    - intros E. unfold d1. rewrite dk_exists_write, E. apply orb_true_r.
    - unfold d1. rewrite dk_size_write.
      match goal with |- context [if ?c then _ else _] => destruct c end; lia.
    - intros x Hx. unfold d1. rewrite dk_get_write.
      match goal with |- context [if ?c then _ else _] => destruct c eqn:Ec end; [exfalso; lia|reflexivity]. }
  apply (coll_numrecs_sync_inv _ id f nw Hw1); [rewrite w_files_set_disk; exact Hz|exact Ht|exact Hindef|exact Hindep|].
  exact (num_rec_vars_pos (f_hdr f) v Hin Hrec).
Qed.

Lemma inv_free_disk : forall w s d, world_inv w -> slot_free w s = true -> world_inv (set_disk w s d).
Proof.
  intros w s d (Hnp & Hmu & Hal & Hdist & Hfiles) Hfree. unfold world_inv.
  split; [exact Hnp|]. split; [exact Hmu|]. split; [exact Hal|]. split; [exact Hdist|].
  intros i g Hg Ht. rewrite w_files_set_disk in Hg.
  pose proof (slot_free_spec w s i g Hfree Hg) as Hsl.
  apply (file_inv_frame w (set_disk w s d) g eq_refl (Zlen_w_disks_set_disk w s d)).
  - apply get_disk_set_disk_other. lia.
  - exact (Hfiles i g Hg Ht).
Qed.

(* ====================================================================== *)
(** * 9. exec_all, exec_each, exec_one                                      *)
(* ====================================================================== *)

Lemma exec_put_all_inv : forall w s coll a, world_inv w -> op_ok w (OPut s coll a) = true ->
  world_inv (fst (exec_all w (OPut s coll a))).
Proof.
  intros w s coll a Hw Hok. exec_all_file Hw. destruct (lookup_file_some w s id f Hl) as [Hz Hid].
  cbn [op_ok] in Hok. rewrite Hl in Hok.
  cbv delta [acc_unmodelled] beta iota.
  destruct coll.
  - apply (coll_put_inv w id f _ Hw Hz Ht). intros ra Hra. apply in_map_iff in Hra.
    destruct Hra as [r [<- _]]. exact Hok.
  - apply (indep_fold_inv id f a (all_ranks w) w [] Hw); [|exact Hok].
    exists f. split; [exact Hz|]. split; [exact Ht|reflexivity].
Qed.

Ltac exec_all_fl Hw :=
  unfold exec_all; cbv beta iota zeta delta [slot_of];
  apply with_file_inv; [exact Hw|]; intros xid fl Hl Ht.

Ltac taint_case Hw :=
  unfold exec_all; cbv beta iota zeta delta [slot_of]; cbn [fst]; apply taint_slot_inv; exact Hw.

Theorem exec_all_inv : forall w o, world_inv w -> op_ok w o = true -> world_inv (fst (exec_all w o)).
Proof.
  intros w o Hw Hok. destruct o.
  - (* OCreate *) apply exec_create_inv; assumption.
  - (* OOpen *) apply exec_open_inv; assumption.
  - (* OClose *) apply exec_close_inv; assumption.
  - (* OAbort *) apply exec_abort_inv; assumption.
  - (* OEnddef *) apply exec_enddef_inv; assumption.
  - (* OEnddefX *) apply exec_enddefx_inv; assumption.
  - (* ORedef *) apply exec_redef_inv; assumption.
  - (* OBeginIndep *) apply exec_begin_indep_inv; assumption.
  - (* OEndIndep *) apply exec_end_indep_inv; assumption.
  - (* OSync *) apply exec_sync_inv; assumption.
  - (* OSyncNumrecs *) apply exec_sync_numrecs_inv; assumption.
  - (* OFlush *) taint_case Hw.
  - (* ODefDim *) apply exec_def_dim_inv; assumption.
  - (* ODefVar *) apply exec_def_var_inv; assumption.
  - (* ORenameDim *) taint_case Hw.
  - (* ORenameVar *) taint_case Hw.
  - (* OPutAtt *) apply exec_put_att_inv; assumption.
  - (* OGetAtt *) exec_all_fl Hw.
    destruct (atts_of (f_hdr fl) varid) as [l|]; [|exact Hw]. destruct (find_att l nm); exact Hw.
  - (* ODelAtt *) taint_case Hw.
  - (* ORenameAtt *) taint_case Hw.
  - (* OCopyAtt *) taint_case Hw.
  - (* OSetFill *) apply exec_set_fill_inv; assumption.
  - (* ODefVarFill *) apply exec_def_var_fill_inv; assumption.
  - (* OInqVarFill *) exec_all_fl Hw.
    destruct ((varid <? 0) || (varid >=? Zlen (h_vars (f_hdr fl)))); exact Hw.
  - (* OFillVarRec *) apply exec_fill_var_rec_inv; assumption.
  - (* OInq *) exec_all_fl Hw. exact Hw.
  - (* OInqName *) exec_all_fl Hw. destruct (kind =? 0).
    + destruct (find_dim (f_hdr fl) nm); exact Hw.
    + destruct (find_var (f_hdr fl) nm); exact Hw.
  - (* OInqAttid *) exec_all_fl Hw.
    destruct (atts_of (f_hdr fl) varid) as [l|]; [|exact Hw]. destruct (find_att l nm); exact Hw.
  - (* OInqNumrecs *) exec_all_fl Hw. exact Hw.
  - (* OInqNreqs *) taint_case Hw.
  - (* OInqBuffer *) taint_case Hw.
  - (* OAttach *) taint_case Hw.
  - (* ODetach *) taint_case Hw.
  - (* OSnapshot *) unfold exec_all. cbv beta iota zeta.
    destruct (is_tainted w f); [exact Hw|]. destruct (dk_exists (get_disk w f)); exact Hw.
  - (* OExists *) exact Hw.
  - (* OJunk *) unfold exec_all. cbv beta iota zeta. cbn [fst]. cbn [op_ok] in Hok.
    apply inv_free_disk; assumption.
  - (* OPut *) apply exec_put_all_inv; assumption.
  - (* OGet *) exec_all_fl Hw. cbv delta [acc_unmodelled] beta iota. exact Hw.
  - (* OIput *) taint_case Hw.
  - (* OIget *) taint_case Hw.
  - (* OBput *) taint_case Hw.
  - (* OWait *) taint_case Hw.
  - (* OCancel *) taint_case Hw.
  - (* OBufs *) taint_case Hw.
  - (* OSetId *) unfold exec_all. cbv beta iota zeta. cbn [fst]. apply world_inv_set_ids. exact Hw.
  - (* OHint *) unfold exec_all. cbv beta iota zeta. cbn [fst].
    pose proof Hw as (_ & _ & (A1 & A2 & A3) & _).
    apply world_inv_set_hints; [exact Hw|].
    destruct (key =? 0); [|destruct (key =? 1); [|destruct (key =? 2)]];
      unfold align_ok; cbn [env_h_align env_v_align env_r_align];
      destruct (v <? 0) eqn:Ev; repeat split; lia.
  - (* ONoHints *) unfold exec_all. cbv beta iota zeta. cbn [fst].
    apply world_inv_set_hints; [exact Hw|apply align_ok_no_align].
  - (* OBarrier *) exact Hw.
  - (* OSleep *) exact Hw.
  - (* OUnknown *) taint_case Hw.
Qed.

Lemma in_zip : forall A B (a : list A) (b : list B) x y, In (x, y) (zip a b) -> In x a /\ In y b.
Proof.
  intros A B a. induction a as [|a0 a IH]; intros [|b0 b] x y H; cbn [zip] in H; try destruct H.
  - injection H as <- <-. split; left; reflexivity.
  - destruct (IH b x y H) as [H1 H2]. split; right; assumption.
Qed.

Theorem exec_each_inv : forall w os, world_inv w -> step_ok w (SEach os) = true ->
  world_inv (fst (exec_each w os)).
Proof.
  intros w os Hw Hok. unfold exec_each. cbv zeta.
  destruct os as [|o0 os']; [exact Hw|].
  cbn [step_ok] in Hok.
  destruct (lookup_file w (slot_of o0)) as [[id f]|] eqn:El; [|exact Hw].
  destruct (f_tainted f) eqn:Ht; [exact Hw|].
  destruct (lookup_file_some w _ id f El) as [Hz Hid].
  set (os := o0 :: os') in *.
  match goal with |- context [if forallb ?p (map acc_of os) then _ else _] =>
    destruct (forallb p (map acc_of os)) eqn:Eput end.
  - apply (coll_put_inv w id f _ Hw Hz Ht). intros [rank a] Hra. cbn [snd].
    apply in_flat_map in Hra. destruct Hra as [[r oa] [Hp Hin]]. cbn [fst snd] in Hin.
    destruct oa as [[[ip cl] a']|]; [|destruct Hin]. destruct Hin as [E|[]]. injection E as <- <-.
    destruct (in_zip _ _ _ _ _ _ Hp) as [_ Hacc]. apply in_map_iff in Hacc. destruct Hacc as [o [Eo Ho]].
    rewrite forallb_forall in Eput.
    pose proof (Eput _ (in_map acc_of os o Ho)) as Eo'. rewrite Eo in Eo'.
    destruct ip; [|discriminate Eo']. destruct cl; [|discriminate Eo'].
    rewrite forallb_forall in Hok. specialize (Hok o Ho).
    destruct o; cbn [acc_of] in Eo; try discriminate Eo. injection Eo as _ <-. exact Hok.
  - match goal with |- context [if ?c then _ else _] => destruct c end; [exact Hw|].
    cbn [fst]. apply taint_slot_inv. exact Hw.
Qed.

Theorem exec_one_inv : forall w rank o, world_inv w -> op_ok w o = true ->
  world_inv (fst (exec_one w rank o)).
Proof.
  intros w rank o Hw Hok. unfold exec_one. cbv zeta.
  assert (Hgen : forall k : Z -> filest -> world * list obs,
            (forall id f, lookup_file w (slot_of o) = Some (id, f) -> f_tainted f = false ->
                          world_inv (fst (k id f))) ->
            world_inv (fst (match lookup_file w (slot_of o) with
                            | None => (w, [(rank, NC_EBADID, [TSkip])])
                            | Some (id, f) => if f_tainted f then (w, [(rank, RC_UNMODELLED, [TSkip])])
                                              else k id f end))).
  { intros k Hk. destruct (lookup_file w (slot_of o)) as [[id f]|] eqn:El; [|exact Hw].
    destruct (f_tainted f) eqn:Ht; [exact Hw|]. apply Hk; [reflexivity|exact Ht]. }
  destruct o; try exact Hw;
    try (apply Hgen; intros xid fl Hl Ht; cbn [fst]; first [exact Hw|apply taint_slot_inv; exact Hw]).
  - (* OPut *) apply Hgen. intros xid fl Hl Ht. destruct (lookup_file_some w _ xid fl Hl) as [Hz Hid].
    destruct coll; [cbn [fst]; apply taint_slot_inv; exact Hw|].
    cbv delta [acc_unmodelled] beta iota.
    cbn [op_ok slot_of] in Hok, Hl. rewrite Hl in Hok.
    exact (proj1 (indep_put_inv w xid fl rank a Hw Hz Ht Hok)).
  - (* OGet *) apply Hgen. intros xid fl Hl Ht.
    destruct coll; [cbn [fst]; apply taint_slot_inv; exact Hw|].
    cbv delta [acc_unmodelled] beta iota.
    destruct (get_rank_op w fl rank false a). exact Hw.
Qed.

(** * The main theorem: every step of a script that respects the contract [step_ok] preserves
    the invariant.  [step_ok w s] is a boolean computed from the current world and the step:
    create/open/junk only on a disk slot no open file sits on, open only of a file that passes
    the validation [open_ok], put with start/count/stride arrays of ndims entries; every other
    operation (including all the error paths, the unmodelled operations that taint the file, and
    every get) is unconditionally covered. *)
Theorem exec_step_preserves_inv : forall w s, world_inv w -> step_ok w s = true ->
  world_inv (fst (exec_step w s)).
Proof.
  intros w s Hw Hok. destruct s as [o|os|r o]; cbn [exec_step].
  - apply exec_all_inv; assumption.
  - apply exec_each_inv; assumption.
  - apply exec_one_inv; assumption.
Qed.

(* the operations whose steps need no side condition at all *)
Definition op_uncond (o : op) : bool :=
  match o with OCreate _ _ _ | OOpen _ _ | OJunk _ _ _ | OPut _ _ _ => false | _ => true end.

Lemma op_uncond_ok : forall w o, op_uncond o = true -> op_ok w o = true.
Proof. intros w o H. destruct o; try reflexivity; discriminate H. Qed.

Corollary exec_step_preserves_inv_uncond : forall w o, world_inv w -> op_uncond o = true ->
  world_inv (fst (exec_step w (SAll o))) /\ forall r, world_inv (fst (exec_step w (SOne r o))).
Proof.
  intros w o Hw H. split; [|intros r]; apply exec_step_preserves_inv; try exact Hw;
    cbn [step_ok]; apply op_uncond_ok; exact H.
Qed.

(* ====================================================================== *)
(** * 10. Every reachable state                                             *)
(* ====================================================================== *)

(* a run of the driver (harness/driver.ml): script steps, and the two world settings the driver
   applies between steps *)
Inductive cmd := CStep (s : step) | CStrict (b : bool) | CMoveUnit (u : Z).

Definition run_cmd (w : world) (c : cmd) : world :=
  match c with
  | CStep s => fst (exec_step w s)
  | CStrict b => set_strict w b
  | CMoveUnit u => set_move_unit w u
  end.

Definition cmd_ok (w : world) (c : cmd) : bool :=
  match c with CStep s => step_ok w s | CStrict _ => true | CMoveUnit u => 1 <=? u end.

Definition run (w : world) (cs : list cmd) : world := fold_left run_cmd cs w.

Fixpoint run_ok (w : world) (cs : list cmd) : bool :=
  match cs with [] => true | c :: r => cmd_ok w c && run_ok (run_cmd w c) r end.

Lemma world0_inv : forall n, 1 <= n -> world_inv (world0 n).
Proof.
  intros n Hn. unfold world_inv, world0. cbn [w_nprocs w_move_unit w_hints w_files].
  split; [exact Hn|]. split; [unfold MOVE_UNIT; lia|]. split; [apply align_ok_no_align|].
  split; [intros i j f g H; cbn [znth] in H; discriminate H|].
  intros i f H. cbn [znth] in H. discriminate H.
Qed.

Lemma run_cmd_inv : forall w c, world_inv w -> cmd_ok w c = true -> world_inv (run_cmd w c).
Proof.
  intros w c Hw Hok. destruct c as [s|b|u]; cbn [run_cmd cmd_ok] in *.
  - apply exec_step_preserves_inv; assumption.
  - apply world_inv_set_strict. exact Hw.
  - apply world_inv_set_move_unit; [exact Hw|lia].
Qed.

Lemma run_inv : forall cs w, world_inv w -> run_ok w cs = true -> world_inv (run w cs).
Proof.
  induction cs as [|c cs IH]; intros w Hw Hok; [exact Hw|].
  cbn [run_ok] in Hok. apply andb_true_iff in Hok. destruct Hok as [H1 H2].
  unfold run. cbn [fold_left]. apply IH; [apply run_cmd_inv; assumption|exact H2].
Qed.

(** every state reachable from the initial world by a run that respects the contract *)
Theorem reachable_inv : forall n cs, 1 <= n -> run_ok (world0 n) cs = true ->
  world_inv (run (world0 n) cs).
Proof. intros n cs Hn Hok. apply run_inv; [apply world0_inv; exact Hn|exact Hok]. Qed.

(* the plain fold of exec_step over a list of steps *)
Corollary reachable_inv_steps : forall n steps, 1 <= n ->
  run_ok (world0 n) (map CStep steps) = true ->
  world_inv (fst (fold_left (fun (acc : world * list obs) s => exec_step (fst acc) s) steps (world0 n, []))).
Proof.
  intros n steps Hn Hok.
  assert (E : forall steps w out,
             fst (fold_left (fun (acc : world * list obs) s => exec_step (fst acc) s) steps (w, out)) =
             run w (map CStep steps)).
  { clear. induction steps as [|s steps IH]; intros w out; [reflexivity|].
    cbn [fold_left map fst]. unfold run. cbn [fold_left run_cmd].
    destruct (exec_step w s) as [w' o'] eqn:Es. rewrite (IH w' o'). reflexivity. }
  rewrite E. apply reachable_inv; assumption.
Qed.

(* ====================================================================== *)
(** * 11. Corollaries: the one-step theorems, in every reachable state      *)
(* ====================================================================== *)

(* ---------- C03: the header in the file is the header in memory ---------- *)
(** In any world satisfying the invariant, for every open file in data mode whose header is
    encodable (wf_hdr: format 1/2/5, every count, size, numrecs and begin fits its field): the
    first hdr_len bytes of the file are exactly the encoded in-memory header, and every prefix
    of at least that length decodes (HeaderSpec.decode, the grammar decoder) to the in-memory
    header content. *)
Theorem inv_header_on_disk : forall w id f,
  world_inv w -> znth (w_files w) id None = Some f -> f_tainted f = false -> f_indef f = false ->
  wf_hdr (f_hdr f) = true ->
  hdr_on_disk w f /\
  forall m, hdr_len (f_hdr f) <= m ->
    decode (dk_read (disk_of w f) 0 m) = Some (decoded_of (f_hdr f)) /\
    dc_hdr (decoded_of (f_hdr f)) = hdr_content (f_hdr f).
Proof.
  intros w id f Hw Hz Ht Hindef Hwf.
  pose proof (file_inv_of_znth w id f Hw Hz Ht) as (_ & _ & _ & _ & Hm). rewrite Hindef in Hm.
  destruct Hm as (_ & _ & (_ & _ & _ & _ & L5)). destruct (L5 Hwf) as (D1 & D2 & D3).
  split; [split; [exact D1|split; [exact D2|exact D3]]|].
  intros m Hm. split; [|reflexivity]. apply header_prefix_decodes; assumption.
Qed.

Theorem reachable_header_on_disk : forall n cs id f,
  1 <= n -> run_ok (world0 n) cs = true ->
  let w := run (world0 n) cs in
  znth (w_files w) id None = Some f -> f_tainted f = false -> f_indef f = false ->
  wf_hdr (f_hdr f) = true ->
  dk_read (disk_of w f) 0 (hdr_len (f_hdr f)) = encode_header (f_hdr f) /\
  forall m, hdr_len (f_hdr f) <= m ->
    exists dc, decode (dk_read (disk_of w f) 0 m) = Some dc /\ dc_hdr dc = hdr_content (f_hdr f).
Proof.
  intros n cs id f Hn Hok w Hz Ht Hindef Hwf.
  destruct (inv_header_on_disk w id f (reachable_inv n cs Hn Hok) Hz Ht Hindef Hwf) as [(_ & _ & D3) Hdec].
  split; [exact D3|]. intros m Hm. destruct (Hdec m Hm) as [E1 E2].
  exists (decoded_of (f_hdr f)). split; assumption.
Qed.

(* ---------- C03 / C15: where the variables lie ---------- *)
Lemma set_begins_self : forall h, set_begins h (map v_begin (h_vars h)) = h.
Proof.
  intros [fmt nr dims gatts vars]. unfold set_begins. cbn [h_format h_numrecs h_dims h_gatts h_vars].
  f_equal. induction vars as [|v vars IH]; [reflexivity|].
  cbn [map zip fst snd]. rewrite IH. destruct v; reflexivity.
Qed.

(** In any world satisfying the invariant, for every open file in data mode: the layout
    invariant of Proofs_Layout holds of the file's layout; every variable begins at or after the
    header; HeaderSpec.layout_ok holds of the in-memory header (fixed variables in definition
    order, 4-byte aligned, pairwise disjoint, after the header; record variables after the fixed
    section, pairwise disjoint inside a record); two fixed variables are disjoint and every fixed
    variable ends at or before begin_rec, where the record variables start. *)
Theorem inv_layout : forall w id f,
  world_inv w -> znth (w_files w) id None = Some f -> f_tainted f = false -> f_indef f = false ->
  let h := f_hdr f in let lay := f_lay f in
  lay_inv (t3of h) (lay_core lay) /\ (h_vars h <> [] -> lay_inv (t3of h) lay) /\
  layout_ok h (hdr_len h) = true /\
  (forall i, 0 <= i < Zlen (h_vars h) -> hdr_len h <= v_begin (znth (h_vars h) i dv)) /\
  (forall i j, 0 <= i -> i < j -> j < Zlen (h_vars h) ->
     is_recvar (h_dims h) (znth (h_vars h) i dv) = false ->
     is_recvar (h_dims h) (znth (h_vars h) j dv) = false ->
     v_begin (znth (h_vars h) i dv) + var_len (h_dims h) (znth (h_vars h) i dv)
       <= v_begin (znth (h_vars h) j dv)) /\
  (forall i, 0 <= i < Zlen (h_vars h) ->
     if is_recvar (h_dims h) (znth (h_vars h) i dv)
     then l_begin_rec lay <= v_begin (znth (h_vars h) i dv)
     else v_begin (znth (h_vars h) i dv) + var_len (h_dims h) (znth (h_vars h) i dv) <= l_begin_rec lay).
Proof.
  intros w id f Hw Hz Ht Hindef h lay.
  pose proof (file_inv_of_znth w id f Hw Hz Ht) as (_ & (G1 & _ & _) & _ & _ & Hm). rewrite Hindef in Hm.
  destruct Hm as (_ & _ & O3). pose proof O3 as (L1 & L2 & L3 & L4 & _). fold h lay in L1, L2, L3, L4, G1, O3.
  split; [exact L1|]. split; [exact L2|].
  assert (Hcases : h_vars h = [] \/ h_vars h <> []) by (destruct (h_vars h); [left; reflexivity|right; discriminate]).
  destruct Hcases as [Hnil|Hne].
  { split; [unfold layout_ok; rewrite Hnil; reflexivity|].
    rewrite Hnil, Proofs_Base.Zlen_nil. repeat split; intros; lia. }
  pose proof (L2 Hne) as Hinv.
  split.
  { pose proof (lay_inv_layout_ok h lay (wf_t3of h G1) Hinv) as Hlo.
    rewrite <- L3, set_begins_self, L4 in Hlo. exact Hlo. }
  split; [intros i Hi; apply (var_begin_ge_hdr _ h lay i O3 G1 Hi)|].
  destruct Hinv as (Hlen & Hx & Hbi & Hbv & Hle & Hbr4 & Hc & Hrs).
  rewrite <- vsof_t3of in *.
  destruct (wf_t3_lens _ (wf_t3of h G1)) as [Hnn _]. rewrite <- vsof_t3of in Hnn.
  assert (Evs : Zlen (vsof h) = Zlen (h_vars h)) by (unfold vsof; apply Proofs_Base.Zlen_map).
  assert (Eb : forall i, 0 <= i < Zlen (h_vars h) -> znth (l_begins lay) i 0 = v_begin (znth (h_vars h) i dv)).
  { intros i Hi. rewrite <- L3. apply (znth_map_in _ _ v_begin (h_vars h) i dv 0 Hi). }
  destruct (bi_sel_index false (vsof h) (l_begins lay) (l_begin_var lay) Hlen Hnn Hbi) as [B1 B2].
  split.
  - intros i j Hi Hij Hj Ki Kj.
    specialize (B2 i j Hi Hij ltac:(lia)).
    rewrite !(znth_vsof h) in B2 by lia. cbn [fst snd] in B2. specialize (B2 Ki Kj).
    rewrite !Eb in B2 by lia. exact B2.
  - intros i Hi. destruct (is_recvar (h_dims h) (znth (h_vars h) i dv)) eqn:Ek.
    + pose proof (contig_sel_index (vsof h) (l_begins lay) (l_begin_rec lay) Hlen Hc i ltac:(lia)) as E.
      rewrite (znth_vsof h i Hi) in E. cbn [fst] in E. specialize (E Ek).
      destruct (roff_bounds (vsof h) i Hnn ltac:(lia)) as [Hr0 _]. rewrite Eb in E by exact Hi. lia.
    + specialize (B1 i ltac:(lia)). rewrite (znth_vsof h i Hi) in B1. cbn [fst snd] in B1.
      destruct (B1 Ek) as (_ & _ & B). rewrite Eb in B by exact Hi. lia.
Qed.

Theorem reachable_layout_ok_all : forall n cs id f,
  1 <= n -> run_ok (world0 n) cs = true ->
  let w := run (world0 n) cs in
  znth (w_files w) id None = Some f -> f_tainted f = false -> f_indef f = false ->
  layout_ok (f_hdr f) (hdr_len (f_hdr f)) = true /\
  (forall i, 0 <= i < Zlen (h_vars (f_hdr f)) ->
     hdr_len (f_hdr f) <= v_begin (znth (h_vars (f_hdr f)) i dv)) /\
  (h_vars (f_hdr f) <> [] -> lay_inv (t3of (f_hdr f)) (f_lay f)).
Proof.
  intros n cs id f Hn Hok w Hz Ht Hindef.
  destruct (inv_layout w id f (reachable_inv n cs Hn Hok) Hz Ht Hindef) as (_ & L2 & L3 & L4 & _).
  split; [exact L3|]. split; [exact L4|exact L2].
Qed.

(* ---------- C01: put then get ---------- *)
(** the layout hypotheses of put_accepted / get_accepted are supplied by the invariant: what
    remains are the interpreter's own (boolean) checks and the ndims contract of the arrays *)
Lemma inv_acc_geom_wf : forall w id f isput coll a,
  world_inv w -> znth (w_files w) id None = Some f -> f_tainted f = false ->
  sanity f isput true coll a = NC_NOERR ->
  0 <= f_slot f < Zlen (w_disks w) /\ wf_geom (acc_geom f a) /\ rec_fits (acc_geom f a).
Proof.
  intros w id f isput coll a Hw Hz Ht Hsan.
  pose proof (file_inv_of_znth w id f Hw Hz Ht) as (Hs & (G1 & G2 & _) & _ & _ & Hm).
  pose proof (sanity_var_in f isput true coll a Hsan) as Hin.
  assert (Hindef : f_indef f = false).
  { unfold sanity in Hsan. destruct (isput && f_rdonly f); [vm_compute in Hsan; discriminate Hsan|].
    destruct (f_indef f); [vm_compute in Hsan; discriminate Hsan|reflexivity]. }
  rewrite Hindef in Hm. destruct Hm as (_ & _ & (_ & L2 & _)).
  assert (Hne : h_vars (f_hdr f) <> []) by (intros C; rewrite C in Hin; destruct Hin).
  destruct (L2 Hne) as (_ & _ & _ & _ & _ & _ & _ & Hrs).
  rewrite Forall_forall in G2. destruct (var_good_geom _ _ G1 (G2 _ Hin)) as [Hx Hdw].
  split; [exact Hs|]. exact (acc_geom_wf f isput true coll a Hsan G1 Hrs Hx Hdw).
Qed.

Theorem inv_put_get : forall w id f rank a r w'' obs rank2 coll2 a2,
  world_inv w -> znth (w_files w) id None = Some f -> f_tainted f = false ->
  (* the put, as the interpreter checks it *)
  sanity f true true false a = NC_NOERR ->
  check_request w f rank false a = (NC_NOERR, Some [r]) ->
  iomismatch a [r] = false ->
  form_lengths (ac_form a) (length (g_shape (acc_geom f a))) ->
  indep_put w id f rank a = (w'', obs) ->
  let f' := indep_numrecs f rank (put_newrecs f a r) in
  (* the get of the same request, as the interpreter checks it *)
  ac_var a2 = ac_var a ->
  sanity f' false true coll2 a2 = NC_NOERR ->
  check_request w'' f' rank2 true a2 = (NC_NOERR, Some [r]) ->
  ac_buf a2 = BTyped -> ac_memt a2 = acc_xt f' a2 ->
  form_lengths (ac_form a2) (length (g_shape (acc_geom f' a2))) ->
  world_inv w'' /\ znth (w_files w'') id None = Some f' /\
  get_rank_op w'' f' rank2 coll2 a2 =
  (NC_NOERR,
   [THex (guard_bytes ++
          flat_map (fun k => mem_of_be (put_elem a (acc_xt f a) k)) (zrange 0 (nelems_of r)) ++
          guard_bytes)]).
Proof.
  intros w id f rank a r w'' obs rank2 coll2 a2 Hw Hz Ht Hsan Hchk Hio Hfl Hip f' Hv Hsan2 Hchk2 Hb2 Hm2 Hfl2.
  destruct (inv_acc_geom_wf w id f true false a Hw Hz Ht Hsan) as (Hs & Hwg & Hfit).
  assert (Hacc : put_accepted w f rank false a r)
    by exact (conj Hs (conj Hsan (conj Hchk (conj Hio (conj Hfl (conj Hwg Hfit)))))).
  assert (Hpa : put_acc_ok f a = true).
  { unfold put_acc_ok. destruct (sanity_ok_modes f false a Hsan) as (_ & _ & _ & Hvar).
    replace ((ac_var a <? 0) || (ac_var a >=? Zlen (h_vars (f_hdr f)))) with false by lia.
    cbn [orb]. change (length (v_dimids (the_var f a))) with (length (v_dimids (the_var f a))).
    assert (En : length (g_shape (acc_geom f a)) = length (v_dimids (the_var f a))).
    { rewrite g_shape_acc_geom. unfold var_shape. apply map_length. }
    rewrite En in Hfl. clear -Hfl.
    destruct (ac_form a) as [|[s|]|[s|] [c|]|[s|] [c|] [t|]|s c t m|reqs]; cbn [form_lengths acc_lens_b olen] in *;
      try contradiction; try reflexivity;
      repeat match goal with H : _ /\ _ |- _ => destruct H end;
      repeat (apply andb_true_iff; split); try reflexivity; apply Nat.eqb_eq; assumption. }
  destruct (indep_put_inv w id f rank a Hw Hz Ht Hpa) as (Hw'' & _). rewrite Hip in Hw''. cbn [fst] in Hw''.
  destruct (acc_geom_indep_numrecs f rank (put_newrecs f a r) a2) as (Eg & _).
  assert (Hget : get_accepted w'' f' rank2 coll2 a2 r).
  { split; [exact Hsan2|]. split; [exact Hchk2|]. split; [exact Hb2|]. split; [exact Hm2|].
    split; [exact Hfl2|]. unfold f'. rewrite Eg.
    assert (Hsan2' : sanity f false true coll2 a2 = NC_NOERR).
    { revert Hsan2. unfold f', sanity, indep_numrecs.
      destruct (put_newrecs f a r) as [nn|]; [|exact (fun x => x)].
      destruct (rk_numrecs (get_rank f rank) <? nn); exact (fun x => x). }
    exact (proj1 (proj2 (inv_acc_geom_wf w id f false coll2 a2 Hw Hz Ht Hsan2'))). }
  destruct (indep_put_then_get w id f rank a r w'' obs rank2 coll2 a2 Hacc Hz Hip Hv Hget) as [Hz'' Hres].
  split; [exact Hw''|]. split; [exact Hz''|exact Hres].
Qed.

Theorem reachable_put_get : forall n cs id f rank a r w'' obs rank2 coll2 a2,
  1 <= n -> run_ok (world0 n) cs = true ->
  let w := run (world0 n) cs in
  znth (w_files w) id None = Some f -> f_tainted f = false ->
  sanity f true true false a = NC_NOERR ->
  check_request w f rank false a = (NC_NOERR, Some [r]) ->
  iomismatch a [r] = false ->
  form_lengths (ac_form a) (length (g_shape (acc_geom f a))) ->
  indep_put w id f rank a = (w'', obs) ->
  let f' := indep_numrecs f rank (put_newrecs f a r) in
  ac_var a2 = ac_var a ->
  sanity f' false true coll2 a2 = NC_NOERR ->
  check_request w'' f' rank2 true a2 = (NC_NOERR, Some [r]) ->
  ac_buf a2 = BTyped -> ac_memt a2 = acc_xt f' a2 ->
  form_lengths (ac_form a2) (length (g_shape (acc_geom f' a2))) ->
  get_rank_op w'' f' rank2 coll2 a2 =
  (NC_NOERR,
   [THex (guard_bytes ++
          flat_map (fun k => mem_of_be (put_elem a (acc_xt f a) k)) (zrange 0 (nelems_of r)) ++
          guard_bytes)]).
Proof.
  intros n cs id f rank a r w'' obs rank2 coll2 a2 Hn Hok w Hz Ht H1 H2 H3 H4 H5 f' H6 H7 H8 H9 H10 H11.
  exact (proj2 (proj2 (inv_put_get w id f rank a r w'' obs rank2 coll2 a2 (reachable_inv n cs Hn Hok)
                         Hz Ht H1 H2 H3 H4 H5 H6 H7 H8 H9 H10 H11))).
Qed.

(* ---------- C06: redef ... enddef preserves the data ---------- *)
(** In any world satisfying the invariant, for every file in define mode after a redef (whatever
    was defined since): a successful enddef leaves every byte of every variable of the header
    saved at redef at its new place with its old value - for every number of processes, move
    unit, alignment and fill mode - and the invariant holds again. *)
Theorem inv_redef_preserves : forall w id f ea oh ol w',
  world_inv w -> znth (w_files w) id None = Some f -> f_tainted f = false ->
  f_indef f = true -> f_old f = Some (oh, ol) ->
  do_enddef w id f ea = Some (w', NC_NOERR) ->
  world_inv w' /\
  exists lay,
    znth (w_files w') id None = Some (enddef_file f lay) /\
    (wf_hdr (enddef_hdr f lay) = true ->
     let d0 := get_disk w (f_slot f) in
     let d3 := get_disk w' (f_slot f) in
     forall i, 0 <= i < Zlen (h_vars oh) ->
       let ov := znth (h_vars oh) i dv in
       let len := var_len (h_dims oh) ov in
       let ob := znth (l_begins ol) i 0 in
       let nb := znth (l_begins lay) i 0 in
       (is_recvar (h_dims oh) ov = false ->
          forall o, 0 <= o < len -> dk_get d3 (nb + o) = dk_get d0 (ob + o)) /\
       (is_recvar (h_dims oh) ov = true ->
          nb - l_begin_rec lay = ob - l_begin_rec ol /\
          forall r o, 0 <= r < h_numrecs oh -> 0 <= o < len ->
            (ob - l_begin_rec ol) + o < l_recsize ol ->
            dk_get d3 (nb + r * l_recsize lay + o) = dk_get d0 (ob + r * l_recsize ol + o))).
Proof.
  intros w id f ea oh ol w' Hw Hz Ht Hindef Hold Hed.
  split; [exact (proj1 (do_enddef_inv w id f ea w' NC_NOERR Hw Hz Ht Hed))|].
  pose proof (rz_znth_some_range _ _ _ _ Hz) as Hid.
  pose proof Hw as (Hnp & Hmu & _).
  pose proof (file_inv_of_znth w id f Hw Hz Ht) as (Hslot & (G1 & G2 & G3) & (A1 & A2 & A3) & _ & Hm).
  rewrite Hindef, Hold in Hm. destruct Hm as (_ & _ & O1 & O2 & O3 & (L1 & L2 & _) & O5 & O6).
  assert (Hnr : enddef_numrecs f = h_numrecs oh) by (unfold enddef_numrecs; rewrite O1; exact O6).
  destruct (h_vars oh) as [|v0 vs0] eqn:Evars.
  - destruct (redef_enddef_inv w id f ea oh ol w' Hindef Hold Hed) as (_ & _ & _ & lay & _ & _ & _ & _ & _ & Ew).
    exists lay. split; [rewrite Ew; apply znth_put_set_same; exact Hid|].
    intros _ d0 d3 i Hi. rewrite Proofs_Base.Zlen_nil in Hi. lia.
  - assert (Hne : h_vars oh <> []) by (rewrite Evars; discriminate).
    rewrite <- Evars in *.
    destruct (redef_enddef_run_preserves w id f ea oh ol w' Hindef Hold ltac:(rewrite O2; reflexivity)
                G1 A1 A2 A3 (L2 Hne) O5 Hnp Hmu ltac:(rewrite Hnr; unfold hdr_good in O3; lia) Hslot Hid Hed)
      as (lay & Hz' & _ & Hdisk).
    exists lay. split; [exact Hz'|]. intros Hwfh. cbv zeta. rewrite <- Hnr.
    exact (proj2 (Hdisk Hwfh)).
Qed.

Theorem reachable_redef_preserves : forall n cs id f ea oh ol w',
  1 <= n -> run_ok (world0 n) cs = true ->
  let w := run (world0 n) cs in
  znth (w_files w) id None = Some f -> f_tainted f = false ->
  f_indef f = true -> f_old f = Some (oh, ol) ->
  do_enddef w id f ea = Some (w', NC_NOERR) ->
  exists lay,
    znth (w_files w') id None = Some (enddef_file f lay) /\
    (wf_hdr (enddef_hdr f lay) = true ->
     forall i, 0 <= i < Zlen (h_vars oh) ->
       let ov := znth (h_vars oh) i dv in
       (is_recvar (h_dims oh) ov = false ->
          forall o, 0 <= o < var_len (h_dims oh) ov ->
            dk_get (get_disk w' (f_slot f)) (znth (l_begins lay) i 0 + o) =
            dk_get (get_disk w (f_slot f)) (znth (l_begins ol) i 0 + o)) /\
       (is_recvar (h_dims oh) ov = true ->
          forall r o, 0 <= r < h_numrecs oh -> 0 <= o < var_len (h_dims oh) ov ->
            (znth (l_begins ol) i 0 - l_begin_rec ol) + o < l_recsize ol ->
            dk_get (get_disk w' (f_slot f)) (znth (l_begins lay) i 0 + r * l_recsize lay + o) =
            dk_get (get_disk w (f_slot f)) (znth (l_begins ol) i 0 + r * l_recsize ol + o))).
Proof.
  intros n cs id f ea oh ol w' Hn Hok w Hz Ht Hindef Hold Hed.
  destruct (inv_redef_preserves w id f ea oh ol w' (reachable_inv n cs Hn Hok) Hz Ht Hindef Hold Hed)
    as (_ & lay & Hz' & H).
  exists lay. split; [exact Hz'|]. intros Hwfh i Hi. cbv zeta in H |- *.
  destruct (H Hwfh i Hi) as [P1 P2]. split; [exact P1|].
  intros Hk. exact (proj2 (P2 Hk)).
Qed.

(* ====================================================================== *)
(** * 12. The open contract is met by every file the model itself closed     *)
(* ====================================================================== *)

Lemma contig_b_complete : forall l e, contig e l -> contig_b e l = true.
Proof.
  induction l as [|[b len] r IH]; intros e H; cbn [contig_b contig] in *; [reflexivity|].
  destruct H as [-> H]. rewrite Z.eqb_refl. cbn [andb]. apply IH. exact H.
Qed.

Lemma lay_inv_b_complete : forall t3 lay, lay_inv t3 lay -> lay_inv_b t3 lay = true.
Proof.
  intros t3 lay (H1 & H2 & H3 & H4 & H5 & H6 & H7 & H8). unfold lay_inv_b. cbv zeta.
  rewrite H1, Nat.eqb_refl, H3, (contig_b_complete _ _ H7). cbn [andb].
  rewrite <- H4, <- H8, !Z.eqb_refl.
  replace (l_xsz lay <=? l_begin_var lay) with true by lia.
  replace (last_end (l_begin_var lay) (sel false (map fst t3) (l_begins lay)) <=? l_begin_rec lay) with true by lia.
  replace (l_begin_rec lay mod 4 =? 0) with true by lia. reflexivity.
Qed.

Lemma var_good_b_complete : forall dims v, var_good dims v -> var_good_b dims v = true.
Proof.
  intros dims v (H1 & H2 & H3). unfold var_good_b. rewrite !andb_true_iff. repeat split; try lia.
  - apply Forall_forallb. eapply Forall_impl; [|exact H2]. intros d Hd. cbn beta in *. lia.
  - apply Forall_forallb. eapply Forall_impl; [|exact H3]. intros d Hd. cbn beta in *. lia.
Qed.

Lemma hdr_good_b_complete : forall h, hdr_good h -> hdr_good_b h = true.
Proof.
  intros h (H1 & H2 & H3). unfold hdr_good_b. rewrite !andb_true_iff. repeat split; try lia.
  - apply Forall_forallb. eapply Forall_impl; [|exact H1]. intros d Hd. cbn beta in *. lia.
  - apply Forall_forallb. eapply Forall_impl; [|exact H2]. intros v Hv. apply var_good_b_complete. exact Hv.
Qed.

Lemma hdr_good_content : forall h, hdr_good h -> hdr_good (hdr_content h).
Proof.
  intros h Hg. apply (hdr_good_key h (hdr_content h) Hg); try reflexivity.
  unfold hdr_content. cbn [h_vars]. rewrite map_map. reflexivity.
Qed.

Lemma bytes_eqb_refl : forall l : list Z, bytes_eqb l l = true.
Proof.
  unfold bytes_eqb. induction l as [|x l IH]; [reflexivity|]. cbn [list_eqb].
  rewrite Z.eqb_refl, IH. reflexivity.
Qed.

(* a record variable the guards accept is not empty *)
Lemma rec_var_len_pos : forall h v, hdr_good h -> In v (rec_vars h) -> 0 < var_len (h_dims h) v.
Proof.
  intros h v (G1 & G2 & _) Hin. unfold rec_vars in Hin. apply filter_In in Hin. destruct Hin as [Hin Hrec].
  rewrite Forall_forall in G2. destruct (var_good_geom _ v G1 (G2 v Hin)) as [Hx Hdw].
  pose proof (var_len_unpadded (h_dims h) v) as [[Hu _] _].
  unfold unpadded, var_nelems_per_rec in Hu. unfold is_recvar in Hrec. unfold dims_wf in Hdw.
  destruct (var_shape (h_dims h) v) as [|s0 ss]; [discriminate Hrec|]. rewrite Hrec in Hu.
  destruct Hdw as [_ Hss]. pose proof (Proofs_Lists.zprod_pos ss Hss). nia.
Qed.

(** the disk of a file in data mode with an encodable header below 64 KiB passes the validation
    of open, also after the truncation close applies to a file without variables *)
Lemma open_ok_of_data_ok : forall d d' h lay,
  hdr_good h -> data_ok d h lay -> wf_hdr h = true -> hdr_len h <= 65536 ->
  dk_exists d' = true -> hdr_len h <= dk_size d' ->
  dk_read d' 0 (hdr_len h) = encode_header h ->
  open_ok d' = true.
Proof.
  intros d d' h lay Hg (L1 & L2 & L3 & L4 & _) Hwf Hsmall D1 D2 D3.
  pose proof Hg as (G1 & _).
  unfold open_ok. rewrite D1. cbn [negb orb].
  rewrite (open_decodes_header d' h Hwf D3 D2 Hsmall). cbv zeta.
  change (dc_hdr (decoded_of h)) with (hdr_content h).
  change (dc_len (decoded_of h)) with (Zlen (encode_header h)).
  rewrite <- (hdr_len_encode h Hwf), hdr_len_content, wf_hdr_content, Hwf, t3of_content.
  rewrite (hdr_good_b_complete _ (hdr_good_content h Hg)), Z.eqb_refl.
  replace (hdr_len h <=? dk_size d') with true by lia.
  rewrite D3, encode_header_content, bytes_eqb_refl. cbn [andb].
  rewrite layout_of_hdr_content.
  assert (Hcases : h_vars h = [] \/ h_vars h <> []) by (destruct (h_vars h); [left; reflexivity|right; discriminate]).
  destruct Hcases as [Hnil|Hne].
  - assert (Et : t3of h = []) by (unfold t3of; rewrite Hnil; reflexivity).
    unfold hdr_content. cbn [h_vars]. rewrite Hnil. cbn [map]. rewrite andb_true_r.
    unfold layout_of_hdr. rewrite Hnil. cbv zeta. cbn [filter]. rewrite Et.
    unfold lay_inv_b, lay_core. cbn [l_xsz l_begin_var l_begin_rec l_recsize l_begins map sel length
      begins_increasing last_end contig_b Nat.eqb andb].
    replace (Z.min (hdr_len h) 0 <=? 0) with true by lia. reflexivity.
  - pose proof (L2 Hne) as Hinv.
    destruct (layout_of_hdr_agrees h lay G1 Hinv L3 Hne (fun v Hv => rec_var_len_pos h v Hg Hv)) as [_ Hinv'].
    rewrite L4 in Hinv'.
    rewrite (lay_inv_b_complete _ _ (lay_inv_core _ _ Hinv')), (lay_inv_b_complete _ _ Hinv'). cbn [andb].
    unfold hdr_content. cbn [h_vars]. destruct (h_vars h); [contradiction|reflexivity].
Qed.

Lemma slot_free_after_remove : forall w id f x, world_inv w -> znth (w_files w) id None = Some f ->
  slot_free (put_file (set_disk w (f_slot f) x) id None) (f_slot f) = true.
Proof.
  intros w id f x (_ & _ & _ & Hdist & _) Hz. pose proof (rz_znth_some_range _ _ _ _ Hz) as Hid.
  unfold slot_free. apply forallb_forall. intros o Ho.
  destruct (In_znth _ o None Ho) as (j & Hj & Ej).
  destruct o as [g|]; [|reflexivity].
  destruct (Z.eq_dec j id) as [E|E].
  - subst j. rewrite znth_put_set_same in Ej by exact Hid. discriminate Ej.
  - rewrite znth_put_file_other in Ej by lia. rewrite w_files_set_disk in Ej.
    destruct (Z.eqb_spec (f_slot g) (f_slot f)) as [Es|Es]; [|reflexivity].
    exfalso. apply E. exact (Hdist j id g f Ej Hz Es).
Qed.

(** close; open: in every reachable state, closing a file (data mode, no numrecs sync pending)
    whose header is encodable and below 64 KiB leaves a world in which the open of its slot
    satisfies the contract op_ok - so reopening what the model wrote is always covered. *)
Theorem inv_close_open_ok : forall w id f mode,
  world_inv w -> znth (w_files w) id None = Some f -> f_tainted f = false ->
  f_indef f = false -> negb (f_rdonly f) && f_indep f = false ->
  wf_hdr (f_hdr f) = true -> hdr_len (f_hdr f) <= 65536 ->
  do_close w id f = Some (close_world w id f, close_obs w f) /\
  world_inv (close_world w id f) /\
  op_ok (close_world w id f) (OOpen (f_slot f) mode) = true.
Proof.
  intros w id f mode Hw Hz Ht Hindef Hsync Hwf Hsmall.
  pose proof (do_close_data_eq w id f Hindef Hsync Hz) as Ec.
  split; [exact Ec|].
  destruct (do_close_frame w id f _ _ Hz Ec) as [Fr Hn].
  split; [exact (inv_remove w _ id f Hw Hz Fr Hn)|].
  pose proof (file_inv_of_znth w id f Hw Hz Ht) as (Hslot & Hg & _ & _ & Hm).
  rewrite Hindef in Hm. destruct Hm as (_ & _ & O3).
  pose proof O3 as (_ & _ & _ & L4 & L5).
  destruct (close_disk_header w f (L5 Hwf) L4) as (C1 & C2 & C3).
  assert (Ed : get_disk (close_world w id f) (f_slot f) = close_disk w f).
  { unfold close_world. apply get_disk_put_set_same. exact Hslot. }
  cbn [op_ok]. rewrite Ed, C1. cbn [negb orb].
  rewrite !andb_true_iff. split; [split|].
  - unfold slot_in_range, close_world. rewrite w_disks_put_file, Zlen_w_disks_set_disk. lia.
  - unfold close_world. apply slot_free_after_remove; assumption.
  - exact (open_ok_of_data_ok (disk_of w f) (close_disk w f) (f_hdr f) (f_lay f) Hg O3 Hwf Hsmall C1 C2 C3).
Qed.
