(* Properties_C19.v — statements only: each property theorem is stated in full and closed by
   `exact <lemma>`; the lemmas live in the Proofs_*.v files.  Assembled by tools/mkprops.py. *)
(* C19 Memory safety; malformed files fail cleanly — the part a proof can carry: the READER MODEL *)
(* (coq/Reader.v) is total and instrumented (Crash site = undefined behaviour of the C code, allocation *)
(* and fetch accounting).  The full statements are refuted by the faithful model (witness files, replayed *)
(* on the sanitizer build by checks/C19.py); the strongest true statements are proved beside them. *)
(* C-level memory safety of the library is OBSERVED under ASan/UBSan by the check, not proved. *)
From Coq Require Import ZArith List.
From Pnc Require Import Proofs_Reader.
Set Printing Width 100.
Set Printing Depth 100000.

Theorem C19_reader_total :
  forall (hint mm : Z) (f : list Base.byte),
         exists o : Reader.outcome, Reader.open_model hint mm f = o.
Proof. exact @reader_total. Qed.
Print Assumptions C19_reader_total.

Theorem C19_copy_loop_complete :
  forall (chunk n : Z) (c : Reader.cst) (l : list Base.byte),
         (0 < chunk)%Z ->
         window_inv chunk c l ->
         fst (Reader.c_gbytes n c) = Reader.take_z n l /\
         window_inv chunk (snd (Reader.c_gbytes n c)) (Base.zskipn n l).
Proof. exact @copy_loop_complete. Qed.
Print Assumptions C19_copy_loop_complete.

Theorem C19_outcome_chunk_independent :
  forall (hint mm : Z) (f : list Base.byte),
         Reader.out_res (Reader.open_model hint mm f) = Reader.open_flat mm f.
Proof. exact @chunk_decode_eq_flat. Qed.
Print Assumptions C19_outcome_chunk_independent.

Theorem C19_reader_no_crash_refuted :
  ~ reader_no_crash_full.
Proof. exact @reader_no_crash_refuted. Qed.
Print Assumptions C19_reader_no_crash_refuted.

Theorem C19_crash_rndup_int :
  Reader.out_res (Reader.open_model 0 1048576 Reader.w_rndup_int) =
         Reader.Crash Reader.S_rndup_int.
Proof. exact @crash_rndup_int. Qed.
Print Assumptions C19_crash_rndup_int.

Theorem C19_crash_attr_null :
  Reader.out_res (Reader.open_model 0 1048576 Reader.w_attr_null) =
         Reader.Crash Reader.S_attr_memcpy_null.
Proof. exact @crash_attr_null. Qed.
Print Assumptions C19_crash_attr_null.

Theorem C19_crash_attrV_mul :
  Reader.out_res (Reader.open_model 0 1048576 Reader.w_attrV_mul) =
         Reader.Crash Reader.S_attrV_mul.
Proof. exact @crash_attrV_mul. Qed.
Print Assumptions C19_crash_attrV_mul.

Theorem C19_crash_attr_xlen :
  Reader.out_res (Reader.open_model 0 1048576 Reader.w_attr_xlen) =
         Reader.Crash Reader.S_attr_xlen.
Proof. exact @crash_attr_xlen. Qed.
Print Assumptions C19_crash_attr_xlen.

Theorem C19_crash_shape_product :
  Reader.out_res (Reader.open_model 0 1048576 Reader.w_shape_product) =
         Reader.Crash Reader.S_shape_product.
Proof. exact @crash_shape_product. Qed.
Print Assumptions C19_crash_shape_product.

Theorem C19_crash_var_calloc :
  Reader.out_res (Reader.open_model 0 1048576 Reader.w_var_calloc) =
         Reader.Crash Reader.S_var_calloc_null.
Proof. exact @crash_var_calloc. Qed.
Print Assumptions C19_crash_var_calloc.

Theorem C19_crash_check_vlen :
  Reader.out_res (Reader.open_model 0 1048576 Reader.w_check_vlen) =
         Reader.Crash Reader.S_check_vlen_mul.
Proof. exact @crash_check_vlen. Qed.
Print Assumptions C19_crash_check_vlen.

Theorem C19_crash_begin_len :
  Reader.out_res (Reader.open_model 0 1048576 Reader.w_begin_len) =
         Reader.Crash Reader.S_begin_len.
Proof. exact @crash_begin_len. Qed.
Print Assumptions C19_crash_begin_len.

Theorem C19_reader_no_crash_partial :
  forall (hint mm : Z) (f : list Base.byte) (d : HeaderSpec.decoded) (s : Reader.site),
         HeaderSpec.decode f = Some d ->
         Reader.c04_valid mm d = true ->
         Reader.out_res (Reader.open_model hint mm f) <> Reader.Crash s.
Proof. exact @reader_no_crash_partial. Qed.
Print Assumptions C19_reader_no_crash_partial.

Theorem C19_reader_no_crash_partial_ex :
  exists d : HeaderSpec.decoded,
           HeaderSpec.decode ex_valid_file = Some d /\ Reader.c04_valid 1048576 d = true.
Proof. exact @reader_no_crash_partial_ex. Qed.
Print Assumptions C19_reader_no_crash_partial_ex.

Theorem C19_reader_result_consistent_refuted :
  ~ reader_result_consistent_full.
Proof. exact @reader_result_consistent_refuted. Qed.
Print Assumptions C19_reader_result_consistent_refuted.

Theorem C19_inconsistent_numrecs :
  exists o : Reader.opened,
           Reader.out_res (Reader.open_model 0 1048576 Reader.w_numrecs_neg) = Reader.Ok o /\
           Header.h_numrecs (Reader.o_hdr o) = (-1)%Z /\ Reader.consistent o = false.
Proof. exact @inconsistent_numrecs. Qed.
Print Assumptions C19_inconsistent_numrecs.

Theorem C19_inconsistent_dim :
  exists o : Reader.opened,
           Reader.out_res (Reader.open_model 0 1048576 Reader.w_dim_neg) = Reader.Ok o /\
           map Header.d_size (Header.h_dims (Reader.o_hdr o)) = (-9223372036854775803)%Z :: nil /\
           Reader.consistent o = false.
Proof. exact @inconsistent_dim. Qed.
Print Assumptions C19_inconsistent_dim.

Theorem C19_reader_result_consistent_partial :
  forall (hint mm : Z) (f : list Base.byte) (o : Reader.opened),
         Reader.out_res (Reader.open_model hint mm f) = Reader.Ok o ->
         Header.h_vars (Reader.o_hdr o) <> nil ->
         (0 < Header.l_begin_var (Reader.o_lay o))%Z /\
         (Header.l_xsz (Reader.o_lay o) <= Header.l_begin_var (Reader.o_lay o) <=
          Header.l_begin_rec (Reader.o_lay o))%Z.
Proof. exact @reader_result_consistent_partial. Qed.
Print Assumptions C19_reader_result_consistent_partial.

Theorem C19_reader_result_consistent_partial_ex :
  exists o : Reader.opened,
           Reader.out_res (Reader.open_model 36 1048576 ex_valid_file) = Reader.Ok o /\
           Header.h_vars (Reader.o_hdr o) <> nil /\ Reader.consistent o = true.
Proof. exact @reader_result_consistent_partial_ex. Qed.
Print Assumptions C19_reader_result_consistent_partial_ex.

Theorem C19_reader_cost_linear_refuted :
  ~ reader_cost_linear_full.
Proof. exact @reader_cost_linear_refuted. Qed.
Print Assumptions C19_reader_cost_linear_refuted.

Theorem C19_cost_alloc_dims :
  Base.Zlen Reader.w_alloc_dims = 48%Z /\
         (17179868672 <=
          Reader.ac_alloc (Reader.out_acct (Reader.open_model 0 1099511627776 Reader.w_alloc_dims)))%Z.
Proof. exact @cost_alloc_dims. Qed.
Print Assumptions C19_cost_alloc_dims.

Theorem C19_cost_read_zeros :
  Base.Zlen Reader.w_read_zeros = 48%Z /\
         Reader.out_offset (Reader.open_model 4096 1048576 Reader.w_read_zeros) = 102400%Z /\
         Reader.out_fetches (Reader.open_model 4096 1048576 Reader.w_read_zeros) = 25%Z /\
         Reader.out_getsize (Reader.open_model 4096 1048576 Reader.w_read_zeros) = 48%Z.
Proof. exact @cost_read_zeros. Qed.
Print Assumptions C19_cost_read_zeros.

Theorem C19_fetch_progress :
  forall (hint mm : Z) (f : list Base.byte) (v : Z),
         Reader.inq_file_format f = Reader.Ok v ->
         (1 <= Reader.out_fetches (Reader.open_model hint mm f))%Z /\
         ((Reader.out_fetches (Reader.open_model hint mm f) - 1) * (Reader.norm_chunk hint - 8) +
          Reader.norm_chunk hint <= Reader.out_offset (Reader.open_model hint mm f))%Z.
Proof. exact @fetch_progress. Qed.
Print Assumptions C19_fetch_progress.
