(* CSub.v — meaning of the C subset that tools/tr_cfun.py translates to Gallina
   (used by the generated files Gen_vlens.v, Gen_scs.v, ...).  Definitions only; the lemmas
   about them are in Proofs_CSub.v.

   A translated C function is a state transformer over a record of its integer locals, written in
   a result type that threads `return`, `break`, `continue` and two kinds of failure:
     CUndef  — the C execution would reach undefined behaviour (array index outside the object,
               NULL dereference, division by zero, signed overflow) or an implementation-defined
               narrowing conversion (which the subset refuses);
     CUnsup  — the translator met a construct outside the subset (or a loop ran out of fuel).
   An equivalence theorem "generated function = FVal (hand-written model)" is provable only if
   neither failure is reachable under the stated guards: the translator fails closed.

   Values are unbounded integers Z; every signed arithmetic result and every narrowing conversion is
   accompanied by a range test of the C type in which clang's AST says the operation is done
   (in_i32, in_i64, ...); unsigned arithmetic wraps (wrap_u32, ...).  C `/` and `%` are Z.quot and Z.rem. *)
From Coq Require Import ZArith List Bool String.
From Pnc Require Import Base.
Local Open Scope Z_scope.

(* ---------- results ---------- *)
Inductive cres (S : Type) : Type :=
| CNorm (s : S)            (* statement completed normally *)
| CBrk (s : S)             (* break *)
| CCnt (s : S)             (* continue *)
| CRet (v : Z)             (* return v *)
| CUndef (what : string)
| CUnsup (what : string)
| CRetS (v : Z) (s : S).   (* return v from a function that writes through its pointer arguments: s is the
                              final state (the objects reached from the arguments included) *)
Arguments CNorm {S} s.
Arguments CBrk {S} s.
Arguments CCnt {S} s.
Arguments CRet {S} v.
Arguments CUndef {S} what.
Arguments CUnsup {S} what.
Arguments CRetS {S} v s.

Inductive fres : Type :=
| FVal (v : Z)
| FUndef (what : string)
| FUnsup (what : string).

Definition c_bind {S} (r : cres S) (k : S -> cres S) : cres S :=
  match r with CNorm s => k s | other => other end.

(* definedness test in front of a statement *)
Definition c_chk {S} (ok : bool) (what : string) (r : cres S) : cres S :=
  if ok then r else CUndef what.

(* for (...; cond; inc) body  — init is translated as a statement in front.
   cdef: the condition can be evaluated without undefined behaviour. *)
Fixpoint c_loop {S} (fuel : nat) (cdef cond : S -> bool) (body inc : S -> cres S) (s : S) : cres S :=
  match fuel with
  | O => CUnsup "loop fuel exhausted"
  | Datatypes.S f =>
      if cdef s then
        if cond s then
          match body s with
          | CNorm s' => c_bind (inc s') (c_loop f cdef cond body inc)
          | CCnt s' => c_bind (inc s') (c_loop f cdef cond body inc)
          | CBrk s' => CNorm s'
          | CRet v => CRet v
          | CUndef w => CUndef w
          | CUnsup w => CUnsup w
          | CRetS v s' => CRetS v s'
          end
        else CNorm s
      else CUndef "loop condition"
  end.

(* fuel of  for (i = lo; i < hi; i++) : number of iterations + the final test *)
Definition c_fuel_lt (i hi : Z) : nat := Datatypes.S (Z.to_nat (hi - i)).
(* likewise for the conditions i <= hi, i > lo, i >= lo (the loop semantics is the same c_loop; a loop that
   does not step by one towards its bound runs out of fuel) *)
Definition c_fuel_le (i hi : Z) : nat := Datatypes.S (Z.to_nat (hi - i + 1)).
Definition c_fuel_gt (i lo : Z) : nat := Datatypes.S (Z.to_nat (i - lo)).
Definition c_fuel_ge (i lo : Z) : nat := Datatypes.S (Z.to_nat (i - lo + 1)).

(* function boundary *)
Definition c_fun {S} (r : cres S) : fres :=
  match r with
  | CRet v => FVal v
  | CNorm _ => FUndef "control reaches the end of a non-void function"
  | CBrk _ => FUnsup "break outside a loop"
  | CCnt _ => FUnsup "continue outside a loop"
  | CUndef w => FUndef w
  | CUnsup w => FUnsup w
  | CRetS v _ => FVal v
  end.

(* function boundary of a function that writes through its pointer arguments: value and final state *)
Inductive fres_st (S : Type) : Type :=
| FValS (v : Z) (s : S)
| FUndefS (what : string)
| FUnsupS (what : string).
Arguments FValS {S} v s.
Arguments FUndefS {S} what.
Arguments FUnsupS {S} what.

Definition c_fun_st {S} (r : cres S) : fres_st S :=
  match r with
  | CRetS v s => FValS v s
  | CRet v => FUnsupS "return without the final state"
  | CNorm _ => FUndefS "control reaches the end of a non-void function"
  | CBrk _ => FUnsupS "break outside a loop"
  | CCnt _ => FUnsupS "continue outside a loop"
  | CUndef w => FUndefS w
  | CUnsup w => FUnsupS w
  end.

(* call of a translated function inside a statement *)
Definition c_call {S} (r : fres) (k : Z -> cres S) : cres S :=
  match r with
  | FVal v => k v
  | FUndef w => CUndef w
  | FUnsup w => CUnsup w
  end.

(* ---------- integer types ---------- *)
Definition in_i8 (v : Z) : bool := (-128 <=? v) && (v <=? 127).
Definition in_i16 (v : Z) : bool := (-32768 <=? v) && (v <=? 32767).
Definition in_i32 (v : Z) : bool := (-2147483648 <=? v) && (v <=? 2147483647).
Definition in_i64 (v : Z) : bool := (-9223372036854775808 <=? v) && (v <=? 9223372036854775807).
Definition wrap_u8 (v : Z) : Z := v mod 256.
Definition wrap_u16 (v : Z) : Z := v mod 65536.
Definition wrap_u32 (v : Z) : Z := v mod 4294967296.
Definition wrap_u64 (v : Z) : Z := v mod 18446744073709551616.

(* a / b and a % b in a signed type whose minimum is tmin: b <> 0 and not tmin / -1 *)
Definition div_ok (tmin a b : Z) : bool := negb (b =? 0) && negb ((a =? tmin) && (b =? -1)).
Definition i32_min : Z := -2147483648.
Definition i64_min : Z := -9223372036854775808.

Definition b2z (b : bool) : Z := if b then 1 else 0.
Definition z2b (v : Z) : bool := negb (v =? 0).

(* ---------- pointers to arrays ----------
   A pointer to (an element of) an array of A is None (NULL) or Some (l, off): the array object with
   its extent and the offset of the pointed-to element.  The pointed-to arrays are read-only inside
   the translated functions unless the generated code says otherwise (p_set). *)
Definition c_ptr (A : Type) : Type := option (list A * Z).

Definition p_null {A} : c_ptr A := None.
Definition p_isnull {A} (p : c_ptr A) : bool := match p with None => true | Some _ => false end.
(* p[i] may be read *)
Definition p_ok {A} (p : c_ptr A) (i : Z) : bool :=
  match p with
  | Some (l, off) => (0 <=? off + i) && (off + i <? Zlen l)
  | None => false
  end.
Definition p_get {A} (d : A) (p : c_ptr A) (i : Z) : A :=
  match p with
  | Some (l, off) => znth l (off + i) d
  | None => d
  end.
(* p + i : defined when the result points into the array or one past its end *)
Definition p_add_ok {A} (p : c_ptr A) (i : Z) : bool :=
  match p with
  | Some (l, off) => (0 <=? off + i) && (off + i <=? Zlen l)
  | None => i =? 0
  end.
Definition p_add {A} (p : c_ptr A) (i : Z) : c_ptr A :=
  match p with
  | Some (l, off) => Some (l, off + i)
  | None => None
  end.
(* p[i] = v *)
Definition p_set {A} (p : c_ptr A) (i : Z) (v : A) : c_ptr A :=
  match p with
  | Some (l, off) => Some (zupd l (off + i) v, off)
  | None => None
  end.

(* ---------- pointers to one struct that may be NULL (p->old) ---------- *)
Definition o_ok {A} (o : option A) : bool := match o with Some _ => true | None => false end.
Definition o_get {A} (d : A) (o : option A) : A := match o with Some x => x | None => d end.

(* ---------- references: a local pointer to an element of one fixed array of structs is NULL (None) or the
   index of the element; the array it refers to is fixed per variable by the translator, and the element is
   read from the CURRENT state at each use, so writes through another path to the same element are seen.
   Assumption: the entries of such an array are pairwise distinct objects. ---------- *)
Definition c_ref : Type := option Z.
Definition r_isnull (r : c_ref) : bool := match r with None => true | Some _ => false end.
Definition r_ok {A} (r : c_ref) (arr : c_ptr A) : bool :=
  match r with Some i => p_ok arr i | None => false end.
Definition r_get {A} (d : A) (r : c_ref) (arr : c_ptr A) : A :=
  match r with Some i => p_get d arr i | None => d end.
