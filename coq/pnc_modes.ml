
(** val negb : bool -> bool **)

let negb = function
| true -> false
| false -> true

type nat =
| O
| S of nat

(** val fst : ('a1 * 'a2) -> 'a1 **)

let fst = function
| (x, _) -> x

(** val snd : ('a1 * 'a2) -> 'a2 **)

let snd = function
| (_, y) -> y

(** val app : 'a1 list -> 'a1 list -> 'a1 list **)

let rec app l m =
  match l with
  | [] -> m
  | a :: l1 -> a :: (app l1 m)

(** val add : nat -> nat -> nat **)

let rec add n0 m =
  match n0 with
  | O -> m
  | S p -> S (add p m)

type positive =
| XI of positive
| XO of positive
| XH

type n =
| N0
| Npos of positive

type z =
| Z0
| Zpos of positive
| Zneg of positive

(** val eqb : bool -> bool -> bool **)

let eqb b1 b2 =
  if b1 then b2 else if b2 then false else true

module Nat =
 struct
  (** val eqb : nat -> nat -> bool **)

  let rec eqb n0 m =
    match n0 with
    | O -> (match m with
            | O -> true
            | S _ -> false)
    | S n' -> (match m with
               | O -> false
               | S m' -> eqb n' m')
 end

module Pos =
 struct
  (** val succ : positive -> positive **)

  let rec succ = function
  | XI p -> XO (succ p)
  | XO p -> XI p
  | XH -> XO XH

  (** val add : positive -> positive -> positive **)

  let rec add x y =
    match x with
    | XI p ->
      (match y with
       | XI q -> XO (add_carry p q)
       | XO q -> XI (add p q)
       | XH -> XO (succ p))
    | XO p ->
      (match y with
       | XI q -> XI (add p q)
       | XO q -> XO (add p q)
       | XH -> XI p)
    | XH -> (match y with
             | XI q -> XO (succ q)
             | XO q -> XI q
             | XH -> XO XH)

  (** val add_carry : positive -> positive -> positive **)

  and add_carry x y =
    match x with
    | XI p ->
      (match y with
       | XI q -> XI (add_carry p q)
       | XO q -> XO (add_carry p q)
       | XH -> XI (succ p))
    | XO p ->
      (match y with
       | XI q -> XO (add_carry p q)
       | XO q -> XI (add p q)
       | XH -> XO (succ p))
    | XH ->
      (match y with
       | XI q -> XI (succ q)
       | XO q -> XO (succ q)
       | XH -> XI XH)

  (** val pred_double : positive -> positive **)

  let rec pred_double = function
  | XI p -> XI (XO p)
  | XO p -> XI (pred_double p)
  | XH -> XH

  (** val pred_N : positive -> n **)

  let pred_N = function
  | XI p -> Npos (XO p)
  | XO p -> Npos (pred_double p)
  | XH -> N0

  (** val eqb : positive -> positive -> bool **)

  let rec eqb p q =
    match p with
    | XI p0 -> (match q with
                | XI q0 -> eqb p0 q0
                | _ -> false)
    | XO p0 -> (match q with
                | XO q0 -> eqb p0 q0
                | _ -> false)
    | XH -> (match q with
             | XH -> true
             | _ -> false)

  (** val coq_Nsucc_double : n -> n **)

  let coq_Nsucc_double = function
  | N0 -> Npos XH
  | Npos p -> Npos (XI p)

  (** val coq_Ndouble : n -> n **)

  let coq_Ndouble = function
  | N0 -> N0
  | Npos p -> Npos (XO p)

  (** val coq_lor : positive -> positive -> positive **)

  let rec coq_lor p q =
    match p with
    | XI p0 ->
      (match q with
       | XI q0 -> XI (coq_lor p0 q0)
       | XO q0 -> XI (coq_lor p0 q0)
       | XH -> p)
    | XO p0 ->
      (match q with
       | XI q0 -> XI (coq_lor p0 q0)
       | XO q0 -> XO (coq_lor p0 q0)
       | XH -> XI p0)
    | XH -> (match q with
             | XO q0 -> XI q0
             | _ -> q)

  (** val coq_land : positive -> positive -> n **)

  let rec coq_land p q =
    match p with
    | XI p0 ->
      (match q with
       | XI q0 -> coq_Nsucc_double (coq_land p0 q0)
       | XO q0 -> coq_Ndouble (coq_land p0 q0)
       | XH -> Npos XH)
    | XO p0 ->
      (match q with
       | XI q0 -> coq_Ndouble (coq_land p0 q0)
       | XO q0 -> coq_Ndouble (coq_land p0 q0)
       | XH -> N0)
    | XH -> (match q with
             | XO _ -> N0
             | _ -> Npos XH)

  (** val ldiff : positive -> positive -> n **)

  let rec ldiff p q =
    match p with
    | XI p0 ->
      (match q with
       | XI q0 -> coq_Ndouble (ldiff p0 q0)
       | XO q0 -> coq_Nsucc_double (ldiff p0 q0)
       | XH -> Npos (XO p0))
    | XO p0 ->
      (match q with
       | XI q0 -> coq_Ndouble (ldiff p0 q0)
       | XO q0 -> coq_Ndouble (ldiff p0 q0)
       | XH -> Npos p)
    | XH -> (match q with
             | XO _ -> Npos XH
             | _ -> N0)

  (** val of_succ_nat : nat -> positive **)

  let rec of_succ_nat = function
  | O -> XH
  | S x -> succ (of_succ_nat x)
 end

module N =
 struct
  (** val succ_pos : n -> positive **)

  let succ_pos = function
  | N0 -> XH
  | Npos p -> Pos.succ p

  (** val coq_lor : n -> n -> n **)

  let coq_lor n0 m =
    match n0 with
    | N0 -> m
    | Npos p -> (match m with
                 | N0 -> n0
                 | Npos q -> Npos (Pos.coq_lor p q))

  (** val coq_land : n -> n -> n **)

  let coq_land n0 m =
    match n0 with
    | N0 -> N0
    | Npos p -> (match m with
                 | N0 -> N0
                 | Npos q -> Pos.coq_land p q)

  (** val ldiff : n -> n -> n **)

  let ldiff n0 m =
    match n0 with
    | N0 -> N0
    | Npos p -> (match m with
                 | N0 -> n0
                 | Npos q -> Pos.ldiff p q)
 end

module Z =
 struct
  (** val double : z -> z **)

  let double = function
  | Z0 -> Z0
  | Zpos p -> Zpos (XO p)
  | Zneg p -> Zneg (XO p)

  (** val succ_double : z -> z **)

  let succ_double = function
  | Z0 -> Zpos XH
  | Zpos p -> Zpos (XI p)
  | Zneg p -> Zneg (Pos.pred_double p)

  (** val pred_double : z -> z **)

  let pred_double = function
  | Z0 -> Zneg XH
  | Zpos p -> Zpos (Pos.pred_double p)
  | Zneg p -> Zneg (XI p)

  (** val pos_sub : positive -> positive -> z **)

  let rec pos_sub x y =
    match x with
    | XI p ->
      (match y with
       | XI q -> double (pos_sub p q)
       | XO q -> succ_double (pos_sub p q)
       | XH -> Zpos (XO p))
    | XO p ->
      (match y with
       | XI q -> pred_double (pos_sub p q)
       | XO q -> double (pos_sub p q)
       | XH -> Zpos (Pos.pred_double p))
    | XH ->
      (match y with
       | XI q -> Zneg (XO q)
       | XO q -> Zneg (Pos.pred_double q)
       | XH -> Z0)

  (** val add : z -> z -> z **)

  let add x y =
    match x with
    | Z0 -> y
    | Zpos x' ->
      (match y with
       | Z0 -> x
       | Zpos y' -> Zpos (Pos.add x' y')
       | Zneg y' -> pos_sub x' y')
    | Zneg x' ->
      (match y with
       | Z0 -> x
       | Zpos y' -> pos_sub y' x'
       | Zneg y' -> Zneg (Pos.add x' y'))

  (** val eqb : z -> z -> bool **)

  let eqb x y =
    match x with
    | Z0 -> (match y with
             | Z0 -> true
             | _ -> false)
    | Zpos p -> (match y with
                 | Zpos q -> Pos.eqb p q
                 | _ -> false)
    | Zneg p -> (match y with
                 | Zneg q -> Pos.eqb p q
                 | _ -> false)

  (** val of_nat : nat -> z **)

  let of_nat = function
  | O -> Z0
  | S n1 -> Zpos (Pos.of_succ_nat n1)

  (** val of_N : n -> z **)

  let of_N = function
  | N0 -> Z0
  | Npos p -> Zpos p

  (** val coq_lor : z -> z -> z **)

  let coq_lor a b =
    match a with
    | Z0 -> b
    | Zpos a0 ->
      (match b with
       | Z0 -> a
       | Zpos b0 -> Zpos (Pos.coq_lor a0 b0)
       | Zneg b0 -> Zneg (N.succ_pos (N.ldiff (Pos.pred_N b0) (Npos a0))))
    | Zneg a0 ->
      (match b with
       | Z0 -> a
       | Zpos b0 -> Zneg (N.succ_pos (N.ldiff (Pos.pred_N a0) (Npos b0)))
       | Zneg b0 ->
         Zneg (N.succ_pos (N.coq_land (Pos.pred_N a0) (Pos.pred_N b0))))

  (** val coq_land : z -> z -> z **)

  let coq_land a b =
    match a with
    | Z0 -> Z0
    | Zpos a0 ->
      (match b with
       | Z0 -> Z0
       | Zpos b0 -> of_N (Pos.coq_land a0 b0)
       | Zneg b0 -> of_N (N.ldiff (Npos a0) (Pos.pred_N b0)))
    | Zneg a0 ->
      (match b with
       | Z0 -> Z0
       | Zpos b0 -> of_N (N.ldiff (Npos b0) (Pos.pred_N a0))
       | Zneg b0 ->
         Zneg (N.succ_pos (N.coq_lor (Pos.pred_N a0) (Pos.pred_N b0))))

  (** val ldiff : z -> z -> z **)

  let ldiff a b =
    match a with
    | Z0 -> Z0
    | Zpos a0 ->
      (match b with
       | Z0 -> a
       | Zpos b0 -> of_N (Pos.ldiff a0 b0)
       | Zneg b0 -> of_N (N.coq_land (Npos a0) (Pos.pred_N b0)))
    | Zneg a0 ->
      (match b with
       | Z0 -> a
       | Zpos b0 -> Zneg (N.succ_pos (N.coq_lor (Pos.pred_N a0) (Npos b0)))
       | Zneg b0 -> of_N (N.ldiff (Pos.pred_N b0) (Pos.pred_N a0)))
 end

(** val map : ('a1 -> 'a2) -> 'a1 list -> 'a2 list **)

let rec map f = function
| [] -> []
| a :: t -> (f a) :: (map f t)

(** val flat_map : ('a1 -> 'a2 list) -> 'a1 list -> 'a2 list **)

let rec flat_map f = function
| [] -> []
| x :: t -> app (f x) (flat_map f t)

(** val fold_left : ('a1 -> 'a2 -> 'a1) -> 'a2 list -> 'a1 -> 'a1 **)

let rec fold_left f l a0 =
  match l with
  | [] -> a0
  | b :: t -> fold_left f t (f a0 b)

(** val existsb : ('a1 -> bool) -> 'a1 list -> bool **)

let rec existsb f = function
| [] -> false
| a :: l0 -> (||) (f a) (existsb f l0)

(** val find : ('a1 -> bool) -> 'a1 list -> 'a1 option **)

let rec find f = function
| [] -> None
| x :: tl -> if f x then Some x else find f tl

(** val nC_NOERR : z **)

let nC_NOERR =
  Z0

(** val nC_EBADID : z **)

let nC_EBADID =
  Zneg (XI (XO (XO (XO (XO XH)))))

(** val nC_EINVAL : z **)

let nC_EINVAL =
  Zneg (XO (XO (XI (XO (XO XH)))))

(** val nC_EPERM : z **)

let nC_EPERM =
  Zneg (XI (XO (XI (XO (XO XH)))))

(** val nC_ENOTINDEFINE : z **)

let nC_ENOTINDEFINE =
  Zneg (XO (XI (XI (XO (XO XH)))))

(** val nC_EINDEFINE : z **)

let nC_EINDEFINE =
  Zneg (XI (XI (XI (XO (XO XH)))))

(** val nC_ENOTATT : z **)

let nC_ENOTATT =
  Zneg (XI (XI (XO (XI (XO XH)))))

(** val nC_EBADTYPE : z **)

let nC_EBADTYPE =
  Zneg (XI (XO (XI (XI (XO XH)))))

(** val nC_ENOTVAR : z **)

let nC_ENOTVAR =
  Zneg (XI (XO (XO (XO (XI XH)))))

(** val nC_ENOTINDEP : z **)

let nC_ENOTINDEP =
  Zneg (XO (XI (XO (XI (XO (XO (XI XH)))))))

(** val nC_EINDEP : z **)

let nC_EINDEP =
  Zneg (XI (XI (XO (XI (XO (XO (XI XH)))))))

(** val nC_EPREVATTACHBUF : z **)

let nC_EPREVATTACHBUF =
  Zneg (XO (XO (XO (XI (XI (XO (XI XH)))))))

(** val nC_ENULLABUF : z **)

let nC_ENULLABUF =
  Zneg (XI (XO (XO (XI (XI (XO (XI XH)))))))

(** val nC_EPENDINGBPUT : z **)

let nC_EPENDINGBPUT =
  Zneg (XO (XI (XO (XI (XI (XO (XI XH)))))))

(** val nC_ENOTRECVAR : z **)

let nC_ENOTRECVAR =
  Zneg (XI (XO (XO (XI (XO (XI (XI XH)))))))

(** val nC_EPENDING : z **)

let nC_EPENDING =
  Zneg (XO (XO (XI (XI (XO (XI (XI XH)))))))

(** val nC_MODE_RDONLY : z **)

let nC_MODE_RDONLY =
  Zpos (XO (XO (XO (XO (XO (XO (XO (XO (XO (XO (XO (XO XH))))))))))))

(** val nC_MODE_DEF : z **)

let nC_MODE_DEF =
  Zpos (XO (XO (XO (XO (XO (XO (XO (XO (XO (XO (XO (XO (XO XH)))))))))))))

(** val nC_MODE_INDEP : z **)

let nC_MODE_INDEP =
  Zpos (XO (XO (XO (XO (XO (XO (XO (XO (XO (XO (XO (XO (XO (XO
    XH))))))))))))))

(** val nC_MODE_CREATE : z **)

let nC_MODE_CREATE =
  Zpos (XO (XO (XO (XO (XO (XO (XO (XO (XO (XO (XO (XO (XO (XO (XO
    XH)))))))))))))))

(** val nC_MODE_FILL : z **)

let nC_MODE_FILL =
  Zpos (XO (XO (XO (XO (XO (XO (XO (XO (XO (XO (XO (XO (XO (XO (XO (XO
    XH))))))))))))))))

(** val nC_MODE_SAFE : z **)

let nC_MODE_SAFE =
  Zpos (XO (XO (XO (XO (XO (XO (XO (XO (XO (XO (XO (XO (XO (XO (XO (XO (XO
    XH)))))))))))))))))

(** val macro_NC_readonly_tests : z **)

let macro_NC_readonly_tests =
  nC_MODE_RDONLY

(** val macro_NC_IsNew_tests : z **)

let macro_NC_IsNew_tests =
  nC_MODE_CREATE

(** val macro_NC_indef_tests : z **)

let macro_NC_indef_tests =
  nC_MODE_DEF

(** val macro_NC_indep_tests : z **)

let macro_NC_indep_tests =
  nC_MODE_INDEP

(** val eNABLE_REQ_AGGREGATION : bool **)

let eNABLE_REQ_AGGREGATION =
  true

(** val fILL_VAR_REC_RETURNS_ERR : bool **)

let fILL_VAR_REC_RETURNS_ERR =
  true

(** val flagops_ncmpi_enddef : (bool * z) list **)

let flagops_ncmpi_enddef =
  (false, nC_MODE_INDEP) :: ((false, nC_MODE_DEF) :: [])

(** val flagops_ncmpi__enddef : (bool * z) list **)

let flagops_ncmpi__enddef =
  (false, nC_MODE_INDEP) :: ((false, nC_MODE_DEF) :: [])

(** val flagops_ncmpi_redef : (bool * z) list **)

let flagops_ncmpi_redef =
  (true, nC_MODE_DEF) :: []

(** val flagops_ncmpi_begin_indep_data : (bool * z) list **)

let flagops_ncmpi_begin_indep_data =
  (true, nC_MODE_INDEP) :: []

(** val flagops_ncmpi_end_indep_data : (bool * z) list **)

let flagops_ncmpi_end_indep_data =
  (false, nC_MODE_INDEP) :: []

(** val create_flag_init : z **)

let create_flag_init =
  Z.coq_lor nC_MODE_DEF nC_MODE_CREATE

(** val open_flag_init : z **)

let open_flag_init =
  Z0

(** val fIsSet : z -> z -> bool **)

let fIsSet t f =
  negb (Z.eqb (Z.coq_land t f) Z0)

(** val fSet : z -> z -> z **)

let fSet =
  Z.coq_lor

(** val fClr : z -> z -> z **)

let fClr =
  Z.ldiff

(** val apply_ops : z -> (bool * z) list -> z **)

let apply_ops f ops =
  fold_left (fun f0 sb ->
    if fst sb then fSet f0 (snd sb) else fClr f0 (snd sb)) ops f

(** val ok : z -> bool **)

let ok e =
  Z.eqb e nC_NOERR

type ost = { dflag : z; nflags : z; old : bool; nrecv : bool; hasrec : bool }

type core =
| CClosed
| COpen of ost

type auxv = { v_put : bool; v_get : bool; v_bput : bool; v_abuf : bool }

type aux = { a_put : nat; a_get : nat; a_bput : nat; a_abuf : bool }

(** val aux0 : aux **)

let aux0 =
  { a_put = O; a_get = O; a_bput = O; a_abuf = false }

(** val view_aux : aux -> auxv **)

let view_aux a =
  { v_put = (negb (Nat.eqb (add a.a_put a.a_bput) O)); v_get =
    (negb (Nat.eqb a.a_get O)); v_bput = (negb (Nat.eqb a.a_bput O));
    v_abuf = a.a_abuf }

type state = { co : core; ax : aux }

(** val state0 : state **)

let state0 =
  { co = CClosed; ax = aux0 }

type attk =
| AttNew
| AttSame
| AttGrow
| AttBadVar
| AttNewBadType

type call =
| Create of bool
| Open of bool * bool * bool
| Enddef
| EnddefX of bool
| Redef
| BeginIndep
| EndIndep
| Close
| Abort
| Sync
| SyncNumrecs
| Flush
| SetFill of bool
| DefDim
| DefVar of bool
| DefVarFill
| PutAtt of attk
| DelAtt of bool
| GetAtt
| RenameVar
| RenameDim
| Put of bool * bool
| Get of bool * bool
| IPut of bool
| IGet
| BPut
| Wait of bool * bool
| Cancel
| Attach
| Detach
| InqBuffer
| FillVarRec
| Inq

(** val d_ro : ost -> bool **)

let d_ro o =
  fIsSet o.dflag nC_MODE_RDONLY

(** val d_def : ost -> bool **)

let d_def o =
  fIsSet o.dflag nC_MODE_DEF

(** val d_indep : ost -> bool **)

let d_indep o =
  fIsSet o.dflag nC_MODE_INDEP

(** val d_safe : ost -> bool **)

let d_safe o =
  fIsSet o.dflag nC_MODE_SAFE

(** val n_ro : ost -> bool **)

let n_ro o =
  fIsSet o.nflags macro_NC_readonly_tests

(** val n_def : ost -> bool **)

let n_def o =
  fIsSet o.nflags macro_NC_indef_tests

(** val n_indep : ost -> bool **)

let n_indep o =
  fIsSet o.nflags macro_NC_indep_tests

(** val n_new : ost -> bool **)

let n_new o =
  fIsSet o.nflags macro_NC_IsNew_tests

(** val set_dflag : ost -> z -> ost **)

let set_dflag o f =
  { dflag = f; nflags = o.nflags; old = o.old; nrecv = o.nrecv; hasrec =
    o.hasrec }

(** val set_nflags : ost -> z -> ost **)

let set_nflags o f =
  { dflag = o.dflag; nflags = f; old = o.old; nrecv = o.nrecv; hasrec =
    o.hasrec }

(** val n_end_indep_data : ost -> ost * z **)

let n_end_indep_data o =
  if n_def o
  then (o, nC_EINDEFINE)
  else if negb (n_indep o)
       then (o, nC_NOERR)
       else ((set_nflags o (fClr o.nflags nC_MODE_INDEP)), nC_NOERR)

(** val n_begin_indep_data : ost -> ost * z **)

let n_begin_indep_data o =
  if n_def o
  then (o, nC_EINDEFINE)
  else if n_indep o
       then (o, nC_NOERR)
       else ((set_nflags o (fSet o.nflags nC_MODE_INDEP)), nC_NOERR)

(** val n_redef : ost -> ost * z **)

let n_redef o =
  let o1 = if n_indep o then fst (n_end_indep_data o) else o in
  ({ dflag = o1.dflag; nflags = (fSet o1.nflags nC_MODE_DEF); old = true;
  nrecv = o1.nrecv; hasrec = o1.hasrec }, nC_NOERR)

(** val n__enddef : ost -> ost * z **)

let n__enddef o =
  ({ dflag = o.dflag; nflags =
    (fClr o.nflags (Z.coq_lor nC_MODE_CREATE nC_MODE_DEF)); old = false;
    nrecv = o.hasrec; hasrec = o.hasrec }, nC_NOERR)

(** val n_sync : ost -> z **)

let n_sync o =
  if n_def o then nC_EINDEFINE else nC_NOERR

(** val n_sync_numrecs : ost -> z **)

let n_sync_numrecs o =
  if n_def o
  then nC_EINDEFINE
  else if negb o.nrecv
       then nC_NOERR
       else if n_ro o then nC_EPERM else nC_NOERR

(** val first_err : z -> z -> z **)

let first_err status e =
  if ok status then e else status

(** val n_close : ost -> auxv -> z **)

let n_close o v =
  let (o1, st1) = if n_def o then n__enddef o else (o, nC_NOERR) in
  let st2 =
    if (&&) (negb (n_ro o1)) (n_indep o1)
    then first_err st1 (snd (n_end_indep_data o1))
    else st1
  in
  let st3 =
    if v.v_get then first_err (first_err st2 nC_NOERR) nC_EPENDING else st2
  in
  if v.v_put then first_err (first_err st3 nC_NOERR) nC_EPENDING else st3

(** val n_abort : ost -> z **)

let n_abort o =
  let doUnlink = n_new o in
  let o1 =
    if o.old
    then { dflag = o.dflag; nflags = (fClr o.nflags nC_MODE_DEF); old =
           false; nrecv = o.nrecv; hasrec = o.hasrec }
    else o
  in
  if (&&) (negb doUnlink) ((&&) (negb (n_ro o1)) (n_indep o1))
  then snd (n_end_indep_data o1)
  else nC_NOERR

(** val n_wait : ost -> bool -> bool -> z **)

let n_wait o coll all =
  if n_def o
  then nC_EINDEFINE
  else if eNABLE_REQ_AGGREGATION
       then if (&&) (negb coll) (negb (n_indep o))
            then nC_ENOTINDEP
            else if (&&) coll (n_indep o) then nC_EINDEP else nC_NOERR
       else if negb coll
            then if negb all
                 then nC_NOERR
                 else if negb (n_indep o) then nC_ENOTINDEP else nC_NOERR
            else if n_indep o then nC_EINDEP else nC_NOERR

(** val sanity_check : ost -> bool -> bool -> bool -> bool -> z **)

let sanity_check o isput blocking coll badvar =
  if (&&) isput (d_ro o)
  then nC_EPERM
  else if (&&) blocking (d_def o)
       then nC_EINDEFINE
       else if (&&) ((&&) blocking coll) (d_indep o)
            then nC_EINDEP
            else if (&&) ((&&) blocking (negb coll)) (negb (d_indep o))
                 then nC_ENOTINDEP
                 else if badvar then nC_ENOTVAR else nC_NOERR

(** val attk_needs_define : attk -> bool **)

let attk_needs_define = function
| AttSame -> false
| AttBadVar -> false
| _ -> true

(** val cstep : core -> auxv -> call -> core * z **)

let cstep s v c =
  match s with
  | CClosed ->
    (match c with
     | Create safe ->
       ((COpen { dflag =
         (Z.coq_lor create_flag_init (if safe then nC_MODE_SAFE else Z0));
         nflags = (Z.coq_lor nC_MODE_CREATE nC_MODE_DEF); old = false;
         nrecv = false; hasrec = false }), nC_NOERR)
     | Open (rw, rec0, safe) ->
       ((COpen { dflag =
         (Z.coq_lor
           (Z.coq_lor open_flag_init (if rw then Z0 else nC_MODE_RDONLY))
           (if safe then nC_MODE_SAFE else Z0)); nflags =
         (if rw then Z0 else nC_MODE_RDONLY); old = false; nrecv = rec0;
         hasrec = rec0 }), nC_NOERR)
     | _ -> (CClosed, nC_EBADID))
  | COpen o ->
    (match c with
     | Enddef ->
       let err = if negb (d_def o) then nC_ENOTINDEFINE else nC_NOERR in
       if negb (ok err)
       then (s, err)
       else let (o1, e) = n__enddef o in
            if negb (ok e)
            then ((COpen o1), e)
            else ((COpen
                   (set_dflag o1 (apply_ops o1.dflag flagops_ncmpi_enddef))),
                   nC_NOERR)
     | EnddefX neg ->
       let err =
         if negb (d_def o)
         then nC_ENOTINDEFINE
         else if neg then nC_EINVAL else nC_NOERR
       in
       if negb (ok err)
       then (s, err)
       else let (o1, e) = n__enddef o in
            if negb (ok e)
            then ((COpen o1), e)
            else ((COpen
                   (set_dflag o1 (apply_ops o1.dflag flagops_ncmpi__enddef))),
                   nC_NOERR)
     | Redef ->
       if d_ro o
       then (s, nC_EPERM)
       else if d_def o
            then (s, nC_EINDEFINE)
            else let (o1, e) = n_redef o in
                 if negb (ok e)
                 then ((COpen o1), e)
                 else ((COpen
                        (set_dflag o1
                          (apply_ops o1.dflag flagops_ncmpi_redef))),
                        nC_NOERR)
     | BeginIndep ->
       let (o1, e) = n_begin_indep_data o in
       if negb (ok e)
       then ((COpen o1), e)
       else ((COpen
              (set_dflag o1
                (apply_ops o1.dflag flagops_ncmpi_begin_indep_data))),
              nC_NOERR)
     | EndIndep ->
       let (o1, e) = n_end_indep_data o in
       if negb (ok e)
       then ((COpen o1), e)
       else ((COpen
              (set_dflag o1 (apply_ops o1.dflag flagops_ncmpi_end_indep_data))),
              nC_NOERR)
     | Close -> (CClosed, (n_close o v))
     | Abort -> (CClosed, (n_abort o))
     | Sync -> (s, (n_sync o))
     | SyncNumrecs -> (s, (n_sync_numrecs o))
     | SetFill fill ->
       if d_ro o
       then (s, nC_EPERM)
       else if negb (d_def o)
            then (s, nC_ENOTINDEFINE)
            else let nf =
                   if fill
                   then fSet o.nflags nC_MODE_FILL
                   else fClr o.nflags nC_MODE_FILL
                 in
                 let df =
                   if fill
                   then fSet o.dflag nC_MODE_FILL
                   else fClr o.dflag nC_MODE_FILL
                 in
                 ((COpen { dflag = df; nflags = nf; old = o.old; nrecv =
                 o.nrecv; hasrec = o.hasrec }), nC_NOERR)
     | DefDim ->
       if negb (d_def o) then (s, nC_ENOTINDEFINE) else (s, nC_NOERR)
     | DefVar rec0 ->
       if negb (d_def o)
       then (s, nC_ENOTINDEFINE)
       else ((COpen { dflag = o.dflag; nflags = o.nflags; old = o.old;
              nrecv = o.nrecv; hasrec = ((||) o.hasrec rec0) }), nC_NOERR)
     | DefVarFill ->
       if negb (d_def o) then (s, nC_ENOTINDEFINE) else (s, nC_NOERR)
     | PutAtt k ->
       let err =
         if d_ro o
         then nC_EPERM
         else (match k with
               | AttBadVar -> nC_ENOTVAR
               | AttNewBadType -> nC_EBADTYPE
               | _ -> nC_NOERR)
       in
       if negb (ok err)
       then (s, err)
       else if (&&) (attk_needs_define k) (negb (n_def o))
            then (s, nC_ENOTINDEFINE)
            else (s, nC_NOERR)
     | DelAtt badvar ->
       if d_ro o
       then (s, nC_EPERM)
       else if negb (d_def o)
            then (s, nC_ENOTINDEFINE)
            else if badvar then (s, nC_ENOTVAR) else (s, nC_ENOTATT)
     | RenameVar -> if d_ro o then (s, nC_EPERM) else (s, nC_NOERR)
     | RenameDim ->
       if d_ro o
       then (s, nC_EPERM)
       else if negb (n_def o) then (s, nC_ENOTINDEFINE) else (s, nC_NOERR)
     | Put (coll, badvar) -> (s, (sanity_check o true true coll badvar))
     | Get (coll, badvar) -> (s, (sanity_check o false true coll badvar))
     | IPut badvar -> (s, (sanity_check o true false false badvar))
     | IGet -> (s, (sanity_check o false false false false))
     | BPut ->
       let err = sanity_check o true false false false in
       if negb (ok err)
       then (s, err)
       else if negb v.v_abuf then (s, nC_ENULLABUF) else (s, nC_NOERR)
     | Wait (coll, all) -> (s, (n_wait o coll all))
     | Attach -> if v.v_abuf then (s, nC_EPREVATTACHBUF) else (s, nC_NOERR)
     | Detach ->
       if negb v.v_abuf
       then (s, nC_ENULLABUF)
       else if v.v_bput then (s, nC_EPENDINGBPUT) else (s, nC_NOERR)
     | InqBuffer -> if negb v.v_abuf then (s, nC_ENULLABUF) else (s, nC_NOERR)
     | FillVarRec ->
       let err =
         if d_ro o
         then nC_EPERM
         else if d_def o
              then nC_EINDEFINE
              else if negb o.hasrec
                   then nC_ENOTRECVAR
                   else if d_indep o then nC_EINDEP else nC_NOERR
       in
       if (&&) ((||) (d_safe o) fILL_VAR_REC_RETURNS_ERR) (negb (ok err))
       then (s, err)
       else if negb o.hasrec
            then (s, nC_ENOTRECVAR)
            else if n_ro o then (s, nC_EPERM) else (s, nC_NOERR)
     | _ -> (s, nC_NOERR))

(** val aux_step : core -> aux -> call -> z -> core -> aux **)

let aux_step s a c rc = function
| CClosed -> aux0
| COpen _ ->
  (match s with
   | CClosed -> aux0
   | COpen _ ->
     if negb (ok rc)
     then a
     else (match c with
           | IPut badvar ->
             if badvar
             then a
             else { a_put = (S a.a_put); a_get = a.a_get; a_bput = a.a_bput;
                    a_abuf = a.a_abuf }
           | IGet ->
             { a_put = a.a_put; a_get = (S a.a_get); a_bput = a.a_bput;
               a_abuf = a.a_abuf }
           | BPut ->
             { a_put = a.a_put; a_get = a.a_get; a_bput = (S a.a_bput);
               a_abuf = a.a_abuf }
           | Wait (_, all) ->
             if all
             then { a_put = O; a_get = O; a_bput = O; a_abuf = a.a_abuf }
             else a
           | Cancel -> { a_put = O; a_get = O; a_bput = O; a_abuf = a.a_abuf }
           | Attach ->
             { a_put = a.a_put; a_get = a.a_get; a_bput = a.a_bput; a_abuf =
               true }
           | Detach ->
             { a_put = a.a_put; a_get = a.a_get; a_bput = a.a_bput; a_abuf =
               false }
           | _ -> a))

(** val step : state -> call -> state * z **)

let step st c =
  let (s', rc) = cstep st.co (view_aux st.ax) c in
  ({ co = s'; ax = (aux_step st.co st.ax c rc s') }, rc)

type amode =
| MDefine
| MColl
| MIndep

type fview = { w_ro : bool; w_mode : amode; w_hasrec : bool; w_nrecv : bool }

(** val view_of : ost -> fview **)

let view_of o =
  { w_ro = (d_ro o); w_mode =
    (if d_def o then MDefine else if d_indep o then MIndep else MColl);
    w_hasrec = o.hasrec; w_nrecv = o.nrecv }

(** val isdef : fview -> bool **)

let isdef w =
  match w.w_mode with
  | MDefine -> true
  | _ -> false

(** val isindep : fview -> bool **)

let isindep w =
  match w.w_mode with
  | MIndep -> true
  | _ -> false

(** val iscoll : fview -> bool **)

let iscoll w =
  match w.w_mode with
  | MColl -> true
  | _ -> false

type rule = z * bool

(** val rules : call -> fview -> auxv -> rule list **)

let rules c w v =
  match c with
  | Enddef -> (nC_ENOTINDEFINE, (negb (isdef w))) :: []
  | EnddefX neg ->
    (nC_ENOTINDEFINE, (negb (isdef w))) :: ((nC_EINVAL, neg) :: [])
  | Redef -> (nC_EPERM, w.w_ro) :: ((nC_EINDEFINE, (isdef w)) :: [])
  | BeginIndep -> (nC_EINDEFINE, (isdef w)) :: []
  | EndIndep -> (nC_EINDEFINE, (isdef w)) :: []
  | Close -> (nC_EPENDING, ((||) v.v_get v.v_put)) :: []
  | Sync -> (nC_EINDEFINE, (isdef w)) :: []
  | SyncNumrecs ->
    (nC_EINDEFINE, (isdef w)) :: ((nC_EPERM, ((&&) w.w_nrecv w.w_ro)) :: [])
  | SetFill _ ->
    (nC_EPERM, w.w_ro) :: ((nC_ENOTINDEFINE, (negb (isdef w))) :: [])
  | DefDim -> (nC_ENOTINDEFINE, (negb (isdef w))) :: []
  | DefVar _ -> (nC_ENOTINDEFINE, (negb (isdef w))) :: []
  | DefVarFill -> (nC_ENOTINDEFINE, (negb (isdef w))) :: []
  | PutAtt k ->
    (nC_EPERM, w.w_ro) :: ((nC_ENOTVAR,
      (match k with
       | AttBadVar -> true
       | _ -> false)) :: ((nC_EBADTYPE,
      (match k with
       | AttNewBadType -> true
       | _ -> false)) :: ((nC_ENOTINDEFINE,
      ((&&) (attk_needs_define k) (negb (isdef w)))) :: [])))
  | DelAtt badvar ->
    (nC_EPERM, w.w_ro) :: ((nC_ENOTINDEFINE,
      (negb (isdef w))) :: ((nC_ENOTVAR, badvar) :: ((nC_ENOTATT,
      true) :: [])))
  | RenameVar -> (nC_EPERM, w.w_ro) :: []
  | RenameDim ->
    (nC_EPERM, w.w_ro) :: ((nC_ENOTINDEFINE, (negb (isdef w))) :: [])
  | Put (coll, badvar) ->
    (nC_EPERM, w.w_ro) :: ((nC_EINDEFINE, (isdef w)) :: ((nC_EINDEP,
      ((&&) coll (isindep w))) :: ((nC_ENOTINDEP,
      ((&&) (negb coll) (iscoll w))) :: ((nC_ENOTVAR, badvar) :: []))))
  | Get (coll, badvar) ->
    (nC_EINDEFINE, (isdef w)) :: ((nC_EINDEP,
      ((&&) coll (isindep w))) :: ((nC_ENOTINDEP,
      ((&&) (negb coll) (iscoll w))) :: ((nC_ENOTVAR, badvar) :: [])))
  | IPut badvar -> (nC_EPERM, w.w_ro) :: ((nC_ENOTVAR, badvar) :: [])
  | BPut -> (nC_EPERM, w.w_ro) :: ((nC_ENULLABUF, (negb v.v_abuf)) :: [])
  | Wait (coll, all) ->
    if eNABLE_REQ_AGGREGATION
    then (nC_EINDEFINE, (isdef w)) :: ((nC_EINDEP,
           ((&&) coll (isindep w))) :: ((nC_ENOTINDEP,
           ((&&) (negb coll) (iscoll w))) :: []))
    else (nC_EINDEFINE, (isdef w)) :: ((nC_EINDEP,
           ((&&) coll (isindep w))) :: ((nC_ENOTINDEP,
           ((&&) ((&&) (negb coll) all) (iscoll w))) :: []))
  | Attach -> (nC_EPREVATTACHBUF, v.v_abuf) :: []
  | Detach ->
    (nC_ENULLABUF, (negb v.v_abuf)) :: ((nC_EPENDINGBPUT, v.v_bput) :: [])
  | InqBuffer -> (nC_ENULLABUF, (negb v.v_abuf)) :: []
  | FillVarRec ->
    (nC_EPERM, w.w_ro) :: ((nC_EINDEFINE, (isdef w)) :: ((nC_ENOTRECVAR,
      (negb w.w_hasrec)) :: ((nC_EINDEP, (isindep w)) :: [])))
  | _ -> []

(** val first_applicable : rule list -> z **)

let rec first_applicable = function
| [] -> nC_NOERR
| r0 :: r -> let (e, b) = r0 in if b then e else first_applicable r

(** val spec_err : core -> auxv -> call -> z **)

let spec_err s v c =
  match s with
  | CClosed ->
    (match c with
     | Create _ -> nC_NOERR
     | Open (_, _, _) -> nC_NOERR
     | _ -> nC_EBADID)
  | COpen o -> first_applicable (rules c (view_of o) v)

(** val bools : bool list **)

let bools =
  false :: (true :: [])

(** val all_attk : attk list **)

let all_attk =
  AttNew :: (AttSame :: (AttGrow :: (AttBadVar :: (AttNewBadType :: []))))

(** val all_calls : call list **)

let all_calls =
  app (map (fun x -> Create x) bools)
    (app
      (flat_map (fun rw ->
        flat_map (fun rec0 -> map (fun x -> Open (rw, rec0, x)) bools) bools)
        bools)
      (app (Enddef :: [])
        (app (map (fun x -> EnddefX x) bools)
          (app
            (Redef :: (BeginIndep :: (EndIndep :: (Close :: (Abort :: (Sync :: (SyncNumrecs :: (Flush :: []))))))))
            (app (map (fun x -> SetFill x) bools)
              (app (DefDim :: [])
                (app (map (fun x -> DefVar x) bools)
                  (app (DefVarFill :: [])
                    (app (map (fun x -> PutAtt x) all_attk)
                      (app (map (fun x -> DelAtt x) bools)
                        (app (GetAtt :: (RenameVar :: (RenameDim :: [])))
                          (app
                            (flat_map (fun cl ->
                              map (fun x -> Put (cl, x)) bools) bools)
                            (app
                              (flat_map (fun cl ->
                                map (fun x -> Get (cl, x)) bools) bools)
                              (app (map (fun x -> IPut x) bools)
                                (app (IGet :: (BPut :: []))
                                  (app
                                    (flat_map (fun cl ->
                                      map (fun x -> Wait (cl, x)) bools)
                                      bools)
                                    (Cancel :: (Attach :: (Detach :: (InqBuffer :: (FillVarRec :: (Inq :: []))))))))))))))))))))))

(** val ost_eqb : ost -> ost -> bool **)

let ost_eqb a b =
  (&&)
    ((&&)
      ((&&) ((&&) (Z.eqb a.dflag b.dflag) (Z.eqb a.nflags b.nflags))
        (eqb a.old b.old)) (eqb a.nrecv b.nrecv)) (eqb a.hasrec b.hasrec)

(** val core_eqb : core -> core -> bool **)

let core_eqb a b =
  match a with
  | CClosed -> (match b with
                | CClosed -> true
                | COpen _ -> false)
  | COpen x -> (match b with
                | CClosed -> false
                | COpen y -> ost_eqb x y)

(** val cnext : core -> call -> core **)

let cnext s c =
  fst
    (cstep s { v_put = false; v_get = false; v_bput = false; v_abuf = false }
      c)

(** val path_mem : core -> (core * call list) list -> bool **)

let path_mem x l =
  existsb (fun p -> core_eqb x (fst p)) l

(** val bfs_round : (core * call list) list -> (core * call list) list **)

let bfs_round l =
  fold_left (fun acc p ->
    fold_left (fun acc0 c ->
      let s' = cnext (fst p) c in
      if path_mem s' acc0
      then acc0
      else app acc0 ((s', (app (snd p) (c :: []))) :: [])) all_calls acc) l l

(** val bfs : nat -> (core * call list) list -> (core * call list) list **)

let rec bfs k l =
  match k with
  | O -> l
  | S k' -> bfs k' (bfs_round l)

(** val rEACH_K : nat **)

let rEACH_K =
  S (S (S (S (S (S O)))))

(** val reach_table : (core * call list) list **)

let reach_table =
  bfs rEACH_K ((CClosed, []) :: [])

(** val call_code : call -> nat **)

let call_code = function
| Create safe -> if safe then S O else O
| Open (rw, rec0, safe) ->
  add
    (add (add (S (S O)) (if rw then S (S (S (S O))) else O))
      (if rec0 then S (S O) else O)) (if safe then S O else O)
| Enddef -> S (S (S (S (S (S (S (S (S (S O)))))))))
| EnddefX neg ->
  if neg
  then S (S (S (S (S (S (S (S (S (S (S (S O)))))))))))
  else S (S (S (S (S (S (S (S (S (S (S O))))))))))
| Redef -> S (S (S (S (S (S (S (S (S (S (S (S (S O))))))))))))
| BeginIndep -> S (S (S (S (S (S (S (S (S (S (S (S (S (S O)))))))))))))
| EndIndep -> S (S (S (S (S (S (S (S (S (S (S (S (S (S (S O))))))))))))))
| Close -> S (S (S (S (S (S (S (S (S (S (S (S (S (S (S (S O)))))))))))))))
| Abort -> S (S (S (S (S (S (S (S (S (S (S (S (S (S (S (S (S O))))))))))))))))
| Sync ->
  S (S (S (S (S (S (S (S (S (S (S (S (S (S (S (S (S (S O)))))))))))))))))
| SyncNumrecs ->
  S (S (S (S (S (S (S (S (S (S (S (S (S (S (S (S (S (S (S O))))))))))))))))))
| Flush ->
  S (S (S (S (S (S (S (S (S (S (S (S (S (S (S (S (S (S (S (S
    O)))))))))))))))))))
| SetFill fill ->
  if fill
  then S (S (S (S (S (S (S (S (S (S (S (S (S (S (S (S (S (S (S (S (S (S
         O)))))))))))))))))))))
  else S (S (S (S (S (S (S (S (S (S (S (S (S (S (S (S (S (S (S (S (S
         O))))))))))))))))))))
| DefDim ->
  S (S (S (S (S (S (S (S (S (S (S (S (S (S (S (S (S (S (S (S (S (S (S
    O))))))))))))))))))))))
| DefVar rec0 ->
  if rec0
  then S (S (S (S (S (S (S (S (S (S (S (S (S (S (S (S (S (S (S (S (S (S (S (S
         (S O))))))))))))))))))))))))
  else S (S (S (S (S (S (S (S (S (S (S (S (S (S (S (S (S (S (S (S (S (S (S (S
         O)))))))))))))))))))))))
| DefVarFill ->
  S (S (S (S (S (S (S (S (S (S (S (S (S (S (S (S (S (S (S (S (S (S (S (S (S
    (S O)))))))))))))))))))))))))
| PutAtt k ->
  (match k with
   | AttNew ->
     S (S (S (S (S (S (S (S (S (S (S (S (S (S (S (S (S (S (S (S (S (S (S (S
       (S (S (S O))))))))))))))))))))))))))
   | AttSame ->
     S (S (S (S (S (S (S (S (S (S (S (S (S (S (S (S (S (S (S (S (S (S (S (S
       (S (S (S (S O)))))))))))))))))))))))))))
   | AttGrow ->
     S (S (S (S (S (S (S (S (S (S (S (S (S (S (S (S (S (S (S (S (S (S (S (S
       (S (S (S (S (S O))))))))))))))))))))))))))))
   | AttBadVar ->
     S (S (S (S (S (S (S (S (S (S (S (S (S (S (S (S (S (S (S (S (S (S (S (S
       (S (S (S (S (S (S O)))))))))))))))))))))))))))))
   | AttNewBadType ->
     S (S (S (S (S (S (S (S (S (S (S (S (S (S (S (S (S (S (S (S (S (S (S (S
       (S (S (S (S (S (S (S O)))))))))))))))))))))))))))))))
| DelAtt badvar ->
  if badvar
  then S (S (S (S (S (S (S (S (S (S (S (S (S (S (S (S (S (S (S (S (S (S (S (S
         (S (S (S (S (S (S (S (S (S O))))))))))))))))))))))))))))))))
  else S (S (S (S (S (S (S (S (S (S (S (S (S (S (S (S (S (S (S (S (S (S (S (S
         (S (S (S (S (S (S (S (S O)))))))))))))))))))))))))))))))
| GetAtt ->
  S (S (S (S (S (S (S (S (S (S (S (S (S (S (S (S (S (S (S (S (S (S (S (S (S
    (S (S (S (S (S (S (S (S (S O)))))))))))))))))))))))))))))))))
| RenameVar ->
  S (S (S (S (S (S (S (S (S (S (S (S (S (S (S (S (S (S (S (S (S (S (S (S (S
    (S (S (S (S (S (S (S (S (S (S O))))))))))))))))))))))))))))))))))
| RenameDim ->
  S (S (S (S (S (S (S (S (S (S (S (S (S (S (S (S (S (S (S (S (S (S (S (S (S
    (S (S (S (S (S (S (S (S (S (S (S O)))))))))))))))))))))))))))))))))))
| Put (cl, bv) ->
  add
    (add (S (S (S (S (S (S (S (S (S (S (S (S (S (S (S (S (S (S (S (S (S (S (S
      (S (S (S (S (S (S (S (S (S (S (S (S (S (S
      O))))))))))))))))))))))))))))))))))))) (if cl then S (S O) else O))
    (if bv then S O else O)
| Get (cl, bv) ->
  add
    (add (S (S (S (S (S (S (S (S (S (S (S (S (S (S (S (S (S (S (S (S (S (S (S
      (S (S (S (S (S (S (S (S (S (S (S (S (S (S (S (S (S (S
      O))))))))))))))))))))))))))))))))))))))))) (if cl then S (S O) else O))
    (if bv then S O else O)
| IPut badvar ->
  if badvar
  then S (S (S (S (S (S (S (S (S (S (S (S (S (S (S (S (S (S (S (S (S (S (S (S
         (S (S (S (S (S (S (S (S (S (S (S (S (S (S (S (S (S (S (S (S (S (S
         O)))))))))))))))))))))))))))))))))))))))))))))
  else S (S (S (S (S (S (S (S (S (S (S (S (S (S (S (S (S (S (S (S (S (S (S (S
         (S (S (S (S (S (S (S (S (S (S (S (S (S (S (S (S (S (S (S (S (S
         O))))))))))))))))))))))))))))))))))))))))))))
| IGet ->
  S (S (S (S (S (S (S (S (S (S (S (S (S (S (S (S (S (S (S (S (S (S (S (S (S
    (S (S (S (S (S (S (S (S (S (S (S (S (S (S (S (S (S (S (S (S (S (S
    O))))))))))))))))))))))))))))))))))))))))))))))
| BPut ->
  S (S (S (S (S (S (S (S (S (S (S (S (S (S (S (S (S (S (S (S (S (S (S (S (S
    (S (S (S (S (S (S (S (S (S (S (S (S (S (S (S (S (S (S (S (S (S (S (S
    O)))))))))))))))))))))))))))))))))))))))))))))))
| Wait (cl, al) ->
  add
    (add (S (S (S (S (S (S (S (S (S (S (S (S (S (S (S (S (S (S (S (S (S (S (S
      (S (S (S (S (S (S (S (S (S (S (S (S (S (S (S (S (S (S (S (S (S (S (S (S
      (S (S O)))))))))))))))))))))))))))))))))))))))))))))))))
      (if cl then S (S O) else O)) (if al then S O else O)
| Cancel ->
  S (S (S (S (S (S (S (S (S (S (S (S (S (S (S (S (S (S (S (S (S (S (S (S (S
    (S (S (S (S (S (S (S (S (S (S (S (S (S (S (S (S (S (S (S (S (S (S (S (S
    (S (S (S (S O))))))))))))))))))))))))))))))))))))))))))))))))))))
| Attach ->
  S (S (S (S (S (S (S (S (S (S (S (S (S (S (S (S (S (S (S (S (S (S (S (S (S
    (S (S (S (S (S (S (S (S (S (S (S (S (S (S (S (S (S (S (S (S (S (S (S (S
    (S (S (S (S (S O)))))))))))))))))))))))))))))))))))))))))))))))))))))
| Detach ->
  S (S (S (S (S (S (S (S (S (S (S (S (S (S (S (S (S (S (S (S (S (S (S (S (S
    (S (S (S (S (S (S (S (S (S (S (S (S (S (S (S (S (S (S (S (S (S (S (S (S
    (S (S (S (S (S (S O))))))))))))))))))))))))))))))))))))))))))))))))))))))
| InqBuffer ->
  S (S (S (S (S (S (S (S (S (S (S (S (S (S (S (S (S (S (S (S (S (S (S (S (S
    (S (S (S (S (S (S (S (S (S (S (S (S (S (S (S (S (S (S (S (S (S (S (S (S
    (S (S (S (S (S (S (S
    O)))))))))))))))))))))))))))))))))))))))))))))))))))))))
| FillVarRec ->
  S (S (S (S (S (S (S (S (S (S (S (S (S (S (S (S (S (S (S (S (S (S (S (S (S
    (S (S (S (S (S (S (S (S (S (S (S (S (S (S (S (S (S (S (S (S (S (S (S (S
    (S (S (S (S (S (S (S (S
    O))))))))))))))))))))))))))))))))))))))))))))))))))))))))
| Inq ->
  S (S (S (S (S (S (S (S (S (S (S (S (S (S (S (S (S (S (S (S (S (S (S (S (S
    (S (S (S (S (S (S (S (S (S (S (S (S (S (S (S (S (S (S (S (S (S (S (S (S
    (S (S (S (S (S (S (S (S (S
    O)))))))))))))))))))))))))))))))))))))))))))))))))))))))))

(** val call_of_code : nat -> call option **)

let call_of_code n0 =
  find (fun c -> Nat.eqb (call_code c) n0) all_calls

(** val core_sig : core -> (z * z) * z **)

let core_sig = function
| CClosed -> (((Zneg XH), (Zneg XH)), (Zneg XH))
| COpen o ->
  ((o.dflag, o.nflags),
    (Z.add
      (Z.add (if o.old then Zpos (XO (XO XH)) else Z0)
        (if o.nrecv then Zpos (XO XH) else Z0))
      (if o.hasrec then Zpos XH else Z0)))

type obs = { o_rc : z; o_spec : z; o_sig : ((z * z) * z); o_nreq : z;
             o_abuf : z }

(** val run_codes : state -> nat list -> obs option list **)

let rec run_codes st = function
| [] -> []
| n0 :: r ->
  (match call_of_code n0 with
   | Some c ->
     let (st', rc) = step st c in
     (Some { o_rc = rc; o_spec = (spec_err st.co (view_aux st.ax) c); o_sig =
     (core_sig st'.co); o_nreq =
     (Z.of_nat (add (add st'.ax.a_put st'.ax.a_get) st'.ax.a_bput)); o_abuf =
     (if st'.ax.a_abuf then Zpos XH else Z0) }) :: (run_codes st' r)
   | None -> None :: (run_codes st r))
