(* Properties_C20.v — statements only: each property theorem is stated in full and closed by
   `exact <lemma>`; the lemmas live in the Proofs_*.v files.  Assembled by tools/mkprops.py. *)
(* C20 Offline utilities agree with the library and the format (spec level: the ORACLE the utilities are *)
(* validated against).  HeaderSpec.decode is the grammar decoder written from the format BNF; strict_valid / *)
(* layout_ok are the format predicates; Logical.logical_content reads a file's logical content (dims, attributes, *)
(* variables with their element byte strings, format version); logical_eq is its boolean equality; *)
(* encode_with_layout re-encodes a content with a FREE layout (header free space, gaps, junk bytes). *)
(* The utilities themselves (separate C programs) are not modelled: checks/C20.py validates them differentially *)
(* against the extraction of these definitions. *)
From Pnc Require Import Proofs_Header.
From Pnc Require Import Proofs_Logical.
Set Printing Width 100.

(* every header the library model writes decodes by the grammar and is strictly valid ("validator accepts") *)
Theorem C20_written_files_strict_valid :
  forall (h : Header.hdr) (rest : list Base.byte),
         wf_hdr h = true ->
         dimids_ok h = true ->
         unlim_ok h = true ->
         vsize_ok h = true ->
         exists d : HeaderSpec.decoded,
           HeaderSpec.decode (Header.encode_header h ++ rest) = Some d /\
           HeaderSpec.strict_valid d = true /\
           HeaderSpec.dc_hdr d = hdr_content h /\
           HeaderSpec.dc_len d = Base.Zlen (Header.encode_header h).
Proof. exact @written_files_strict_valid. Qed.
Print Assumptions C20_written_files_strict_valid.

(* decode after encode is the identity on contents, for every layout choice (dump/regenerate identity) *)
Theorem C20_dump_regen_identity :
  forall (c : Logical.logical) (lc : Logical.layout_choice),
         wf_content c ->
         layout_fits c lc -> Logical.logical_content (Logical.encode_with_layout c lc) = Some c.
Proof. exact @dump_regen_identity. Qed.
Print Assumptions C20_dump_regen_identity.

(* the same content at different offsets / with junk in the free space decodes to logical_eq contents *)
Theorem C20_logical_eq_layout_invariant :
  forall (c : Logical.logical) (lc1 lc2 : Logical.layout_choice),
         wf_content c ->
         layout_fits c lc1 ->
         layout_fits c lc2 ->
         exists a b : Logical.logical,
           Logical.logical_content (Logical.encode_with_layout c lc1) = Some a /\
           Logical.logical_content (Logical.encode_with_layout c lc2) = Some b /\
           Logical.logical_eq a b = true.
Proof. exact @logical_eq_layout_invariant. Qed.
Print Assumptions C20_logical_eq_layout_invariant.

(* two files (any layouts) are logical_eq exactly when their contents are equal *)
Theorem C20_files_logical_eq_iff :
  forall (c c' : Logical.logical) (lc lc' : Logical.layout_choice),
         wf_content c ->
         wf_content c' ->
         layout_fits c lc ->
         layout_fits c' lc' ->
         exists a b : Logical.logical,
           Logical.logical_content (Logical.encode_with_layout c lc) = Some a /\
           Logical.logical_content (Logical.encode_with_layout c' lc') = Some b /\
           (Logical.logical_eq a b = true <-> c = c').
Proof. exact @files_logical_eq_iff. Qed.
Print Assumptions C20_files_logical_eq_iff.

(* logical_eq is the boolean reflection of equality of contents *)
Theorem C20_logical_eq_true_iff :
  forall a b : Logical.logical, Logical.logical_eq a b = true <-> a = b.
Proof. exact @logical_eq_true_iff. Qed.
Print Assumptions C20_logical_eq_true_iff.

(* content_eq ignores only the format version *)
Theorem C20_content_eq_true_iff :
  forall a b : Logical.logical,
         Logical.content_eq a b = true <->
         Logical.set_format a BinNums.Z0 = Logical.set_format b BinNums.Z0.
Proof. exact @content_eq_true_iff. Qed.
Print Assumptions C20_content_eq_true_iff.

(* reflexive, symmetric, transitive *)
Theorem C20_logical_eq_equiv :
  (forall a : Logical.logical, Logical.logical_eq a a = true) /\
         (forall a b : Logical.logical, Logical.logical_eq a b = Logical.logical_eq b a) /\
         (forall a b c : Logical.logical,
          Logical.logical_eq a b = true ->
          Logical.logical_eq b c = true -> Logical.logical_eq a c = true).
Proof. exact @logical_eq_equiv. Qed.
Print Assumptions C20_logical_eq_equiv.

(* one value byte / attribute byte / name / dimension length / numrecs / format version changed => not logical_eq *)
Theorem C20_logical_eq_detects_single_edit :
  forall c : Logical.logical,
         (forall (i k j : BinNums.Z) (b : Base.byte),
          BinInt.Z.le BinNums.Z0 i /\ BinInt.Z.lt i (Base.Zlen (Logical.lg_vars c)) ->
          BinInt.Z.le BinNums.Z0 k /\
          BinInt.Z.lt k (Base.Zlen (Logical.lv_data (Base.znth (Logical.lg_vars c) i Logical.dlv))) ->
          BinInt.Z.le BinNums.Z0 j /\
          BinInt.Z.lt j
            (Base.Zlen
               (Base.znth (Logical.lv_data (Base.znth (Logical.lg_vars c) i Logical.dlv)) k nil)) ->
          b <>
          Base.znth (Base.znth (Logical.lv_data (Base.znth (Logical.lg_vars c) i Logical.dlv)) k nil)
            j BinNums.Z0 -> Logical.logical_eq c (Logical.edit_value c i k j b) = false) /\
         (forall (i j : BinNums.Z) (b : Base.byte),
          BinInt.Z.le BinNums.Z0 i /\ BinInt.Z.lt i (Base.Zlen (Logical.lg_gatts c)) ->
          BinInt.Z.le BinNums.Z0 j /\
          BinInt.Z.lt j (Base.Zlen (Header.a_data (Base.znth (Logical.lg_gatts c) i Logical.datt))) ->
          b <> Base.znth (Header.a_data (Base.znth (Logical.lg_gatts c) i Logical.datt)) j BinNums.Z0 ->
          Logical.logical_eq c (Logical.edit_gatt_value c i j b) = false) /\
         (forall (i a j : BinNums.Z) (b : Base.byte),
          BinInt.Z.le BinNums.Z0 i /\ BinInt.Z.lt i (Base.Zlen (Logical.lg_vars c)) ->
          BinInt.Z.le BinNums.Z0 a /\
          BinInt.Z.lt a (Base.Zlen (Logical.lv_atts (Base.znth (Logical.lg_vars c) i Logical.dlv))) ->
          BinInt.Z.le BinNums.Z0 j /\
          BinInt.Z.lt j
            (Base.Zlen
               (Header.a_data
                  (Base.znth (Logical.lv_atts (Base.znth (Logical.lg_vars c) i Logical.dlv)) a
                     Logical.datt))) ->
          b <>
          Base.znth
            (Header.a_data
               (Base.znth (Logical.lv_atts (Base.znth (Logical.lg_vars c) i Logical.dlv)) a
                  Logical.datt)) j BinNums.Z0 ->
          Logical.logical_eq c (Logical.edit_vatt_value c i a j b) = false) /\
         (forall (i : BinNums.Z) (n : list Base.byte),
          BinInt.Z.le BinNums.Z0 i /\ BinInt.Z.lt i (Base.Zlen (Logical.lg_vars c)) ->
          n <> Logical.lv_name (Base.znth (Logical.lg_vars c) i Logical.dlv) ->
          Logical.logical_eq c (Logical.edit_var_name c i n) = false) /\
         (forall (i : BinNums.Z) (n : list Base.byte),
          BinInt.Z.le BinNums.Z0 i /\ BinInt.Z.lt i (Base.Zlen (Logical.lg_dims c)) ->
          n <> Header.d_name (Base.znth (Logical.lg_dims c) i Logical.ddim) ->
          Logical.logical_eq c (Logical.edit_dim_name c i n) = false) /\
         (forall (i : BinNums.Z) (n : list Base.byte),
          BinInt.Z.le BinNums.Z0 i /\ BinInt.Z.lt i (Base.Zlen (Logical.lg_gatts c)) ->
          n <> Header.a_name (Base.znth (Logical.lg_gatts c) i Logical.datt) ->
          Logical.logical_eq c (Logical.edit_gatt_name c i n) = false) /\
         (forall (i n : BinNums.Z) (vs' : list Logical.lvar),
          BinInt.Z.le BinNums.Z0 i /\ BinInt.Z.lt i (Base.Zlen (Logical.lg_dims c)) ->
          n <> Header.d_size (Base.znth (Logical.lg_dims c) i Logical.ddim) ->
          Logical.logical_eq c (Logical.edit_dim_len c i n vs') = false) /\
         (forall n : BinNums.Z,
          n <> Logical.lg_numrecs c -> Logical.logical_eq c (Logical.set_numrecs_l c n) = false) /\
         (forall f : BinNums.Z,
          f <> Logical.lg_format c ->
          Logical.logical_eq c (Logical.set_format c f) = false /\
          Logical.content_eq c (Logical.set_format c f) = true).
Proof. exact @logical_eq_detects_single_edit. Qed.
Print Assumptions C20_logical_eq_detects_single_edit.

(* a free-layout encoding with 4-byte aligned gaps is a VALID file (strict_valid and layout_ok), provided record *)
(* packing applies to a single record variable only (packed_alone) *)
Theorem C20_encode_with_layout_valid_partial :
  forall (c : Logical.logical) (lc : Logical.layout_choice),
         wf_content c ->
         layout_fits c lc ->
         content_strict c ->
         gaps_aligned c lc ->
         packed_alone c -> Logical.file_valid (Logical.encode_with_layout c lc) = true.
Proof. exact @encode_with_layout_valid_partial. Qed.
Print Assumptions C20_encode_with_layout_valid_partial.

(* without packed_alone the statement is refuted (witness: a zero-size second record variable, excluded by the *)
(* library, lands at an unaligned begin) *)
Theorem C20_encode_with_layout_valid_refuted :
  ~ encode_with_layout_valid_full.
Proof. exact @encode_with_layout_valid_refuted. Qed.
Print Assumptions C20_encode_with_layout_valid_refuted.
