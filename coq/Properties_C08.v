(* Properties_C08.v — statements only: each property theorem is stated in full and closed by
   `exact <lemma>`; the lemmas live in the Proofs_*.v files.  Assembled by tools/mkprops.py. *)
(* C08 Collective calls match on all ranks: no deadlock, errors stay local. *)
(* Model: Collective.v (exec = per-rank sequence of MPI collective call sites + outcome of one API call). *)
(* sites_*: the model's site enumeration equals the call-site list generated from the sources as built. *)
(* norm_class: the observable sequence of a rank depends on its own arguments only through sync_class. *)
(* collective_match_full (all assignments) is REFUTED by F4 and further witnesses; _partial = assignments *)
(* whose sync_class agree; match_* = API families for which every assignment qualifies. *)
(* errors_stay_local_full REFUTED (wait_all with an invalid request id elsewhere), _partial otherwise. *)
(* safe_mode_uniform_full REFUTED (fill_var_rec keeps its own error), _partial for `return minE` blocks. *)
From Coq Require Import ZArith List.
From Pnc Require Import Proofs_Collective.
Set Printing Width 100.
Set Printing Depth 100000.

Theorem C08_sites_enumerated :
  Collective.model_sites = Collective.sort3 Gen_collsites.gen_sites.
Proof. exact @sites_enumerated. Qed.
Print Assumptions C08_sites_enumerated.

Theorem C08_generated_sites_sorted :
  Collective.sort3 Gen_collsites.gen_sites = Gen_collsites.gen_sites.
Proof. exact @gen_sites_sorted. Qed.
Print Assumptions C08_generated_sites_sorted.

Theorem C08_sites_counts :
  length Gen_collsites.gen_sites = Gen_collsites.gen_nsites /\
         length Collective.all_sites = Gen_collsites.gen_nsites.
Proof. exact @gen_sites_count. Qed.
Print Assumptions C08_sites_counts.

Theorem C08_model_sites_complete :
  forall s : Collective.site, In s Collective.all_sites.
Proof. exact @all_sites_complete. Qed.
Print Assumptions C08_model_sites_complete.

Theorem C08_model_sites_nodup :
  NoDup Collective.all_sites.
Proof. exact @all_sites_nodup. Qed.
Print Assumptions C08_model_sites_nodup.

Theorem C08_generated_codes :
  (Gen_collsites.NC_EMULTIDEFINE_FNC_ARGS < 0)%Z /\
         (Gen_collsites.NC_EMULTIDEFINE_CMODE < 0)%Z /\
         (Gen_collsites.NC_EMULTIDEFINE_OMODE < 0)%Z /\
         (Gen_collsites.NC_EMULTIDEFINE_FILL_MODE < 0)%Z /\
         (Gen_collsites.NC_EMULTIDEFINE_VAR_FILL_VALUE < 0)%Z /\
         (Gen_consts.NC_ENOTFILL < 0)%Z /\
         (Gen_consts.NC_ENOTRECVAR < 0)%Z /\
         (Gen_consts.NC_EINVAL_REQUEST < 0)%Z /\ (Gen_consts.NC_EPENDING < 0)%Z.
Proof. exact @gen_codes_negative. Qed.
Print Assumptions C08_generated_codes.

Theorem C08_trace_depends_only_on_sync_class :
  forall (c : Collective.cfg) (sh : Collective.shared) (a : Collective.api)
           (g : Collective.gsum) (r1 r2 : bool) (l1 l2 : Collective.local),
         Collective.admissible a l1 = true ->
         Collective.admissible a l2 = true ->
         Collective.wf_local l1 = true ->
         Collective.wf_local l2 = true ->
         Collective.sync_class c sh a l1 = Collective.sync_class c sh a l2 ->
         Collective.norm (Collective.ctrace c sh a g r1 l1) =
         Collective.norm (Collective.ctrace c sh a g r2 l2).
Proof. exact @norm_class. Qed.
Print Assumptions C08_trace_depends_only_on_sync_class.

Theorem C08_verdict_is_the_proposition :
  forall ts : list Collective.trace, Collective.traces_match ts = true <-> all_match ts.
Proof. exact @traces_match_spec. Qed.
Print Assumptions C08_verdict_is_the_proposition.

Theorem C08_collective_match_partial :
  forall (c : Collective.cfg) (sh : Collective.shared) (a : Collective.api)
           (ls : list Collective.local),
         ranks_ok a ls ->
         (forall l1 l2 : Collective.local,
          In l1 ls -> In l2 ls -> Collective.sync_class c sh a l1 = Collective.sync_class c sh a l2) ->
         all_match (traces c sh a ls).
Proof. exact @collective_match_partial. Qed.
Print Assumptions C08_collective_match_partial.

Theorem C08_collective_match_partial_nonvacuous :
  let ls :=
           req_ok Collective.VFixed 2
           :: req_zero Collective.VFixed
              :: req_bad Gen_consts.NC_EINVALCOORDS Collective.VFixed :: nil in
         ranks_ok (Collective.A_getput false Collective.AK_vara) ls /\
         (forall l1 l2 : Collective.local,
          In l1 ls ->
          In l2 ls ->
          Collective.sync_class (cfg0 3) sh_data (Collective.A_getput false Collective.AK_vara) l1 =
          Collective.sync_class (cfg0 3) sh_data (Collective.A_getput false Collective.AK_vara) l2) /\
         traces (cfg0 3) sh_data (Collective.A_getput false Collective.AK_vara) ls <>
         nil :: nil :: nil :: nil.
Proof. exact @collective_match_partial_nonvacuous. Qed.
Print Assumptions C08_collective_match_partial_nonvacuous.

Theorem C08_collective_match_refuted :
  ~ collective_match_full.
Proof. exact @collective_match_refuted. Qed.
Print Assumptions C08_collective_match_refuted.

Theorem C08_match_get :
  forall (c : Collective.cfg) (sh : Collective.shared) (k : Collective.akind)
           (ls : list Collective.local),
         ranks_ok (Collective.A_getput true k) ls ->
         all_match (traces c sh (Collective.A_getput true k) ls).
Proof. exact @match_get. Qed.
Print Assumptions C08_match_get.

Theorem C08_match_get_vard :
  forall (c : Collective.cfg) (sh : Collective.shared) (ls : list Collective.local),
         ranks_ok (Collective.A_vard true) ls -> all_match (traces c sh (Collective.A_vard true) ls).
Proof. exact @match_get_vard. Qed.
Print Assumptions C08_match_get_vard.

Theorem C08_match_wait_all :
  forall (c : Collective.cfg) (sh : Collective.shared) (ls : list Collective.local),
         ranks_ok Collective.A_wait_all ls -> all_match (traces c sh Collective.A_wait_all ls).
Proof. exact @match_wait_all. Qed.
Print Assumptions C08_match_wait_all.

Theorem C08_match_mput_mget :
  forall (c : Collective.cfg) (sh : Collective.shared) (isget : bool)
           (ls : list Collective.local),
         ranks_ok (Collective.A_mgetput isget) ls ->
         all_match (traces c sh (Collective.A_mgetput isget) ls).
Proof. exact @match_mgetput. Qed.
Print Assumptions C08_match_mput_mget.

Theorem C08_match_put_fixed :
  forall (c : Collective.cfg) (sh : Collective.shared) (k : Collective.akind)
           (ls : list Collective.local),
         ranks_ok (Collective.A_getput false k) ls ->
         no_record ls -> all_match (traces c sh (Collective.A_getput false k) ls).
Proof. exact @match_put_fixed. Qed.
Print Assumptions C08_match_put_fixed.

Theorem C08_match_put_vard_fixed :
  forall (c : Collective.cfg) (sh : Collective.shared) (ls : list Collective.local),
         ranks_ok (Collective.A_vard false) ls ->
         no_record ls -> all_match (traces c sh (Collective.A_vard false) ls).
Proof. exact @match_put_vard_fixed. Qed.
Print Assumptions C08_match_put_vard_fixed.

Theorem C08_match_put_record_valid :
  forall (sh : Collective.shared) (k : Collective.akind) (ls : list Collective.local) (np : Z),
         ranks_ok (Collective.A_getput false k) ls ->
         all_record_noerr ls ->
         Collective.state_err sh true = 0%Z ->
         all_match (traces (cfg0 np) sh (Collective.A_getput false k) ls).
Proof. exact @match_put_record_valid. Qed.
Print Assumptions C08_match_put_record_valid.

Theorem C08_match_varn_nonscalar :
  forall (c : Collective.cfg) (sh : Collective.shared) (isget : bool)
           (ls : list Collective.local),
         ranks_ok (Collective.A_varn isget) ls ->
         no_scalar_path ls -> all_match (traces c sh (Collective.A_varn isget) ls).
Proof. exact @match_varn_nonscalar. Qed.
Print Assumptions C08_match_varn_nonscalar.

Theorem C08_match_calls_without_arguments :
  forall (c : Collective.cfg) (sh : Collective.shared) (a : Collective.api)
           (ls : list Collective.local),
         match a with
         | Collective.A_enddef | Collective.A_redef | Collective.A_begin_indep |
           Collective.A_end_indep | Collective.A_sync | Collective.A_sync_numrecs |
           Collective.A_close | Collective.A_abort => True
         | _ => False
         end -> ranks_ok a ls -> all_match (traces c sh a ls).
Proof. exact @match_noarg. Qed.
Print Assumptions C08_match_calls_without_arguments.

Theorem C08_match_fill_var_rec_safe_mode :
  forall (c : Collective.cfg) (sh : Collective.shared) (ls : list Collective.local),
         Collective.c_safe c = true ->
         ranks_ok Collective.A_fill_var_rec ls ->
         all_match (traces c sh Collective.A_fill_var_rec ls).
Proof. exact @match_fill_safe. Qed.
Print Assumptions C08_match_fill_var_rec_safe_mode.

Theorem C08_match_metadata_safe_mode :
  forall (c : Collective.cfg) (sh : Collective.shared) (m : Collective.metaapi)
           (ls : list Collective.local),
         Collective.c_safe c = true ->
         ranks_ok (Collective.A_meta m) ls ->
         no_e0 ls -> all_match (traces c sh (Collective.A_meta m) ls).
Proof. exact @match_meta_safe. Qed.
Print Assumptions C08_match_metadata_safe_mode.

Theorem C08_match_metadata_independent_header :
  forall (c : Collective.cfg) (sh : Collective.shared) (m : Collective.metaapi)
           (ls : list Collective.local),
         Collective.c_safe c = false ->
         Collective.c_hcoll c = false ->
         ranks_ok (Collective.A_meta m) ls -> all_match (traces c sh (Collective.A_meta m) ls).
Proof. exact @match_meta_indep_header. Qed.
Print Assumptions C08_match_metadata_independent_header.

Theorem C08_match__enddef_safe_mode :
  forall (c : Collective.cfg) (sh : Collective.shared) (ls : list Collective.local),
         Collective.c_safe c = true ->
         ranks_ok Collective.A__enddef ls -> all_match (traces c sh Collective.A__enddef ls).
Proof. exact @match__enddef_safe. Qed.
Print Assumptions C08_match__enddef_safe_mode.

Theorem C08_match_create_open :
  forall (c : Collective.cfg) (sh : Collective.shared) (a : Collective.api)
           (ls : list Collective.local),
         a = Collective.A_create \/ a = Collective.A_open ->
         ranks_ok a ls -> no_e0 ls -> all_match (traces c sh a ls).
Proof. exact @match_create_open. Qed.
Print Assumptions C08_match_create_open.

Theorem C08_refuted_mixed_kinds :
  refutes (cfg0 2) sh_data (Collective.A_getput false Collective.AK_vara)
           (req_ok Collective.VRecord 3 :: req_ok Collective.VFixed 2 :: nil).
Proof. exact @refuted_mixed_kinds. Qed.
Print Assumptions C08_refuted_mixed_kinds.

Theorem C08_refuted_mixed_kinds_safe_mode :
  refutes
           {|
             Collective.c_safe := true;
             Collective.c_hcoll := false;
             Collective.c_aggr := false;
             Collective.c_dup := false;
             Collective.c_nprocs := 2;
             Collective.c_move_unit := 0
           |} sh_data (Collective.A_getput false Collective.AK_vara)
           (req_ok Collective.VRecord 3 :: req_ok Collective.VFixed 2 :: nil).
Proof. exact @refuted_mixed_kinds_safe. Qed.
Print Assumptions C08_refuted_mixed_kinds_safe_mode.

Theorem C08_refuted_varn_scalar :
  refutes (cfg0 2) sh_data (Collective.A_varn false)
           (req_ok Collective.VScalar 2
            :: Collective.LReq
                 {|
                   Collective.d_err := 0;
                   Collective.d_sanity := false;
                   Collective.d_vk := Collective.VFixed;
                   Collective.d_nonzero := false;
                   Collective.d_drv_err := 0;
                   Collective.d_contig := false;
                   Collective.d_newrec := 2;
                   Collective.d_num0 := true;
                   Collective.d_nreq := 1
                 |} :: nil).
Proof. exact @refuted_varn_scalar. Qed.
Print Assumptions C08_refuted_varn_scalar.

Theorem C08_refuted_varn_scalar_num0 :
  refutes (cfg0 2) sh_data (Collective.A_varn false)
           (req_ok Collective.VScalar 2
            :: Collective.LReq
                 {|
                   Collective.d_err := 0;
                   Collective.d_sanity := false;
                   Collective.d_vk := Collective.VScalar;
                   Collective.d_nonzero := false;
                   Collective.d_drv_err := 0;
                   Collective.d_contig := false;
                   Collective.d_newrec := 2;
                   Collective.d_num0 := true;
                   Collective.d_nreq := 1
                 |} :: nil).
Proof. exact @refuted_varn_scalar_num0. Qed.
Print Assumptions C08_refuted_varn_scalar_num0.

Theorem C08_refuted_put_vard :
  refutes (cfg0 2) sh_data (Collective.A_vard false)
           (req_ok Collective.VRecord 3
            :: Collective.LReq
                 {|
                   Collective.d_err := Gen_consts.NC_ENOTVAR;
                   Collective.d_sanity := true;
                   Collective.d_vk := Collective.VFixed;
                   Collective.d_nonzero := true;
                   Collective.d_drv_err := 0;
                   Collective.d_contig := true;
                   Collective.d_newrec := 2;
                   Collective.d_num0 := false;
                   Collective.d_nreq := 1
                 |} :: nil).
Proof. exact @refuted_vard. Qed.
Print Assumptions C08_refuted_put_vard.

Theorem C08_refuted_fill_var_rec :
  refutes (cfg0 2) sh_data Collective.A_fill_var_rec
           (Collective.LFill
              {|
                Collective.f_global := false;
                Collective.f_valid := true;
                Collective.f_isrec := true;
                Collective.f_nofill := false;
                Collective.f_recno := 2;
                Collective.f_same := true
              |}
            :: Collective.LFill
                 {|
                   Collective.f_global := false;
                   Collective.f_valid := true;
                   Collective.f_isrec := true;
                   Collective.f_nofill := true;
                   Collective.f_recno := 2;
                   Collective.f_same := false
                 |} :: nil).
Proof. exact @refuted_fill_var_rec. Qed.
Print Assumptions C08_refuted_fill_var_rec.

Theorem C08_refuted_rename_collective_header :
  refutes
           {|
             Collective.c_safe := false;
             Collective.c_hcoll := true;
             Collective.c_aggr := false;
             Collective.c_dup := false;
             Collective.c_nprocs := 2;
             Collective.c_move_unit := 0
           |} sh_data (Collective.A_meta Collective.M_rename_var)
           (Collective.LMeta
              {|
                Collective.m_e0 := 0;
                Collective.m_e1 := 0;
                Collective.m_e2 := 0;
                Collective.m_e3 := 0
              |}
            :: Collective.LMeta
                 {|
                   Collective.m_e0 := 0;
                   Collective.m_e1 := Gen_consts.NC_ENOTVAR;
                   Collective.m_e2 := 0;
                   Collective.m_e3 := 0
                 |} :: nil).
Proof. exact @refuted_rename_hcoll. Qed.
Print Assumptions C08_refuted_rename_collective_header.

Theorem C08_refuted__enddef_collective_header :
  refutes
           {|
             Collective.c_safe := false;
             Collective.c_hcoll := true;
             Collective.c_aggr := false;
             Collective.c_dup := false;
             Collective.c_nprocs := 2;
             Collective.c_move_unit := 0
           |} sh_define Collective.A__enddef
           (Collective.LMeta
              {|
                Collective.m_e0 := 0;
                Collective.m_e1 := 0;
                Collective.m_e2 := 0;
                Collective.m_e3 := 0
              |}
            :: Collective.LMeta
                 {|
                   Collective.m_e0 := 0;
                   Collective.m_e1 := Gen_consts.NC_EINVAL;
                   Collective.m_e2 := 0;
                   Collective.m_e3 := 0
                 |} :: nil).
Proof. exact @refuted__enddef_hcoll. Qed.
Print Assumptions C08_refuted__enddef_collective_header.

Theorem C08_refutes_full :
  forall (c : Collective.cfg) (sh : Collective.shared) (a : Collective.api)
           (ls : list Collective.local), refutes c sh a ls -> ~ collective_match_full.
Proof. exact @refutes_full. Qed.
Print Assumptions C08_refutes_full.

Theorem C08_collective_match_strict_refuted :
  exists
           (c : Collective.cfg) (sh : Collective.shared) (a : Collective.api) 
         (ls : list Collective.local),
           ranks_ok a ls /\
           Collective.traces_match_strict (traces c sh a ls) = false /\
           Collective.traces_match (traces c sh a ls) = true.
Proof. exact @collective_match_strict_refuted. Qed.
Print Assumptions C08_collective_match_strict_refuted.

Theorem C08_errors_stay_local_partial :
  forall (c : Collective.cfg) (sh : Collective.shared) (a : Collective.api)
           (ls : list Collective.local) (i : nat) (l : Collective.local),
         data_api a = true ->
         Collective.c_safe c = false ->
         Collective.multi c = true ->
         state_ok sh ->
         ranks_ok a ls ->
         no_bad_request_id ls ->
         nth_error ls i = Some l ->
         valid_local l ->
         exists st : bool,
           Collective.cret c sh a (Collective.gsum_ranks sh a ls) (i =? 0) l = Collective.Ret 0 st /\
           (wants a l = true -> st = true).
Proof. exact @errors_stay_local_partial. Qed.
Print Assumptions C08_errors_stay_local_partial.

Theorem C08_errors_stay_local_nonvacuous :
  exists st : bool,
           Collective.cret (cfg0 2) sh_data (Collective.A_getput false Collective.AK_vara)
             (Collective.gsum_ranks sh_data (Collective.A_getput false Collective.AK_vara) F4_witness)
             true (req_ok Collective.VRecord 3) = Collective.Ret 0 st /\ 
           st = true.
Proof. exact @errors_stay_local_nonvacuous. Qed.
Print Assumptions C08_errors_stay_local_nonvacuous.

Theorem C08_errors_stay_local_refuted :
  ~ errors_stay_local_full.
Proof. exact @errors_stay_local_refuted. Qed.
Print Assumptions C08_errors_stay_local_refuted.

Theorem C08_safe_mode_uniform_partial :
  forall (c : Collective.cfg) (sh : Collective.shared) (a : Collective.api)
           (ls : list Collective.local),
         Collective.c_safe c = true ->
         returns_min a = true ->
         ranks_ok a ls ->
         no_e0 ls ->
         forall o1 o2 : Collective.outcome,
         In o1 (rets c sh a ls) -> In o2 (rets c sh a ls) -> rc_of o1 = rc_of o2.
Proof. exact @safe_mode_uniform_partial. Qed.
Print Assumptions C08_safe_mode_uniform_partial.

Theorem C08_safe_mode_uniform_nonvacuous :
  let c :=
           {|
             Collective.c_safe := true;
             Collective.c_hcoll := false;
             Collective.c_aggr := false;
             Collective.c_dup := false;
             Collective.c_nprocs := 3;
             Collective.c_move_unit := 0
           |} in
         let ls :=
           Collective.LMeta
             {|
               Collective.m_e0 := 0; Collective.m_e1 := 0; Collective.m_e2 := 0; Collective.m_e3 := 0
             |}
           :: Collective.LMeta
                {|
                  Collective.m_e0 := 0;
                  Collective.m_e1 := 0;
                  Collective.m_e2 := -256;
                  Collective.m_e3 := 0
                |}
              :: Collective.LMeta
                   {|
                     Collective.m_e0 := 0;
                     Collective.m_e1 := 0;
                     Collective.m_e2 := Gen_collsites.NC_EMULTIDEFINE_FNC_ARGS;
                     Collective.m_e3 := 0
                   |} :: nil in
         returns_min (Collective.A_meta Collective.M_rename_var) = true /\
         ranks_ok (Collective.A_meta Collective.M_rename_var) ls /\
         no_e0 ls /\
         map rc_of (rets c sh_data (Collective.A_meta Collective.M_rename_var) ls) =
         Some Gen_collsites.NC_EMULTIDEFINE_FNC_ARGS
         :: Some Gen_collsites.NC_EMULTIDEFINE_FNC_ARGS
            :: Some Gen_collsites.NC_EMULTIDEFINE_FNC_ARGS :: nil.
Proof. exact @safe_mode_uniform_nonvacuous. Qed.
Print Assumptions C08_safe_mode_uniform_nonvacuous.

Theorem C08_safe_mode_uniform_refuted :
  ~ safe_mode_uniform_full.
Proof. exact @safe_mode_uniform_refuted. Qed.
Print Assumptions C08_safe_mode_uniform_refuted.

Theorem C08_safe_mode_data_errors_uniform :
  forall (c : Collective.cfg) (sh : Collective.shared) (a : Collective.api)
           (g : Collective.gsum) (r : bool) (l : Collective.local),
         Collective.c_safe c = true ->
         Collective.multi c = true ->
         match a with
         | Collective.A_getput _ _ | Collective.A_varn _ | Collective.A_vard _ |
           Collective.A_mgetput _ => True
         | _ => False
         end ->
         Collective.admissible a l = true ->
         Collective.g_min1 g <> 0%Z ->
         Collective.cret c sh a g r l = Collective.Ret (Collective.g_min1 g) false.
Proof. exact @safe_mode_data_errors_uniform. Qed.
Print Assumptions C08_safe_mode_data_errors_uniform.

Theorem C08_never_crashes :
  forall (c : Collective.cfg) (sh : Collective.shared) (a : Collective.api)
           (g : Collective.gsum) (r : bool) (l : Collective.local),
         Collective.cret c sh a g r l <> Collective.Crash.
Proof. exact @never_crashes. Qed.
Print Assumptions C08_never_crashes.

Theorem C08_fill_block_spec :
  forall sh : Collective.shared,
         Collective.fill_new sh =
         (if
           ((0 <? Collective.s_nvars sh)%Z && (0 <? Collective.fill_nvars sh)%Z &&
            (0 <? Collective.fill_j sh)%Z)%bool
          then
           (Collective.S_fillerup_aggregate_SV1, Collective.TFhColl)
           :: (Collective.S_fillerup_aggregate_WAA1, Collective.TFhColl)
              :: (Collective.S_fillerup_aggregate_SV2, Collective.TFhColl) :: nil
          else nil).
Proof. exact @fill_block_spec. Qed.
Print Assumptions C08_fill_block_spec.

Theorem C08_fill_no_segment_no_data :
  forall (np rank : Z) (sh : Collective.shared),
         (0 <= Collective.fill_old_numrecs sh)%Z ->
         Collective.fill_j sh = 0%Z -> Collective.fill_buf_len np rank sh = 0%Z.
Proof. exact @fill_no_segment_no_data. Qed.
Print Assumptions C08_fill_no_segment_no_data.

Theorem C08_fill_exit_on_own_amount_would_mismatch :
  exists (np : Z) (sh : Collective.shared) (r1 r2 : Z),
           (0 <= r1 < np)%Z /\
           (0 <= r2 < np)%Z /\
           (0 < Collective.fill_j sh)%Z /\
           Collective.fill_buf_len np r1 sh = 0%Z /\ (0 < Collective.fill_buf_len np r2 sh)%Z.
Proof. exact @fill_exit_on_own_amount_would_mismatch. Qed.
Print Assumptions C08_fill_exit_on_own_amount_would_mismatch.

Theorem C08_match_enddef_fill :
  forall (c : Collective.cfg) (sh : Collective.shared) (ls : list Collective.local),
         ranks_ok Collective.A_enddef ls -> all_match (traces c sh Collective.A_enddef ls).
Proof. exact @match_enddef_fill. Qed.
Print Assumptions C08_match_enddef_fill.
