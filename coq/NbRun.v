(* NbRun.v — interpreter that runs a pnc_impl script (harness/SCRIPT.md: iput/iget/bput with request
   SLOTS, wait/wait_all/cancel, attach/detach/inq_buffer, inq_nreqs, blocking put/get, snapshot, close)
   on the model of Nonblocking.v / Abuf.v and lists what the harness would log.  Glue for the
   correspondence check of C02/C13 (checks/C02.py, pnc/nb_gen.py); executable, no proofs.
   Blocking put/get lines of a script are executed by the SPEC (row-major offsets of Access.v). *)
From Pnc Require Export Nonblocking.
Require Import Coq.FSets.FMapPositive.
Local Open Scope Z_scope.

(* interpreter speed only: the file of the world is always a table (balanced map) of the bytes written so
   far; after an operation the bytes it may have written are re-read through the chain of its writes
   and stored in the table, so that reading a byte never walks the writes of earlier operations *)
Definition fmap := PositiveMap.t byte.
Definition map_disk (lo : Z) (m : fmap) : disk :=
  mkdisk true 0 (fun x => if x <? lo then UNDEF
                          else match PositiveMap.find (Z.to_pos (x - lo + 1)) m with Some b => b | None => UNDEF end).
Definition retabulate (lo : Z) (m : fmap) (d : disk) (positions : list Z) : fmap :=
  fold_left (fun m x => if x <? lo then m else PositiveMap.add (Z.to_pos (x - lo + 1)) (dk_get d x) m) positions m.

(* dk_write with the same bytes, stored as a table over the previous memory *)
Definition table_write (mem : disk) (a : Z) (data : list byte) : disk :=
  let m := fold_left (fun mi b => (PositiveMap.add (Z.to_pos (snd mi + 1)) b (fst mi), snd mi + 1)) data (PositiveMap.empty byte, 0) in
  let n := snd m in
  mkdisk true 0 (fun x => if (a <=? x) && (x <? a + n)
                          then match PositiveMap.find (Z.to_pos (x - a + 1)) (fst m) with Some b => b | None => UNDEF end
                          else dk_get mem x).

Record rank_state := mkrs { rs_nb : nbstate; rs_slots : list (Z * Z) }.   (* slot -> stored request id *)
(* the tag of a request (reported in the completion events) is the script line that posted it *)
Record world := mkw { w_ranks : list rank_state; w_file : disk; w_hint : swaphint; w_fmt : Z; w_lo : Z; w_map : fmap;
                      w_fx : bool (* variant of extract_reqs found in the sources as built *) }.

Definition init_world (fx : bool) (np : Z) (h : swaphint) (fmt lo : Z) : world :=
  mkw (map (fun _ => mkrs init_state []) (zrange 0 np)) (map_disk lo (PositiveMap.empty byte)) h fmt lo (PositiveMap.empty byte) fx.

Definition get_rank (w : world) (r : Z) : rank_state := znth (w_ranks w) r (mkrs init_state []).
Definition set_rank (w : world) (r : Z) (rs : rank_state) : world :=
  mkw (zupd (w_ranks w) r rs) (w_file w) (w_hint w) (w_fmt w) (w_lo w) (w_map w) (w_fx w).
Definition set_file (w : world) (f : disk) (positions : list Z) : world :=
  let m := retabulate (w_lo w) (w_map w) f positions in
  mkw (w_ranks w) (map_disk (w_lo w) m) (w_hint w) (w_fmt w) (w_lo w) m (w_fx w).
(* every file byte a pending put request of the process addresses *)
Definition put_positions (st : nbstate) : list Z := flat_map (fun l => map fst (lead_pairs l)) (put_lead st).

Fixpoint slot_get (sl : list (Z * Z)) (s : Z) : Z :=
  match sl with [] => NC_REQ_NULL | (k, v) :: r => if k =? s then v else slot_get r s end.
Fixpoint slot_set (sl : list (Z * Z)) (s v : Z) : list (Z * Z) :=
  match sl with
  | [] => [(s, v)]
  | (k, x) :: r => if k =? s then (k, v) :: r else (k, x) :: slot_set r s v
  end.

Inductive slot_tok := SNull | SSlot (s : Z).
Inductive pform :=
| FVarm (start count : list Z) (stride : option (list Z))
| FVarn (parts : list (list Z * option (list Z))).

Inductive op :=
| OPost (ln rank : Z) (k : nkind) (g : geom) (f : pform) (xt memk : Z) (contig has_imap : bool)
        (xaddr : Z) (data : list byte) (slot : Z)
| OWait (ln : Z) (coll : bool) (args : list (Z * Z * list slot_tok))
| OCancel (ln rank n : Z) (slots : list slot_tok)
| OInqNreqs (ln rank : Z)
| OInqBuffer (ln rank : Z)
| OAttach (ln rank n : Z)
| ODetach (ln rank : Z)
| OInqNumrecs (ln rank : Z)
| OPut (ln : Z) (coll : bool) (rank : Z) (g : geom) (start count stride : list Z) (data : list byte)
| OGet (ln rank : Z) (g : geom) (start count stride : list Z)
| OSync (ln : Z)
| OClose (ln : Z)
| OSnap (ln lo hi : Z).

Definition tok_id (sl : list (Z * Z)) (t : slot_tok) : Z :=
  match t with SNull => NC_REQ_NULL | SSlot s => slot_get sl s end.
Fixpoint write_back (sl : list (Z * Z)) (toks : list slot_tok) (ids : list Z) : list (Z * Z) :=
  match toks, ids with
  | SSlot s :: r, x :: ir => write_back (slot_set sl s x) r ir
  | SNull :: r, _ :: ir => write_back sl r ir
  | _, _ => sl
  end.

Definition ev_rows (ln rank : Z) (mem : disk) (ev : list event) : list (list Z) :=
  map (fun e => match e with
                | EvSwapBack t => [4; ln; rank; t]
                | EvPutDone t => [5; ln; rank; t]
                | EvGetDone t xa nb ss => [3; ln; rank; t; match ss with Some i => i | None => -1 end] ++ dk_read mem xa nb
                | EvGetCancelled t => [12; ln; rank; t]
                end) ev.

Fixpoint interleave2 (a b : list Z) : list Z :=
  match a, b with
  | x :: ar, y :: br => x :: y :: interleave2 ar br
  | _, _ => []
  end.

Definition wait_row (code ln rank n : Z) (r : waitres) : list Z :=
  [code; ln; rank; wr_rc r; n] ++ (if n <? 0 then [] else interleave2 (wr_stat r) (wr_ids r)).

Definition mk_args (rs : rank_state) (n : Z) (toks : list slot_tok) : waitargs :=
  mkwa n (map (tok_id (rs_slots rs)) toks) true (map (fun _ => -99) toks).

(* numrecs after a blocking put of (start,count,stride) to a record variable *)
Definition put_newrecs (g : geom) (start count stride : list Z) : Z :=
  if g_isrec g && negb (zprod count =? 0) then hd 0 start + (hd 1 count - 1) * hd 1 stride + 1 else 0.

Definition step (w : world) (o : op) : world * list (list Z) :=
  match o with
  | OPost ln rank k g f xt memk contig has_imap xaddr data slot =>
      let rs := get_rank w rank in
      let nbytes := match f with
                    | FVarm _ c _ => zprod c * g_xsz g
                    | FVarn parts => zsum (map (fun p => zprod (part_count (fst p) (snd p))) parts) * g_xsz g
                    end in
      let api := match k, f with
                 | KBput, FVarm _ _ _ => PBput | KBput, FVarn _ => PBputVarn
                 | _, FVarm _ _ _ => PIput | _, FVarn _ => PIputVarn end in
      let flag := match k with
                  | KIget => false
                  | _ => put_swaps_user_buf api (need_convert (w_fmt w) xt memk) (need_swap xt memk)
                                            contig has_imap (w_hint w) nbytes
                  end in
      (* dispatcher: check_start_count_stride of a read against the CURRENT number of records *)
      let chk := fun s c t => check_scs (w_fmt w) false (g_isrec g) true API_VARS (g_shape g)
                                        (st_numrecs (rs_nb rs)) (Some s) (Some c) t in
      let argerr := match k, g_shape g with
                    | KIget, _ :: _ =>
                        match f with
                        | FVarm s c t => chk s c t
                        | FVarn parts => first_err (map (fun p => chk (fst p) (part_count (fst p) (snd p)) None) parts)
                        end
                    | _, _ => NC_NOERR
                    end in
      let '(st', id, rc) := if negb (argerr =? NC_NOERR) then (rs_nb rs, NC_REQ_NULL, argerr) else
                            match f with
                            | FVarm s c t => post_varm (rs_nb rs) k g s c t xaddr data flag ln
                            | FVarn parts => post_varn (rs_nb rs) k g parts xaddr data flag ln
                            end in
      let posted := negb (id =? NC_REQ_NULL) in
      (* speed only: keep the posted bytes in a table instead of behind a list lookup *)
      let st'' := match k with
                  | KIget => st'
                  | _ => if posted then
                           match find (fun l => l_id l =? id) (put_lead st') with
                           | Some l => set_mem st' (table_write (st_mem (rs_nb rs)) (l_xaddr l) data)
                           | None => st'
                           end
                         else st'
                  end in
      (set_rank w rank (mkrs st'' (slot_set (rs_slots rs) slot id)),
       [[1; ln; rank; rc; id; if posted && flag then 1 else 0]])
  | OWait ln coll args =>
      if coll then
        let ranks := map (fun a => fst (fst a)) args in
        let rss := map (get_rank w) ranks in
        let was := map (fun p => mk_args (fst p) (snd (fst (snd p))) (snd (snd p))) (zip rss args) in
        let '(res, file') := wait_coll_x (w_fx w) (map rs_nb rss) was (w_file w) in
        let w1 := fold_left (fun w q =>
                     let '(a, rs, r) := q in
                     set_rank w (fst (fst a)) (mkrs (wr_st r) (write_back (rs_slots rs) (snd a) (wr_ids r))))
                   (zip (zip args rss) res) w in
        (set_file w1 file' (flat_map (fun rs => put_positions (rs_nb rs)) rss),
         flat_map (fun q => let '(a, r) := q in
                            wait_row 2 ln (fst (fst a)) (snd (fst a)) r :: ev_rows ln (fst (fst a)) (st_mem (wr_st r)) (wr_ev r))
                  (zip args res))
      else
        match args with
        | (rank, n, toks) :: _ =>
            let rs := get_rank w rank in
            if n =? 0 then (w, [[2; ln; rank; NC_NOERR; 0]])
            else
              let '(r, file') := wait_one_x (w_fx w) (rs_nb rs) (mk_args rs n toks) (w_file w) in
              (set_file (set_rank w rank (mkrs (wr_st r) (write_back (rs_slots rs) toks (wr_ids r)))) file' (put_positions (rs_nb rs)),
               wait_row 2 ln rank n r :: ev_rows ln rank (st_mem (wr_st r)) (wr_ev r))
        | [] => (w, [])
        end
  | OCancel ln rank n toks =>
      let rs := get_rank w rank in
      let a := mk_args rs n toks in
      let r := cancel (rs_nb rs) n (wa_ids a) (wa_stat0 a) in
      (set_rank w rank (mkrs (wr_st r) (write_back (rs_slots rs) toks (wr_ids r))),
       wait_row 2 ln rank n r :: ev_rows ln rank (st_mem (wr_st r)) (wr_ev r))
  | OInqNreqs ln rank => (w, [[6; ln; rank; nreqs (rs_nb (get_rank w rank))]])
  | OInqBuffer ln rank =>
      (w, [match st_abuf (rs_nb (get_rank w rank)) with
           | Some a => [7; ln; rank; NC_NOERR; abuf_usage a; NC_NOERR; abuf_size a]
           | None => [7; ln; rank; NC_ENULLABUF; -99; NC_ENULLABUF; -99]
           end])
  | OAttach ln rank n =>
      let rs := get_rank w rank in
      let '(st', rc) := attach (rs_nb rs) n in
      (set_rank w rank (mkrs st' (rs_slots rs)), [[8; ln; rank; rc]])
  | ODetach ln rank =>
      let rs := get_rank w rank in
      let '(st', rc) := detach (rs_nb rs) in
      (set_rank w rank (mkrs st' (rs_slots rs)), [[8; ln; rank; rc]])
  | OInqNumrecs ln rank => (w, [[9; ln; rank; st_numrecs (rs_nb (get_rank w rank))]])
  | OPut ln coll rank g start count stride data =>
      (* SPEC of a blocking put: the k-th byte of the stream lands on the k-th addressed byte *)
      let offs := spec_offsets g start count stride in
      let pos := flat_map (fun o => zrange o (g_xsz g)) offs in
      let m := fold_left (fun m p => if fst p <? w_lo w then m else PositiveMap.add (Z.to_pos (fst p - w_lo w + 1)) (snd p) m)
                         (zip pos data) (w_map w) in
      let nr := put_newrecs g start count stride in
      let mx := fold_left Z.max (map (fun rs => st_numrecs (rs_nb rs)) (w_ranks w)) nr in
      let ranks' := if coll then map (fun rs => mkrs (set_numrecs (rs_nb rs) (if g_isrec g then mx else st_numrecs (rs_nb rs))) (rs_slots rs)) (w_ranks w)
                    else zupd (w_ranks w) rank (let rs := get_rank w rank in mkrs (set_numrecs (rs_nb rs) (Z.max (st_numrecs (rs_nb rs)) nr)) (rs_slots rs)) in
      (mkw ranks' (map_disk (w_lo w) m) (w_hint w) (w_fmt w) (w_lo w) m (w_fx w), [])
  | OGet ln rank g start count stride =>
      let e := match g_shape g with
               | [] => NC_NOERR
               | _ => check_scs (w_fmt w) false (g_isrec g) true API_VARS (g_shape g)
                                (st_numrecs (rs_nb (get_rank w rank))) (Some start) (Some count) (Some stride)
               end in
      (w, [[10; ln; rank; e] ++ (if e =? NC_NOERR then dk_gather (w_file w) (g_xsz g) (spec_offsets g start count stride) else [])])
  | OSync ln =>
      let m := fold_left Z.max (map (fun rs => st_numrecs (rs_nb rs)) (w_ranks w)) 0 in
      (mkw (map (fun rs => mkrs (set_numrecs (rs_nb rs) m) (rs_slots rs)) (w_ranks w)) (w_file w) (w_hint w) (w_fmt w) (w_lo w) (w_map w) (w_fx w), [])
  | OClose ln =>
      let res := map (fun rs => close_pending (rs_nb rs)) (w_ranks w) in
      (mkw (map (fun p => mkrs (wr_st (snd p)) (rs_slots (fst p))) (zip (w_ranks w) res)) (w_file w) (w_hint w) (w_fmt w) (w_lo w) (w_map w) (w_fx w),
       flat_map (fun p => let '(rank, r) := p in [8; ln; rank; wr_rc r] :: ev_rows ln rank (st_mem (wr_st r)) (wr_ev r))
                (zip (zrange 0 (Zlen res)) res))
  | OSnap ln lo hi => (w, [[11; ln; lo] ++ dk_read (w_file w) lo (hi - lo)])
  end.

Fixpoint run (w : world) (ops : list op) : list (list Z) :=
  match ops with
  | [] => []
  | o :: r => let '(w', rows) := step w o in rows ++ run w' r
  end.
