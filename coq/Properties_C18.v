(* Properties_C18.v — statements only: each property theorem is stated in full and closed by
   `exact <lemma>`; the lemmas live in the Proofs_*.v files.  Assembled by tools/mkprops.py. *)
(* C18 Size limits: exactness of the overflow-free size test, absence of overflow in it, the declarative *)
(* rule for the two-pass scan, the two possible verdicts, and the thresholds. *)
From Coq Require Import ZArith List.
From Pnc Require Import Proofs_Vlen.
From Pnc Require Import Proofs_Layout.
From Pnc Require Import CSub.
From Pnc Require Import Gen_vlens.
From Pnc Require Import Proofs_GenVlens.
Set Printing Width 100.
Set Printing Depth 100000.

Theorem C18_check_vlen_loop_exact :
  forall (shape : list Z) (prod vmax : Z),
         (1 <= prod)%Z ->
         (0 <= vmax)%Z ->
         Forall (fun s : Z => (1 <= s)%Z) shape ->
         shape <> nil \/ (prod <= vmax)%Z ->
         Header.check_vlen_loop shape prod vmax = true <-> (prod * Base.zprod shape <= vmax)%Z.
Proof. exact @check_vlen_loop_exact. Qed.
Print Assumptions C18_check_vlen_loop_exact.

Theorem C18_check_vlen_exact :
  forall (xsz : Z) (shape : list Z) (vmax : Z),
         (1 <= xsz <= vmax)%Z ->
         legal_shape shape ->
         Header.check_vlen xsz shape vmax = true <->
         (xsz * Base.zprod (non_record_dims shape) <= vmax)%Z.
Proof. exact @check_vlen_exact. Qed.
Print Assumptions C18_check_vlen_exact.

Theorem C18_no_overflow :
  forall (shape : list Z) (prod vmax : Z),
         (1 <= prod)%Z ->
         Forall (fun s : Z => (1 <= s)%Z) shape ->
         Header.check_vlen_loop shape prod vmax = true ->
         Forall (fun p : Z => (1 <= p <= vmax)%Z) (running_prods shape prod).
Proof. exact @no_overflow. Qed.
Print Assumptions C18_no_overflow.

Theorem C18_no_overflow_int64 :
  forall (shape : list Z) (prod vmax : Z),
         (1 <= prod)%Z ->
         (vmax < 2 ^ 63)%Z ->
         Forall (fun s : Z => (1 <= s)%Z) shape ->
         Forall (fun p : Z => (0 < p < 2 ^ 63)%Z) (check_vlen_loop_trace shape prod vmax).
Proof. exact @no_overflow_int64. Qed.
Print Assumptions C18_no_overflow_int64.

Theorem C18_check_vlens_iff_rule :
  forall h : Header.hdr, Header.check_vlens h = Gen_consts.NC_NOERR <-> check_vlens_rule h.
Proof. exact @check_vlens_iff_rule. Qed.
Print Assumptions C18_check_vlens_iff_rule.

Theorem C18_check_vlens_iff_rule_countfree :
  forall h : Header.hdr,
         Header.check_vlens h = Gen_consts.NC_NOERR <->
         vlens_rule' (Header.h_format h) (Header.vlen_max_of (Header.h_format h)) (hdr_triples h).
Proof. exact @check_vlens_iff_rule'. Qed.
Print Assumptions C18_check_vlens_iff_rule_countfree.

Theorem C18_check_vlens_two_values :
  forall h : Header.hdr,
         Header.check_vlens h = Gen_consts.NC_NOERR \/ Header.check_vlens h = Gen_consts.NC_EVARSIZE.
Proof. exact @check_vlens_two_values. Qed.
Print Assumptions C18_check_vlens_two_values.

Theorem C18_is_large_exact :
  forall (vmax : Z) (b : bool) (xsz : Z) (shape : list Z),
         (1 <= xsz <= vmax)%Z ->
         legal_shape shape ->
         is_large vmax (b, xsz, shape) = true <-> (vmax < xsz * Header.var_nelems_per_rec shape)%Z.
Proof. exact @is_large_exact. Qed.
Print Assumptions C18_is_large_exact.

Theorem C18_vlen_max_values :
  Header.vlen_max_of 1 = 2147483644%Z /\
         Header.vlen_max_of 2 = 4294967292%Z /\ Header.vlen_max_of 5 = 9223372036854775804%Z.
Proof. exact @vlen_max_values. Qed.
Print Assumptions C18_vlen_max_values.

Theorem C18_begins_none_iff :
  forall (h : Header.hdr) (hm vm ha ra : Z) (old : option (Header.layout * list bool))
           (pbr : Z),
         Header.begins h hm vm ha ra old pbr = None <->
         Header.h_format h = 1%Z /\
         (Exists (fun s : Z => (s > Gen_consts.NC_MAX_INT)%Z)
            (fstarts (vsof h) (old_fixed_of old) (bv1_of h hm ha old)) \/
          Exists (fun s : Z => (s > Gen_consts.NC_MAX_INT)%Z)
            (rstarts (vsof h) (begin_rec_of h hm vm ha ra old pbr))).
Proof. exact @begins_none_iff. Qed.
Print Assumptions C18_begins_none_iff.

Theorem C18_enddef_size_verdict :
  forall (h : Header.hdr) (hm vm ha ra : Z),
         (0 <= hm)%Z ->
         (0 < ha)%Z -> (ha mod 4)%Z = 0%Z -> enddef_ok h hm vm ha ra <-> size_rules h hm vm ha ra.
Proof. exact @enddef_size_verdict. Qed.
Print Assumptions C18_enddef_size_verdict.

Theorem C18_enddef_fails_iff :
  forall (h : Header.hdr) (hm vm ha ra : Z),
         (0 <= hm)%Z ->
         (0 < ha)%Z ->
         (ha mod 4)%Z = 0%Z ->
         Header.check_vlens h = Gen_consts.NC_EVARSIZE \/ Header.begins h hm vm ha ra None 0 = None <->
         ~ size_rules h hm vm ha ra.
Proof. exact @enddef_fails_iff. Qed.
Print Assumptions C18_enddef_fails_iff.

Theorem C18_vsize_saturation :
  forall (fmt len : Z) (r : list Base.byte),
         (0 <= len)%Z ->
         ((fmt <? 5)%Z || (len <? 18446744073709551616)%Z)%bool = true ->
         HeaderSpec.p_nn fmt (Header.vsize_field fmt len ++ r) =
         Some (HeaderSpec.expected_vsize fmt len, r).
Proof. exact @vsize_saturation. Qed.
Print Assumptions C18_vsize_saturation.

(* the C function ncmpio_NC_check_vlen, as translated from the source as built on this run (Gen_vlens.v, tools/tr_cfun.py), returns 1/0 exactly as Header.check_vlen says, without undefined behaviour *)
Theorem C18_gen_check_vlen_eq :
  forall (xsz : Z) (shape : list Z) (vmax : Z),
         (1 <= xsz)%Z ->
         legal_shape shape ->
         (Base.Zlen shape <= 2147483647)%Z ->
         (0 <= vmax <= 9223372036854775807)%Z ->
         ncmpio_NC_check_vlen_c (c_var xsz shape) vmax =
         FVal (b2z (Header.check_vlen xsz shape vmax)).
Proof. exact @gen_check_vlen_eq. Qed.
Print Assumptions C18_gen_check_vlen_eq.

(* the same for ncmpio_NC_check_vlens against Header.check_vlens, for every header satisfying the guards the C code relies on *)
Theorem C18_gen_check_vlens_eq :
  forall h : Header.hdr,
         vlens_wf h -> ncmpio_NC_check_vlens_c (c_view h) = FVal (Header.check_vlens h).
Proof. exact @gen_check_vlens_eq. Qed.
Print Assumptions C18_gen_check_vlens_eq.

(* the translator met no construct outside its subset *)
Theorem C18_gen_vlens_subset_complete :
  tr_cfun_unsupported = nil.
Proof. exact @gen_vlens_subset_complete. Qed.
Print Assumptions C18_gen_vlens_subset_complete.
