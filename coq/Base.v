(* Base.v — bytes, big-endian integer codecs, padding, small list utilities.
   Bytes are Z in [0,256).  Everything here is executable (extracted). *)
From Coq Require Export List ZArith Bool Lia.
Export ListNotations.
Local Open Scope Z_scope.

Definition byte := Z.

Definition is_byte (b : Z) : bool := (0 <=? b) && (b <? 256).

Definition Zlen {A} (l : list A) : Z := Z.of_nat (length l).

(* ---------- big endian unsigned codecs (ncmpix_put_uint32 / uint64) ---------- *)
Definition put_u32 (x : Z) : list byte :=
  [ (x / 16777216) mod 256; (x / 65536) mod 256; (x / 256) mod 256; x mod 256 ].

Definition put_u64 (x : Z) : list byte :=
  put_u32 (x / 4294967296) ++ put_u32 (x mod 4294967296).

Definition get_u32 (l : list byte) : option (Z * list byte) :=
  match l with
  | a :: b :: c :: d :: r => Some (a * 16777216 + b * 65536 + c * 256 + d, r)
  | _ => None
  end.

Definition get_u64 (l : list byte) : option (Z * list byte) :=
  match get_u32 l with
  | Some (hi, r) => match get_u32 r with
                    | Some (lo, r') => Some (hi * 4294967296 + lo, r')
                    | None => None
                    end
  | None => None
  end.

(* general big-endian encoding of the low n bytes of x (two's complement when x<0) *)
Fixpoint be_bytes (n : nat) (x : Z) : list byte :=
  match n with
  | O => []
  | S k => be_bytes k (x / 256) ++ [x mod 256]
  end.

Fixpoint be_value (l : list byte) (acc : Z) : Z :=
  match l with
  | [] => acc
  | b :: r => be_value r (acc * 256 + b)
  end.

(* ---------- padding to 4-byte boundary (X_ALIGN = 4) ---------- *)
Definition rndup (x a : Z) : Z := if a =? 0 then x else ((x + a - 1) / a) * a.
Definition padlen (n : Z) : Z := (4 - n mod 4) mod 4.
Definition zeros (n : Z) : list byte := repeat 0 (Z.to_nat n).
Definition pad4 (n : Z) : list byte := zeros (padlen n).

(* ---------- list helpers with Z indices ---------- *)
Fixpoint znth {A} (l : list A) (i : Z) (d : A) : A :=
  match l with
  | [] => d
  | x :: r => if i =? 0 then x else znth r (i - 1) d
  end.

Fixpoint zfirstn {A} (n : Z) (l : list A) : list A :=
  match l with
  | [] => []
  | x :: r => if n <=? 0 then [] else x :: zfirstn (n - 1) r
  end.

Fixpoint zskipn {A} (n : Z) (l : list A) : list A :=
  match l with
  | [] => []
  | x :: r => if n <=? 0 then l else zskipn (n - 1) r
  end.

Fixpoint zupd {A} (l : list A) (i : Z) (v : A) : list A :=
  match l with
  | [] => []
  | x :: r => if i =? 0 then v :: r else x :: zupd r (i - 1) v
  end.

Fixpoint zseq (start : Z) (n : nat) : list Z :=
  match n with O => [] | S k => start :: zseq (start + 1) k end.

Definition zrange (lo len : Z) : list Z := zseq lo (Z.to_nat len).

Fixpoint zprod (l : list Z) : Z :=
  match l with [] => 1 | x :: r => x * zprod r end.

Fixpoint zsum (l : list Z) : Z :=
  match l with [] => 0 | x :: r => x + zsum r end.

Fixpoint list_eqb {A} (eqb : A -> A -> bool) (a b : list A) : bool :=
  match a, b with
  | [], [] => true
  | x :: a', y :: b' => eqb x y && list_eqb eqb a' b'
  | _, _ => false
  end.

Definition bytes_eqb := list_eqb Z.eqb.

Fixpoint find_index {A} (p : A -> bool) (l : list A) (i : Z) : option Z :=
  match l with
  | [] => None
  | x :: r => if p x then Some i else find_index p r (i + 1)
  end.

Fixpoint zip {A B} (a : list A) (b : list B) : list (A * B) :=
  match a, b with
  | x :: a', y :: b' => (x, y) :: zip a' b'
  | _, _ => []
  end.

Fixpoint forall2b {A B} (p : A -> B -> bool) (a : list A) (b : list B) : bool :=
  match a, b with
  | [], [] => true
  | x :: a', y :: b' => p x y && forall2b p a' b'
  | _, _ => false
  end.

Definition last_opt {A} (l : list A) : option A :=
  match rev l with [] => None | x :: _ => Some x end.
