(* Proofs_Exec2.v — theorems stated directly about the functions of Exec.v that are RUN in the
   correspondence check: do_enddef (new file and after a redefinition), do_close, do_open.

     A  small world lemmas: get_disk_set_disk_same/other, znth_zupd_same/other, w_files_set_disk,
        znth_put_file_same/other, get_disk_put_file, first_free_*, store_file
     B  do_enddef_new_eq, do_enddef_new_inv     exact unfolding of do_enddef on a NEW file
     C  enddef_writes_header                    the first enddef leaves the encoded header on disk
                                                (the fill does not overwrite it); hdr_on_disk
     D  do_close_data_eq, do_open_eq, close_open_same_header, reopened_layout, enddef_close_open
     E  redef_enddef_disk, redef_enddef_inv     exact unfolding of do_enddef after a redef
        redef_enddef_preserves(_gen,_fixed)     C06 at interpreter level: move + header + fill
        redef_enddef_run_preserves              the same from "do_enddef ... = Some (w', NC_NOERR)"
     F  Examples: a session run with exec_all (2 ranks, CDF-1, unlimited dim, fill and no-fill
        variables, puts, redef with new fixed and record variables, close, open)

   No model definition is modified. *)
From Pnc Require Import Base Gen_consts Header HeaderSpec Disk Move Fill Exec.
From Pnc Require Import Proofs_Base Proofs_Header Proofs_Layout Proofs_Fill Proofs_Move Proofs_Redef.
From Pnc Require Import Proofs_Disk Proofs_RoundTrip.
Require Import Lia ZArith List Bool ZifyBool.
Import ListNotations.
Ltac Zify.zify_post_hook ::= Z.div_mod_to_equations.
Local Open Scope Z_scope.

Local Arguments Z.mul : simpl never.
Local Arguments Z.add : simpl never.
Local Arguments Z.sub : simpl never.
Local Arguments Z.div : simpl never.
Local Arguments Z.modulo : simpl never.
Local Arguments Z.max : simpl never.
Local Arguments Z.min : simpl never.
Local Arguments Z.of_nat : simpl never.
Local Arguments Z.to_nat : simpl never.

(* ====================================================================== *)
(** * A. Small world lemmas                                                *)
(* ====================================================================== *)

Lemma Zlen_zupd : forall A (l : list A) i v, Zlen (zupd l i v) = Zlen l.
Proof.
  intros A l. induction l as [|x l IH]; intros i v; [reflexivity|].
  cbn [zupd]. destruct (i =? 0); [rewrite !Zlen_cons; reflexivity|].
  rewrite !Zlen_cons, IH. reflexivity.
Qed.

Lemma znth_zupd_same : forall A (l : list A) i v d, 0 <= i < Zlen l ->
  znth (zupd l i v) i d = v.
Proof.
  intros A l. induction l as [|x l IH]; intros i v d Hi.
  - rewrite Zlen_nil in Hi. lia.
  - rewrite Zlen_cons in Hi. cbn [zupd]. destruct (Z.eqb_spec i 0) as [E|E].
    + subst i. reflexivity.
    + rewrite znth_cons_pos by exact E. apply IH. lia.
Qed.

Lemma znth_zupd_other : forall A (l : list A) i j v d, i <> j ->
  znth (zupd l i v) j d = znth l j d.
Proof.
  intros A l. induction l as [|x l IH]; intros i j v d Hij; [reflexivity|].
  cbn [zupd]. destruct (Z.eqb_spec i 0) as [E|E].
  - subst i. rewrite !znth_cons_pos by lia. reflexivity.
  - destruct (Z.eq_dec j 0) as [Ej|Ej].
    + subst j. reflexivity.
    + rewrite !znth_cons_pos by exact Ej. apply IH. lia.
Qed.

Lemma get_disk_set_disk_same : forall w slot d, 0 <= slot < Zlen (w_disks w) ->
  get_disk (set_disk w slot d) slot = d.
Proof. intros w slot d H. unfold get_disk, set_disk. cbn [w_disks]. apply znth_zupd_same. exact H. Qed.

Lemma get_disk_set_disk_other : forall w slot slot' d, slot <> slot' ->
  get_disk (set_disk w slot d) slot' = get_disk w slot'.
Proof. intros w slot slot' d H. unfold get_disk, set_disk. cbn [w_disks]. apply znth_zupd_other. exact H. Qed.

Lemma w_files_set_disk : forall w slot d, w_files (set_disk w slot d) = w_files w.
Proof. reflexivity. Qed.

Lemma w_disks_put_file : forall w id x, w_disks (put_file w id x) = w_disks w.
Proof. reflexivity. Qed.

Lemma w_nprocs_set_disk : forall w slot d, w_nprocs (set_disk w slot d) = w_nprocs w.
Proof. reflexivity. Qed.

Lemma w_nprocs_put_file : forall w id x, w_nprocs (put_file w id x) = w_nprocs w.
Proof. reflexivity. Qed.

Lemma Zlen_w_disks_set_disk : forall w slot d, Zlen (w_disks (set_disk w slot d)) = Zlen (w_disks w).
Proof. intros. unfold set_disk. cbn [w_disks]. apply Zlen_zupd. Qed.

Lemma Zlen_w_files_put_file : forall w id x, Zlen (w_files (put_file w id x)) = Zlen (w_files w).
Proof. intros. unfold put_file, set_files. cbn [w_files]. apply Zlen_zupd. Qed.

Lemma znth_put_file_same : forall w id x, 0 <= id < Zlen (w_files w) ->
  znth (w_files (put_file w id x)) id None = x.
Proof. intros w id x H. unfold put_file, set_files. cbn [w_files]. apply znth_zupd_same. exact H. Qed.

Lemma znth_put_file_other : forall w id id' x, id <> id' ->
  znth (w_files (put_file w id x)) id' None = znth (w_files w) id' None.
Proof. intros w id id' x H. unfold put_file, set_files. cbn [w_files]. apply znth_zupd_other. exact H. Qed.

Lemma get_disk_put_file : forall w id x s, get_disk (put_file w id x) s = get_disk w s.
Proof. reflexivity. Qed.

Lemma disk_of_put_file : forall w id x f, disk_of (put_file w id x) f = disk_of w f.
Proof. reflexivity. Qed.

(* the disk of a slot after the "set_disk; put_file" pair every state-changing operation ends with *)
Lemma get_disk_put_set_same : forall w slot d id x, 0 <= slot < Zlen (w_disks w) ->
  get_disk (put_file (set_disk w slot d) id x) slot = d.
Proof. intros. rewrite get_disk_put_file. apply get_disk_set_disk_same. assumption. Qed.

Lemma get_disk_put_set_other : forall w slot slot' d id x, slot <> slot' ->
  get_disk (put_file (set_disk w slot d) id x) slot' = get_disk w slot'.
Proof. intros. rewrite get_disk_put_file. apply get_disk_set_disk_other. assumption. Qed.

Lemma znth_put_set_same : forall w slot d id x, 0 <= id < Zlen (w_files w) ->
  znth (w_files (put_file (set_disk w slot d) id x)) id None = x.
Proof. intros. apply znth_put_file_same. rewrite w_files_set_disk. assumption. Qed.

(* ---------- first_free ---------- *)
Lemma first_free_bounds : forall l i, i <= first_free l i <= i + Zlen l.
Proof.
  induction l as [|[x|] l IH]; intros i; cbn [first_free].
  - rewrite Zlen_nil. lia.
  - rewrite Zlen_cons. specialize (IH (i + 1)). lia.
  - rewrite Zlen_cons. pose proof (Zlen_nonneg l). lia.
Qed.

Lemma first_free_0_bounds : forall l, 0 <= first_free l 0 <= Zlen l.
Proof. intros l. pose proof (first_free_bounds l 0). lia. Qed.

Lemma first_free_none : forall l i, first_free l i < i + Zlen l ->
  znth l (first_free l i - i) None = None.
Proof.
  induction l as [|[x|] l IH]; intros i H; cbn [first_free] in *.
  - reflexivity.
  - rewrite Zlen_cons in H. pose proof (first_free_bounds l (i + 1)).
    rewrite znth_cons_pos by lia.
    replace (first_free l (i + 1) - i - 1) with (first_free l (i + 1) - (i + 1)) by lia.
    apply IH. lia.
  - replace (i - i) with 0 by lia. reflexivity.
Qed.

(* where create/open store the new file: the first free id, by update or by append *)
Definition store_file (fs : list (option filest)) (f : filest) : list (option filest) :=
  let id := first_free fs 0 in
  if id <? Zlen fs then zupd fs id (Some f) else fs ++ [Some f].

Lemma znth_store_file : forall fs f, znth (store_file fs f) (first_free fs 0) None = Some f.
Proof.
  intros fs f. unfold store_file. pose proof (first_free_0_bounds fs) as Hb.
  destruct (Z.ltb_spec (first_free fs 0) (Zlen fs)) as [Hlt|Hge].
  - apply znth_zupd_same. lia.
  - rewrite znth_app_r by lia. replace (first_free fs 0 - Zlen fs) with 0 by lia. reflexivity.
Qed.

Lemma znth_store_file_other : forall fs f j, 0 <= j < Zlen fs -> j <> first_free fs 0 ->
  znth (store_file fs f) j None = znth fs j None.
Proof.
  intros fs f j Hj Hne. unfold store_file.
  destruct (Z.ltb_spec (first_free fs 0) (Zlen fs)) as [Hlt|Hge].
  - apply znth_zupd_other. lia.
  - apply znth_app_l. exact Hj.
Qed.

(* ====================================================================== *)
(** * B. do_enddef on a NEW file: exact unfolding and its inversion         *)
(* ====================================================================== *)

(* numrecs written by enddef: 0 for a file created in this session *)
Definition enddef_numrecs (f : filest) : Z := if f_isnew f then 0 else h_numrecs (f_hdr f).

(* the header kept (and written) by enddef: h1 of do_enddef *)
Definition enddef_hdr (f : filest) (lay : layout) : hdr :=
  set_numrecs (set_begins (f_hdr f) (l_begins lay)) (enddef_numrecs f).

(* the file state stored by enddef: f'' of do_enddef *)
Definition enddef_file (f : filest) (lay : layout) : filest :=
  sync_ranks_numrecs
    (mkfile (enddef_hdr f lay) lay false false (f_rdonly f) false None (f_fill f) (f_align f)
            (f_ranks f) (f_slot f) (f_tainted f))
    (enddef_numrecs f).

(* the guard under which the fill is modelled: every new fill-mode variable has a usable
   _FillValue (start_vid = 0 on a new file, the old variable count after a redef) *)
Definition fill_guard (start_vid : Z) (h1 : hdr) : bool :=
  forallb (fun v => v_nofill v || fill_att_ok v) (zskipn start_vid (h_vars h1)).

(* the disk left by enddef on a new file: d3 of do_enddef *)
Definition enddef_new_disk (w : world) (f : filest) (lay : layout) : disk :=
  let h1 := enddef_hdr f lay in
  match h_vars h1 with
  | [] => write_header (get_disk w (f_slot f)) h1
  | _ => do_fill (write_header (get_disk w (f_slot f)) h1) h1 lay 0 0 (w_nprocs w)
  end.

Definition enddef_args_ok (ea : enddef_args) : Prop :=
  0 <= e_h_minfree ea /\ 0 <= e_v_align ea /\ 0 <= e_v_minfree ea /\ 0 <= e_r_align ea.

Lemma enddef_args_guard : forall ea, enddef_args_ok ea ->
  (e_h_minfree ea <? 0) || (e_v_align ea <? 0) || (e_v_minfree ea <? 0) || (e_r_align ea <? 0) = false.
Proof. intros ea (H1 & H2 & H3 & H4). lia. Qed.

Lemma enddef_args_guard_inv : forall ea,
  (e_h_minfree ea <? 0) || (e_v_align ea <? 0) || (e_v_minfree ea <? 0) || (e_r_align ea <? 0) = false ->
  enddef_args_ok ea.
Proof. intros ea H. unfold enddef_args_ok. lia. Qed.

Lemma f_fields_enddef_file : forall f lay,
  f_hdr (enddef_file f lay) = enddef_hdr f lay /\ f_lay (enddef_file f lay) = lay /\
  f_indef (enddef_file f lay) = false /\ f_indep (enddef_file f lay) = false /\
  f_old (enddef_file f lay) = None /\ f_isnew (enddef_file f lay) = false /\
  f_slot (enddef_file f lay) = f_slot f /\ f_rdonly (enddef_file f lay) = f_rdonly f /\
  f_fill (enddef_file f lay) = f_fill f /\ f_align (enddef_file f lay) = f_align f /\
  f_tainted (enddef_file f lay) = f_tainted f /\
  f_ranks (enddef_file f lay) = map (fun r => rk_set_numrecs r (enddef_numrecs f) false) (f_ranks f).
Proof. intros. repeat split; reflexivity. Qed.

(** B1.  On a NEW file (no saved old header) in define mode, with acceptable arguments, sizes and
    a layout, do_enddef stores exactly [enddef_file] and leaves exactly [enddef_new_disk]. *)
Theorem do_enddef_new_eq : forall w id f ea ha va ra lay,
  f_indef f = true -> f_old f = None ->
  enddef_args_ok ea ->
  check_vlens (f_hdr f) = NC_NOERR ->
  resolve_align (f_align f) ea (Zlen (h_vars (f_hdr f))) true = (ha, va, ra) ->
  begins (f_hdr f) (e_h_minfree ea) (e_v_minfree ea) ha ra None (l_begin_rec (f_lay f)) = Some lay ->
  fill_guard 0 (enddef_hdr f lay) = true ->
  do_enddef w id f ea =
    Some (put_file (set_disk w (f_slot f) (enddef_new_disk w f lay)) id (Some (enddef_file f lay)),
          NC_NOERR).
Proof.
  intros w id f ea ha va ra lay Hindef Hold Hargs Hvl Hal Hbeg Hguard.
  unfold do_enddef. cbv zeta.
  rewrite Hindef. cbn [negb].
  rewrite (enddef_args_guard ea Hargs).
  rewrite Hvl. change (NC_NOERR =? NC_NOERR) with true. cbn [negb].
  rewrite Hold. rewrite Z.sub_0_r. rewrite Hal. rewrite Hbeg.
  unfold fill_guard, enddef_hdr, enddef_numrecs in Hguard. rewrite Hguard. cbn [negb].
  reflexivity.
Qed.

(** B2.  Conversely, a successful do_enddef on a new file went through all the guards. *)
Theorem do_enddef_new_inv : forall w id f ea w',
  f_indef f = true -> f_old f = None ->
  do_enddef w id f ea = Some (w', NC_NOERR) ->
  exists ha va ra lay,
    enddef_args_ok ea /\
    check_vlens (f_hdr f) = NC_NOERR /\
    resolve_align (f_align f) ea (Zlen (h_vars (f_hdr f))) true = (ha, va, ra) /\
    begins (f_hdr f) (e_h_minfree ea) (e_v_minfree ea) ha ra None (l_begin_rec (f_lay f)) = Some lay /\
    fill_guard 0 (enddef_hdr f lay) = true /\
    w' = put_file (set_disk w (f_slot f) (enddef_new_disk w f lay)) id (Some (enddef_file f lay)).
Proof.
  intros w id f ea w' Hindef Hold H.
  unfold do_enddef in H. cbv zeta in H.
  rewrite Hindef in H. cbn [negb] in H.
  destruct ((e_h_minfree ea <? 0) || (e_v_align ea <? 0) || (e_v_minfree ea <? 0) || (e_r_align ea <? 0))
    eqn:Eargs.
  { exfalso. injection H as _ H. unfold NC_EINVAL, NC_NOERR in H. discriminate H. }
  destruct (check_vlens (f_hdr f) =? NC_NOERR) eqn:Evl; cbn [negb] in H.
  2:{ exfalso. injection H as _ H. lia. }
  rewrite Hold in H. rewrite Z.sub_0_r in H.
  destruct (resolve_align (f_align f) ea (Zlen (h_vars (f_hdr f))) true) as [[ha va] ra] eqn:Eal.
  destruct (begins (f_hdr f) (e_h_minfree ea) (e_v_minfree ea) ha ra None (l_begin_rec (f_lay f)))
    as [lay|] eqn:Ebeg.
  2:{ exfalso. injection H as _ H. unfold NC_EVARSIZE, NC_NOERR in H. discriminate H. }
  exists ha, va, ra, lay.
  destruct (fill_guard 0 (enddef_hdr f lay)) eqn:Eg.
  2:{ exfalso. unfold fill_guard, enddef_hdr, enddef_numrecs in Eg. rewrite Eg in H.
      cbn [negb] in H. discriminate H. }
  pose proof Eg as Eg'. unfold fill_guard, enddef_hdr, enddef_numrecs in Eg'. rewrite Eg' in H.
  cbn [negb] in H. injection H as H.
  split; [apply enddef_args_guard_inv; exact Eargs|].
  split; [lia|]. do 3 (split; [first [reflexivity|assumption]|]).
  symmetry. exact H.
Qed.

(* ====================================================================== *)
(** * C. The first enddef leaves the encoded header on disk                 *)
(* ====================================================================== *)

(* ---------- reading the disk ---------- *)
Lemma zseq_app : forall n m s, zseq s (n + m) = zseq s n ++ zseq (s + Z.of_nat n) m.
Proof.
  induction n as [|n IH]; intros m s.
  - cbn [Nat.add zseq app]. f_equal. lia.
  - cbn [Nat.add zseq app]. f_equal. rewrite IH. f_equal. f_equal. lia.
Qed.

Lemma dk_read_app : forall d o a b, 0 <= a -> 0 <= b ->
  dk_read d o (a + b) = dk_read d o a ++ dk_read d (o + a) b.
Proof.
  intros d o a b Ha Hb. unfold dk_read, zrange. rewrite <- map_app. f_equal.
  rewrite Z2Nat.inj_add by assumption. rewrite zseq_app. f_equal. f_equal. lia.
Qed.

Lemma dk_read_ext : forall d d' o n,
  (forall x, o <= x < o + n -> dk_get d x = dk_get d' x) -> dk_read d o n = dk_read d' o n.
Proof.
  intros d d' o n H. unfold dk_read. apply map_ext_in. intros x Hx.
  apply H. apply Proofs_Disk.In_zrange in Hx. exact Hx.
Qed.

Lemma dk_read_write_0 : forall d bs, dk_read (dk_write d 0 bs) 0 (Zlen bs) = bs.
Proof.
  intros d bs. pose proof (Zlen_nonneg bs) as Hn.
  apply (znth_ext _ _ 0).
  - rewrite Zlen_dk_read. unfold byte in *. lia.
  - intros i Hi. rewrite Zlen_dk_read in Hi. unfold byte in *. rewrite znth_dk_read by lia.
    rewrite dk_get_write. unfold byte.
    replace ((0 <=? 0 + i) && (0 + i <? 0 + Zlen bs)) with true by lia.
    f_equal. lia.
Qed.

Lemma Zlen_encode_header_pos : forall h, 4 <= Zlen (encode_header h).
Proof.
  intros h. unfold encode_header. rewrite Zlen_app.
  pose proof (Zlen_nonneg (put_nn (h_format h) (h_numrecs h) ++
    put_list (h_format h) NC_DIMENSION_TAG (put_dim (h_format h)) (h_dims h) ++
    put_list (h_format h) NC_ATTRIBUTE_TAG (put_att (h_format h)) (h_gatts h) ++
    put_list (h_format h) NC_VARIABLE_TAG (put_var (h_format h) (h_dims h)) (h_vars h))) as Hn.
  change (Zlen (magic (h_format h))) with 4. lia.
Qed.

(* ---------- the fill keeps existence and never shrinks the file ---------- *)
Lemma write_seg_exists : forall d seg, dk_exists d = true -> dk_exists (write_seg d seg) = true.
Proof.
  intros d [[off c] v] H. unfold write_seg. rewrite dk_exists_write, H. apply orb_true_r.
Qed.

Lemma write_seg_size : forall d seg, dk_size d <= dk_size (write_seg d seg).
Proof.
  intros d [[off c] v]. unfold write_seg. rewrite dk_size_write.
  destruct (0 <? Zlen (repeat_bytes (var_fill_bytes v) c)); lia.
Qed.

Lemma fold_write_seg_exists : forall segs d, dk_exists d = true ->
  dk_exists (fold_left write_seg segs d) = true.
Proof.
  induction segs as [|s segs IH]; intros d H; cbn [fold_left]; [exact H|].
  apply IH. apply write_seg_exists. exact H.
Qed.

Lemma fold_write_seg_size : forall segs d, dk_size d <= dk_size (fold_left write_seg segs d).
Proof.
  induction segs as [|s segs IH]; intros d; cbn [fold_left]; [lia|].
  pose proof (write_seg_size d s). specialize (IH (write_seg d s)). lia.
Qed.

Lemma do_fill_exists : forall d h lay sv nrecs np, dk_exists d = true ->
  dk_exists (do_fill d h lay sv nrecs np) = true.
Proof. intros. rewrite do_fill_flat. apply fold_write_seg_exists. assumption. Qed.

Lemma do_fill_size : forall d h lay sv nrecs np, dk_size d <= dk_size (do_fill d h lay sv nrecs np).
Proof. intros. rewrite do_fill_flat. apply fold_write_seg_size. Qed.

(* ---------- where fixed variables begin ---------- *)
Lemma bi_in_ge : forall l e b len, Forall (fun p : Z * Z => 0 <= snd p) l ->
  begins_increasing e l = true -> In (b, len) l -> e <= b.
Proof.
  induction l as [|[b0 len0] l IH]; intros e b len Hnn Hbi Hin; [destruct Hin|].
  apply bi_cons in Hbi. destruct Hbi as (H1 & H2 & H3).
  inversion Hnn as [|? ? Hp Hr]; subst. cbn [snd] in Hp.
  destruct Hin as [E|Hin].
  - injection E as E1 E2. lia.
  - specialize (IH (b0 + len0) b len Hr H3 Hin). lia.
Qed.

Lemma fixed_pairs_nonneg : forall h, hdr_wf h -> Forall (fun p : Z * Z => 0 <= snd p) (fixed_pairs h).
Proof.
  intros h Hwf. unfold fixed_pairs. apply Forall_forall. intros p Hp.
  apply in_map_iff in Hp. destruct Hp as [v [<- _]]. cbn [snd]. unfold var_len.
  apply var_len_of_nonneg; [apply xlen_type_nonneg|apply var_shape_nonneg; exact Hwf].
Qed.

Lemma rec_pairs_nonneg : forall h, hdr_wf h -> Forall (fun p : Z * Z => 0 <= snd p) (rec_pairs h).
Proof.
  intros h Hwf. unfold rec_pairs. apply Forall_forall. intros p Hp.
  apply in_map_iff in Hp. destruct Hp as [v [<- _]]. cbn [snd]. unfold var_len.
  apply var_len_of_nonneg; [apply xlen_type_nonneg|apply var_shape_nonneg; exact Hwf].
Qed.

Lemma fixed_var_begin_ge : forall h e v, hdr_wf h ->
  begins_increasing e (fixed_pairs h) = true ->
  In v (h_vars h) -> is_recvar (h_dims h) v = false -> e <= v_begin v.
Proof.
  intros h e v Hwf Hbi Hin Hrec.
  apply (bi_in_ge (fixed_pairs h) e (v_begin v) (var_len (h_dims h) v) (fixed_pairs_nonneg h Hwf) Hbi).
  unfold fixed_pairs, fixed_vars.
  apply (in_map (fun v0 => (v_begin v0, var_len (h_dims h) v0))).
  apply filter_In. split; [exact Hin|]. rewrite Hrec. reflexivity.
Qed.

Lemma nelems_nonneg : forall h v, hdr_wf h -> 0 <= nelems h v.
Proof.
  intros h v Hwf. unfold nelems. apply var_nelems_per_rec_nonneg. apply var_shape_nonneg. exact Hwf.
Qed.

(** with no record to fill (nrecs = 0) the fill of a header whose fixed variables all begin at or
    after [bv] touches no byte below [bv] *)
Lemma do_fill_norec_frame_below : forall d h lay sv np bv x,
  hdr_wf h -> 1 <= np ->
  begins_increasing bv (fixed_pairs h) = true ->
  x < bv ->
  dk_get (do_fill d h lay sv 0 np) x = dk_get d x.
Proof.
  intros d h lay sv np bv x Hwf Hnp Hbi Hx. apply do_fill_frame.
  intros r off c v Hr Hin [Hlo Hhi].
  apply fill_plan_in_iff in Hin.
  destruct Hin as (Hnew & Hfm & Hc & [(Erec & Hoff) | (Erec & recno & Hrn & _)]); [|lia].
  assert (Hv : In v (h_vars h)).
  { rewrite <- (zfirstn_zskipn sv (h_vars h)). apply in_or_app. right. exact Hnew. }
  pose proof (fixed_var_begin_ge h bv v Hwf Hbi Hv Erec) as Hb.
  pose proof (nelems_nonneg h v Hwf) as HL.
  destruct (share_inside np (nelems h v) r Hnp HL Hr) as [Hs0 _].
  pose proof (xlen_type_nonneg (v_type v)) as Hxs. fold (vxsz v) in Hxs.
  assert (0 <= share_start np (nelems h v) r * vxsz v) by nia.
  lia.
Qed.

(* ---------- the invariant "the header of f is on the disk of its slot" ---------- *)
Definition hdr_on_disk (w : world) (f : filest) : Prop :=
  dk_exists (disk_of w f) = true /\
  hdr_len (f_hdr f) <= dk_size (disk_of w f) /\
  dk_read (disk_of w f) 0 (hdr_len (f_hdr f)) = encode_header (f_hdr f).

(* what do_open will find: every long enough prefix of the disk decodes to the header *)
Lemma header_prefix_decodes : forall d h n, wf_hdr h = true ->
  dk_read d 0 (hdr_len h) = encode_header h -> hdr_len h <= n ->
  decode (dk_read d 0 n) = Some (decoded_of h).
Proof.
  intros d h n Hwf Hrd Hn.
  pose proof (hdr_len_encode h Hwf) as Hl. pose proof (Zlen_encode_header_pos h) as Hp.
  replace n with (hdr_len h + (n - hdr_len h)) by lia.
  rewrite dk_read_app by lia. rewrite Hrd. apply decode_encode_full. exact Hwf.
Qed.

(** the disk enddef leaves on a new file: exists, is at least as long as the header, and starts
    with the encoded header (the fill of the new variables lies entirely above it) *)
Lemma enddef_new_disk_header : forall w f lay hm vm ha ra,
  hdr_wf (f_hdr f) -> 0 <= hm -> 0 <= vm -> 4 <= ha -> ha mod 4 = 0 -> 4 <= ra -> ra mod 4 = 0 ->
  begins (f_hdr f) hm vm ha ra None 0 = Some lay ->
  1 <= w_nprocs w ->
  wf_hdr (enddef_hdr f lay) = true ->
  dk_exists (enddef_new_disk w f lay) = true /\
  hdr_len (enddef_hdr f lay) <= dk_size (enddef_new_disk w f lay) /\
  dk_read (enddef_new_disk w f lay) 0 (hdr_len (enddef_hdr f lay)) = encode_header (enddef_hdr f lay).
Proof.
  intros w f lay hm vm ha ra Hwf Hhm Hvm Hha Hha4 Hra Hra4 Hbeg Hnp Hwfh.
  destruct (begins_layout_ok (f_hdr f) hm vm ha ra lay Hwf Hhm Hvm Hha Hha4 Hra Hra4 Hbeg)
    as (Hinv & _ & Hxsz & Hlen & Hb1 & _ & _ & _ & Hbi & _).
  set (h1 := enddef_hdr f lay) in *.
  set (d0 := get_disk w (f_slot f)).
  pose proof (hdr_len_encode h1 Hwfh) as Hl. pose proof (Zlen_encode_header_pos h1) as Hp.
  assert (Ehl : hdr_len h1 = hdr_len (f_hdr f)).
  { unfold h1, enddef_hdr. rewrite hdr_len_set_numrecs. apply hdr_len_set_begins.
    apply length_eq_Zlen. exact Hlen. }
  (* the header write *)
  assert (W1 : dk_exists (write_header d0 h1) = true).
  { unfold write_header. rewrite dk_exists_write. replace (0 <? Zlen (encode_header h1)) with true by lia.
    reflexivity. }
  assert (W2 : hdr_len h1 <= dk_size (write_header d0 h1)).
  { unfold write_header. rewrite dk_size_write. replace (0 <? Zlen (encode_header h1)) with true by lia. lia. }
  assert (W3 : dk_read (write_header d0 h1) 0 (hdr_len h1) = encode_header h1).
  { unfold write_header. rewrite Hl. apply dk_read_write_0. }
  unfold enddef_new_disk. fold h1. fold d0. cbv zeta.
  destruct (h_vars h1) as [|v0 vars0] eqn:Ev; [split; [exact W1|split; [exact W2|exact W3]]|].
  split; [apply do_fill_exists; exact W1|].
  split. { pose proof (do_fill_size (write_header d0 h1) h1 lay 0 0 (w_nprocs w)). lia. }
  rewrite <- W3. apply dk_read_ext. intros x Hx.
  apply (do_fill_norec_frame_below _ h1 lay 0 (w_nprocs w) (bv1_new (f_hdr f) hm ha) x).
  - exact Hwf.
  - exact Hnp.
  - exact Hbi.
  - lia.
Qed.

(** C.  A file created in this session (what do_create produces: no old header, define mode,
    isnew, begin_rec 0), any alignment hints >= 0: if do_enddef succeeds then
    (1) the file table holds [enddef_file f lay] - data mode, collective, header h1 = the header
        with the begins of the computed layout and numrecs 0;
    (2) the layout satisfies the layout invariant and its header extent is hdr_len h1;
    and, when h1 is encodable (wf_hdr),
    (3) the first hdr_len h1 bytes of the slot's disk are encode_header h1 (the fill did not
        overwrite it), (4) the disk exists and is at least that long,
    (5) every prefix of at least hdr_len h1 bytes decodes to [decoded_of h1]: what a subsequent
        open reads is hdr_content h1. *)
Theorem enddef_writes_header : forall w id f ea w',
  f_old f = None -> f_indef f = true -> f_isnew f = true -> l_begin_rec (f_lay f) = 0 ->
  hdr_wf (f_hdr f) ->
  0 <= env_h_align (f_align f) -> 0 <= env_v_align (f_align f) -> 0 <= env_r_align (f_align f) ->
  0 <= f_slot f < Zlen (w_disks w) -> 0 <= id < Zlen (w_files w) -> 1 <= w_nprocs w ->
  do_enddef w id f ea = Some (w', NC_NOERR) ->
  exists ha va ra lay,
    resolve_align (f_align f) ea (Zlen (h_vars (f_hdr f))) true = (ha, va, ra) /\
    begins (f_hdr f) (e_h_minfree ea) (e_v_minfree ea) ha ra None 0 = Some lay /\
    let h1 := set_numrecs (set_begins (f_hdr f) (l_begins lay)) 0 in
    let d := get_disk w' (f_slot f) in
    let f'' := enddef_file f lay in
    (* 1 *)
    (znth (w_files w') id None = Some f'' /\
     f_hdr f'' = h1 /\ f_lay f'' = lay /\ f_indef f'' = false /\ f_indep f'' = false /\
     f_old f'' = None /\ f_isnew f'' = false /\ f_slot f'' = f_slot f /\ f_rdonly f'' = f_rdonly f) /\
    (* 2 *)
    (lay_inv (t3of (f_hdr f)) lay /\ l_xsz lay = hdr_len h1) /\
    (wf_hdr h1 = true ->
       (* 3 *) dk_read d 0 (hdr_len h1) = encode_header h1 /\
       (* 4 *) dk_exists d = true /\ hdr_len h1 <= dk_size d /\
       (* 5 *) (forall n, hdr_len h1 <= n -> decode (dk_read d 0 n) = Some (decoded_of h1)) /\
       hdr_on_disk w' f'').
Proof.
  intros w id f ea w' Hold Hindef Hnew Hbr0 Hwf Hah Hav Har Hslot Hid Hnp Hed.
  destruct (do_enddef_new_inv w id f ea w' Hindef Hold Hed)
    as (ha & va & ra & lay & Hargs & Hvl & Hal & Hbeg & Hg & Ew).
  exists ha, va, ra, lay. rewrite Hbr0 in Hbeg.
  destruct Hargs as (A1 & A2 & A3 & A4).
  destruct (resolve_align_ok (f_align f) ea _ true ha va ra Hah Hav Har A2 A4 Hal)
    as ((Hha & Hha4) & _ & (Hra & Hra4)).
  split; [exact Hal|]. split; [exact Hbeg|].
  assert (Eh1 : enddef_hdr f lay = set_numrecs (set_begins (f_hdr f) (l_begins lay)) 0).
  { unfold enddef_hdr, enddef_numrecs. rewrite Hnew. reflexivity. }
  cbv zeta. rewrite <- Eh1.
  destruct (begins_layout_ok (f_hdr f) _ _ ha ra lay Hwf A1 A3 Hha Hha4 Hra Hra4 Hbeg)
    as (Hinv & _ & Hxsz & Hlen & _).
  assert (Ehl : hdr_len (enddef_hdr f lay) = hdr_len (f_hdr f)).
  { unfold enddef_hdr. rewrite hdr_len_set_numrecs. apply hdr_len_set_begins.
    apply length_eq_Zlen. exact Hlen. }
  assert (Ed : get_disk w' (f_slot f) = enddef_new_disk w f lay).
  { rewrite Ew. apply get_disk_put_set_same. exact Hslot. }
  split.
  { split; [rewrite Ew; apply znth_put_set_same; exact Hid|]. repeat split; reflexivity. }
  split; [split; [exact Hinv|lia]|].
  intros Hwfh.
  destruct (enddef_new_disk_header w f lay _ _ ha ra Hwf A1 A3 Hha Hha4 Hra Hra4 Hbeg Hnp Hwfh)
    as (D1 & D2 & D3).
  rewrite Ed.
  split; [exact D3|]. split; [exact D1|]. split; [exact D2|].
  split; [intros n Hn; apply header_prefix_decodes; assumption|].
  unfold hdr_on_disk, disk_of. change (f_slot (enddef_file f lay)) with (f_slot f).
  change (f_hdr (enddef_file f lay)) with (enddef_hdr f lay). rewrite Ed.
  split; [exact D1|]. split; [exact D2|exact D3].
Qed.

(* ====================================================================== *)
(** * D. close then open: the same header comes back                        *)
(* ====================================================================== *)

(* ---------- the header content (what is stored: everything but v_nofill) ---------- *)
Lemma flat_map_map_comm : forall A B C (g : A -> B) (f : B -> list C) l,
  flat_map f (map g l) = flat_map (fun x => f (g x)) l.
Proof. intros. induction l as [|x l IH]; [reflexivity|]. cbn [map flat_map]. rewrite IH. reflexivity. Qed.

Lemma put_list_map_content : forall fmt tag dims vs,
  put_list fmt tag (put_var fmt dims) (map var_content vs) = put_list fmt tag (put_var fmt dims) vs.
Proof.
  intros fmt tag dims vs. destruct vs as [|v vs]; [reflexivity|].
  unfold put_list. cbn [map]. rewrite <- map_cons. rewrite Zlen_map, flat_map_map_comm. reflexivity.
Qed.

Lemma encode_header_content : forall h, encode_header (hdr_content h) = encode_header h.
Proof.
  intros h. unfold encode_header, hdr_content. cbn [h_format h_numrecs h_dims h_gatts h_vars].
  rewrite put_list_map_content. reflexivity.
Qed.

Lemma hdr_len_content : forall h, hdr_len (hdr_content h) = hdr_len h.
Proof.
  intros h. unfold hdr_len, hdr_content. cbn [h_format h_numrecs h_dims h_gatts h_vars].
  rewrite map_map. reflexivity.
Qed.

Lemma wf_hdr_content : forall h, wf_hdr (hdr_content h) = wf_hdr h.
Proof.
  intros h. unfold wf_hdr, hdr_content. cbn [h_format h_numrecs h_dims h_gatts h_vars].
  rewrite Zlen_map. f_equal. induction (h_vars h) as [|v vs IH]; [reflexivity|].
  cbn [map forallb]. rewrite IH. reflexivity.
Qed.

Lemma hdr_wf_content : forall h, hdr_wf (hdr_content h) <-> hdr_wf h.
Proof. intros h. reflexivity. Qed.

Lemma t3of_content : forall h, t3of (hdr_content h) = t3of h.
Proof. intros h. unfold t3of, hdr_content. cbn [h_dims h_vars]. rewrite map_map. reflexivity. Qed.

Lemma map_v_begin_content : forall h, map v_begin (h_vars (hdr_content h)) = map v_begin (h_vars h).
Proof. intros h. unfold hdr_content. cbn [h_vars]. rewrite map_map. reflexivity. Qed.

(** v_nofill plays no part in the layout the library re-derives at open *)
Lemma layout_of_hdr_content : forall h x, layout_of_hdr (hdr_content h) x = layout_of_hdr h x.
Proof.
  intros h x. unfold layout_of_hdr, hdr_content. cbn [h_dims h_vars].
  rewrite !filter_map_comm.
  change (fun x0 : var => negb (is_recvar (h_dims h) (var_content x0)))
    with (fun v : var => negb (is_recvar (h_dims h) v)).
  change (fun x0 : var => is_recvar (h_dims h) (var_content x0)) with (is_recvar (h_dims h)).
  rewrite last_opt_map. rewrite !map_map.
  change (fun x0 : var => var_len (h_dims h) (var_content x0)) with (var_len (h_dims h)).
  change (fun x0 : var => v_begin (var_content x0)) with v_begin.
  destruct (filter (fun v => negb (is_recvar (h_dims h) v)) (h_vars h)) as [|fv fixed];
    destruct (filter (is_recvar (h_dims h)) (h_vars h)) as [|fr recs];
    destruct (h_vars h) as [|v0 vs]; cbn [map option_map]; try reflexivity;
    destruct (last_opt (fv :: fixed)); reflexivity.
Qed.

(* ---------- do_close in data mode, exactly ---------- *)
Definition close_disk (w : world) (f : filest) : disk :=
  match h_vars (f_hdr f) with
  | [] => if negb (f_rdonly f) && (dk_size (disk_of w f) >? l_xsz (f_lay f))
          then mkdisk true (l_xsz (f_lay f))
                      (fun x => if x <? l_xsz (f_lay f) then dk_get (disk_of w f) x else UNDEF)
          else disk_of w f
  | _ => disk_of w f
  end.

Definition close_obs (w : world) (f : filest) : list obs :=
  map (fun r => (r, (if match rk_reqs (get_rank f r) with [] => false | _ => true end
                     then NC_EPENDING else NC_NOERR), fst (dump_slots (get_rank f r))))
      (all_ranks w).

Definition close_world (w : world) (id : Z) (f : filest) : world :=
  put_file (set_disk w (f_slot f) (close_disk w f)) id None.

(** D1.  do_close of a file in data mode whose numrecs need no sync (read-only, or collective
    mode): the file table entry is cleared, the disk kept (truncated to the header when the file
    has no variable). *)
Theorem do_close_data_eq : forall w id f,
  f_indef f = false -> negb (f_rdonly f) && f_indep f = false ->
  znth (w_files w) id None = Some f ->
  do_close w id f = Some (close_world w id f, close_obs w f).
Proof.
  intros w id f Hindef Hsync Hz. unfold do_close. rewrite Hindef. cbv beta iota zeta.
  rewrite Hz. change (NC_NOERR =? NC_NOERR) with true. cbn [negb].
  rewrite Hsync. rewrite Hz. reflexivity.
Qed.

Lemma close_disk_header : forall w f,
  hdr_on_disk w f -> l_xsz (f_lay f) = hdr_len (f_hdr f) ->
  dk_exists (close_disk w f) = true /\
  hdr_len (f_hdr f) <= dk_size (close_disk w f) /\
  dk_read (close_disk w f) 0 (hdr_len (f_hdr f)) = encode_header (f_hdr f).
Proof.
  intros w f (H1 & H2 & H3) Hx. unfold close_disk.
  destruct (h_vars (f_hdr f)) as [|v vs]; [|split; [exact H1|split; [exact H2|exact H3]]].
  destruct (negb (f_rdonly f) && (dk_size (disk_of w f) >? l_xsz (f_lay f)));
    [|split; [exact H1|split; [exact H2|exact H3]]].
  cbn [dk_exists dk_size]. split; [reflexivity|]. split; [lia|].
  rewrite <- H3. apply dk_read_ext. intros x Hxr. cbn [dk_get].
  replace (x <? l_xsz (f_lay f)) with true by lia. reflexivity.
Qed.

(* ---------- do_open, exactly ---------- *)
Definition open_file (w : world) (slot mode : Z) (dc : decoded) : filest :=
  mkfile (dc_hdr dc) (layout_of_hdr (dc_hdr dc) (dc_len dc)) false false (mode =? 0) false None false
         (w_hints w) (map (fun _ => rank_init (h_numrecs (dc_hdr dc))) (all_ranks w)) slot false.

Definition open_world (w : world) (slot mode : Z) (dc : decoded) : world :=
  set_hints (set_ids (set_files w (store_file (w_files w) (open_file w slot mode dc)))
                     (zupd (w_ids w) slot (first_free (w_files w) 0))) no_align.

Theorem do_open_eq : forall w slot mode dc,
  dk_exists (get_disk w slot) = true ->
  decode (dk_read (get_disk w slot) 0 (Z.min (dk_size (get_disk w slot)) 65536)) = Some dc ->
  do_open w slot mode =
    Some (open_world w slot mode dc, same_all w NC_NOERR [TZ (first_free (w_files w) 0)]).
Proof.
  intros w slot mode dc He Hd. unfold do_open. cbv zeta. rewrite He. cbn [negb]. rewrite Hd.
  reflexivity.
Qed.

Lemma znth_open_world : forall w slot mode dc,
  znth (w_files (open_world w slot mode dc)) (first_free (w_files w) 0) None
  = Some (open_file w slot mode dc).
Proof. intros. unfold open_world. cbn [set_hints set_ids set_files w_files]. apply znth_store_file. Qed.

Lemma get_disk_open_world : forall w slot mode dc s,
  get_disk (open_world w slot mode dc) s = get_disk w s.
Proof. reflexivity. Qed.

Lemma lookup_open_world : forall w slot mode dc, 0 <= slot < Zlen (w_ids w) ->
  lookup_file (open_world w slot mode dc) slot
  = Some (first_free (w_files w) 0, open_file w slot mode dc).
Proof.
  intros w slot mode dc Hs. unfold lookup_file.
  change (w_ids (open_world w slot mode dc)) with (zupd (w_ids w) slot (first_free (w_files w) 0)).
  rewrite znth_zupd_same by exact Hs. pose proof (first_free_0_bounds (w_files w)) as Hb.
  replace (first_free (w_files w) 0 <? 0) with false by lia.
  rewrite znth_open_world. reflexivity.
Qed.

Lemma first_free_le_none : forall l i j, 0 <= j < Zlen l -> znth l j None = None ->
  first_free l i <= i + j.
Proof.
  induction l as [|[x|] l IH]; intros i j Hj Hn.
  - rewrite Zlen_nil in Hj. lia.
  - rewrite Zlen_cons in Hj. cbn [first_free].
    destruct (Z.eq_dec j 0) as [E|E]; [subst j; discriminate Hn|].
    rewrite znth_cons_pos in Hn by exact E. specialize (IH (i + 1) (j - 1) ltac:(lia) Hn). lia.
  - cbn [first_free]. lia.
Qed.

(** the header found on disk by open: whenever the invariant holds and the header fits the
    64 KiB the model reads *)
Lemma open_decodes_header : forall d h, wf_hdr h = true ->
  dk_read d 0 (hdr_len h) = encode_header h -> hdr_len h <= dk_size d -> hdr_len h <= 65536 ->
  decode (dk_read d 0 (Z.min (dk_size d) 65536)) = Some (decoded_of h).
Proof. intros d h Hwf Hrd Hs Hk. apply header_prefix_decodes; [exact Hwf|exact Hrd|lia]. Qed.

(** D2.  close; open.  For a file in data mode (no numrecs sync pending) whose header is on disk:
    do_close succeeds with the explicit world [close_world]; do_open on the same slot then
    succeeds and the file it stores (at the first free id, which is at most the id just
    released) has header [hdr_content (f_hdr f)] (= the old header with every v_nofill reset),
    the layout re-derived from that header, data mode, collective, same slot; the header is
    still on disk for the reopened file. *)
Theorem close_open_same_header : forall w id f mode,
  f_indef f = false -> negb (f_rdonly f) && f_indep f = false ->
  znth (w_files w) id None = Some f ->
  wf_hdr (f_hdr f) = true -> hdr_on_disk w f -> hdr_len (f_hdr f) <= 65536 ->
  l_xsz (f_lay f) = hdr_len (f_hdr f) ->
  0 <= f_slot f < Zlen (w_disks w) -> 0 <= id < Zlen (w_files w) ->
  let w2 := close_world w id f in
  let id' := first_free (w_files w2) 0 in
  let dc := decoded_of (f_hdr f) in
  let w3 := open_world w2 (f_slot f) mode dc in
  let f3 := open_file w2 (f_slot f) mode dc in
  do_close w id f = Some (w2, close_obs w f) /\
  do_open w2 (f_slot f) mode = Some (w3, same_all w2 NC_NOERR [TZ id']) /\
  0 <= id' <= id /\
  znth (w_files w3) id' None = Some f3 /\
  f_hdr f3 = hdr_content (f_hdr f) /\
  f_lay f3 = layout_of_hdr (hdr_content (f_hdr f)) (hdr_len (f_hdr f)) /\
  f_lay f3 = layout_of_hdr (f_hdr f) (hdr_len (f_hdr f)) /\
  f_indef f3 = false /\ f_indep f3 = false /\ f_slot f3 = f_slot f /\
  f_rdonly f3 = (mode =? 0) /\ f_old f3 = None /\ f_isnew f3 = false /\
  wf_hdr (f_hdr f3) = true /\ l_xsz (f_lay f3) = hdr_len (f_hdr f3) /\
  hdr_on_disk w3 f3.
Proof.
  intros w id f mode Hindef Hsync Hz Hwf Hod Hk Hx Hslot Hid w2 id' dc w3 f3.
  destruct (close_disk_header w f Hod Hx) as (C1 & C2 & C3).
  assert (Ed2 : get_disk w2 (f_slot f) = close_disk w f).
  { unfold w2, close_world. apply get_disk_put_set_same. exact Hslot. }
  assert (Edec : decode (dk_read (get_disk w2 (f_slot f)) 0
                    (Z.min (dk_size (get_disk w2 (f_slot f))) 65536)) = Some dc).
  { rewrite Ed2. apply open_decodes_header; assumption. }
  assert (Elen : dc_len dc = hdr_len (f_hdr f)).
  { unfold dc, decoded_of. cbn [dc_len]. symmetry. apply hdr_len_encode. exact Hwf. }
  assert (Elay : f_lay f3 = layout_of_hdr (hdr_content (f_hdr f)) (hdr_len (f_hdr f))).
  { unfold f3, open_file. cbn [f_lay]. rewrite Elen. reflexivity. }
  split; [apply do_close_data_eq; assumption|].
  split. { apply do_open_eq; [rewrite Ed2; exact C1|exact Edec]. }
  split.
  { pose proof (first_free_0_bounds (w_files w2)) as Hb. split; [lia|].
    assert (Hl : Zlen (w_files w2) = Zlen (w_files w)).
    { unfold w2, close_world. rewrite Zlen_w_files_put_file. reflexivity. }
    pose proof (first_free_le_none (w_files w2) 0 id ltac:(lia)) as Hf.
    unfold id'. apply Hf. unfold w2, close_world. apply znth_put_set_same. exact Hid. }
  split; [apply znth_open_world|].
  split; [reflexivity|]. split; [exact Elay|].
  split; [rewrite Elay; apply layout_of_hdr_content|].
  do 6 (split; [reflexivity|]).
  split; [change (f_hdr f3) with (hdr_content (f_hdr f)); rewrite wf_hdr_content; exact Hwf|].
  split.
  { rewrite Elay. change (f_hdr f3) with (hdr_content (f_hdr f)). rewrite hdr_len_content.
    rewrite layout_of_hdr_content. unfold layout_of_hdr. cbv zeta.
    destruct (h_vars (f_hdr f)); [reflexivity|].
    destruct (filter (is_recvar (h_dims (f_hdr f))) (v :: l)); reflexivity. }
  unfold hdr_on_disk, disk_of. change (f_slot f3) with (f_slot f).
  change (f_hdr f3) with (hdr_content (f_hdr f)).
  change (get_disk w3 (f_slot f)) with (get_disk w2 (f_slot f)).
  rewrite Ed2, hdr_len_content, encode_header_content.
  split; [exact C1|]. split; [exact C2|exact C3].
Qed.

(** the reopened layout is the layout enddef computed (begin_rec being re-derived as the end of
    the fixed section when there is no record variable) *)
Corollary reopened_layout : forall h lay, hdr_wf h ->
  lay_inv (t3of h) lay -> map v_begin (h_vars h) = l_begins lay -> h_vars h <> [] ->
  (forall v, In v (rec_vars h) -> 0 < var_len (h_dims h) v) ->
  l_xsz lay = hdr_len h ->
  layout_of_hdr (hdr_content h) (hdr_len h) =
    mklayout (l_xsz lay) (l_begin_var lay)
             (match rec_vars h with
              | [] => last_end (l_begin_var lay) (fixed_pairs h)
              | _ => l_begin_rec lay end)
             (l_recsize lay) (l_begins lay) /\
  lay_inv (t3of (hdr_content h)) (layout_of_hdr (hdr_content h) (hdr_len h)).
Proof.
  intros h lay Hwf Hinv Hbl Hne Hpos Hx.
  destruct (layout_of_hdr_agrees h lay Hwf Hinv Hbl Hne Hpos) as [E1 E2].
  rewrite layout_of_hdr_content, t3of_content, <- Hx. split; [exact E1|exact E2].
Qed.

(** D3.  create ... enddef; close; open on that slot: the header read back is the content of the
    header enddef wrote. *)
Theorem enddef_close_open : forall w id f ea w' mode,
  f_old f = None -> f_indef f = true -> f_isnew f = true -> l_begin_rec (f_lay f) = 0 ->
  hdr_wf (f_hdr f) ->
  0 <= env_h_align (f_align f) -> 0 <= env_v_align (f_align f) -> 0 <= env_r_align (f_align f) ->
  0 <= f_slot f < Zlen (w_disks w) -> 0 <= id < Zlen (w_files w) -> 1 <= w_nprocs w ->
  do_enddef w id f ea = Some (w', NC_NOERR) ->
  exists lay,
    let h1 := set_numrecs (set_begins (f_hdr f) (l_begins lay)) 0 in
    let f1 := enddef_file f lay in
    znth (w_files w') id None = Some f1 /\ f_hdr f1 = h1 /\ f_lay f1 = lay /\
    lay_inv (t3of h1) lay /\ map v_begin (h_vars h1) = l_begins lay /\
    (wf_hdr h1 = true -> hdr_len h1 <= 65536 ->
     let w2 := close_world w' id f1 in
     let id' := first_free (w_files w2) 0 in
     let w3 := open_world w2 (f_slot f) mode (decoded_of h1) in
     let f3 := open_file w2 (f_slot f) mode (decoded_of h1) in
     do_close w' id f1 = Some (w2, close_obs w' f1) /\
     do_open w2 (f_slot f) mode = Some (w3, same_all w2 NC_NOERR [TZ id']) /\
     0 <= id' <= id /\
     znth (w_files w3) id' None = Some f3 /\
     f_hdr f3 = hdr_content h1 /\
     f_lay f3 = layout_of_hdr h1 (hdr_len h1) /\
     f_indef f3 = false /\ f_slot f3 = f_slot f /\
     hdr_on_disk w3 f3 /\
     (h_vars (f_hdr f) <> [] ->
      (forall v, In v (rec_vars h1) -> 0 < var_len (h_dims h1) v) ->
      f_lay f3 = mklayout (l_xsz lay) (l_begin_var lay)
                   (match rec_vars h1 with
                    | [] => last_end (l_begin_var lay) (fixed_pairs h1)
                    | _ => l_begin_rec lay end)
                   (l_recsize lay) (l_begins lay))).
Proof.
  intros w id f ea w' mode Hold Hindef Hnew Hbr0 Hwf Hah Hav Har Hslot Hid Hnp Hed.
  destruct (enddef_writes_header w id f ea w' Hold Hindef Hnew Hbr0 Hwf Hah Hav Har Hslot Hid Hnp Hed)
    as (ha & va & ra & lay & Hal & Hbeg & H). cbv zeta in H.
  destruct H as ((Hz & Eh & El & F1 & F2 & F3 & F4 & F5 & F6) & (Hinv & Hxs) & Hdisk).
  exists lay. cbv zeta.
  assert (Hlen : length (l_begins lay) = length (h_vars (f_hdr f))).
  { destruct Hinv as (Hl & _). rewrite Hl. unfold t3of. rewrite !map_length. reflexivity. }
  split; [exact Hz|]. split; [exact Eh|]. split; [exact El|].
  split. { rewrite t3of_set_numrecs, t3of_set_begins by exact Hlen. exact Hinv. }
  assert (Hvb : map v_begin (h_vars (set_numrecs (set_begins (f_hdr f) (l_begins lay)) 0)) = l_begins lay).
  { change (h_vars (set_numrecs (set_begins (f_hdr f) (l_begins lay)) 0))
      with (h_vars (set_begins (f_hdr f) (l_begins lay))).
    apply map_v_begin_set_begins. exact Hlen. }
  split; [exact Hvb|].
  intros Hwfh Hk.
  destruct (Hdisk Hwfh) as (_ & _ & _ & _ & Hod).
  destruct (do_enddef_new_inv w id f ea w' Hindef Hold Hed) as (_ & _ & _ & lay0 & _ & _ & _ & _ & _ & Ew).
  assert (Hd' : Zlen (w_disks w') = Zlen (w_disks w)).
  { rewrite Ew, w_disks_put_file. apply Zlen_w_disks_set_disk. }
  assert (Hf' : Zlen (w_files w') = Zlen (w_files w)).
  { rewrite Ew, Zlen_w_files_put_file. reflexivity. }
  pose proof (close_open_same_header w' id (enddef_file f lay) mode F1
                ltac:(rewrite F2; apply andb_false_r) Hz
                ltac:(rewrite Eh; exact Hwfh) Hod ltac:(rewrite Eh; exact Hk)
                ltac:(rewrite El, Eh; exact Hxs)
                ltac:(rewrite F5, Hd'; exact Hslot) ltac:(rewrite Hf'; exact Hid)) as H.
  cbv zeta in H. rewrite Eh, F5 in H.
  destruct H as (G1 & G2 & G3 & G4 & G5 & G6 & G7 & G8 & G9 & G10 & G11 & G12 & G13 & G14 & G15 & G16).
  split; [exact G1|]. split; [exact G2|]. split; [exact G3|]. split; [exact G4|].
  split; [exact G5|]. split; [exact G7|]. split; [exact G8|]. split; [exact G10|].
  split; [exact G16|].
  intros Hne Hpos. rewrite G6.
  set (h1 := set_numrecs (set_begins (f_hdr f) (l_begins lay)) 0) in *.
  assert (Hne1 : h_vars h1 <> []).
  { intros C. apply (f_equal (map v_begin)) in C. rewrite Hvb in C. cbn [map] in C.
    rewrite C in Hlen. cbn [length] in Hlen. destruct (h_vars (f_hdr f)); [apply Hne; reflexivity|discriminate Hlen]. }
  assert (Hinv1 : lay_inv (t3of h1) lay).
  { unfold h1. rewrite t3of_set_numrecs, t3of_set_begins by exact Hlen. exact Hinv. }
  exact (proj1 (reopened_layout h1 lay Hwf Hinv1 Hvb Hne1 Hpos Hxs)).
Qed.

(* ====================================================================== *)
(** * E. enddef after a redefinition (C06 at interpreter level)             *)
(* ====================================================================== *)

Lemma begins_length : forall h hm vm ha ra old pbr lay,
  begins h hm vm ha ra old pbr = Some lay ->
  length (l_begins lay) = length (h_vars h) /\ l_xsz lay = hdr_len h.
Proof.
  intros h hm vm ha ra old pbr lay H. apply begins_some in H. destruct H as [-> _].
  unfold layout_of_begins. cbn [l_begins l_xsz]. rewrite assign_length. unfold vsof.
  rewrite map_length. split; reflexivity.
Qed.

Lemma match_vars_set_begins : forall A h bl n (a b : A), length bl = length (h_vars h) ->
  match h_vars (set_numrecs (set_begins h bl) n) with [] => a | _ :: _ => b end =
  match h_vars h with [] => a | _ :: _ => b end.
Proof.
  intros A h bl n a b Hl. unfold set_numrecs, set_begins. cbn [h_vars].
  destruct (h_vars h) as [|v vs]; destruct bl as [|x bl]; cbn [length] in Hl; try discriminate Hl;
    reflexivity.
Qed.

(* the disk left by enddef after a redefinition: d3 of do_enddef, written with the definitions
   of Proofs_Redef (moved_disk is d1 verbatim, enddef_disk is d2) *)
Definition enddef_redef_disk (w : world) (f : filest) (oh : hdr) (ol lay : layout) : disk :=
  let h := f_hdr f in
  let numrecs := enddef_numrecs f in
  let np := w_nprocs w in
  let d2 := enddef_disk (get_disk w (f_slot f)) np (w_move_unit w) numrecs oh h ol lay in
  match h_vars h with
  | [] => d2
  | _ => do_fill d2 (new_header h lay numrecs) lay (Zlen (h_vars oh)) (h_numrecs oh) np
  end.

Lemma new_header_enddef_hdr : forall f lay, new_header (f_hdr f) lay (enddef_numrecs f) = enddef_hdr f lay.
Proof. reflexivity. Qed.

(** E1.  do_enddef after a redef (saved old header oh, old layout ol): the disk is
    [enddef_redef_disk] = data movement, header write, fill of the new variables over the
    h_numrecs oh existing records. *)
Theorem redef_enddef_disk : forall w id f ea oh ol ha va ra lay,
  f_indef f = true -> f_old f = Some (oh, ol) ->
  enddef_args_ok ea ->
  check_vlens (f_hdr f) = NC_NOERR ->
  resolve_align (f_align f) ea (Zlen (h_vars (f_hdr f)) - num_rec_vars oh) false = (ha, va, ra) ->
  begins (f_hdr f) (e_h_minfree ea) (e_v_minfree ea) ha ra (redef_old oh ol) (l_begin_rec (f_lay f))
    = Some lay ->
  fill_guard (Zlen (h_vars oh)) (enddef_hdr f lay) = true ->
  do_enddef w id f ea =
    Some (put_file (set_disk w (f_slot f) (enddef_redef_disk w f oh ol lay)) id
                   (Some (enddef_file f lay)), NC_NOERR).
Proof.
  intros w id f ea oh ol ha va ra lay Hindef Hold Hargs Hvl Hal Hbeg Hguard.
  destruct (begins_length _ _ _ _ _ _ _ _ Hbeg) as [Hlen _].
  assert (Ed : enddef_redef_disk w f oh ol lay =
    match h_vars (enddef_hdr f lay) with
    | [] => write_header (moved_disk (get_disk w (f_slot f)) (w_nprocs w) (w_move_unit w)
                                     (enddef_numrecs f) oh (f_hdr f) ol lay) (enddef_hdr f lay)
    | _ :: _ => do_fill (write_header (moved_disk (get_disk w (f_slot f)) (w_nprocs w) (w_move_unit w)
                                     (enddef_numrecs f) oh (f_hdr f) ol lay) (enddef_hdr f lay))
                        (enddef_hdr f lay) lay (Zlen (h_vars oh)) (h_numrecs oh) (w_nprocs w)
    end).
  { unfold enddef_hdr at 1. rewrite (match_vars_set_begins _ _ _ _ _ _ Hlen). reflexivity. }
  rewrite Ed. clear Ed.
  unfold do_enddef. cbv zeta.
  rewrite Hindef. cbn [negb].
  rewrite (enddef_args_guard ea Hargs).
  rewrite Hvl. change (NC_NOERR =? NC_NOERR) with true. cbn [negb].
  rewrite Hold. cbv beta iota. rewrite Hal.
  unfold redef_old in Hbeg. rewrite Hbeg.
  unfold fill_guard, enddef_hdr, enddef_numrecs in Hguard. rewrite Hguard. cbn [negb].
  reflexivity.
Qed.

(** ... and its inversion *)
Theorem redef_enddef_inv : forall w id f ea oh ol w',
  f_indef f = true -> f_old f = Some (oh, ol) ->
  do_enddef w id f ea = Some (w', NC_NOERR) ->
  exists ha va ra lay,
    enddef_args_ok ea /\
    check_vlens (f_hdr f) = NC_NOERR /\
    resolve_align (f_align f) ea (Zlen (h_vars (f_hdr f)) - num_rec_vars oh) false = (ha, va, ra) /\
    begins (f_hdr f) (e_h_minfree ea) (e_v_minfree ea) ha ra (redef_old oh ol) (l_begin_rec (f_lay f))
      = Some lay /\
    fill_guard (Zlen (h_vars oh)) (enddef_hdr f lay) = true /\
    w' = put_file (set_disk w (f_slot f) (enddef_redef_disk w f oh ol lay)) id (Some (enddef_file f lay)).
Proof.
  intros w id f ea oh ol w' Hindef Hold H.
  pose proof H as H0.
  unfold do_enddef in H. cbv zeta in H.
  rewrite Hindef in H. cbn [negb] in H.
  destruct ((e_h_minfree ea <? 0) || (e_v_align ea <? 0) || (e_v_minfree ea <? 0) || (e_r_align ea <? 0))
    eqn:Eargs.
  { exfalso. injection H as _ H. unfold NC_EINVAL, NC_NOERR in H. discriminate H. }
  destruct (check_vlens (f_hdr f) =? NC_NOERR) eqn:Evl; cbn [negb] in H.
  2:{ exfalso. injection H as _ H. lia. }
  rewrite Hold in H. cbv beta iota in H.
  destruct (resolve_align (f_align f) ea (Zlen (h_vars (f_hdr f)) - num_rec_vars oh) false)
    as [[ha va] ra] eqn:Eal.
  fold (redef_old oh ol) in H.
  destruct (begins (f_hdr f) (e_h_minfree ea) (e_v_minfree ea) ha ra (redef_old oh ol)
                   (l_begin_rec (f_lay f))) as [lay|] eqn:Ebeg.
  2:{ exfalso. injection H as _ H. unfold NC_EVARSIZE, NC_NOERR in H. discriminate H. }
  destruct (fill_guard (Zlen (h_vars oh)) (enddef_hdr f lay)) eqn:Eg.
  2:{ exfalso. unfold fill_guard, enddef_hdr, enddef_numrecs in Eg. rewrite Eg in H.
      cbn [negb] in H. discriminate H. }
  clear H.
  assert (Hvl : check_vlens (f_hdr f) = NC_NOERR) by lia.
  pose proof (redef_enddef_disk w id f ea oh ol ha va ra lay Hindef Hold
                (enddef_args_guard_inv ea Eargs) Hvl Eal Ebeg Eg) as E.
  rewrite E in H0. injection H0 as H0.
  exists ha, va, ra, lay.
  split; [apply enddef_args_guard_inv; exact Eargs|].
  do 4 (split; [first [reflexivity|assumption]|]).
  symmetry. exact H0.
Qed.


(* ---------- E2. the old data survives the whole enddef (move, header write, fill) ---------- *)

Lemma Zlen_vars_set_begins : forall h bl, length bl = length (h_vars h) ->
  Zlen (h_vars (set_begins h bl)) = Zlen (h_vars h).
Proof.
  intros h bl Hl. unfold set_begins. cbn [h_vars]. rewrite Zlen_map.
  revert bl Hl. induction (h_vars h) as [|v vs IH]; intros [|b bl] Hl; cbn [length] in Hl;
    try discriminate Hl; [reflexivity|].
  injection Hl as Hl. cbn [zip]. rewrite !Zlen_cons, (IH bl Hl). reflexivity.
Qed.

Lemma znth_set_begins : forall h bl j, length bl = length (h_vars h) -> 0 <= j < Zlen (h_vars h) ->
  znth (h_vars (set_begins h bl)) j dv =
  mkvar (v_name (znth (h_vars h) j dv)) (v_dimids (znth (h_vars h) j dv))
        (v_atts (znth (h_vars h) j dv)) (v_type (znth (h_vars h) j dv)) (znth bl j 0)
        (v_nofill (znth (h_vars h) j dv)).
Proof.
  intros h bl j Hl Hj. unfold set_begins. cbn [h_vars].
  revert bl j Hl Hj. induction (h_vars h) as [|v vs IH]; intros [|b bl] j Hl Hj; cbn [length] in Hl;
    try discriminate Hl.
  - rewrite Zlen_nil in Hj. lia.
  - injection Hl as Hl. rewrite Zlen_cons in Hj. cbn [zip map].
    destruct (Z.eq_dec j 0) as [E|E].
    + subst j. reflexivity.
    + rewrite !znth_cons_pos by exact E. apply IH; [exact Hl|lia].
Qed.

(* ---------- the slot of a record variable inside a record ---------- *)
Definition dt3 : bool * Z * Z := (false, 0, 0).

Lemma last_opt_none_nil : forall A (l : list A), last_opt l = None -> l = [].
Proof.
  intros A l H. unfold last_opt in H. destruct (rev l) as [|x r] eqn:E; [|discriminate H].
  apply (f_equal (@rev A)) in E. rewrite rev_involutive in E. exact E.
Qed.

Lemma last_filter_split : forall A (p : A -> bool) l x, last_opt (filter p l) = Some x ->
  exists a b, l = a ++ x :: b /\ filter p b = [] /\ p x = true.
Proof.
  intros A p l. induction l as [|y l IH]; intros x H; [discriminate H|].
  cbn [filter] in H. destruct (p y) eqn:Ey.
  - rewrite last_opt_cons in H. destruct (last_opt (filter p l)) as [z|] eqn:El.
    + injection H as ->. destruct (IH x eq_refl) as (a & b & E1 & E2 & E3).
      exists (y :: a), b. rewrite E1. split; [reflexivity|split; assumption].
    + injection H as ->. exists [], l. split; [reflexivity|]. split; [|exact Ey].
      apply last_opt_none_nil. exact El.
  - destruct (IH x H) as (a & b & E1 & E2 & E3).
    exists (y :: a), b. rewrite E1. split; [reflexivity|split; assumption].
Qed.

Lemma roff_full : forall vs, roff vs (Zlen vs) = rsum vs.
Proof.
  intros vs. unfold roff. pose proof (zfirstn_app_exact vs []) as H. rewrite app_nil_r in H.
  rewrite H. reflexivity.
Qed.

Lemma roff_nonneg : forall vs i, Forall (fun p : bool * Z => 0 <= snd p) vs -> 0 <= roff vs i.
Proof.
  induction vs as [|[k len] r IH]; intros i H; [unfold roff; cbn [zfirstn rsum]; lia|].
  inversion H as [|? ? Hp Hr]; subst. cbn [snd] in Hp.
  destruct (Z_le_gt_dec i 0) as [Hi|Hi].
  - unfold roff. cbn [zfirstn]. replace (i <=? 0) with true by lia. cbn [rsum]. lia.
  - rewrite roff_cons_pos by lia. cbn [fst snd]. specialize (IH (i - 1) Hr). destruct k; lia.
Qed.

Lemma roff_ge_app : forall vo ext j, Forall (fun p : bool * Z => 0 <= snd p) ext ->
  Zlen vo <= j -> rsum vo <= roff (vo ++ ext) j.
Proof.
  induction vo as [|[k len] r IH]; intros ext j Hnn Hj.
  - cbn [app rsum]. apply roff_nonneg. exact Hnn.
  - rewrite Zlen_cons in Hj. pose proof (Zlen_nonneg r). cbn [app].
    rewrite roff_cons_pos by lia. cbn [fst snd rsum].
    specialize (IH ext (j - 1) Hnn ltac:(lia)). destruct k; lia.
Qed.

Lemma znth_t3_vs : forall (t3 : list (bool * Z * Z)) j, 0 <= j < Zlen t3 ->
  znth (map fst t3) j dvs = fst (znth t3 j dt3).
Proof. intros t3 j Hj. exact (znth_map_in _ _ fst t3 j dt3 dvs Hj). Qed.

(** the slot of every record variable lies inside the record, whichever branch of the recsize
    rule applies (with a single non-empty record variable the record is its unpadded size) *)
Lemma rec_slot_fits : forall (t3 : list (bool * Z * Z)) j, wf_t3 t3 -> 0 <= j < Zlen t3 ->
  fst (fst (znth t3 j dt3)) = true ->
  roff (map fst t3) j + snd (znth t3 j dt3) <= rs_rule t3.
Proof.
  intros t3 j Hwf Hj Hk.
  destruct (wf_t3_lens t3 Hwf) as [Hnn _].
  assert (Hwj : 0 <= snd (znth t3 j dt3) <= snd (fst (znth t3 j dt3))).
  { unfold wf_t3 in Hwf. rewrite (Forall_znth _ t3 dt3) in Hwf. exact (proj1 (Hwf j Hj)). }
  destruct (roff_bounds (map fst t3) j Hnn ltac:(rewrite Zlen_map; exact Hj)) as [Hr0 Hr1].
  rewrite (znth_t3_vs t3 j Hj) in Hr1. specialize (Hr1 Hk).
  unfold rs_rule.
  destruct (last_opt (filter (fun t : bool * Z * Z => fst (fst t)) t3)) as [[[k ll] u]|] eqn:El; [|lia].
  destruct (Z.eqb_spec (rsum (map fst t3)) ll) as [Es|Es]; [|lia].
  destruct (last_filter_split _ _ _ _ El) as (a & b & E & Hb & Hkl). cbn [fst] in Hkl. subst k.
  subst t3.
  assert (Hwa : wf_t3 a /\ wf_t3 ((true, ll, u) :: b)) by (apply wf_t3_app; exact Hwf).
  destruct Hwa as [Hwa Hwb]. pose proof (Forall_inv Hwb) as Hwl. cbn [fst snd] in Hwl.
  destruct (wf_t3_lens a Hwa) as [Hna _].
  assert (Esum : rsum (map fst a) = 0).
  { rewrite map_app, rsum_app in Es. cbn [map fst rsum] in Es. rewrite (rsum_no_rec b Hb) in Es. lia. }
  pose proof (Zlen_nonneg a) as Ha0.
  rewrite map_app. cbn [map fst].
  destruct (Z_lt_ge_dec j (Zlen a)) as [Hlt|Hge].
  - (* before the last record variable: an empty record variable at offset 0 *)
    rewrite roff_app_l by (rewrite Zlen_map; lia).
    destruct (roff_bounds (map fst a) j Hna ltac:(rewrite Zlen_map; lia)) as [Ra0 Ra1].
    rewrite (znth_t3_vs a j ltac:(lia)) in Ra1.
    rewrite znth_app_l in Hk, Hwj |- * by lia. specialize (Ra1 Hk). lia.
  - destruct (Z.eq_dec j (Zlen a)) as [Ej|Ej].
    + (* the last record variable itself *)
      subst j. rewrite roff_app_l by (rewrite Zlen_map; lia).
      replace (Zlen a) with (Zlen (map fst a)) at 1 by apply Zlen_map.
      rewrite roff_full, Esum. rewrite znth_app_r by lia.
      replace (Zlen a - Zlen a) with 0 by lia. rewrite znth_cons_0. cbn [snd]. lia.
    + (* after it: no record variable *)
      exfalso. rewrite znth_app_r in Hk by lia. rewrite Zlen_app, Zlen_cons in Hj.
      rewrite znth_cons_pos in Hk by lia.
      assert (Hin : In (znth b (j - Zlen a - 1) dt3) (filter (fun t : bool * Z * Z => fst (fst t)) b)).
      { apply filter_In. split; [apply Proofs_Disk.znth_In; lia|exact Hk]. }
      rewrite Hb in Hin. destruct Hin.
Qed.

(* what is known of a variable defined during the redefinition, read in the header kept by
   enddef: its index, begin, kind, len, and the size of what the fill may write *)
Lemma new_var_facts : forall h bl n nold v,
  length bl = length (h_vars h) -> 0 <= nold ->
  In v (zskipn nold (h_vars (set_numrecs (set_begins h bl) n))) ->
  exists j, nold <= j < Zlen (h_vars h) /\
    v_begin v = znth bl j 0 /\
    znth (t3of h) j dt3 =
      (is_recvar (h_dims h) v, var_len (h_dims h) v,
       nelems (set_numrecs (set_begins h bl) n) v * vxsz v) /\
    znth (vsof h) j dvs = (is_recvar (h_dims h) v, var_len (h_dims h) v) /\
    nelems (set_numrecs (set_begins h bl) n) v * vxsz v <= var_len (h_dims h) v.
Proof.
  intros h bl n nold v Hl Hn Hin.
  change (h_vars (set_numrecs (set_begins h bl) n)) with (h_vars (set_begins h bl)) in Hin.
  destruct (In_znth _ _ dv Hin) as (k & Hk & Ek).
  rewrite Zlen_zskipn, (Zlen_vars_set_begins h bl Hl) in Hk.
  rewrite znth_zskipn in Ek by lia.
  exists (nold + k). split; [lia|].
  rewrite (znth_set_begins h bl (nold + k) Hl ltac:(lia)) in Ek.
  rewrite (znth_vsof h (nold + k) ltac:(lia)).
  unfold t3of.
  rewrite (znth_map_in _ _ (fun v0 => (is_recvar (h_dims h) v0, var_len (h_dims h) v0, unpadded (h_dims h) v0))
             (h_vars h) (nold + k) dv dt3 ltac:(lia)).
  pose proof (var_len_unpadded (h_dims h) (znth (h_vars h) (nold + k) dv)) as Hu.
  subst v. split; [reflexivity|]. split; [reflexivity|]. split; [reflexivity|].
  exact (proj1 (proj1 Hu)).
Qed.

Section RedefExec.
  Variables (w : world) (f : filest) (oh : hdr) (ol lay : layout) (hm vm ha ra : Z).
  Let h := f_hdr f.
  Let numrecs := enddef_numrecs f.
  Let h1 := enddef_hdr f lay.
  Let d0 := get_disk w (f_slot f).
  Let d3 := enddef_redef_disk w f oh ol lay.
  Let nold := Zlen (h_vars oh).
  Hypothesis Hwf : hdr_wf h.
  Hypothesis Hhm : 0 <= hm.
  Hypothesis Hvm : 0 <= vm.
  Hypothesis Hha : 0 < ha.
  Hypothesis Hra : 4 <= ra.
  Hypothesis Hra4 : ra mod 4 = 0.
  Hypothesis Hinv : lay_inv (t3of oh) ol.
  Hypothesis Hext : hdr_extends oh h.
  Hypothesis Hbeg : begins h hm vm ha ra (redef_old oh ol) (l_begin_rec ol) = Some lay.
  Hypothesis Hnp : 1 <= w_nprocs w.
  Hypothesis Hu : 1 <= w_move_unit w.
  Hypothesis Hnr : 0 <= numrecs.
  Hypothesis Hwfh : wf_hdr h1 = true.

  (* "byte x is outside what the fill of the new variables may write" *)
  Definition fill_misses (x : Z) : Prop :=
    forall v, In v (zskipn nold (h_vars h1)) -> v_nofill v = false ->
      vxsz v = Zlen (var_fill_bytes v) /\ ~ in_fill_extent h1 lay (h_numrecs oh) v x.

  Lemma redef_fill_frame : forall x, fill_misses x ->
    dk_get d3 x =
    dk_get (enddef_disk d0 (w_nprocs w) (w_move_unit w) numrecs oh h ol lay) x.
  Proof.
    intros x Hm. unfold d3, enddef_redef_disk. fold h numrecs d0. cbv zeta.
    destruct (h_vars h) as [|v0 vs0]; [reflexivity|].
    apply do_fill_frame_extent; [exact Hnp|]. exact Hm.
  Qed.

  (** E2 (general form).  Every byte of every old variable that the fill of the new variables
      misses is found at its new place with its old value. *)
  Theorem redef_enddef_preserves_gen :
    forall i, 0 <= i < nold ->
      let ov := znth (h_vars oh) i dv in
      let len := var_len (h_dims oh) ov in
      let ob := znth (l_begins ol) i 0 in
      let nb := znth (l_begins lay) i 0 in
      (is_recvar (h_dims oh) ov = false ->
         forall o, 0 <= o < len -> fill_misses (nb + o) ->
           dk_get d3 (nb + o) = dk_get d0 (ob + o)) /\
      (is_recvar (h_dims oh) ov = true ->
         nb - l_begin_rec lay = ob - l_begin_rec ol /\
         forall r o, 0 <= r < numrecs -> 0 <= o < len ->
           (ob - l_begin_rec ol) + o < l_recsize ol ->
           fill_misses (nb + r * l_recsize lay + o) ->
           dk_get d3 (nb + r * l_recsize lay + o) = dk_get d0 (ob + r * l_recsize ol + o)).
  Proof.
    intros i Hi ov len ob nb.
    pose proof (redef_preserves_data oh h ol lay hm vm ha ra d0 (w_nprocs w) (w_move_unit w) numrecs
                  Hwf Hhm Hvm Hha Hra Hra4 Hinv Hext Hbeg ltac:(lia) ltac:(lia) Hnr Hwfh i Hi) as [P1 P2].
    split.
    - intros Hk o Ho Hm. rewrite (redef_fill_frame _ Hm). exact (P1 Hk o Ho).
    - intros Hk. destruct (P2 Hk) as [Q1 Q2]. split; [exact Q1|].
      intros r o Hr Ho Hin Hm. rewrite (redef_fill_frame _ Hm). exact (Q2 r o Hr Ho Hin).
  Qed.

  (* the fill value of every new fill-mode variable has the size of one element
     (fill_att_ok + wf_att when _FillValue is present, the default fill value otherwise) *)
  Hypothesis fill_len_ok :
    forall v, In v (zskipn nold (h_vars h1)) -> v_nofill v = false -> Zlen (var_fill_bytes v) = vxsz v.

  Let Facts := begins_redef_facts oh h ol lay hm vm ha ra Hwf Hhm Hvm Hha Hra Hra4 Hinv Hext Hbeg.
  Let Hinv' := begins_lay_inv_redef oh h ol lay hm vm ha ra Hwf Hhm Hvm Hha Hra Hra4 Hinv Hext Hbeg.

  (** the fill misses every byte of every old FIXED variable: new fixed variables lie after all
      old fixed variables, new record variables at or after begin_rec *)
  Lemma fill_misses_old_fixed : forall i o, 0 <= i < nold ->
    is_recvar (h_dims oh) (znth (h_vars oh) i dv) = false ->
    0 <= o < var_len (h_dims oh) (znth (h_vars oh) i dv) ->
    fill_misses (znth (l_begins lay) i 0 + o).
  Proof.
    intros i o Hi Hk Ho v Hv Hfm. split; [symmetry; exact (fill_len_ok v Hv Hfm)|].
    unfold in_fill_extent. rewrite (fill_len_ok v Hv Hfm).
    destruct Facts as (Fz & Fn & Ff & Fo & Fr & Fx & Fvr & Fbv & Fbr & Frs0 & Frs & Frsum & Fsame).
    destruct Hinv' as (Hlen & Hx & Hbi & Hbv & Hle & Hbr4 & Hc & Hrs).
    rewrite <- vsof_t3of in Hlen, Hbi, Hle, Hc.
    destruct (wf_t3_lens _ (wf_t3of h Hwf)) as [Hnn _]. rewrite <- vsof_t3of in Hnn.
    assert (Hlen' : length (l_begins lay) = length (h_vars h)).
    { rewrite Hlen. unfold vsof. apply map_length. }
    fold nold in Fz, Fn, Ff.
    pose proof (Zlen_nonneg (h_vars oh)) as Hn0. fold nold in Hn0.
    destruct (new_var_facts h (l_begins lay) numrecs nold v Hlen' Hn0 Hv) as (j & Hj & Eb & _ & Ev & Eu).
    fold h1 in Eu. assert (Ek : is_recvar (h_dims h) v = fst (znth (vsof h) j dvs)) by (rewrite Ev; reflexivity).
    assert (Elj : var_len (h_dims h) v = snd (znth (vsof h) j dvs)) by (rewrite Ev; reflexivity).
    clear Ev.
    specialize (Ff i Hi). specialize (Fz i Hi).
    rewrite (znth_vsof oh i Hi) in Ff, Fz. cbn [fst snd] in Ff.
    specialize (Ff Hk). destruct Ff as (F1 & F2 & F3 & F4 & F5 & F6).
    assert (Evs : Zlen (vsof h) = Zlen (h_vars h)) by (unfold vsof; apply Zlen_map).
    assert (Eki : fst (znth (vsof h) i dvs) = false) by (rewrite Fz; exact Hk).
    assert (Eli : snd (znth (vsof h) i dvs) = var_len (h_dims oh) (znth (h_vars oh) i dv))
      by (rewrite Fz; reflexivity).
    change (h_dims h1) with (h_dims h). rewrite Ek.
    destruct (fst (znth (vsof h) j dvs)) eqn:Ekj.
    - (* new record variable *)
      intros (recno & Hrn & Hlo & Hhi).
      pose proof (contig_sel_index (vsof h) (l_begins lay) (l_begin_rec lay) Hlen Hc j ltac:(lia) Ekj) as Enb.
      destruct (roff_bounds (vsof h) j Hnn ltac:(lia)) as [Hr0 _].
      assert (0 <= l_recsize lay * recno) by nia. lia.
    - (* new fixed variable: after old fixed variable i *)
      intros [Hlo Hhi].
      destruct (bi_sel_index false (vsof h) (l_begins lay) (l_begin_var lay) Hlen Hnn Hbi) as [_ B2].
      specialize (B2 i j ltac:(lia) ltac:(lia) ltac:(lia) Eki Ekj). lia.
  Qed.

  (** E2, fixed variables: no extra hypothesis about the fill *)
  Theorem redef_enddef_preserves_fixed :
    forall i, 0 <= i < nold ->
      is_recvar (h_dims oh) (znth (h_vars oh) i dv) = false ->
      forall o, 0 <= o < var_len (h_dims oh) (znth (h_vars oh) i dv) ->
        dk_get d3 (znth (l_begins lay) i 0 + o) = dk_get d0 (znth (l_begins ol) i 0 + o).
  Proof.
    intros i Hi Hk o Ho.
    exact (proj1 (redef_enddef_preserves_gen i Hi) Hk o Ho (fill_misses_old_fixed i o Hi Hk Ho)).
  Qed.
  (** ... and every byte of every old RECORD variable, in every existing record: new fixed
      variables end at or before begin_rec; a new record variable occupies, in each record, a
      slot after the slots of all the old record variables and inside the record *)
  Lemma fill_misses_old_rec : forall i r o, 0 <= i < nold ->
    is_recvar (h_dims oh) (znth (h_vars oh) i dv) = true ->
    0 <= r -> 0 <= o < var_len (h_dims oh) (znth (h_vars oh) i dv) ->
    (znth (l_begins ol) i 0 - l_begin_rec ol) + o < l_recsize ol ->
    fill_misses (znth (l_begins lay) i 0 + r * l_recsize lay + o).
  Proof.
    intros i r o Hi Hk Hr Ho Hin v Hv Hfm. split; [symmetry; exact (fill_len_ok v Hv Hfm)|].
    unfold in_fill_extent. rewrite (fill_len_ok v Hv Hfm).
    destruct Facts as (Fz & Fn & Ff & Fo & Fr & Fx & Fvr & Fbv & Fbr & Frs0 & Frs & Frsum & Fsame).
    destruct Hinv' as (Hlen & Hx & Hbi & Hbv & Hle & Hbr4 & Hc & Hrs).
    rewrite <- vsof_t3of in Hlen, Hbi, Hle, Hc.
    pose proof (wf_t3of h Hwf) as Hw3.
    destruct (wf_t3_lens _ Hw3) as [Hnn _]. rewrite <- vsof_t3of in Hnn.
    assert (Hlen' : length (l_begins lay) = length (h_vars h)).
    { rewrite Hlen. unfold vsof. apply map_length. }
    fold nold in Fz, Fn, Fr.
    pose proof (Zlen_nonneg (h_vars oh)) as Hn0. fold nold in Hn0.
    destruct (new_var_facts h (l_begins lay) numrecs nold v Hlen' Hn0 Hv) as (j & Hj & Eb & Et & Ev & Eu).
    change (set_numrecs (set_begins h (l_begins lay)) numrecs) with h1 in Eu, Et.
    assert (Ek : is_recvar (h_dims h) v = fst (znth (vsof h) j dvs)) by (rewrite Ev; reflexivity).
    assert (Elj : var_len (h_dims h) v = snd (znth (vsof h) j dvs)) by (rewrite Ev; reflexivity).
    specialize (Fr i Hi). rewrite (znth_vsof oh i Hi) in Fr. cbn [fst snd] in Fr.
    destruct (Fr Hk) as (R1 & R2 & R3 & R4).
    assert (Evs : Zlen (vsof h) = Zlen (h_vars h)) by (unfold vsof; apply Zlen_map).
    set (R := l_recsize lay) in *. set (U := nelems h1 v * vxsz v) in *.
    change (h_dims h1) with (h_dims h). rewrite Ek.
    destruct (fst (znth (vsof h) j dvs)) eqn:Ekj.
    - (* new record variable *)
      intros (recno & Hrn & Hlo & Hhi).
      pose proof (contig_sel_index (vsof h) (l_begins lay) (l_begin_rec lay) Hlen Hc j ltac:(lia) Ekj) as Enb.
      assert (Hge : rsum (vsof oh) <= roff (vsof h) j).
      { destruct Hext as [ext3 He].
        assert (Evh : vsof h = vsof oh ++ map fst ext3).
        { rewrite !vsof_t3of, He. apply map_app. }
        rewrite Evh in Hnn |- *. apply roff_ge_app; [exact (proj2 (proj1 (Forall_app _ _ _) Hnn))|].
        unfold vsof at 1. rewrite Zlen_map. fold nold. lia. }
      pose proof (rec_slot_fits (t3of h) j Hw3 ltac:(unfold t3of; rewrite Zlen_map; lia)) as Hfit.
      rewrite Et in Hfit. cbn [fst snd] in Hfit. rewrite Ek in Hfit. specialize (Hfit eq_refl).
      rewrite <- vsof_t3of, <- Hrs in Hfit. fold U in Hfit.
      set (a := roff (vsof oh) i) in *. set (b := roff (vsof h) j) in *.
      assert (A1 : b + R * recno <= a + o + r * R) by lia.
      assert (A2 : a + o + r * R < b + R * recno + U) by lia.
      assert (A3 : a + o < R) by lia.
      assert (A4 : a + o < b) by lia.
      assert (A5 : 0 <= R) by lia.
      assert (A6 : 0 <= a + o) by lia.
      clear - A1 A2 A3 A4 A5 A6 Hfit Hr Hrn.
      destruct (Z.lt_trichotomy r recno) as [Hc1|[Hc1|Hc1]].
      + assert (0 <= R * (recno - r - 1)) by nia. lia.
      + subst r. lia.
      + assert (0 <= R * (r - recno - 1)) by nia. lia.
    - (* new fixed variable: ends at or before begin_rec *)
      intros [Hlo Hhi].
      destruct (bi_sel_index false (vsof h) (l_begins lay) (l_begin_var lay) Hlen Hnn Hbi) as [B1 _].
      destruct (B1 j ltac:(lia) Ekj) as (_ & _ & B).
      assert (0 <= r * R) by nia. lia.
  Qed.

  (** E2.  After ncmpi_redef + new definitions + ncmpi_enddef as the interpreter runs it
      (data movement, header write, fill of the new fill-mode variables), every byte of every
      old variable is found at its new place with its old value. *)
  Theorem redef_enddef_preserves :
    forall i, 0 <= i < nold ->
      let ov := znth (h_vars oh) i dv in
      let len := var_len (h_dims oh) ov in
      let ob := znth (l_begins ol) i 0 in
      let nb := znth (l_begins lay) i 0 in
      (is_recvar (h_dims oh) ov = false ->
         forall o, 0 <= o < len -> dk_get d3 (nb + o) = dk_get d0 (ob + o)) /\
      (is_recvar (h_dims oh) ov = true ->
         nb - l_begin_rec lay = ob - l_begin_rec ol /\
         forall r o, 0 <= r < numrecs -> 0 <= o < len ->
           (ob - l_begin_rec ol) + o < l_recsize ol ->
           dk_get d3 (nb + r * l_recsize lay + o) = dk_get d0 (ob + r * l_recsize ol + o)).
  Proof.
    intros i Hi ov len ob nb. destruct (redef_enddef_preserves_gen i Hi) as [P1 P2]. split.
    - intros Hk o Ho. exact (P1 Hk o Ho (fill_misses_old_fixed i o Hi Hk Ho)).
    - intros Hk. destruct (P2 Hk) as [Q1 Q2]. split; [exact Q1|].
      intros r o Hr Ho Hin. apply (Q2 r o Hr Ho Hin).
      apply fill_misses_old_rec; try assumption. lia.
  Qed.
End RedefExec.

(* ---------- the fill value has the size of one element ---------- *)
Lemma Zlen_be_bytes : forall n x, Zlen (be_bytes n x) = Z.of_nat n.
Proof.
  induction n as [|n IH]; intros x; cbn [be_bytes]; [reflexivity|].
  rewrite Zlen_app, IH, Zlen_cons, Zlen_nil. lia.
Qed.

Lemma Zlen_fill_bytes_xlen : forall t, Zlen (fill_bytes t) = xlen_type t.
Proof.
  intros t. unfold fill_bytes. cbv zeta. rewrite Zlen_be_bytes.
  pose proof (xlen_type_nonneg t). lia.
Qed.

Lemma find_index_bounds : forall A (p : A -> bool) l k i,
  find_index p l k = Some i -> k <= i < k + Zlen l.
Proof.
  intros A p l. induction l as [|x l IH]; intros k i H; cbn [find_index] in H; [discriminate H|].
  rewrite Zlen_cons. pose proof (Zlen_nonneg l).
  destruct (p x); [injection H as H; lia|]. specialize (IH _ _ H). lia.
Qed.

(** a fill-mode variable that passes the guard of do_enddef and is encodable has a fill value of
    exactly one element *)
Lemma fill_len_of_guard : forall fmt v, wf_var fmt v = true ->
  v_nofill v || fill_att_ok v = true -> v_nofill v = false ->
  Zlen (var_fill_bytes v) = vxsz v.
Proof.
  intros fmt v Hwf Hg Hnf. rewrite Hnf in Hg. cbn [orb] in Hg.
  unfold var_fill_bytes, fill_att_ok, vxsz in *.
  destruct (find_att (v_atts v) fillvalue_name) as [i|] eqn:Ef; [|apply Zlen_fill_bytes_xlen].
  unfold find_att in Ef. apply find_index_bounds in Ef.
  unfold wf_var in Hwf. rewrite !andb_true_iff in Hwf.
  destruct Hwf as [[[_ Hatts] _] _].
  apply forallb_Forall in Hatts. rewrite (Forall_znth _ (v_atts v) (mkatt [] 0 0 [])) in Hatts.
  specialize (Hatts i ltac:(lia)). unfold wf_att in Hatts. rewrite !andb_true_iff in Hatts.
  destruct Hatts as [_ Hd]. cbv zeta in Hg. rewrite andb_true_iff in Hg. destruct Hg as [G1 G2].
  apply Z.eqb_eq in G1, G2, Hd. rewrite G1, G2 in Hd. unfold byte in *. lia.
Qed.

Lemma fill_len_ok_of_guard : forall h1 sv, wf_hdr h1 = true -> fill_guard sv h1 = true ->
  forall v, In v (zskipn sv (h_vars h1)) -> v_nofill v = false -> Zlen (var_fill_bytes v) = vxsz v.
Proof.
  intros h1 sv Hwf Hg v Hin Hnf.
  unfold fill_guard in Hg. rewrite forallb_forall in Hg. specialize (Hg v Hin).
  assert (Hv : In v (h_vars h1)).
  { rewrite <- (zfirstn_zskipn sv (h_vars h1)). apply in_or_app. right. exact Hin. }
  unfold wf_hdr in Hwf. cbv zeta in Hwf. rewrite !andb_true_iff in Hwf. destruct Hwf as [_ Hvars].
  rewrite forallb_forall in Hvars. exact (fill_len_of_guard _ v (Hvars v Hv) Hg Hnf).
Qed.

(** E3.  The statement about the interpreter run: a successful do_enddef after a redefinition
    (old header oh, old layout ol satisfying the layout invariant, the new header extending the
    old one) preserves every byte of every old variable, whatever the number of processes, the
    move unit, the alignment hints and arguments, and the fill modes of the new variables. *)
Theorem redef_enddef_run_preserves : forall w id f ea oh ol w',
  f_indef f = true -> f_old f = Some (oh, ol) -> l_begin_rec (f_lay f) = l_begin_rec ol ->
  hdr_wf (f_hdr f) ->
  0 <= env_h_align (f_align f) -> 0 <= env_v_align (f_align f) -> 0 <= env_r_align (f_align f) ->
  lay_inv (t3of oh) ol -> hdr_extends oh (f_hdr f) ->
  1 <= w_nprocs w -> 1 <= w_move_unit w -> 0 <= enddef_numrecs f ->
  0 <= f_slot f < Zlen (w_disks w) -> 0 <= id < Zlen (w_files w) ->
  do_enddef w id f ea = Some (w', NC_NOERR) ->
  exists lay,
    znth (w_files w') id None = Some (enddef_file f lay) /\
    lay_inv (t3of (f_hdr f)) lay /\
    (wf_hdr (enddef_hdr f lay) = true ->
     let d0 := get_disk w (f_slot f) in
     let d3 := get_disk w' (f_slot f) in
     hdr_on_disk w' (enddef_file f lay) /\
     forall i, 0 <= i < Zlen (h_vars oh) ->
       let ov := znth (h_vars oh) i dv in
       let len := var_len (h_dims oh) ov in
       let ob := znth (l_begins ol) i 0 in
       let nb := znth (l_begins lay) i 0 in
       (is_recvar (h_dims oh) ov = false ->
          forall o, 0 <= o < len -> dk_get d3 (nb + o) = dk_get d0 (ob + o)) /\
       (is_recvar (h_dims oh) ov = true ->
          nb - l_begin_rec lay = ob - l_begin_rec ol /\
          forall r o, 0 <= r < enddef_numrecs f -> 0 <= o < len ->
            (ob - l_begin_rec ol) + o < l_recsize ol ->
            dk_get d3 (nb + r * l_recsize lay + o) = dk_get d0 (ob + r * l_recsize ol + o))).
Proof.
  intros w id f ea oh ol w' Hindef Hold Hbr Hwf Hah Hav Har Hinv Hext Hnp Hu Hnr Hslot Hid Hed.
  destruct (redef_enddef_inv w id f ea oh ol w' Hindef Hold Hed)
    as (ha & va & ra & lay & Hargs & Hvl & Hal & Hbeg & Hg & Ew).
  destruct Hargs as (A1 & A2 & A3 & A4).
  destruct (resolve_align_ok (f_align f) ea _ false ha va ra Hah Hav Har A2 A4 Hal)
    as ((Hha & Hha4) & _ & (Hra & Hra4)).
  rewrite Hbr in Hbeg.
  exists lay.
  assert (Ed : get_disk w' (f_slot f) = enddef_redef_disk w f oh ol lay).
  { rewrite Ew. apply get_disk_put_set_same. exact Hslot. }
  split; [rewrite Ew; apply znth_put_set_same; exact Hid|].
  split. { exact (begins_lay_inv_redef oh (f_hdr f) ol lay _ _ ha ra Hwf A1 A3 ltac:(lia) Hra Hra4 Hinv Hext Hbeg). }
  intros Hwfh. cbv zeta. rewrite Ed.
  pose proof (fill_len_ok_of_guard (enddef_hdr f lay) (Zlen (h_vars oh)) Hwfh Hg) as Hfl.
  split.
  2:{ intros i Hi.
      exact (redef_enddef_preserves w f oh ol lay _ _ ha ra Hwf A1 A3 ltac:(lia) Hra Hra4 Hinv Hext Hbeg
               Hnp Hu Hnr Hwfh Hfl i Hi). }
  (* the new header is on disk: the fill lies above begin_var *)
  destruct (new_header_fits oh (f_hdr f) ol lay _ _ ha ra (enddef_numrecs f) Hwf A1 A3 ltac:(lia) Hra Hra4
              Hinv Hext Hbeg Hwfh) as [Eenc Hfit].
  change (new_header (f_hdr f) lay (enddef_numrecs f)) with (enddef_hdr f lay) in Eenc.
  pose proof (hdr_len_encode _ Hwfh) as Hl. pose proof (Zlen_encode_header_pos (enddef_hdr f lay)) as Hp.
  unfold hdr_on_disk, disk_of. change (f_slot (enddef_file f lay)) with (f_slot f).
  change (f_hdr (enddef_file f lay)) with (enddef_hdr f lay). rewrite Ed.
  set (d2 := enddef_disk (get_disk w (f_slot f)) (w_nprocs w) (w_move_unit w) (enddef_numrecs f) oh
                         (f_hdr f) ol lay).
  assert (W1 : dk_exists d2 = true).
  { unfold d2, enddef_disk. rewrite dk_exists_write.
    change (new_header (f_hdr f) lay (enddef_numrecs f)) with (enddef_hdr f lay).
    replace (0 <? Zlen (encode_header (enddef_hdr f lay))) with true by lia. reflexivity. }
  assert (W2 : hdr_len (enddef_hdr f lay) <= dk_size d2).
  { unfold d2, enddef_disk. rewrite dk_size_write.
    change (new_header (f_hdr f) lay (enddef_numrecs f)) with (enddef_hdr f lay).
    replace (0 <? Zlen (encode_header (enddef_hdr f lay))) with true by lia. lia. }
  assert (W3 : dk_read d2 0 (hdr_len (enddef_hdr f lay)) = encode_header (enddef_hdr f lay)).
  { unfold d2, enddef_disk.
    change (new_header (f_hdr f) lay (enddef_numrecs f)) with (enddef_hdr f lay).
    rewrite Hl. apply dk_read_write_0. }
  unfold enddef_redef_disk. cbv zeta. fold d2.
  destruct (h_vars (f_hdr f)) as [|v0 vs0] eqn:Ev; [split; [exact W1|split; [exact W2|exact W3]]|].
  split; [apply do_fill_exists; exact W1|].
  split. { pose proof (do_fill_size d2 (new_header (f_hdr f) lay (enddef_numrecs f)) lay
                         (Zlen (h_vars oh)) (h_numrecs oh) (w_nprocs w)). lia. }
  rewrite <- W3. apply dk_read_ext. intros x Hx.
  apply do_fill_frame_extent; [exact Hnp|].
  intros v Hv Hnf. change (new_header (f_hdr f) lay (enddef_numrecs f)) with (enddef_hdr f lay) in *.
  split; [symmetry; exact (Hfl v Hv Hnf)|].
  (* every new variable begins at or after begin_var >= hdr_len *)
  pose proof (begins_lay_inv_redef oh (f_hdr f) ol lay _ _ ha ra Hwf A1 A3 ltac:(lia) Hra Hra4 Hinv Hext Hbeg)
    as (Hlen & Hxs & Hbi & Hbv & Hle & Hbr4 & Hc & Hrs).
  rewrite <- vsof_t3of in Hlen, Hbi, Hle, Hc.
  destruct (wf_t3_lens _ (wf_t3of (f_hdr f) Hwf)) as [Hnn _]. rewrite <- vsof_t3of in Hnn.
  assert (Hlen' : length (l_begins lay) = length (h_vars (f_hdr f))).
  { rewrite Hlen. unfold vsof. apply map_length. }
  destruct (new_var_facts (f_hdr f) (l_begins lay) (enddef_numrecs f) (Zlen (h_vars oh)) v Hlen'
              (Zlen_nonneg _) Hv) as (j & Hj & Eb & _ & Evj & _).
  assert (Evs : Zlen (vsof (f_hdr f)) = Zlen (h_vars (f_hdr f))) by (unfold vsof; apply Zlen_map).
  pose proof (Zlen_nonneg (h_vars oh)) as Hn0.
  pose proof (begins_redef_facts oh (f_hdr f) ol lay _ _ ha ra Hwf A1 A3 ltac:(lia) Hra Hra4 Hinv Hext Hbeg)
    as (_ & _ & _ & _ & _ & Fx & Fvr & _ & _ & Frs0 & Frs & _).
  unfold in_fill_extent. change (h_dims (enddef_hdr f lay)) with (h_dims (f_hdr f)).
  replace (is_recvar (h_dims (f_hdr f)) v) with (fst (znth (vsof (f_hdr f)) j dvs)) by (rewrite Evj; reflexivity).
  destruct (fst (znth (vsof (f_hdr f)) j dvs)) eqn:Ekj.
  - intros (recno & Hrn & Hlo & _).
    pose proof (contig_sel_index (vsof (f_hdr f)) (l_begins lay) (l_begin_rec lay) Hlen Hc j ltac:(lia) Ekj) as Enb.
    pose proof (roff_nonneg (vsof (f_hdr f)) j Hnn).
    assert (0 <= l_recsize lay * recno) by nia. lia.
  - intros [Hlo _].
    destruct (bi_sel_index false (vsof (f_hdr f)) (l_begins lay) (l_begin_var lay) Hlen Hnn Hbi) as [B1 _].
    destruct (B1 j ltac:(lia) Ekj) as (B & _ & _). lia.
Qed.
(* ====================================================================== *)
(** * F. Examples: a concrete session run with the interpreter              *)
(* ====================================================================== *)

Lemma hdr_wf_b : forall h, forallb (fun d => 0 <=? d_size d) (h_dims h) = true -> hdr_wf h.
Proof.
  intros h H. unfold hdr_wf. apply Forall_forall. intros d Hd.
  rewrite forallb_forall in H. specialize (H d Hd). lia.
Qed.

Definition run (w : world) (ops : list op) : world :=
  fold_left (fun w o => fst (exec_all w o)) ops w.

Definition file_at (w : world) (slot : Z) : filest :=
  match lookup_file w slot with
  | Some (_, f) => f
  | None => mkfile (mkhdr 0 0 [] [] []) empty_layout false false false false None false no_align [] 0 true
  end.

(* 2 processes; slot 0: CDF-1 file, dims t (unlimited), x = 5; fill mode on;
   a : int a(x) fill mode;  r : short r(t, x) fill mode;  b : double b(x) no-fill *)
Definition ex_ops_def : list op :=
  [ OCreate 0 1 1; ODefDim 0 [116] 0; ODefDim 0 [120] 5; OSetFill 0 0;
    ODefVar 0 [97] 4 [1]; ODefVar 0 [114] 3 [0; 1]; ODefVar 0 [98] 6 [1];
    ODefVarFill 0 2 1 0 0 ].

Definition ex_wdef : world := Eval vm_compute in run (world0 2) ex_ops_def.
Definition ex_fdef : filest := Eval vm_compute in file_at ex_wdef 0.
Definition ex_ea : enddef_args := mkeargs 0 0 0 0.

Example ex_lookup_def : lookup_file ex_wdef 0 = Some (0, ex_fdef).
Proof. vm_compute. reflexivity. Qed.

Example ex_fdef_vars :
  map (fun v => (v_name v, v_type v, v_dimids v, v_nofill v)) (h_vars (f_hdr ex_fdef)) =
  [([97], 4, [1], false); ([114], 3, [0; 1], false); ([98], 6, [1], true)].
Proof. vm_compute. reflexivity. Qed.

Definition ex_lay1 : layout := mklayout 168 512 572 10 [512; 572; 532].

(* every hypothesis of do_enddef_new_eq *)
Example ex_new_indef : f_indef ex_fdef = true. Proof. reflexivity. Qed.
Example ex_new_old : f_old ex_fdef = None. Proof. reflexivity. Qed.
Example ex_new_isnew : f_isnew ex_fdef = true. Proof. reflexivity. Qed.
Example ex_new_br0 : l_begin_rec (f_lay ex_fdef) = 0. Proof. reflexivity. Qed.
Example ex_new_args : enddef_args_ok ex_ea. Proof. unfold enddef_args_ok, ex_ea; cbn; lia. Qed.
Example ex_new_vlens : check_vlens (f_hdr ex_fdef) = NC_NOERR. Proof. vm_compute. reflexivity. Qed.
Example ex_new_align :
  resolve_align (f_align ex_fdef) ex_ea (Zlen (h_vars (f_hdr ex_fdef))) true = (512, 4, 4).
Proof. vm_compute. reflexivity. Qed.
Example ex_new_begins :
  begins (f_hdr ex_fdef) (e_h_minfree ex_ea) (e_v_minfree ex_ea) 512 4 None (l_begin_rec (f_lay ex_fdef))
  = Some ex_lay1.
Proof. vm_compute. reflexivity. Qed.
Example ex_new_guard : fill_guard 0 (enddef_hdr ex_fdef ex_lay1) = true.
Proof. vm_compute. reflexivity. Qed.

(* B on the instance: the interpreter's enddef is the spelled-out world *)
Definition ex_h1 : hdr := enddef_hdr ex_fdef ex_lay1.
Definition ex_f1 : filest := enddef_file ex_fdef ex_lay1.
Definition ex_wdat : world :=
  put_file (set_disk ex_wdef (f_slot ex_fdef) (enddef_new_disk ex_wdef ex_fdef ex_lay1)) 0 (Some ex_f1).

Example ex_enddef_eq : do_enddef ex_wdef 0 ex_fdef ex_ea = Some (ex_wdat, NC_NOERR).
Proof.
  exact (do_enddef_new_eq ex_wdef 0 ex_fdef ex_ea 512 4 4 ex_lay1 ex_new_indef ex_new_old
           ex_new_args ex_new_vlens ex_new_align ex_new_begins ex_new_guard).
Qed.

(* ... and it is what exec_all (OEnddef 0) runs *)
Example ex_exec_enddef :
  lookup_file (fst (exec_all ex_wdef (OEnddef 0))) 0 = Some (0, ex_f1) /\
  snd (exec_all ex_wdef (OEnddef 0)) = [(0, NC_NOERR, []); (1, NC_NOERR, [])].
Proof. vm_compute. split; reflexivity. Qed.

(* the remaining hypotheses of enddef_writes_header *)
Example ex_new_hdr_wf : hdr_wf (f_hdr ex_fdef).
Proof. apply hdr_wf_b. vm_compute. reflexivity. Qed.
Example ex_new_hints :
  0 <= env_h_align (f_align ex_fdef) /\ 0 <= env_v_align (f_align ex_fdef) /\
  0 <= env_r_align (f_align ex_fdef).
Proof. vm_compute. repeat split; discriminate. Qed.
Example ex_new_slot : 0 <= f_slot ex_fdef < Zlen (w_disks ex_wdef).
Proof. vm_compute. split; [discriminate|reflexivity]. Qed.
Example ex_new_id : 0 <= 0 < Zlen (w_files ex_wdef).
Proof. vm_compute. split; [discriminate|reflexivity]. Qed.
Example ex_new_np : 1 <= w_nprocs ex_wdef.
Proof. vm_compute. discriminate. Qed.
Example ex_new_wf_h1 : wf_hdr (set_numrecs (set_begins (f_hdr ex_fdef) (l_begins ex_lay1)) 0) = true.
Proof. vm_compute. reflexivity. Qed.

Example ex_enddef_writes_header :=
  enddef_writes_header ex_wdef 0 ex_fdef ex_ea ex_wdat ex_new_old ex_new_indef ex_new_isnew ex_new_br0
    ex_new_hdr_wf (proj1 ex_new_hints) (proj1 (proj2 ex_new_hints)) (proj2 (proj2 ex_new_hints))
    ex_new_slot ex_new_id ex_new_np ex_enddef_eq.

(* the conclusion, computed independently: header bytes, fill of a (int fill value
   -2147483647 = 80 00 00 01) by two ranks, b (no-fill) untouched, no record yet *)
Example ex_enddef_bytes :
  dk_read (get_disk ex_wdat 0) 0 168 = encode_header ex_h1 /\
  dk_size (get_disk ex_wdat 0) = 532 /\
  dk_read (get_disk ex_wdat 0) 512 20 = flat_map (fun _ => [128; 0; 0; 1]) (zrange 0 5) /\
  dk_read (get_disk ex_wdat 0) 168 4 = [UNDEF; UNDEF; UNDEF; UNDEF] /\
  option_map dc_hdr (decode (dk_read (get_disk ex_wdat 0) 0 532)) = Some (hdr_content ex_h1).
Proof. vm_compute. repeat split; reflexivity. Qed.

(* ---------- D on the instance ---------- *)
Example ex_dat_file : znth (w_files ex_wdat) 0 None = Some ex_f1.
Proof. vm_compute. reflexivity. Qed.
Example ex_dat_wf : wf_hdr (f_hdr ex_f1) = true. Proof. vm_compute. reflexivity. Qed.
Example ex_dat_on_disk : hdr_on_disk ex_wdat ex_f1.
Proof. unfold hdr_on_disk. vm_compute. repeat split; try reflexivity. discriminate. Qed.
Example ex_dat_small : hdr_len (f_hdr ex_f1) <= 65536. Proof. vm_compute. discriminate. Qed.
Example ex_dat_xsz : l_xsz (f_lay ex_f1) = hdr_len (f_hdr ex_f1). Proof. vm_compute. reflexivity. Qed.
Example ex_dat_slot : 0 <= f_slot ex_f1 < Zlen (w_disks ex_wdat).
Proof. vm_compute. split; [discriminate|reflexivity]. Qed.
Example ex_dat_id : 0 <= 0 < Zlen (w_files ex_wdat).
Proof. vm_compute. split; [discriminate|reflexivity]. Qed.

Example ex_close_open :=
  close_open_same_header ex_wdat 0 ex_f1 1 eq_refl eq_refl ex_dat_file ex_dat_wf ex_dat_on_disk
    ex_dat_small ex_dat_xsz ex_dat_slot ex_dat_id.

Example ex_enddef_close_open :=
  enddef_close_open ex_wdef 0 ex_fdef ex_ea ex_wdat 1 ex_new_old ex_new_indef ex_new_isnew ex_new_br0
    ex_new_hdr_wf (proj1 ex_new_hints) (proj1 (proj2 ex_new_hints)) (proj2 (proj2 ex_new_hints))
    ex_new_slot ex_new_id ex_new_np ex_enddef_eq.

(* the same through the interpreter: enddef; close; open 0 rw; the file is found again under
   id 0 with the content header, nofill reset, and the layout enddef computed *)
Example ex_exec_close_open :
  let w3 := run ex_wdef [OEnddef 0; OClose 0; OOpen 0 1] in
  lookup_file w3 0 =
    Some (0, open_file (close_world ex_wdat 0 ex_f1) 0 1 (decoded_of ex_h1)) /\
  f_hdr (file_at w3 0) = hdr_content ex_h1 /\
  f_lay (file_at w3 0) = ex_lay1.
Proof. vm_compute. repeat split; reflexivity. Qed.

(* ---------- E on the instance: write data, redefine, enddef with arguments ---------- *)
(* enddef; put two records of r and all of a; redef; new dim y = 3; new variables
   c : int c(y) and s : short s(t, y), both fill mode; move unit 7 bytes *)
Definition ex_ops_redef : list op :=
  [ OEnddef 0;
    OPut 0 true (mkacc 1 (FVara (Some [0; 0]) (Some [2; 5])) 3 false BTyped 7);
    OPut 0 true (mkacc 0 (FVara (Some [0]) (Some [5])) 4 false BTyped 3);
    ORedef 0; ODefDim 0 [121] 3;
    ODefVar 0 [99] 4 [2]; ODefVar 0 [115] 3 [0; 2] ].
Definition ex_wre : world := set_move_unit (run ex_wdef ex_ops_redef) 7.
Definition ex_fre : filest := Eval vm_compute in file_at ex_wre 0.
Definition ex_oh : hdr := Eval vm_compute in match f_old ex_fre with Some (oh, _) => oh | None => f_hdr ex_fre end.
Definition ex_ea2 : enddef_args := mkeargs 100 0 0 64.
Definition ex_lay2 : layout := mklayout 256 512 640 20 [512; 640; 532; 572; 652].

Example ex_lookup_re : lookup_file ex_wre 0 = Some (0, ex_fre).
Proof. vm_compute. reflexivity. Qed.

(* every hypothesis of redef_enddef_disk *)
Example ex_re_indef : f_indef ex_fre = true. Proof. reflexivity. Qed.
Example ex_re_old : f_old ex_fre = Some (ex_oh, ex_lay1). Proof. reflexivity. Qed.
Example ex_re_args : enddef_args_ok ex_ea2. Proof. unfold enddef_args_ok, ex_ea2; cbn; lia. Qed.
Example ex_re_vlens : check_vlens (f_hdr ex_fre) = NC_NOERR. Proof. vm_compute. reflexivity. Qed.
Example ex_re_align :
  resolve_align (f_align ex_fre) ex_ea2 (Zlen (h_vars (f_hdr ex_fre)) - num_rec_vars ex_oh) false
  = (4, 4, 64).
Proof. vm_compute. reflexivity. Qed.
Example ex_re_begins :
  begins (f_hdr ex_fre) (e_h_minfree ex_ea2) (e_v_minfree ex_ea2) 4 64 (redef_old ex_oh ex_lay1)
         (l_begin_rec (f_lay ex_fre)) = Some ex_lay2.
Proof. vm_compute. reflexivity. Qed.
Example ex_re_guard : fill_guard (Zlen (h_vars ex_oh)) (enddef_hdr ex_fre ex_lay2) = true.
Proof. vm_compute. reflexivity. Qed.

Definition ex_f2 : filest := enddef_file ex_fre ex_lay2.
Definition ex_wdat2 : world :=
  put_file (set_disk ex_wre (f_slot ex_fre) (enddef_redef_disk ex_wre ex_fre ex_oh ex_lay1 ex_lay2))
           0 (Some ex_f2).

Example ex_redef_enddef_eq : do_enddef ex_wre 0 ex_fre ex_ea2 = Some (ex_wdat2, NC_NOERR).
Proof.
  exact (redef_enddef_disk ex_wre 0 ex_fre ex_ea2 ex_oh ex_lay1 4 4 64 ex_lay2 ex_re_indef ex_re_old
           ex_re_args ex_re_vlens ex_re_align ex_re_begins ex_re_guard).
Qed.

Example ex_exec_redef_enddef :
  lookup_file (fst (exec_all ex_wre (OEnddefX 0 100 0 0 64))) 0 = Some (0, ex_f2) /\
  snd (exec_all ex_wre (OEnddefX 0 100 0 0 64)) = [(0, NC_NOERR, []); (1, NC_NOERR, [])].
Proof. vm_compute. split; reflexivity. Qed.

(* the remaining hypotheses of redef_enddef_run_preserves *)
Example ex_re_br : l_begin_rec (f_lay ex_fre) = l_begin_rec ex_lay1. Proof. reflexivity. Qed.
Example ex_re_hdr_wf : hdr_wf (f_hdr ex_fre).
Proof. apply hdr_wf_b. vm_compute. reflexivity. Qed.
Example ex_re_hints :
  0 <= env_h_align (f_align ex_fre) /\ 0 <= env_v_align (f_align ex_fre) /\
  0 <= env_r_align (f_align ex_fre).
Proof. vm_compute. repeat split; discriminate. Qed.
Example ex_re_lay_inv : lay_inv (t3of ex_oh) ex_lay1.
Proof.
  assert (E : t3of ex_oh = t3of (f_hdr ex_fdef)) by (vm_compute; reflexivity). rewrite E.
  exact (proj1 (begins_layout_ok (f_hdr ex_fdef) 0 0 512 4 ex_lay1 ex_new_hdr_wf ltac:(lia) ltac:(lia)
                  ltac:(lia) eq_refl ltac:(lia) eq_refl ex_new_begins)).
Qed.
Example ex_re_extends : hdr_extends ex_oh (f_hdr ex_fre).
Proof. exists (skipn 3 (t3of (f_hdr ex_fre))). vm_compute. reflexivity. Qed.
Example ex_re_np : 1 <= w_nprocs ex_wre. Proof. vm_compute. discriminate. Qed.
Example ex_re_unit : 1 <= w_move_unit ex_wre. Proof. vm_compute. discriminate. Qed.
Example ex_re_numrecs : 0 <= enddef_numrecs ex_fre. Proof. vm_compute. discriminate. Qed.
Example ex_re_slot : 0 <= f_slot ex_fre < Zlen (w_disks ex_wre).
Proof. vm_compute. split; [discriminate|reflexivity]. Qed.
Example ex_re_id : 0 <= 0 < Zlen (w_files ex_wre).
Proof. vm_compute. split; [discriminate|reflexivity]. Qed.
Example ex_re_wf_h2 : wf_hdr (enddef_hdr ex_fre ex_lay2) = true.
Proof. vm_compute. reflexivity. Qed.

Example ex_redef_enddef_run_preserves :=
  redef_enddef_run_preserves ex_wre 0 ex_fre ex_ea2 ex_oh ex_lay1 ex_wdat2 ex_re_indef ex_re_old ex_re_br
    ex_re_hdr_wf (proj1 ex_re_hints) (proj1 (proj2 ex_re_hints)) (proj2 (proj2 ex_re_hints))
    ex_re_lay_inv ex_re_extends ex_re_np ex_re_unit ex_re_numrecs ex_re_slot ex_re_id
    ex_redef_enddef_eq.

Example ex_redef_enddef_preserves :=
  redef_enddef_preserves ex_wre ex_fre ex_oh ex_lay1 ex_lay2 100 0 4 64 ex_re_hdr_wf ltac:(lia) ltac:(lia)
    ltac:(lia) ltac:(lia) eq_refl ex_re_lay_inv ex_re_extends ex_re_begins ex_re_np ex_re_unit
    ex_re_numrecs ex_re_wf_h2
    (fill_len_ok_of_guard _ _ ex_re_wf_h2 ex_re_guard).

(* the conclusion computed independently: a (20 bytes at 512, unmoved), both records of r
   (10 bytes each, 572 + 10 r -> 640 + 20 r), b (no-fill, never written) - and the new
   variables filled: c (int, 3 elements at 572), s (short, 3 elements at 652 + 20 r) *)
Example ex_redef_bytes :
  let d0 := get_disk ex_wre 0 in
  let d3 := get_disk ex_wdat2 0 in
  dk_read d3 512 20 = dk_read d0 512 20 /\
  dk_read d3 640 10 = dk_read d0 572 10 /\
  dk_read d3 660 10 = dk_read d0 582 10 /\
  forallb (fun b => 0 <=? b) (dk_read d0 512 20 ++ dk_read d0 572 20) = true /\
  dk_read d3 532 40 = dk_read d0 532 40 /\
  dk_read d3 572 12 = flat_map (fun _ => [128; 0; 0; 1]) (zrange 0 3) /\
  dk_read d3 652 6 = [128; 1; 128; 1; 128; 1] /\
  dk_read d3 672 6 = [128; 1; 128; 1; 128; 1] /\
  dk_read d3 0 256 = encode_header (enddef_hdr ex_fre ex_lay2).
Proof. vm_compute. repeat split; reflexivity. Qed.

(* ---------- D, truncation branch of do_close: a CDF-5 file without variables whose disk has
   been extended beyond the header ---------- *)
Definition ex_wnv0 : world := run (world0 2) [OCreate 1 5 1; ODefDim 1 [120] 4; OEnddef 1].
Definition ex_fnv : filest := Eval vm_compute in file_at ex_wnv0 1.
Definition ex_wnv : world := set_disk ex_wnv0 1 (dk_write (get_disk ex_wnv0 1) 200 [1; 2; 3]).

Example ex_nv_file : znth (w_files ex_wnv) 0 None = Some ex_fnv /\ h_vars (f_hdr ex_fnv) = [].
Proof. vm_compute. split; reflexivity. Qed.
Example ex_nv_on_disk : hdr_on_disk ex_wnv ex_fnv.
Proof. unfold hdr_on_disk. vm_compute. repeat split; try reflexivity. discriminate. Qed.

Example ex_nv_close_open :=
  close_open_same_header ex_wnv 0 ex_fnv 0 eq_refl eq_refl (proj1 ex_nv_file)
    ltac:(vm_compute; reflexivity) ex_nv_on_disk ltac:(vm_compute; discriminate)
    ltac:(vm_compute; reflexivity) ltac:(vm_compute; split; [discriminate|reflexivity])
    ltac:(vm_compute; split; [discriminate|reflexivity]).

Example ex_nv_truncated :
  dk_size (get_disk ex_wnv 1) = 203 /\
  dk_size (get_disk (close_world ex_wnv 0 ex_fnv) 1) = hdr_len (f_hdr ex_fnv) /\
  hdr_len (f_hdr ex_fnv) = 68 /\
  f_hdr (file_at (run ex_wnv [OClose 1; OOpen 1 0]) 1) = hdr_content (f_hdr ex_fnv).
Proof. vm_compute. repeat split; reflexivity. Qed.

Print Assumptions do_enddef_new_eq.
Print Assumptions do_enddef_new_inv.
Print Assumptions enddef_writes_header.
Print Assumptions do_close_data_eq.
Print Assumptions do_open_eq.
Print Assumptions close_open_same_header.
Print Assumptions enddef_close_open.
Print Assumptions redef_enddef_disk.
Print Assumptions redef_enddef_inv.
Print Assumptions redef_enddef_preserves_gen.
Print Assumptions redef_enddef_preserves_fixed.
Print Assumptions rec_slot_fits.
Print Assumptions redef_enddef_preserves.
Print Assumptions redef_enddef_run_preserves.
Print Assumptions ex_redef_enddef_run_preserves.
Print Assumptions ex_enddef_close_open.
