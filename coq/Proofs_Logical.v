(* Proofs_Logical.v — the logical content of a file (Logical.v) versus its layout.

   Main results (for ALL contents and ALL layout choices; nothing is a bounded sweep):
     dump_regen_identity          logical_content (encode_with_layout c lc) = Some c
     logical_eq_true_iff          logical_eq a b = true <-> a = b
     content_eq_true_iff          content_eq a b = true <-> equal up to the format number
     logical_eq_equiv             logical_eq is an equivalence relation
     logical_eq_layout_invariant  two layouts of one content compare equal
     files_logical_eq_iff         two written files compare equal iff the contents are equal
     logical_eq_detects_single_edit   every single logical edit is detected
     written_files_strict_valid   the header of a written file is strictly valid
     encode_with_layout_valid_partial   file_valid of a written file whose gaps are multiples of 4, provided
                                  record packing applies to at most one record variable (packed_alone);
     encode_with_layout_valid_refuted   without packed_alone the statement is false (bad_c: a zero-size second
                                  record variable — excluded by the library — gets an unaligned begin)
   No model definition is modified; every statement is fully proved. *)
From Pnc Require Import Base Header HeaderSpec Logical Proofs_Base Proofs_Lists Proofs_Header.
Require Import Lia ZArith ZifyBool.
Ltac Zify.zify_post_hook ::= Z.div_mod_to_equations.
Local Open Scope Z_scope.

Local Arguments Z.mul : simpl never.
Local Arguments Z.add : simpl never.
Local Arguments Z.sub : simpl never.
Local Arguments Z.div : simpl never.
Local Arguments Z.modulo : simpl never.
Local Arguments Z.pow : simpl never.
Local Arguments Z.of_nat : simpl never.
Local Arguments Z.to_nat : simpl never.

(* ================================================================== *)
(** * Hypotheses of the main theorems *)

Definition wf_content (c : logical) : Prop :=
  wf_hdr (hdr_of c (map (fun _ => 0) (lg_vars c))) = true /\ data_ok c = true.

(* the begins fit the OFFSET field of the format *)
Definition layout_fits (c : logical) (lc : layout_choice) : Prop :=
  Forall (fun b => off_ok (lg_format c) b = true) (layout_begins c lc).

(* ================================================================== *)
(** * Generic list lemmas *)

Lemma zskipn_nil : forall A n, zskipn n (@nil A) = [].
Proof. reflexivity. Qed.

Lemma zskipn_zskipn : forall A (l : list A) a b, 0 <= a -> 0 <= b ->
  zskipn b (zskipn a l) = zskipn (a + b) l.
Proof.
  intros A l. induction l as [|x l IH]; intros a b Ha Hb.
  - reflexivity.
  - cbn [zskipn]. destruct (a <=? 0) eqn:Ea.
    + assert (a = 0) by lia. subst a. replace (0 + b) with b by lia. reflexivity.
    + destruct (a + b <=? 0) eqn:Eab; [lia|].
      rewrite IH by lia. f_equal. lia.
Qed.

(* peel an exact prefix at a known position *)
Lemma zskipn_peel : forall A (file l t : list A) p, 0 <= p ->
  zskipn p file = l ++ t -> zskipn (p + Zlen l) file = t.
Proof.
  intros A file l t p Hp H.
  rewrite <- zskipn_zskipn by (try exact Hp; apply Zlen_nonneg).
  rewrite H. apply zskipn_app_exact.
Qed.

Lemma zskipn_app_len : forall A (l r : list A) n, n = Zlen l -> zskipn n (l ++ r) = r.
Proof. intros A l r n ->. apply zskipn_app_exact. Qed.

Lemma Zlen_concat_const : forall (es : list (list byte)) xsz,
  Forall (fun e => Zlen e = xsz) es -> Zlen (concat es) = Zlen es * xsz.
Proof.
  intros es xsz H. induction H as [|e es He Hes IH].
  - reflexivity.
  - cbn [concat]. rewrite Zlen_app, Zlen_cons, He, IH. lia.
Qed.

Lemma Forall_firstn_ : forall A (P : A -> Prop) n l, Forall P l -> Forall P (firstn n l).
Proof.
  intros A P n. induction n as [|n IH]; intros l H; [apply Forall_nil|].
  destruct H as [|x l Hx Hl]; cbn [firstn]; [apply Forall_nil|].
  apply Forall_cons; [exact Hx|apply IH; exact Hl].
Qed.

Lemma Forall_skipn_ : forall A (P : A -> Prop) n l, Forall P l -> Forall P (skipn n l).
Proof.
  intros A P n. induction n as [|n IH]; intros l H; [exact H|].
  destruct H as [|x l Hx Hl]; cbn [skipn]; [apply Forall_nil|]. apply IH. exact Hl.
Qed.

Lemma skipn_skipn_ : forall A x y (l : list A), skipn x (skipn y l) = skipn (y + x) l.
Proof.
  intros A x y. induction y as [|y IH]; intros l; [reflexivity|].
  destruct l as [|a l]; cbn [skipn Nat.add].
  - destruct x; reflexivity.
  - apply IH.
Qed.

Lemma znth_zupd_same : forall A (l : list A) i v d, 0 <= i < Zlen l -> znth (zupd l i v) i d = v.
Proof.
  intros A l. induction l as [|x l IH]; intros i v d Hi.
  - rewrite Zlen_nil in Hi. lia.
  - rewrite Zlen_cons in Hi. cbn [zupd]. destruct (i =? 0) eqn:E.
    + cbn [znth]. rewrite E. reflexivity.
    + cbn [znth]. rewrite E. apply IH. lia.
Qed.

Lemma zupd_neq : forall A (l : list A) i v d, 0 <= i < Zlen l -> v <> znth l i d -> zupd l i v <> l.
Proof.
  intros A l i v d Hi Hv E. apply Hv.
  rewrite <- E at 1. symmetry. apply znth_zupd_same. exact Hi.
Qed.

Lemma map_zip_indep : forall (B : Type) (g : var -> B) (g' : lvar -> B),
  (forall v b, g (var_of v b) = g' v) ->
  forall vs (bl : list Z), length bl = length vs ->
  map g (map (fun p => var_of (fst p) (snd p)) (zip vs bl)) = map g' vs.
Proof.
  intros B g g' Hg vs. induction vs as [|v vs IH]; intros bl Hl.
  - reflexivity.
  - destruct bl as [|b bl]; [discriminate|]. cbn [zip map fst snd].
    rewrite Hg, IH; [reflexivity|]. cbn [length] in Hl. lia.
Qed.

(* ================================================================== *)
(** * 2. Reflection of the boolean equalities *)

Lemma list_eqb_iff : forall A (eqb : A -> A -> bool),
  (forall x y, eqb x y = true <-> x = y) ->
  forall a b, list_eqb eqb a b = true <-> a = b.
Proof.
  intros A eqb H a. induction a as [|x a IH]; intros b; destruct b as [|y b]; cbn [list_eqb].
  - split; reflexivity.
  - split; discriminate.
  - split; discriminate.
  - rewrite andb_true_iff, H, IH. split.
    + intros [-> ->]. reflexivity.
    + intros E. injection E as -> ->. split; reflexivity.
Qed.

Lemma bytes_eqb_iff : forall a b, bytes_eqb a b = true <-> a = b.
Proof. intros a b. unfold bytes_eqb. apply list_eqb_iff. intros x y. apply Z.eqb_eq. Qed.

Lemma dim_eqb_iff : forall a b, dim_eqb a b = true <-> a = b.
Proof.
  intros [n1 s1] [n2 s2]. unfold dim_eqb. cbn [d_name d_size].
  rewrite andb_true_iff, bytes_eqb_iff, Z.eqb_eq. split.
  - intros [-> ->]. reflexivity.
  - intros E. injection E as -> ->. split; reflexivity.
Qed.

Lemma att_eqb_iff : forall a b, att_eqb a b = true <-> a = b.
Proof.
  intros [n1 t1 k1 d1] [n2 t2 k2 d2]. unfold att_eqb. cbn [a_name a_type a_nelems a_data].
  rewrite !andb_true_iff, !bytes_eqb_iff, !Z.eqb_eq. split.
  - intros [[[-> ->] ->] ->]. reflexivity.
  - intros E. injection E as -> -> -> ->. repeat split; reflexivity.
Qed.

Lemma lvar_eqb_iff : forall a b, lvar_eqb a b = true <-> a = b.
Proof.
  intros [n1 t1 i1 a1 d1] [n2 t2 i2 a2 d2]. unfold lvar_eqb.
  cbn [lv_name lv_type lv_dimids lv_atts lv_data].
  rewrite !andb_true_iff, bytes_eqb_iff, Z.eqb_eq.
  rewrite (list_eqb_iff Z Z.eqb Z.eqb_eq), (list_eqb_iff att att_eqb att_eqb_iff),
          (list_eqb_iff (list byte) bytes_eqb bytes_eqb_iff).
  split.
  - intros [[[[-> ->] ->] ->] ->]. reflexivity.
  - intros E. injection E as -> -> -> -> ->. repeat split; reflexivity.
Qed.

Lemma content_eq_iff : forall a b, content_eq a b = true <->
  lg_numrecs a = lg_numrecs b /\ lg_dims a = lg_dims b /\ lg_gatts a = lg_gatts b /\
  lg_vars a = lg_vars b.
Proof.
  intros a b. unfold content_eq.
  rewrite !andb_true_iff, Z.eqb_eq.
  rewrite (list_eqb_iff dim dim_eqb dim_eqb_iff), (list_eqb_iff att att_eqb att_eqb_iff),
          (list_eqb_iff lvar lvar_eqb lvar_eqb_iff).
  tauto.
Qed.

Theorem content_eq_true_iff : forall a b,
  content_eq a b = true <-> set_format a 0 = set_format b 0.
Proof.
  intros a b. rewrite content_eq_iff. unfold set_format. split.
  - intros (-> & -> & -> & ->). reflexivity.
  - intros E. injection E as E1 E2 E3 E4. tauto.
Qed.

Theorem logical_eq_true_iff : forall a b, logical_eq a b = true <-> a = b.
Proof.
  intros a b. unfold logical_eq. rewrite andb_true_iff, Z.eqb_eq, content_eq_iff. split.
  - destruct a as [f1 n1 d1 g1 v1], b as [f2 n2 d2 g2 v2].
    cbn [lg_format lg_numrecs lg_dims lg_gatts lg_vars].
    intros (-> & -> & -> & -> & ->). reflexivity.
  - intros ->. repeat split; reflexivity.
Qed.

Lemma logical_eq_false_of_neq : forall a b, a <> b -> logical_eq a b = false.
Proof.
  intros a b H. destruct (logical_eq a b) eqn:E; [|reflexivity].
  exfalso. apply H. apply logical_eq_true_iff. exact E.
Qed.

(* ================================================================== *)
(** * 3. logical_eq is an equivalence relation *)

Theorem logical_eq_equiv :
  (forall a, logical_eq a a = true) /\
  (forall a b, logical_eq a b = logical_eq b a) /\
  (forall a b c, logical_eq a b = true -> logical_eq b c = true -> logical_eq a c = true).
Proof.
  split; [|split].
  - intros a. apply logical_eq_true_iff. reflexivity.
  - intros a b. destruct (logical_eq a b) eqn:E1.
    + apply logical_eq_true_iff in E1. subst b. symmetry. apply logical_eq_true_iff. reflexivity.
    + destruct (logical_eq b a) eqn:E2; [|reflexivity].
      apply logical_eq_true_iff in E2. subst b.
      rewrite (proj2 (logical_eq_true_iff a a) eq_refl) in E1. discriminate.
  - intros a b c H1 H2. apply logical_eq_true_iff in H1. apply logical_eq_true_iff in H2.
    apply logical_eq_true_iff. congruence.
Qed.

(* ================================================================== *)
(** * 6. Every single logical edit is detected *)

Theorem logical_eq_detects_single_edit : forall c,
  (forall i k j b, 0 <= i < Zlen (lg_vars c) ->
     0 <= k < Zlen (lv_data (znth (lg_vars c) i dlv)) ->
     0 <= j < Zlen (znth (lv_data (znth (lg_vars c) i dlv)) k []) ->
     b <> znth (znth (lv_data (znth (lg_vars c) i dlv)) k []) j 0 ->
     logical_eq c (edit_value c i k j b) = false) /\
  (forall i j b, 0 <= i < Zlen (lg_gatts c) -> 0 <= j < Zlen (a_data (znth (lg_gatts c) i datt)) ->
     b <> znth (a_data (znth (lg_gatts c) i datt)) j 0 ->
     logical_eq c (edit_gatt_value c i j b) = false) /\
  (forall i a j b, 0 <= i < Zlen (lg_vars c) -> 0 <= a < Zlen (lv_atts (znth (lg_vars c) i dlv)) ->
     0 <= j < Zlen (a_data (znth (lv_atts (znth (lg_vars c) i dlv)) a datt)) ->
     b <> znth (a_data (znth (lv_atts (znth (lg_vars c) i dlv)) a datt)) j 0 ->
     logical_eq c (edit_vatt_value c i a j b) = false) /\
  (forall i n, 0 <= i < Zlen (lg_vars c) -> n <> lv_name (znth (lg_vars c) i dlv) ->
     logical_eq c (edit_var_name c i n) = false) /\
  (forall i n, 0 <= i < Zlen (lg_dims c) -> n <> d_name (znth (lg_dims c) i ddim) ->
     logical_eq c (edit_dim_name c i n) = false) /\
  (forall i n, 0 <= i < Zlen (lg_gatts c) -> n <> a_name (znth (lg_gatts c) i datt) ->
     logical_eq c (edit_gatt_name c i n) = false) /\
  (forall i n vs', 0 <= i < Zlen (lg_dims c) -> n <> d_size (znth (lg_dims c) i ddim) ->
     logical_eq c (edit_dim_len c i n vs') = false) /\
  (forall n, n <> lg_numrecs c -> logical_eq c (set_numrecs_l c n) = false) /\
  (forall f, f <> lg_format c -> logical_eq c (set_format c f) = false /\
                                 content_eq c (set_format c f) = true).
Proof.
  intros c. repeat split.
  - (* data byte *)
    intros i k j b Hi Hk Hj Hb. apply logical_eq_false_of_neq. intros E.
    apply (f_equal lg_vars) in E. unfold edit_value, set_vars in E. cbn [lg_vars] in E.
    symmetry in E. revert E. apply (zupd_neq lvar _ _ _ dlv Hi). intros E.
    apply (f_equal lv_data) in E. unfold set_data in E. cbn [lv_data] in E.
    revert E. apply (zupd_neq (list byte) _ _ _ [] Hk).
    apply (zupd_neq byte _ _ _ 0 Hj). exact Hb.
  - (* global attribute value byte *)
    intros i j b Hi Hj Hb. apply logical_eq_false_of_neq. intros E.
    apply (f_equal lg_gatts) in E. unfold edit_gatt_value, set_gatts in E. cbn [lg_gatts] in E.
    symmetry in E. revert E. apply (zupd_neq att _ _ _ datt Hi). intros E.
    apply (f_equal a_data) in E. unfold att_set_byte in E. cbn [a_data] in E.
    revert E. apply (zupd_neq byte _ _ _ 0 Hj). exact Hb.
  - (* variable attribute value byte *)
    intros i a j b Hi Ha Hj Hb. apply logical_eq_false_of_neq. intros E.
    apply (f_equal lg_vars) in E. unfold edit_vatt_value, set_vars in E. cbn [lg_vars] in E.
    symmetry in E. revert E. apply (zupd_neq lvar _ _ _ dlv Hi). intros E.
    apply (f_equal lv_atts) in E. unfold set_vatts in E. cbn [lv_atts] in E.
    revert E. apply (zupd_neq att _ _ _ datt Ha). intros E.
    apply (f_equal a_data) in E. unfold att_set_byte in E. cbn [a_data] in E.
    revert E. apply (zupd_neq byte _ _ _ 0 Hj). exact Hb.
  - (* variable name *)
    intros i n Hi Hn. apply logical_eq_false_of_neq. intros E.
    apply (f_equal lg_vars) in E. unfold edit_var_name, set_vars in E. cbn [lg_vars] in E.
    symmetry in E. revert E. apply (zupd_neq lvar _ _ _ dlv Hi). intros E.
    apply (f_equal lv_name) in E. unfold set_vname in E. cbn [lv_name] in E. exact (Hn E).
  - (* dimension name *)
    intros i n Hi Hn. apply logical_eq_false_of_neq. intros E.
    apply (f_equal lg_dims) in E. unfold edit_dim_name, set_dims in E. cbn [lg_dims] in E.
    symmetry in E. revert E. apply (zupd_neq dim _ _ _ ddim Hi). intros E.
    apply (f_equal d_name) in E. cbn [d_name] in E. exact (Hn E).
  - (* global attribute name *)
    intros i n Hi Hn. apply logical_eq_false_of_neq. intros E.
    apply (f_equal lg_gatts) in E. unfold edit_gatt_name, set_gatts in E. cbn [lg_gatts] in E.
    symmetry in E. revert E. apply (zupd_neq att _ _ _ datt Hi). intros E.
    apply (f_equal a_name) in E. unfold att_set_name in E. cbn [a_name] in E. exact (Hn E).
  - (* dimension length *)
    intros i n vs' Hi Hn. apply logical_eq_false_of_neq. intros E.
    apply (f_equal lg_dims) in E. unfold edit_dim_len, set_vars, set_dims in E.
    cbn [lg_dims] in E.
    symmetry in E. revert E. apply (zupd_neq dim _ _ _ ddim Hi). intros E.
    apply (f_equal d_size) in E. cbn [d_size] in E. exact (Hn E).
  - (* numrecs *)
    intros n Hn. apply logical_eq_false_of_neq. intros E.
    apply (f_equal lg_numrecs) in E. unfold set_numrecs_l in E. cbn [lg_numrecs] in E.
    apply Hn. symmetry. exact E.
  - (* format: logical_eq sees it *)
    apply logical_eq_false_of_neq. intros E.
    apply (f_equal lg_format) in E. unfold set_format in E. cbn [lg_format] in E.
    apply H. symmetry. exact E.
  - (* ... content_eq does not *)
    apply content_eq_true_iff. reflexivity.
Qed.

(* ================================================================== *)
(** * 7. The header of a written file is strictly valid *)

Theorem written_files_strict_valid : forall h rest,
  wf_hdr h = true -> dimids_ok h = true -> unlim_ok h = true -> vsize_ok h = true ->
  exists d, decode (encode_header h ++ rest) = Some d /\ strict_valid d = true /\
            dc_hdr d = hdr_content h /\ dc_len d = Zlen (encode_header h).
Proof.
  intros h rest H Hd Hu Hv. exists (decoded_of h). split; [|split; [|split]].
  - apply decode_encode_full. exact H.
  - apply strict_valid_decoded_of; assumption.
  - reflexivity.
  - reflexivity.
Qed.

(* ================================================================== *)
(** * 1. Reading the data section back *)

Lemma take_elems_concat : forall xsz (es : list (list byte)) r,
  Forall (fun e => Zlen e = xsz) es -> take_elems xsz (length es) (concat es ++ r) = es.
Proof.
  intros xsz es r H. induction H as [|e es He Hes IH].
  - reflexivity.
  - cbn [length concat take_elems]. rewrite <- app_assoc. subst xsz.
    rewrite zfirstn_app_exact, zskipn_app_exact, IH. reflexivity.
Qed.

Lemma take_records_spec : forall xsz nper recsize n (f : nat -> list (list byte)) cur,
  0 <= recsize ->
  (forall r, (r < n)%nat ->
     Forall (fun e => Zlen e = xsz) (f r) /\ length (f r) = nper /\
     exists t, zskipn (Z.of_nat r * recsize) cur = concat (f r) ++ t) ->
  take_records xsz nper recsize n cur = flat_map f (seq 0 n).
Proof.
  intros xsz nper recsize n. induction n as [|n IH]; intros f cur Hrs H.
  - reflexivity.
  - cbn [take_records seq flat_map].
    destruct (H 0%nat ltac:(lia)) as (HF & HL & t & Ht).
    replace (Z.of_nat 0 * recsize) with 0 in Ht by lia. rewrite zskipn_0 in Ht.
    f_equal.
    + rewrite Ht, <- HL. apply take_elems_concat. exact HF.
    + rewrite <- seq_shift, flat_map_map_comm.
      apply (IH (fun r => f (S r))); [exact Hrs|].
      intros r Hr. destruct (H (S r) ltac:(lia)) as (HF' & HL' & t' & Ht').
      split; [exact HF'|split; [exact HL'|]]. exists t'.
      rewrite zskipn_zskipn by lia. rewrite <- Ht'. f_equal. lia.
Qed.

Lemma slab_length : forall nper r n (data : list (list byte)),
  length data = (n * nper)%nat -> (r < n)%nat -> length (slab nper r data) = nper.
Proof.
  intros nper r n data Hl Hr. unfold slab. rewrite firstn_length, skipn_length, Hl.
  apply Nat.min_l. nia.
Qed.

Lemma slabs_all : forall nper n (data : list (list byte)),
  length data = (n * nper)%nat -> flat_map (fun r => slab nper r data) (seq 0 n) = data.
Proof.
  intros nper n. induction n as [|n IH]; intros data Hl.
  - destruct data; [reflexivity|discriminate].
  - cbn [seq flat_map]. rewrite <- seq_shift, flat_map_map_comm.
    rewrite (flat_map_ext_In _ _ (fun x => slab nper (S x) data)
               (fun x => slab nper x (skipn nper data))).
    + rewrite IH.
      * unfold slab. cbn [Nat.mul skipn]. apply firstn_skipn.
      * rewrite skipn_length, Hl. cbn [Nat.mul]. lia.
    + intros r _. unfold slab. rewrite skipn_skipn_. cbn [Nat.mul]. reflexivity.
Qed.

(* position r * sz inside n consecutive blocks of sz bytes *)
Lemma flat_map_seq_at : forall sz n (F : nat -> list byte) tail, 0 <= sz ->
  (forall r, (r < n)%nat -> Zlen (F r) = sz) ->
  forall r, (r < n)%nat ->
  exists t, zskipn (Z.of_nat r * sz) (flat_map F (seq 0 n) ++ tail) = F r ++ t.
Proof.
  intros sz n. induction n as [|n IH]; intros F tail Hsz HF r Hr; [lia|].
  cbn [seq flat_map]. rewrite <- app_assoc. destruct r as [|r].
  - replace (Z.of_nat 0 * sz) with 0 by lia. rewrite zskipn_0. eexists. reflexivity.
  - replace (Z.of_nat (S r) * sz) with (sz + Z.of_nat r * sz) by lia.
    rewrite <- zskipn_zskipn by lia.
    rewrite (zskipn_app_len _ (F 0%nat) _ sz) by (symmetry; apply HF; lia).
    rewrite <- seq_shift, flat_map_map_comm.
    apply (IH (fun x => F (S x)) tail Hsz); [|lia].
    intros r' Hr'. apply HF. lia.
Qed.

(* ================================================================== *)
(** * Per-variable facts (consequences of wf_content) *)

Definition lv_ok (dims : list dim) (packed : bool) (numrecs : Z) (v : lvar) : Prop :=
  1 <= lx_xsz v /\ 0 <= lx_nper dims v /\
  lx_nper dims v * lx_xsz v <= lx_len dims v /\ lx_len dims v mod 4 = 0 /\
  Forall (fun e => Zlen e = lx_xsz v) (lv_data v) /\
  Zlen (lv_data v) = (if lx_isrec dims v then numrecs * lx_nper dims v else lx_nper dims v).

Lemma lx_slot_ge : forall dims packed v, lx_nper dims v * lx_xsz v <= lx_len dims v ->
  lx_nper dims v * lx_xsz v <= lx_slot dims packed v.
Proof. intros dims packed v H. unfold lx_slot. destruct packed; lia. Qed.

Lemma Zlen_pad_to : forall n l, Zlen l <= n -> Zlen (pad_to n l) = n.
Proof. intros n l H. unfold pad_to. rewrite Zlen_app, Zlen_zeros by lia. lia. Qed.

Lemma Zlen_fixed_payload : forall dims packed numrecs v, lv_ok dims packed numrecs v ->
  lx_isrec dims v = false -> Zlen (fixed_payload dims v) = lx_len dims v.
Proof.
  intros dims packed numrecs v (Hx & Hn & Hle & Hm & HF & HL) Hr. unfold fixed_payload.
  apply Zlen_pad_to. rewrite (Zlen_concat_const _ _ HF), HL, Hr. exact Hle.
Qed.

Lemma to_nat_len : forall A (l : list A) n, Zlen l = n -> length l = Z.to_nat n.
Proof. intros A l n H. unfold Zlen in H. lia. Qed.

Lemma rec_data_length : forall dims packed numrecs v, 0 <= numrecs ->
  lv_ok dims packed numrecs v -> lx_isrec dims v = true ->
  length (lv_data v) = (Z.to_nat numrecs * Z.to_nat (lx_nper dims v))%nat.
Proof.
  intros dims packed numrecs v Hnr (Hx & Hn & Hle & Hm & HF & HL) Hr. rewrite Hr in HL.
  rewrite (to_nat_len _ _ _ HL). apply Z2Nat.inj_mul; assumption.
Qed.

Lemma Zlen_slab_concat : forall dims packed numrecs v r, 0 <= numrecs ->
  lv_ok dims packed numrecs v -> lx_isrec dims v = true -> (r < Z.to_nat numrecs)%nat ->
  Zlen (concat (slab (Z.to_nat (lx_nper dims v)) r (lv_data v))) = lx_nper dims v * lx_xsz v.
Proof.
  intros dims packed numrecs v r Hnr Hok Hr Hlt.
  pose proof (rec_data_length dims packed numrecs v Hnr Hok Hr) as Hlen.
  destruct Hok as (Hx & Hn & Hle & Hm & HF & HL).
  rewrite (Zlen_concat_const _ (lx_xsz v)).
  - unfold Zlen. rewrite (slab_length _ r _ _ Hlen Hlt). lia.
  - unfold slab. apply Forall_firstn_, Forall_skipn_. exact HF.
Qed.

Lemma Zlen_rec_payload : forall dims packed numrecs v r, 0 <= numrecs ->
  lv_ok dims packed numrecs v -> lx_isrec dims v = true -> (r < Z.to_nat numrecs)%nat ->
  Zlen (rec_payload dims packed v r) = lx_slot dims packed v.
Proof.
  intros dims packed numrecs v r Hnr Hok Hr Hlt. unfold rec_payload. apply Zlen_pad_to.
  rewrite (Zlen_slab_concat dims packed numrecs v r Hnr Hok Hr Hlt).
  apply lx_slot_ge. destruct Hok as (Hx & Hn & Hle & _). exact Hle.
Qed.

Definition recoff (dims : list dim) (packed : bool) (l : list lvar) : Z :=
  zsum (map (lx_slot dims packed) (filter (lx_isrec dims) l)).

Lemma lx_slot_nonneg : forall dims packed numrecs v, lv_ok dims packed numrecs v ->
  0 <= lx_slot dims packed v.
Proof.
  intros dims packed numrecs v (Hx & Hn & Hle & _).
  pose proof (lx_slot_ge dims packed v Hle). nia.
Qed.

Lemma recoff_nonneg : forall dims packed numrecs l, Forall (lv_ok dims packed numrecs) l ->
  0 <= recoff dims packed l.
Proof.
  intros dims packed numrecs l H. unfold recoff. induction H as [|v l Hv Hl IH].
  - cbn [filter map zsum]. lia.
  - cbn [filter]. destruct (lx_isrec dims v); [|exact IH]. cbn [map zsum].
    pose proof (lx_slot_nonneg dims packed numrecs v Hv). lia.
Qed.

Lemma Zlen_rec_bytes : forall dims packed numrecs l r, 0 <= numrecs ->
  Forall (lv_ok dims packed numrecs) l -> (r < Z.to_nat numrecs)%nat ->
  Zlen (rec_bytes dims packed l r) = recoff dims packed l.
Proof.
  intros dims packed numrecs l r Hnr H Hlt. unfold rec_bytes, recoff.
  induction H as [|v l Hv Hl IH].
  - reflexivity.
  - cbn [flat_map filter]. rewrite Zlen_app. destruct (lx_isrec dims v) eqn:E.
    + cbn [map zsum]. rewrite (Zlen_rec_payload dims packed numrecs v r Hnr Hv E Hlt), IH.
      reflexivity.
    + rewrite Zlen_nil, IH. lia.
Qed.

(* ================================================================== *)
(** * The variables are read back from any file that holds the fixed section at [curf]
      and record r of the remaining variables at [curr + r * recsize] *)

Section Readback.
  Variable file : list byte.
  Variable dims : list dim.
  Variable packed : bool.
  Variable numrecs recsize : Z.
  Hypothesis Hnr : 0 <= numrecs.
  Hypothesis Hrs : 0 <= recsize.

  Lemma var_data_fixed : forall v b t, lv_ok dims packed numrecs v -> lx_isrec dims v = false ->
    zskipn b file = fixed_payload dims v ++ t ->
    var_data file dims numrecs recsize (var_of v b) = lv_data v.
  Proof.
    intros v b t (Hx & Hn & Hle & Hm & HF & HL) Hr Hb. unfold var_data.
    change (is_recvar dims (var_of v b)) with (lx_isrec dims v). rewrite Hr.
    cbn [v_begin v_type var_of]. rewrite Hb. unfold fixed_payload, pad_to.
    rewrite <- app_assoc.
    change (var_nelems_per_rec (var_shape dims (var_of v b))) with (lx_nper dims v).
    change (xlen_type (lv_type v)) with (lx_xsz v).
    rewrite Hr in HL. rewrite <- HL, to_nat_Zlen. apply take_elems_concat. exact HF.
  Qed.

  Lemma var_data_rec : forall v b, lv_ok dims packed numrecs v -> lx_isrec dims v = true ->
    0 <= b ->
    (forall r, (r < Z.to_nat numrecs)%nat ->
       exists t, zskipn (b + Z.of_nat r * recsize) file = rec_payload dims packed v r ++ t) ->
    var_data file dims numrecs recsize (var_of v b) = lv_data v.
  Proof.
    intros v b Hok Hr Hb0 Hb. unfold var_data.
    change (is_recvar dims (var_of v b)) with (lx_isrec dims v). rewrite Hr.
    cbn [v_begin v_type var_of].
    change (var_nelems_per_rec (var_shape dims (var_of v b))) with (lx_nper dims v).
    change (xlen_type (lv_type v)) with (lx_xsz v).
    pose proof (rec_data_length dims packed numrecs v Hnr Hok Hr) as Hlen.
    rewrite (take_records_spec (lx_xsz v) (Z.to_nat (lx_nper dims v)) recsize (Z.to_nat numrecs)
               (fun r => slab (Z.to_nat (lx_nper dims v)) r (lv_data v))).
    - apply slabs_all. exact Hlen.
    - exact Hrs.
    - intros r Hlt. split; [|split].
      + unfold slab. apply Forall_firstn_, Forall_skipn_.
        destruct Hok as (_ & _ & _ & _ & HF & _). exact HF.
      + apply (slab_length _ r _ _ Hlen Hlt).
      + destruct (Hb r Hlt) as [t Ht]. rewrite zskipn_zskipn by nia. rewrite Ht.
        unfold rec_payload, pad_to. rewrite <- app_assoc. eexists. reflexivity.
  Qed.

  Lemma lvar_of_eta : forall v b,
    var_data file dims numrecs recsize (var_of v b) = lv_data v ->
    lvar_of file dims numrecs recsize (var_of v b) = v.
  Proof.
    intros [nm t ids atts data] b H. unfold lvar_of. rewrite H. reflexivity.
  Qed.

  Lemma vars_roundtrip : forall vs gaps curf curr,
    Forall (lv_ok dims packed numrecs) vs -> 0 <= curf -> 0 <= curr ->
    (exists t, zskipn curf file = enc_fixed dims vs gaps ++ t) ->
    (forall r, (r < Z.to_nat numrecs)%nat ->
       exists t, zskipn (curr + Z.of_nat r * recsize) file = rec_bytes dims packed vs r ++ t) ->
    map (lvar_of file dims numrecs recsize)
        (map (fun p => var_of (fst p) (snd p))
             (zip vs (begins_of dims packed vs gaps curf curr))) = vs.
  Proof.
    intros vs. induction vs as [|v vs IH]; intros gaps curf curr Hok Hcf Hcr HFx HRc.
    - reflexivity.
    - inversion Hok as [|v' vs' Hv Hvs Heq]; subst v' vs'.
      cbn [begins_of]. destruct (lx_isrec dims v) eqn:E.
      + (* record variable *)
        cbn [zip map fst snd]. f_equal.
        * apply lvar_of_eta. apply (var_data_rec v curr Hv E Hcr).
          intros r Hlt. destruct (HRc r Hlt) as [t Ht].
          unfold rec_bytes in Ht. cbn [flat_map] in Ht. rewrite E, <- app_assoc in Ht.
          eexists. exact Ht.
        * pose proof (lx_slot_nonneg dims packed numrecs v Hv) as Hs.
          apply IH; [exact Hvs|exact Hcf|lia| |].
          -- cbn [enc_fixed] in HFx. rewrite E in HFx. exact HFx.
          -- intros r Hlt. destruct (HRc r Hlt) as [t Ht].
             unfold rec_bytes in Ht. cbn [flat_map] in Ht. rewrite E, <- app_assoc in Ht.
             exists t. apply zskipn_peel in Ht; [|nia].
             rewrite (Zlen_rec_payload dims packed numrecs v r Hnr Hv E Hlt) in Ht.
             unfold rec_bytes. rewrite <- Ht. f_equal. lia.
      + (* fixed-size variable *)
        cbv zeta. cbn [zip map fst snd].
        destruct HFx as [t Ht]. cbn [enc_fixed] in Ht. rewrite E, <- !app_assoc in Ht.
        apply zskipn_peel in Ht; [|exact Hcf].
        f_equal.
        * apply lvar_of_eta. apply (var_data_fixed v _ _ Hv E Ht).
        * pose proof (Zlen_nonneg _ (hd [] gaps)) as Hg.
          assert (Hl0 : 0 <= lx_len dims v) by (destruct Hv as (Hx & Hn & Hle & _); nia).
          apply IH; [exact Hvs|lia|exact Hcr| |].
          -- exists t. apply zskipn_peel in Ht; [|lia].
             rewrite (Zlen_fixed_payload dims packed numrecs v Hv E) in Ht. exact Ht.
          -- intros r Hlt. destruct (HRc r Hlt) as [t' Ht'].
             unfold rec_bytes in Ht'. cbn [flat_map] in Ht'. rewrite E in Ht'.
             exists t'. exact Ht'.
  Qed.
End Readback.

(* ================================================================== *)
(** * The header of the written file: well-formedness, length, record size *)

Lemma begins_of_length : forall dims packed vs gaps curf curr,
  length (begins_of dims packed vs gaps curf curr) = length vs.
Proof.
  intros dims packed vs. induction vs as [|v vs IH]; intros gaps curf curr; [reflexivity|].
  cbn [begins_of]. destruct (lx_isrec dims v); cbn [length]; rewrite IH; reflexivity.
Qed.

Lemma layout_begins_length : forall c lc, length (layout_begins c lc) = length (lg_vars c).
Proof. intros c lc. unfold layout_begins. apply begins_of_length. Qed.

Lemma zeros_length : forall (vs : list lvar), length (map (fun _ => 0) vs) = length vs.
Proof. intros vs. apply map_length. Qed.

Lemma hdr_len_begins_indep : forall c bl bl',
  length bl = length (lg_vars c) -> length bl' = length (lg_vars c) ->
  hdr_len (hdr_of c bl) = hdr_len (hdr_of c bl').
Proof.
  intros c bl bl' H H'. unfold hdr_len, hdr_of. cbn [h_format h_dims h_gatts h_vars].
  rewrite (map_zip_indep Z (len_var (lg_format c)) (fun v => len_var (lg_format c) (var_of v 0))
             (fun v b => eq_refl) _ bl H).
  rewrite (map_zip_indep Z (len_var (lg_format c)) (fun v => len_var (lg_format c) (var_of v 0))
             (fun v b => eq_refl) _ bl' H').
  reflexivity.
Qed.

Lemma hdr_vars_length : forall (vs : list lvar) (bl : list Z), length bl = length vs ->
  Zlen (map (fun p => var_of (fst p) (snd p)) (zip vs bl)) = Zlen vs.
Proof.
  intros vs bl H. unfold Zlen. rewrite map_length, zip_length by (symmetry; exact H).
  reflexivity.
Qed.

(* wf_var without its begin *)
Definition wf_lvar (fmt : Z) (v : lvar) : bool :=
  wf_name fmt (lv_name v) && nn_ok fmt (Zlen (lv_dimids v)) && forallb (nn_ok fmt) (lv_dimids v) &&
  nn_ok fmt (Zlen (lv_atts v)) && forallb (wf_att fmt) (lv_atts v) &&
  valid_type fmt (lv_type v).

Lemma wf_var_var_of : forall fmt v b, wf_var fmt (var_of v b) = wf_lvar fmt v && off_ok fmt b.
Proof. reflexivity. Qed.

Lemma wf_vars_zip_inv : forall fmt vs (bl : list Z), length bl = length vs ->
  forallb (wf_var fmt) (map (fun p => var_of (fst p) (snd p)) (zip vs bl)) = true ->
  Forall (fun v => wf_lvar fmt v = true) vs.
Proof.
  intros fmt vs. induction vs as [|v vs IH]; intros bl Hl H; [apply Forall_nil|].
  destruct bl as [|b bl]; [discriminate|]. cbn [zip map forallb fst snd] in H.
  apply andb_true_iff in H. destruct H as [Hv H]. rewrite wf_var_var_of in Hv.
  apply andb_true_iff in Hv. destruct Hv as [Hv _].
  apply Forall_cons; [exact Hv|]. apply (IH bl); [cbn [length] in Hl; lia|exact H].
Qed.

Lemma wf_vars_zip_intro : forall fmt vs (bl : list Z), length bl = length vs ->
  Forall (fun v => wf_lvar fmt v = true) vs -> Forall (fun b => off_ok fmt b = true) bl ->
  forallb (wf_var fmt) (map (fun p => var_of (fst p) (snd p)) (zip vs bl)) = true.
Proof.
  intros fmt vs. induction vs as [|v vs IH]; intros bl Hl Hv Hb; [reflexivity|].
  destruct bl as [|b bl]; [discriminate|]. cbn [zip map forallb fst snd].
  inversion Hv as [|v' vs' Hv1 Hv2 Heq]; subst. inversion Hb as [|b' bl' Hb1 Hb2 Heq]; subst.
  rewrite wf_var_var_of, Hv1, Hb1. cbn [andb]. apply IH; [cbn [length] in Hl; lia| |]; assumption.
Qed.

Lemma wf_hdr_of_begins : forall c bl, length bl = length (lg_vars c) ->
  wf_hdr (hdr_of c (map (fun _ => 0) (lg_vars c))) = true ->
  Forall (fun b => off_ok (lg_format c) b = true) bl ->
  wf_hdr (hdr_of c bl) = true.
Proof.
  intros c bl Hl H Hb. unfold hdr_of in H.
  destruct (wf_hdr_inv _ _ _ _ _ H) as (Hf & Hnr & Hdn & Hdl & Han & Hal & Hvn & Hvl).
  rewrite (hdr_vars_length _ _ (zeros_length _)) in Hvn.
  apply (wf_vars_zip_inv _ _ _ (zeros_length _)) in Hvl.
  unfold wf_hdr, hdr_of. cbn [h_format h_numrecs h_dims h_gatts h_vars].
  rewrite Hf, Hnr, Hdn, Hdl, Han, Hal, (hdr_vars_length _ _ Hl), Hvn. cbn [andb].
  apply wf_vars_zip_intro; assumption.
Qed.

Lemma hdr_content_hdr_of : forall c bl, hdr_content (hdr_of c bl) = hdr_of c bl.
Proof.
  intros c bl. unfold hdr_content, hdr_of. cbn [h_format h_numrecs h_dims h_gatts h_vars].
  f_equal. rewrite map_map. apply map_ext. intros [v b]. reflexivity.
Qed.

(* per-variable facts from the content hypotheses *)
Lemma lv_ok_of_wf : forall fmt dims packed numrecs v,
  forallb (wf_dim fmt) dims = true -> wf_lvar fmt v = true ->
  lvar_data_ok dims numrecs v = true -> lv_ok dims packed numrecs v.
Proof.
  intros fmt dims packed numrecs v Hd Hv Hdat.
  assert (Ht : valid_type fmt (lv_type v) = true).
  { unfold wf_lvar in Hv. apply andb_true_iff in Hv. destruct Hv as [_ Ht]. exact Ht. }
  pose proof (valid_type_xlen fmt _ Ht) as Hx.
  pose proof (var_nelems_per_rec_nonneg _
                (var_shape_nonneg dims (var_of v 0) (wf_dims_nonneg fmt dims Hd))) as Hn.
  unfold lvar_data_ok, elems_ok in Hdat. apply andb_true_iff in Hdat. destruct Hdat as [HF HL].
  unfold lv_ok. fold (lx_nper dims v) in Hn. fold (lx_xsz v) in Hx.
  assert (Hlen : lx_nper dims v * lx_xsz v <= lx_len dims v /\ lx_len dims v mod 4 = 0).
  { unfold lx_len, var_len, var_len_of. cbn [v_type var_of].
    fold (lx_nper dims v). fold (lx_xsz v).
    set (l := lx_nper dims v * lx_xsz v). cbv zeta.
    destruct (l mod 4 >? 0) eqn:E; lia. }
  destruct Hlen as [Hle Hm].
  split; [lia|]. split; [exact Hn|]. split; [exact Hle|]. split; [exact Hm|]. split.
  - apply forallb_Forall in HF. apply (Forall_impl_strong _ _ _ _ (fun e He => proj1 (Z.eqb_eq _ _) He) HF).
  - apply Z.eqb_eq. exact HL.
Qed.

(* ---------- record size ---------- *)
Lemma filter_rec_zip : forall (B : Type) dims (g : var -> B) (g' : lvar -> B),
  (forall v b, g (var_of v b) = g' v) ->
  forall vs (bl : list Z), length bl = length vs ->
  map g (filter (is_recvar dims) (map (fun p => var_of (fst p) (snd p)) (zip vs bl))) =
  map g' (filter (lx_isrec dims) vs).
Proof.
  intros B dims g g' Hg vs. induction vs as [|v vs IH]; intros bl Hl; [reflexivity|].
  destruct bl as [|b bl]; [discriminate|]. cbn [zip map filter fst snd].
  change (is_recvar dims (var_of v b)) with (lx_isrec dims v).
  assert (Hl' : length bl = length vs) by (cbn [length] in Hl; lia).
  destruct (lx_isrec dims v); cbn [map]; rewrite (IH bl Hl'); [rewrite Hg|]; reflexivity.
Qed.

Definition recsize_of (dims : list dim) (recs : list var) : Z :=
  match recs with
  | fr :: _ => if zsum (map (var_len dims) recs) =? var_len dims fr
               then var_nelems_per_rec (var_shape dims fr) * xlen_type (v_type fr)
               else zsum (map (var_len dims) recs)
  | [] => 0
  end.

Lemma l_recsize_layout : forall h x,
  l_recsize (layout_of_hdr h x) = recsize_of (h_dims h) (filter (is_recvar (h_dims h)) (h_vars h)).
Proof.
  intros h x. unfold layout_of_hdr, recsize_of. destruct (h_vars h) as [|v vs] eqn:Ev.
  - reflexivity.
  - destruct (filter (is_recvar (h_dims h)) (v :: vs)) as [|fr recs]; reflexivity.
Qed.

Lemma zsum_zero_dominated : forall A (f g : A -> Z) l,
  Forall (fun x => 0 <= g x <= f x) l -> zsum (map f l) = 0 -> zsum (map g l) = 0.
Proof.
  intros A f g l H. induction H as [|x l Hx Hl IH]; intros Hs; [reflexivity|].
  cbn [map zsum] in *.
  assert (Hnn : 0 <= zsum (map f l)).
  { clear -Hl. induction Hl as [|y l Hy Hl IH]; cbn [map zsum]; lia. }
  assert (Hnn' : 0 <= zsum (map g l)).
  { clear -Hl. induction Hl as [|y l Hy Hl IH]; cbn [map zsum]; lia. }
  specialize (IH ltac:(lia)). lia.
Qed.

Lemma recsize_of_recoff : forall dims numrecs vs (bl : list Z), length bl = length vs ->
  Forall (lv_ok dims (rec_packed dims vs) numrecs) vs ->
  recsize_of dims (filter (is_recvar dims) (map (fun p => var_of (fst p) (snd p)) (zip vs bl))) =
  recoff dims (rec_packed dims vs) vs.
Proof.
  intros dims numrecs vs bl Hl Hok.
  pose proof (filter_rec_zip _ dims
                (fun v => (var_len dims v,
                           var_nelems_per_rec (var_shape dims v) * xlen_type (v_type v)))
                (fun v => (lx_len dims v, lx_nper dims v * lx_xsz v))
                (fun v b => eq_refl) vs bl Hl) as Hm.
  assert (Hokr : Forall (lv_ok dims (rec_packed dims vs) numrecs) (filter (lx_isrec dims) vs)).
  { apply Forall_forall. intros v Hv. apply filter_In in Hv. destruct Hv as [Hv _].
    rewrite Forall_forall in Hok. exact (Hok v Hv). }
  unfold recoff, rec_packed in *.
  set (recs := filter (is_recvar dims) _) in *.
  set (lrecs := filter (lx_isrec dims) vs) in *.
  assert (Hlen : map (var_len dims) recs = map (lx_len dims) lrecs).
  { apply (f_equal (map fst)) in Hm. rewrite !map_map in Hm. exact Hm. }
  unfold recsize_of. rewrite Hlen.
  destruct recs as [|fr recs]; destruct lrecs as [|lfr lrecs]; try discriminate Hm.
  - reflexivity.
  - cbn [map] in Hm. injection Hm as Hfr1 Hfr2 _. rewrite Hfr1, Hfr2.
    destruct (zsum (map (lx_len dims) (lfr :: lrecs)) =? lx_len dims lfr) eqn:E.
    + (* packed: the other record variables are empty *)
      unfold lx_slot. cbn [map zsum] in *.
      assert (Hz : zsum (map (lx_len dims) lrecs) = 0) by lia.
      rewrite (zsum_zero_dominated _ (lx_len dims) (fun v => lx_nper dims v * lx_xsz v) lrecs);
        [lia| |exact Hz].
      inversion Hokr as [|v' l' _ Hr Heq]; subst.
      revert Hr. apply Forall_impl_strong. intros v (Hx & Hn & Hle & _). cbv beta. nia.
    + unfold lx_slot. reflexivity.
Qed.

(* ================================================================== *)
(** * 1. dump / regenerate identity *)

Lemma data_ok_inv : forall c, data_ok c = true ->
  (if has_unlim (lg_dims c) then lg_numrecs c else 0) = lg_numrecs c /\
  Forall (fun v => lvar_data_ok (lg_dims c) (lg_numrecs c) v = true) (lg_vars c).
Proof.
  intros c H. unfold data_ok in H. apply andb_true_iff in H. destruct H as [Hu Hv].
  split.
  - destruct (has_unlim (lg_dims c)); [reflexivity|]. cbn [orb] in Hu. lia.
  - apply forallb_Forall. exact Hv.
Qed.

Lemma wf_content_lv_ok : forall c packed, wf_content c ->
  0 <= lg_numrecs c /\ Forall (lv_ok (lg_dims c) packed (lg_numrecs c)) (lg_vars c).
Proof.
  intros c packed [H Hd]. unfold hdr_of in H.
  destruct (wf_hdr_inv _ _ _ _ _ H) as (Hf & Hnr & Hdn & Hdl & Han & Hal & Hvn & Hvl).
  apply (wf_vars_zip_inv _ _ _ (zeros_length _)) in Hvl.
  destruct (data_ok_inv c Hd) as [_ Hdat].
  split; [exact (nn_ok_nonneg _ _ Hnr)|].
  rewrite Forall_forall in *. intros v Hv.
  apply (lv_ok_of_wf (lg_format c)); [exact Hdl|exact (Hvl v Hv)|exact (Hdat v Hv)].
Qed.

Lemma logical_of_decoded : forall file c bl,
  logical_of file (decoded_of (hdr_of c bl)) =
  mklogical (lg_format c) (if has_unlim (lg_dims c) then lg_numrecs c else 0)
            (lg_dims c) (lg_gatts c)
            (map (lvar_of file (lg_dims c) (lg_numrecs c)
                    (recsize_of (lg_dims c)
                       (filter (is_recvar (lg_dims c))
                               (map (fun p => var_of (fst p) (snd p)) (zip (lg_vars c) bl)))))
                 (map (fun p => var_of (fst p) (snd p)) (zip (lg_vars c) bl))).
Proof.
  intros file c bl. unfold logical_of, decoded_of. cbn [dc_hdr dc_len].
  rewrite hdr_content_hdr_of, l_recsize_layout. reflexivity.
Qed.

Theorem dump_regen_identity : forall c lc, wf_content c -> layout_fits c lc ->
  logical_content (encode_with_layout c lc) = Some c.
Proof.
  intros c lc Hwfc Hfit.
  pose proof (layout_begins_length c lc) as Hbl.
  pose proof (wf_hdr_of_begins c _ Hbl (proj1 Hwfc) Hfit) as Hwf.
  destruct (wf_content_lv_ok c (rec_packed (lg_dims c) (lg_vars c)) Hwfc) as [Hnr Hok].
  destruct (data_ok_inv c (proj2 Hwfc)) as [Hnum _].
  unfold logical_content.
  set (file := encode_with_layout c lc).
  assert (Hfile : file = encode_with_layout c lc) by reflexivity.
  unfold encode_with_layout in Hfile. cbv zeta in Hfile.
  rewrite Hfile at 1. rewrite (decode_encode_full _ _ Hwf). f_equal.
  rewrite logical_of_decoded. rewrite Hnum.
  rewrite (recsize_of_recoff _ (lg_numrecs c) _ _ Hbl Hok).
  destruct c as [fmt numrecs dims gatts vs].
  cbn [lg_format lg_numrecs lg_dims lg_gatts lg_vars] in *. f_equal.
  set (packed := rec_packed dims vs) in *.
  pose proof (recoff_nonneg dims packed numrecs vs Hok) as Hrs.
  unfold layout_begins. cbn [lg_dims lg_vars]. cbv zeta. fold packed.
  set (hl := hdr_len _) in *.
  assert (Hhl : hl = Zlen (encode_header (hdr_of (mklogical fmt numrecs dims gatts vs)
                                                 (layout_begins (mklogical fmt numrecs dims gatts vs) lc)))).
  { unfold hl. rewrite <- (hdr_len_encode _ Hwf).
    apply hdr_len_begins_indep; [apply zeros_length|exact Hbl]. }
  pose proof (Zlen_nonneg _ (lc_hfree lc)) as H1.
  pose proof (Zlen_nonneg _ (enc_fixed dims vs (lc_gaps lc))) as H2.
  pose proof (Zlen_nonneg _ (lc_recgap lc)) as H3.
  assert (H0 : 0 <= hl) by (rewrite Hhl; apply Zlen_nonneg).
  apply (vars_roundtrip file dims packed numrecs (recoff dims packed vs) Hnr Hrs);
    [exact Hok|lia|lia| |].
  - (* the fixed section starts at begin_var *)
    eexists. rewrite Hfile, app_assoc. apply zskipn_app_len.
    rewrite Zlen_app, Hhl. reflexivity.
  - (* record r starts at begin_rec + r * recsize *)
    intros r Hlt.
    destruct (flat_map_seq_at (recoff dims packed vs) (Z.to_nat numrecs)
                (rec_bytes dims packed vs) (lc_tail lc) Hrs
                (fun r' Hr' => Zlen_rec_bytes dims packed numrecs vs r' Hnr Hok Hr') r Hlt)
      as [t Ht].
    exists t. rewrite <- Ht. rewrite <- zskipn_zskipn by nia. f_equal.
    rewrite Hfile. rewrite !app_assoc. rewrite <- (app_assoc _ _ (lc_tail lc)).
    apply zskipn_app_len. rewrite !Zlen_app, Hhl. reflexivity.
Qed.

(* ================================================================== *)
(** * 4./5. Comparison of written files *)

Theorem logical_eq_layout_invariant : forall c lc1 lc2,
  wf_content c -> layout_fits c lc1 -> layout_fits c lc2 ->
  exists a b, logical_content (encode_with_layout c lc1) = Some a /\
              logical_content (encode_with_layout c lc2) = Some b /\ logical_eq a b = true.
Proof.
  intros c lc1 lc2 Hc H1 H2. exists c, c. split; [|split].
  - apply dump_regen_identity; assumption.
  - apply dump_regen_identity; assumption.
  - apply logical_eq_true_iff. reflexivity.
Qed.

Theorem files_logical_eq_iff : forall c c' lc lc',
  wf_content c -> wf_content c' -> layout_fits c lc -> layout_fits c' lc' ->
  exists a b, logical_content (encode_with_layout c lc) = Some a /\
              logical_content (encode_with_layout c' lc') = Some b /\
              (logical_eq a b = true <-> c = c').
Proof.
  intros c c' lc lc' Hc Hc' H H'. exists c, c'. split; [|split].
  - apply dump_regen_identity; assumption.
  - apply dump_regen_identity; assumption.
  - apply logical_eq_true_iff.
Qed.

(* the same as a statement about the function (no existential) *)
Corollary files_logical_eq_iff_fun : forall c c' lc lc',
  wf_content c -> wf_content c' -> layout_fits c lc -> layout_fits c' lc' ->
  (match logical_content (encode_with_layout c lc), logical_content (encode_with_layout c' lc') with
   | Some a, Some b => logical_eq a b
   | _, _ => false
   end = true <-> c = c').
Proof.
  intros c c' lc lc' Hc Hc' H H'.
  rewrite (dump_regen_identity c lc Hc H), (dump_regen_identity c' lc' Hc' H').
  apply logical_eq_true_iff.
Qed.

(* ================================================================== *)
(** * 8. The written file passes the validator's expectation (file_valid) *)

Lemma forallb_zip_indep : forall (p : var -> bool) (p' : lvar -> bool),
  (forall v b, p (var_of v b) = p' v) ->
  forall vs (bl : list Z), length bl = length vs ->
  forallb p (map (fun q => var_of (fst q) (snd q)) (zip vs bl)) = forallb p' vs.
Proof.
  intros p p' Hp vs. induction vs as [|v vs IH]; intros bl Hl; [reflexivity|].
  destruct bl as [|b bl]; [discriminate|]. cbn [zip map forallb fst snd].
  rewrite Hp, IH; [reflexivity|]. cbn [length] in Hl. lia.
Qed.

(* the three format-level side conditions do not depend on the begins *)
Lemma strict_hyps_indep : forall c bl bl',
  length bl = length (lg_vars c) -> length bl' = length (lg_vars c) ->
  dimids_ok (hdr_of c bl) = dimids_ok (hdr_of c bl') /\
  unlim_ok (hdr_of c bl) = unlim_ok (hdr_of c bl') /\
  vsize_ok (hdr_of c bl) = vsize_ok (hdr_of c bl').
Proof.
  intros c bl bl' H H'. unfold dimids_ok, unlim_ok, vsize_ok, hdr_of.
  cbn [h_format h_dims h_vars]. split; [|split].
  - rewrite (forallb_zip_indep _
               (fun v => forallb (fun i => (0 <=? i) && (i <? Zlen (lg_dims c))) (lv_dimids v))
               (fun v b => eq_refl) _ bl H).
    rewrite (forallb_zip_indep _
               (fun v => forallb (fun i => (0 <=? i) && (i <? Zlen (lg_dims c))) (lv_dimids v))
               (fun v b => eq_refl) _ bl' H').
    reflexivity.
  - reflexivity.
  - rewrite (forallb_zip_indep _
               (fun v => (lg_format c <? 5) || (lx_len (lg_dims c) v <? 18446744073709551616))
               (fun v b => eq_refl) _ bl H).
    rewrite (forallb_zip_indep _
               (fun v => (lg_format c <? 5) || (lx_len (lg_dims c) v <? 18446744073709551616))
               (fun v b => eq_refl) _ bl' H').
    reflexivity.
Qed.

(* the gaps that are actually written (those of the fixed-size variables) *)
Fixpoint used_gaps_aligned (dims : list dim) (vs : list lvar) (gaps : list (list byte)) : Prop :=
  match vs with
  | [] => True
  | v :: r => (lx_isrec dims v = false -> Zlen (hd [] gaps) mod 4 = 0) /\
              used_gaps_aligned dims r (tl gaps)
  end.

Lemma all_gaps_aligned_used : forall dims vs gaps,
  Forall (fun g => Zlen g mod 4 = 0) gaps -> used_gaps_aligned dims vs gaps.
Proof.
  intros dims vs. induction vs as [|v vs IH]; intros gaps H; [exact I|].
  cbn [used_gaps_aligned]. destruct H as [|g gaps Hg Hgs]; cbn [hd tl].
  - split; [intros _; reflexivity|apply IH; apply Forall_nil].
  - split; [intros _; exact Hg|apply IH; exact Hgs].
Qed.

Section LayoutOk.
  Variable dims : list dim.
  Variable packed : bool.
  Variable numrecs : Z.

  Local Notation pairs l := (map (fun v => (v_begin v, var_len dims v)) l).
  Local Notation hvars vs bl := (map (fun q => var_of (fst q) (snd q)) (zip vs bl)).

  Lemma lx_len_nonneg : forall v, lv_ok dims packed numrecs v -> 0 <= lx_len dims v.
  Proof. intros v (Hx & Hn & Hle & _). nia. Qed.

  Lemma enc_fixed_cons_len : forall v vs gaps, lv_ok dims packed numrecs v ->
    Zlen (enc_fixed dims (v :: vs) gaps) =
    (if lx_isrec dims v then 0 else Zlen (hd [] gaps) + lx_len dims v) +
    Zlen (enc_fixed dims vs (tl gaps)).
  Proof.
    intros v vs gaps Hv. cbn [enc_fixed]. destruct (lx_isrec dims v) eqn:E; [lia|].
    rewrite !Zlen_app, (Zlen_fixed_payload dims packed numrecs v Hv E). lia.
  Qed.

  Lemma enc_fixed_len_mod4 : forall vs gaps, Forall (lv_ok dims packed numrecs) vs ->
    used_gaps_aligned dims vs gaps -> Zlen (enc_fixed dims vs gaps) mod 4 = 0.
  Proof.
    intros vs. induction vs as [|v vs IH]; intros gaps Hok Hg; [reflexivity|].
    inversion Hok as [|v' vs' Hv Hvs Heq]; subst v' vs'. destruct Hg as [Hg1 Hg2].
    rewrite (enc_fixed_cons_len v vs gaps Hv). specialize (IH (tl gaps) Hvs Hg2).
    destruct (lx_isrec dims v) eqn:E; [lia|]. specialize (Hg1 eq_refl).
    destruct Hv as (_ & _ & _ & Hm & _). lia.
  Qed.

  Lemma fixed_increasing : forall vs gaps curf curr prev,
    Forall (lv_ok dims packed numrecs) vs -> used_gaps_aligned dims vs gaps ->
    prev <= curf -> curf mod 4 = 0 ->
    begins_increasing prev
      (pairs (filter (fun v => negb (is_recvar dims v))
                     (hvars vs (begins_of dims packed vs gaps curf curr)))) = true.
  Proof.
    intros vs. induction vs as [|v vs IH]; intros gaps curf curr prev Hok Hg Hp Hc; [reflexivity|].
    inversion Hok as [|v' vs' Hv Hvs Heq]; subst v' vs'. destruct Hg as [Hg1 Hg2].
    cbn [begins_of]. destruct (lx_isrec dims v) eqn:E.
    - cbn [zip map fst snd filter].
      change (is_recvar dims (var_of v curr)) with (lx_isrec dims v). rewrite E. cbn [negb].
      apply IH; assumption.
    - cbv zeta. cbn [zip map fst snd filter].
      change (is_recvar dims (var_of v (curf + Zlen (hd [] gaps)))) with (lx_isrec dims v).
      rewrite E. cbn [negb map begins_increasing v_begin var_of].
      change (var_len dims (var_of v (curf + Zlen (hd [] gaps)))) with (lx_len dims v).
      specialize (Hg1 eq_refl). pose proof (Zlen_nonneg _ (hd [] gaps)) as Hg0.
      pose proof (lx_len_nonneg v Hv) as Hl0.
      destruct Hv as (_ & _ & _ & Hm & _).
      rewrite IH; [lia|exact Hvs|exact Hg2|lia|lia].
  Qed.

  Lemma end_fixed_le : forall vs gaps curf curr e0,
    Forall (lv_ok dims packed numrecs) vs -> e0 <= curf ->
    fold_left (fun e p => Z.max e (fst p + snd p))
      (pairs (filter (fun v => negb (is_recvar dims v))
                     (hvars vs (begins_of dims packed vs gaps curf curr)))) e0
    <= curf + Zlen (enc_fixed dims vs gaps).
  Proof.
    intros vs. induction vs as [|v vs IH]; intros gaps curf curr e0 Hok He.
    - cbn [begins_of zip map filter fold_left enc_fixed]. rewrite Zlen_nil. lia.
    - inversion Hok as [|v' vs' Hv Hvs Heq]; subst v' vs'.
      rewrite (enc_fixed_cons_len v vs gaps Hv).
      cbn [begins_of]. destruct (lx_isrec dims v) eqn:E.
      + cbn [zip map fst snd filter].
        change (is_recvar dims (var_of v curr)) with (lx_isrec dims v). rewrite E. cbn [negb].
        specialize (IH (tl gaps) curf (curr + lx_slot dims packed v) e0 Hvs He). lia.
      + cbv zeta. cbn [zip map fst snd filter].
        change (is_recvar dims (var_of v (curf + Zlen (hd [] gaps)))) with (lx_isrec dims v).
        rewrite E. cbn [negb map fold_left v_begin var_of fst snd].
        change (var_len dims (var_of v (curf + Zlen (hd [] gaps)))) with (lx_len dims v).
        pose proof (Zlen_nonneg _ (hd [] gaps)) as Hg0.
        pose proof (lx_len_nonneg v Hv) as Hl0.
        match goal with |- fold_left _ _ ?e <= _ =>
          specialize (IH (tl gaps) (curf + Zlen (hd [] gaps) + lx_len dims v) curr e Hvs) end.
        specialize (IH ltac:(lia)). lia.
  Qed.

  Lemma no_recs_zip : forall vs (bl : list Z), length bl = length vs ->
    filter (lx_isrec dims) vs = [] -> filter (is_recvar dims) (hvars vs bl) = [].
  Proof.
    intros vs bl Hl H.
    pose proof (filter_rec_zip unit dims (fun _ => tt) (fun _ => tt) (fun _ _ => eq_refl) vs bl Hl)
      as Hm.
    rewrite H in Hm. cbn [map] in Hm. apply map_eq_nil in Hm. exact Hm.
  Qed.

  Lemma rec_increasing : forall vs gaps curf curr prev,
    Forall (lv_ok dims packed numrecs) vs ->
    packed = false \/ (length (filter (lx_isrec dims) vs) <= 1)%nat ->
    prev <= curr -> curr mod 4 = 0 ->
    begins_increasing prev
      (pairs (filter (is_recvar dims) (hvars vs (begins_of dims packed vs gaps curf curr)))) = true.
  Proof.
    intros vs. induction vs as [|v vs IH]; intros gaps curf curr prev Hok Hp Hle Hc; [reflexivity|].
    inversion Hok as [|v' vs' Hv Hvs Heq]; subst v' vs'.
    cbn [begins_of]. cbn [filter] in Hp. destruct (lx_isrec dims v) eqn:E.
    - cbn [zip map fst snd filter].
      change (is_recvar dims (var_of v curr)) with (lx_isrec dims v). rewrite E.
      cbn [map begins_increasing v_begin var_of].
      change (var_len dims (var_of v curr)) with (lx_len dims v).
      pose proof (lx_len_nonneg v Hv) as Hl0.
      assert (Hm : lx_len dims v mod 4 = 0) by (destruct Hv as (_ & _ & _ & Hm & _); exact Hm).
      destruct Hp as [Hp|Hp].
      + (* not packed: the slot is the padded size *)
        rewrite IH; [lia|exact Hvs|left; exact Hp| |].
        * unfold lx_slot. rewrite Hp. lia.
        * unfold lx_slot. rewrite Hp. lia.
      + (* packed and alone: nothing follows *)
        cbn [length] in Hp.
        assert (Hnil : filter (lx_isrec dims) vs = []).
        { destruct (filter (lx_isrec dims) vs); [reflexivity|cbn [length] in Hp; lia]. }
        rewrite (no_recs_zip vs _ (begins_of_length _ _ _ _ _ _) Hnil).
        cbn [map begins_increasing]. lia.
    - cbv zeta. cbn [zip map fst snd filter].
      change (is_recvar dims (var_of v (curf + Zlen (hd [] gaps)))) with (lx_isrec dims v).
      rewrite E. apply IH; assumption.
  Qed.
End LayoutOk.

(* the format-level side conditions, stated on the content (begins irrelevant) *)
Definition content_strict (c : logical) : Prop :=
  let h0 := hdr_of c (map (fun _ => 0) (lg_vars c)) in
  dimids_ok h0 = true /\ unlim_ok h0 = true /\ vsize_ok h0 = true.

(* every gap that is written has a length that is a multiple of 4 *)
Definition gaps_aligned (c : logical) (lc : layout_choice) : Prop :=
  Zlen (lc_hfree lc) mod 4 = 0 /\ Zlen (lc_recgap lc) mod 4 = 0 /\
  used_gaps_aligned (lg_dims c) (lg_vars c) (lc_gaps lc).

(* the packed-record rule applies to a record variable that is alone *)
Definition packed_alone (c : logical) : Prop :=
  rec_packed (lg_dims c) (lg_vars c) = true ->
  (length (filter (lx_isrec (lg_dims c)) (lg_vars c)) <= 1)%nat.

Lemma layout_ok_hdr_of : forall c bl x,
  layout_ok (hdr_of c bl) x =
  begins_increasing x
    (map (fun v => (v_begin v, var_len (lg_dims c) v))
         (filter (fun v => negb (is_recvar (lg_dims c) v))
                 (map (fun q => var_of (fst q) (snd q)) (zip (lg_vars c) bl)))) &&
  begins_increasing
    (fold_left (fun e p => Z.max e (fst p + snd p))
       (map (fun v => (v_begin v, var_len (lg_dims c) v))
            (filter (fun v => negb (is_recvar (lg_dims c) v))
                    (map (fun q => var_of (fst q) (snd q)) (zip (lg_vars c) bl)))) x)
    (map (fun v => (v_begin v, var_len (lg_dims c) v))
         (filter (is_recvar (lg_dims c))
                 (map (fun q => var_of (fst q) (snd q)) (zip (lg_vars c) bl)))).
Proof. reflexivity. Qed.

Theorem encode_with_layout_valid_partial : forall c lc,
  wf_content c -> layout_fits c lc -> content_strict c -> gaps_aligned c lc -> packed_alone c ->
  file_valid (encode_with_layout c lc) = true.
Proof.
  intros c lc Hwfc Hfit (Hdi & Hun & Hvs) (Hg1 & Hg2 & Hg3) Hpa.
  pose proof (layout_begins_length c lc) as Hbl.
  pose proof (wf_hdr_of_begins c _ Hbl (proj1 Hwfc) Hfit) as Hwf.
  destruct (wf_content_lv_ok c (rec_packed (lg_dims c) (lg_vars c)) Hwfc) as [Hnr Hok].
  destruct (strict_hyps_indep c (layout_begins c lc) (map (fun _ => 0) (lg_vars c)) Hbl
              (zeros_length _)) as (E1 & E2 & E3).
  cbv zeta in Hdi, Hun, Hvs. rewrite <- E1 in Hdi. rewrite <- E2 in Hun. rewrite <- E3 in Hvs.
  unfold file_valid.
  assert (Hfile : encode_with_layout c lc =
                  encode_header (hdr_of c (layout_begins c lc)) ++
                  (lc_hfree lc ++ enc_fixed (lg_dims c) (lg_vars c) (lc_gaps lc) ++ lc_recgap lc ++
                   enc_records (lg_dims c) (rec_packed (lg_dims c) (lg_vars c)) (lg_vars c)
                               (Z.to_nat (lg_numrecs c)) ++ lc_tail lc)) by reflexivity.
  rewrite Hfile, (decode_encode_full _ _ Hwf).
  rewrite (strict_valid_decoded_of _ Hwf Hdi Hun Hvs). cbn [andb].
  unfold decoded_of. cbn [dc_hdr dc_len]. rewrite hdr_content_hdr_of.
  rewrite <- (hdr_len_encode _ Hwf).
  rewrite (hdr_len_begins_indep _ _ (map (fun _ => 0) (lg_vars c)) Hbl (zeros_length _)).
  rewrite layout_ok_hdr_of. unfold layout_begins. cbv zeta.
  set (dims := lg_dims c) in *. set (vs := lg_vars c) in *. set (packed := rec_packed dims vs) in *.
  set (hl := hdr_len _).
  assert (Hhl4 : hl mod 4 = 0) by apply hdr_len_mod4_all.
  pose proof (Zlen_nonneg _ (lc_hfree lc)) as H1.
  pose proof (Zlen_nonneg _ (lc_recgap lc)) as H3.
  pose proof (enc_fixed_len_mod4 dims packed (lg_numrecs c) vs (lc_gaps lc) Hok Hg3) as Hf4.
  apply andb_true_iff. split.
  - apply (fixed_increasing dims packed (lg_numrecs c)); [exact Hok|exact Hg3|lia|lia].
  - apply (rec_increasing dims packed (lg_numrecs c)); [exact Hok| | |lia].
    + destruct packed eqn:Ep; [right; apply Hpa; exact Ep|left; reflexivity].
    + pose proof (end_fixed_le dims packed (lg_numrecs c) vs (lc_gaps lc)
                    (hl + Zlen (lc_hfree lc))
                    (hl + Zlen (lc_hfree lc) + Zlen (enc_fixed dims vs (lc_gaps lc)) +
                     Zlen (lc_recgap lc)) hl Hok ltac:(lia)) as Hle.
      lia.
Qed.

(* The statement WITHOUT [packed_alone] is false of the model.  When the record-size rule
   "packed" fires (sum of the record variables' padded sizes = the first one's) while a
   second, EMPTY record variable exists (e.g. a variable whose 2nd dimension is again the
   unlimited one: 0 elements per record), [begins_of] places the second record variable at
   begin_rec + nelems*xsz (unpadded), which is neither 4-byte aligned nor behind the first
   one's padded extent; [layout_ok] rejects that.  (The content is still read back
   correctly: see [bad_roundtrip].) *)
Definition encode_with_layout_valid_full : Prop := forall c lc,
  wf_content c -> layout_fits c lc -> content_strict c -> gaps_aligned c lc ->
  file_valid (encode_with_layout c lc) = true.

(* CDF-1, one record; short a(t) [2 bytes per record, padded size 4]; short b(t,t) [empty] *)
Definition bad_c : logical :=
  mklogical 1 1 [mkdim [116] 0] []
    [ mklvar [97] 3 [0] [] [[1;2]];
      mklvar [98] 3 [0;0] [] [] ].

Example bad_begins : layout_begins bad_c tight = [120; 122] /\
                     rec_packed (lg_dims bad_c) (lg_vars bad_c) = true /\
                     file_valid (encode_with_layout bad_c tight) = false.
Proof. vm_compute. repeat split; reflexivity. Qed.

Example bad_wf : wf_content bad_c.
Proof. split; vm_compute; reflexivity. Qed.

Example bad_fits : layout_fits bad_c tight.
Proof. apply (forallb_Forall Z (off_ok (lg_format bad_c))). vm_compute. reflexivity. Qed.

Example bad_roundtrip : logical_content (encode_with_layout bad_c tight) = Some bad_c.
Proof. vm_compute. reflexivity. Qed.

Theorem encode_with_layout_valid_refuted : ~ encode_with_layout_valid_full.
Proof.
  intros H. specialize (H bad_c tight bad_wf bad_fits).
  assert (Hf : file_valid (encode_with_layout bad_c tight) = false) by (vm_compute; reflexivity).
  rewrite H in Hf; [discriminate| |].
  - unfold content_strict. cbv zeta. vm_compute. repeat split; reflexivity.
  - unfold gaps_aligned. vm_compute. repeat split; intros; reflexivity.
Qed.

(* ================================================================== *)
(** * Examples: the hypotheses are satisfiable on non-trivial instances *)

(* CDF-2; dims time (unlimited), x = 3, y = 2; 2 records; title = "hi";
   double d(x,y) with units = "K"; float t(time); char ch(x) [3 bytes, padded to 4];
   short s(time,x) [6 bytes per record, padded to 8] *)
Definition ex_c : logical :=
  mklogical 2 2
    [ mkdim [116;105;109;101] 0; mkdim [120] 3; mkdim [121] 2 ]
    [ mkatt [116;105;116;108;101] 2 2 [104;105] ]
    [ mklvar [100] 6 [1;2] [ mkatt [117;110;105;116;115] 2 1 [75] ]
        [ [1;2;3;4;5;6;7;8]; [11;12;13;14;15;16;17;18]; [21;22;23;24;25;26;27;28];
          [31;32;33;34;35;36;37;38]; [41;42;43;44;45;46;47;48]; [51;52;53;54;55;56;57;58] ];
      mklvar [116] 5 [0] [] [ [61;62;63;64]; [65;66;67;68] ];
      mklvar [99;104] 2 [1] [] [ [71]; [72]; [73] ];
      mklvar [115] 3 [0;1] [] [ [81;82]; [83;84]; [85;86]; [91;92]; [93;94]; [95;96] ] ].

(* 4 junk bytes of header free space, a 4-byte gap before d, an 8-byte gap before ch,
   4 junk bytes before the records, 3 junk bytes behind the last record *)
Definition ex_lc1 : layout_choice :=
  mklc [201;202;203;204] [ [211;212;213;214]; []; [221;222;223;224;225;226;227;228] ]
       [231;232;233;234] [241;242;243].
(* 8 bytes of header free space, no gap before d, (an unused gap entry at the record
   variable t), a 4-byte gap before ch, records directly behind, 1 junk byte at the end *)
Definition ex_lc2 : layout_choice :=
  mklc [101;102;103;104;105;106;107;108] [ []; [111;112;113;114]; [121;122;123;124] ] [] [131].

Example ex_wf_hdr : wf_hdr (hdr_of ex_c (map (fun _ => 0) (lg_vars ex_c))) = true.
Proof. vm_compute. reflexivity. Qed.
Example ex_data_ok : data_ok ex_c = true.
Proof. vm_compute. reflexivity. Qed.
Example ex_wf_content : wf_content ex_c.
Proof. split; [exact ex_wf_hdr|exact ex_data_ok]. Qed.

Example ex_begins :
  layout_begins ex_c ex_lc1 = [292; 356; 348; 360] /\
  layout_begins ex_c ex_lc2 = [292; 348; 344; 352] /\
  layout_begins ex_c tight = [284; 336; 332; 340].
Proof. vm_compute. repeat split; reflexivity. Qed.

Example ex_off_ok_1 : forallb (off_ok 2) (layout_begins ex_c ex_lc1) = true.
Proof. vm_compute. reflexivity. Qed.
Example ex_off_ok_2 : forallb (off_ok 2) (layout_begins ex_c ex_lc2) = true.
Proof. vm_compute. reflexivity. Qed.
Example ex_fits_1 : layout_fits ex_c ex_lc1.
Proof. apply (forallb_Forall Z (off_ok (lg_format ex_c))). exact ex_off_ok_1. Qed.
Example ex_fits_2 : layout_fits ex_c ex_lc2.
Proof. apply (forallb_Forall Z (off_ok (lg_format ex_c))). exact ex_off_ok_2. Qed.

(* by computation ... *)
Example ex_roundtrip_1 : logical_content (encode_with_layout ex_c ex_lc1) = Some ex_c.
Proof. vm_compute. reflexivity. Qed.
Example ex_roundtrip_2 : logical_content (encode_with_layout ex_c ex_lc2) = Some ex_c.
Proof. vm_compute. reflexivity. Qed.
(* ... and as an instance of the theorem *)
Example ex_roundtrip_1_thm : logical_content (encode_with_layout ex_c ex_lc1) = Some ex_c.
Proof. exact (dump_regen_identity ex_c ex_lc1 ex_wf_content ex_fits_1). Qed.

(* the data section of the first layout, byte for byte (the header is 284 bytes) *)
Example ex_data_section_1 :
  zskipn 284 (encode_with_layout ex_c ex_lc1) =
  [201;202;203;204;  211;212;213;214;
   1;2;3;4;5;6;7;8; 11;12;13;14;15;16;17;18; 21;22;23;24;25;26;27;28;
   31;32;33;34;35;36;37;38; 41;42;43;44;45;46;47;48; 51;52;53;54;55;56;57;58;
   221;222;223;224;225;226;227;228;  71;72;73;0;  231;232;233;234;
   61;62;63;64;  81;82;83;84;85;86;0;0;
   65;66;67;68;  91;92;93;94;95;96;0;0;
   241;242;243].
Proof. vm_compute. reflexivity. Qed.

Example ex_files_differ : encode_with_layout ex_c ex_lc1 <> encode_with_layout ex_c ex_lc2.
Proof.
  intros E. apply (f_equal (@length byte)) in E. vm_compute in E. discriminate.
Qed.

Example ex_files_compare_equal :
  match logical_content (encode_with_layout ex_c ex_lc1),
        logical_content (encode_with_layout ex_c ex_lc2) with
  | Some a, Some b => logical_eq a b
  | _, _ => false
  end = true.
Proof. vm_compute. reflexivity. Qed.

Example ex_strict : content_strict ex_c.
Proof. unfold content_strict. cbv zeta. vm_compute. repeat split; reflexivity. Qed.
Example ex_gaps_1 : gaps_aligned ex_c ex_lc1.
Proof. unfold gaps_aligned. vm_compute. repeat split; intros; reflexivity. Qed.
Example ex_gaps_2 : gaps_aligned ex_c ex_lc2.
Proof. unfold gaps_aligned. vm_compute. repeat split; intros; reflexivity. Qed.
Example ex_packed_alone : packed_alone ex_c.
Proof. intros H. vm_compute in H. discriminate. Qed.

Example ex_valid_1 : file_valid (encode_with_layout ex_c ex_lc1) = true.
Proof. vm_compute. reflexivity. Qed.
Example ex_valid_2 : file_valid (encode_with_layout ex_c ex_lc2) = true.
Proof. vm_compute. reflexivity. Qed.
Example ex_valid_1_thm : file_valid (encode_with_layout ex_c ex_lc1) = true.
Proof.
  exact (encode_with_layout_valid_partial ex_c ex_lc1 ex_wf_content ex_fits_1 ex_strict
           ex_gaps_1 ex_packed_alone).
Qed.

(* the header of the written file satisfies the hypotheses of [written_files_strict_valid] *)
Example ex_hdr_strict :
  let h := hdr_of ex_c (layout_begins ex_c ex_lc1) in
  wf_hdr h = true /\ dimids_ok h = true /\ unlim_ok h = true /\ vsize_ok h = true.
Proof. vm_compute. repeat split; reflexivity. Qed.

(* single edits are seen; a change of the format number only by logical_eq *)
Example ex_edit_detected :
  logical_eq ex_c (edit_value ex_c 3 4 1 0) = false /\
  logical_eq ex_c (edit_vatt_value ex_c 0 0 0 76) = false /\
  logical_eq ex_c (edit_dim_name ex_c 2 [122]) = false /\
  logical_eq ex_c (set_format ex_c 5) = false /\ content_eq ex_c (set_format ex_c 5) = true.
Proof. vm_compute. repeat split; reflexivity. Qed.

(* exactly ONE record variable whose record size (6) is not a multiple of 4: records are
   packed (recsize 6, no padding between records); CDF-1, 3 records;
   int f(x); short p(time,x) *)
Definition ex_p : logical :=
  mklogical 1 3
    [ mkdim [116] 0; mkdim [120] 3 ]
    []
    [ mklvar [102] 4 [1] [] [ [0;0;0;1]; [0;0;0;2]; [0;0;0;3] ];
      mklvar [112] 3 [0;1] []
        [ [1;2]; [3;4]; [5;6];  [7;8]; [9;10]; [11;12];  [13;14]; [15;16]; [17;18] ] ].
Definition ex_lcp : layout_choice := mklc [9;9;9;9] [[8;8;8;8]] [7;7;7;7;7;7;7;7] [6;6].

Example ex_p_wf : wf_content ex_p.
Proof. split; vm_compute; reflexivity. Qed.
Example ex_p_packed : rec_packed (lg_dims ex_p) (lg_vars ex_p) = true /\
                      layout_begins ex_p ex_lcp = [140; 160].
Proof. vm_compute. split; reflexivity. Qed.
Example ex_p_fits : layout_fits ex_p ex_lcp.
Proof. apply (forallb_Forall Z (off_ok (lg_format ex_p))). vm_compute. reflexivity. Qed.
Example ex_p_data_section :
  zskipn 132 (encode_with_layout ex_p ex_lcp) =
  [9;9;9;9; 8;8;8;8; 0;0;0;1; 0;0;0;2; 0;0;0;3; 7;7;7;7;7;7;7;7;
   1;2;3;4;5;6; 7;8;9;10;11;12; 13;14;15;16;17;18; 6;6].
Proof. vm_compute. reflexivity. Qed.
Example ex_p_roundtrip : logical_content (encode_with_layout ex_p ex_lcp) = Some ex_p.
Proof. vm_compute. reflexivity. Qed.
Example ex_p_roundtrip_thm : logical_content (encode_with_layout ex_p ex_lcp) = Some ex_p.
Proof. exact (dump_regen_identity ex_p ex_lcp ex_p_wf ex_p_fits). Qed.
Example ex_p_alone : packed_alone ex_p.
Proof. intros _. vm_compute. lia. Qed.
Example ex_p_valid : file_valid (encode_with_layout ex_p ex_lcp) = true.
Proof. vm_compute. reflexivity. Qed.
Example ex_p_valid_thm : file_valid (encode_with_layout ex_p ex_lcp) = true.
Proof.
  apply (encode_with_layout_valid_partial ex_p ex_lcp ex_p_wf ex_p_fits); [| |exact ex_p_alone].
  - unfold content_strict. cbv zeta. vm_compute. repeat split; reflexivity.
  - unfold gaps_aligned. vm_compute. repeat split; intros; reflexivity.
Qed.

(* two different contents written with different layouts compare unequal *)
Example ex_different_contents :
  match logical_content (encode_with_layout ex_c ex_lc1),
        logical_content (encode_with_layout (edit_value ex_c 1 1 0 60) ex_lc2) with
  | Some a, Some b => logical_eq a b
  | _, _ => true
  end = false.
Proof. vm_compute. reflexivity. Qed.

(* ================================================================== *)
(** * Sharpness of the hypotheses of [dump_regen_identity] *)

(* data_ok: numrecs <> 0 without an unlimited dimension is not observable *)
Example sharp_numrecs_unobservable :
  let c := mklogical 1 7 [mkdim [120] 2] [] [] in
  data_ok c = false /\
  logical_content (encode_with_layout c tight) = Some (mklogical 1 0 [mkdim [120] 2] [] []).
Proof. vm_compute. split; reflexivity. Qed.

(* data_ok: a short element (1 byte for an NC_SHORT) is not read back as written *)
Example sharp_short_element :
  let c := mklogical 1 0 [mkdim [120] 1] [] [mklvar [118] 3 [0] [] [[5]]] in
  data_ok c = false /\
  logical_content (encode_with_layout c tight) =
  Some (mklogical 1 0 [mkdim [120] 1] [] [mklvar [118] 3 [0] [] [[5;0]]]).
Proof. vm_compute. split; reflexivity. Qed.

(* layout_fits: a begin beyond 2^32 in CDF-1 wraps *)
Example sharp_layout_fits :
  off_ok 1 4294967296 = false /\ off_ok 2 4294967296 = true.
Proof. vm_compute. split; reflexivity. Qed.

(* ================================================================== *)
(** * Assumption audit *)
Print Assumptions dump_regen_identity.
Print Assumptions logical_eq_true_iff.
Print Assumptions content_eq_true_iff.
Print Assumptions logical_eq_equiv.
Print Assumptions logical_eq_layout_invariant.
Print Assumptions files_logical_eq_iff.
Print Assumptions logical_eq_detects_single_edit.
Print Assumptions written_files_strict_valid.
Print Assumptions encode_with_layout_valid_partial.
Print Assumptions encode_with_layout_valid_refuted.
