(* Extract.v — extraction of the executable model to OCaml.  ExtrOcamlBasic only:
   bool/option/unit/prod/list/sumbool map to OCaml's; Z, positive, nat stay Coq datatypes;
   no Extract Constant. *)
Require Extraction.
Require ExtrOcamlBasic.
From Pnc Require Import Exec HeaderSpec.
Extraction Language OCaml.
Extraction "pnc_model.ml" world0 exec_step set_strict set_move_unit decode strict_valid layout_ok
           encode_header hdr_len RC_UNMODELLED.
