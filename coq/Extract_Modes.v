(* Extract_Modes.v — extraction of the C14 model (Modes.v) to OCaml for the bulk correspondence run of
   checks/C14.py.  ExtrOcamlBasic only (bool/option/unit/prod/list map to OCaml's); Z, positive, nat stay the
   Coq datatypes; no Extract Constant. *)
Require Extraction.
Require ExtrOcamlBasic.
From Pnc Require Import Modes.
Extraction Language OCaml.
Extraction "pnc_modes.ml" state0 run_codes reach_table call_code core_sig all_calls.
