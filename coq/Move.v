(* Move.v — data movement at enddef after a redefinition: move_file_block (rounds,
   per-rank tiles), move_record_vars, move_fixed_vars of ncmpio_enddef.c.  Executable. *)
From Pnc Require Export Disk.
Local Open Scope Z_scope.

(* ---------- data movement at enddef (move_file_block and friends) ---------- *)
(* one round: list over ranks of (from_off, to_off, count) *)
Definition move_round (nprocs chunk from to nbytes_left : Z) : Z * list (Z * Z * Z) :=
  (* returns (new nbytes_left, per-rank transfers) following the loop body *)
  if nbytes_left <? nprocs * chunk then
    let rem := nbytes_left / chunk in
    (0, map (fun r => let cnt := if r >? rem then 0 else if r =? rem then nbytes_left mod chunk else chunk in
                      (from + 0 + r * chunk, to + 0 + r * chunk, cnt)) (zrange 0 nprocs))
  else
    let nb := nbytes_left - chunk * nprocs in
    (nb, map (fun r => (from + nb + r * chunk, to + nb + r * chunk, chunk)) (zrange 0 nprocs)).

Fixpoint move_rounds (fuel : nat) (d : disk) (nprocs chunk from to nbytes : Z) : disk :=
  match fuel with
  | O => d
  | S k =>
      if nbytes <=? 0 then d
      else
        let '(nb, xs) := move_round nprocs chunk from to nbytes in
        (* all reads of the round happen before its writes *)
        let data := map (fun x => let '(fo, to_, c) := x in (to_, dk_read d fo c)) xs in
        let d' := fold_left (fun acc p => dk_write acc (fst p) (snd p)) data d in
        move_rounds k d' nprocs chunk from to nb
  end.

Definition move_file_block (d : disk) (nprocs unit_ to from nbytes : Z) : disk :=
  if nbytes <=? 0 then d else
  let c0 := nbytes / nprocs + (if nbytes mod nprocs =? 0 then 0 else 1) in
  let chunk := if c0 >? unit_ then unit_ else c0 in
  move_rounds (Z.to_nat (nbytes / (chunk * nprocs) + 2)) d nprocs chunk from to nbytes.

Definition move_record_vars (d : disk) (nprocs unit_ : Z) (numrecs : Z) (nl ol : layout) : disk :=
  if l_recsize nl =? l_recsize ol then
    if l_recsize nl =? 0 then d
    else move_file_block d nprocs unit_ (l_begin_rec nl) (l_begin_rec ol) (l_recsize nl * numrecs)
  else
    fold_left (fun acc recno =>
                 move_file_block acc nprocs unit_
                                 (l_begin_rec nl + recno * l_recsize nl)
                                 (l_begin_rec ol + recno * l_recsize ol) (l_recsize ol))
              (rev (zrange 0 numrecs)) d.

Definition move_fixed_vars (d : disk) (nprocs unit_ : Z) (oh : hdr) (nl ol : layout) (newlens : list Z) : disk :=
  fold_left (fun acc i =>
               let ov := znth (h_vars oh) i (mkvar [] [] [] 0 0 true) in
               if is_recvar (h_dims oh) ov then acc
               else
                 let from := znth (l_begins ol) i 0 in
                 let to := znth (l_begins nl) i 0 in
                 if to >? from then move_file_block acc nprocs unit_ to from (znth newlens i 0) else acc)
            (rev (zrange 0 (Zlen (h_vars oh)))) d.

