(* Proofs_GenBeginsRedef2.v — the whole generated NC_begins after a redef (ncp->old != NULL) against
   Header.begins h hm vm ha ra (Some (ol, recs)) pbr, assembled from the loop lemmas of Proofs_GenBeginsRedef.v. *)
From Pnc Require Import Base Gen_consts Header CSub Gen_begins Proofs_CSub Proofs_GenBegins Proofs_GenBeginsRedef.
Require Import String.
Require Import Lia ZArith ZifyBool List Bool.
Import ListNotations.
Local Open Scope Z_scope.
Ltac Zify.zify_post_hook ::= Z.div_mod_to_equations.

Ltac fpo_rec E IH :=
  match type of E with context [fix_pass_o ?a ?b ?c ?d ?e ?g] =>
    let E1 := fresh "E1" in
    destruct (fix_pass_o a b c d e g) as [[[[[r1 e1] f1] i1] o1] k1] eqn:E1; inversion E; subst end.
Ltac rpo_rec E :=
  match type of E with context [rec_pass_o ?a ?b ?c ?d ?e ?g ?h] =>
    let E1 := fresh "E1" in
    destruct (rec_pass_o a b c d e g h) as [[[[[[r1 e1] s1] l1] i1] o1] k1] eqn:E1; inversion E; subst end.

Lemma fix_pass_o_nb : forall fmt rest k ev fv ol r' ev' fv' i' ol' ok,
  fix_pass_o fmt rest k ev fv ol = (r', ev', fv', i', ol', ok) -> map nb r' = map nb rest.
Proof.
  intros fmt rest. induction rest as [|v r IH]; intros k ev fv ol r' ev' fv' i' ol' ok E.
  - cbn in E. inversion E; reflexivity.
  - cbn [fix_pass_o] in E. destruct (cv_isrec v).
    + fpo_rec E IH. cbn [map]. f_equal. eapply IH; eassumption.
    + destruct ((fmt =? 1) && (ev >? 2147483647)); [inversion E; reflexivity|]. cbv zeta in E.
      destruct (drop_rec ol) as [|[rb ob] ol2]; fpo_rec E IH; cbn [map]; f_equal; eapply IH; eassumption.
Qed.

Lemma fix_pass_o_bounds : forall OB fmt rest k ev fv ol r' ev' fv' i' ol' ok,
  fix_pass_o fmt rest k ev fv ol = (r', ev', fv', i', ol', ok) ->
  0 <= ev -> Forall (fun v => 0 <= NC_var__len v) rest -> Forall (fun p => snd p <= OB) ol ->
  ev <= ev' <= Z.max ev OB + lens4 rest.
Proof.
  intros OB fmt rest. induction rest as [|v r IH]; intros k ev fv ol r' ev' fv' i' ol' ok E Hev Hl HOB.
  - cbn in E. inversion E; subst. unfold lens4. cbn. lia.
  - inversion Hl as [|? ? Hv Hr]; subst.
    assert (Hl4 : 0 <= lens4 r).
    { clear - Hr. unfold lens4. induction Hr as [|x l Hx Hl IHl]; cbn [map zsum]; lia. }
    assert (Hb' : lens4 (v :: r) = NC_var__len v + 4 + lens4 r) by reflexivity.
    cbn [fix_pass_o] in E. destruct (cv_isrec v).
    + fpo_rec E IH. eapply IH in E1; [lia | lia | exact Hr | exact HOB].
    + destruct ((fmt =? 1) && (ev >? 2147483647)); [inversion E; subst; lia|]. cbv zeta in E.
      pose proof (rndup_bounds ev 4 Hev ltac:(lia)).
      destruct (drop_rec_suffix ol) as [m Hm].
      assert (HOBd : Forall (fun p => snd p <= OB) (drop_rec ol)).
      { rewrite Hm in HOB. apply Forall_app in HOB. exact (proj2 HOB). }
      destruct (drop_rec ol) as [|[rb ob] ol2].
      * fpo_rec E IH. eapply IH in E1; [lia | lia | exact Hr | constructor].
      * assert (Hob : ob <= OB) by (apply Forall_inv in HOBd; exact HOBd).
        fpo_rec E IH. eapply IH in E1; [ | | exact Hr | apply Forall_inv_tail in HOBd; exact HOBd ].
        -- destruct (rndup ev 4 <? ob) eqn:Eb; lia.
        -- destruct (rndup ev 4 <? ob) eqn:Eb; lia.
Qed.

Lemma fix_pass_o_fv_some : forall fmt rest k ev j ol r' ev' fv' i' ol' ok,
  fix_pass_o fmt rest k ev (Some j) ol = (r', ev', fv', i', ol', ok) -> fv' = Some j.
Proof.
  intros fmt rest. induction rest as [|v r IH]; intros k ev j ol r' ev' fv' i' ol' ok E.
  - cbn in E. inversion E; reflexivity.
  - cbn [fix_pass_o] in E. destruct (cv_isrec v).
    + fpo_rec E IH. eapply IH; eassumption.
    + cbn [r_isnull] in E.
      destruct ((fmt =? 1) && (ev >? 2147483647)); [inversion E; reflexivity|]. cbv zeta in E.
      destruct (drop_rec ol) as [|[rb ob] ol2]; fpo_rec E IH; eapply IH; eassumption.
Qed.

Lemma fix_pass_o_fv : forall fmt rest k ev ol r' ev' fv' i' ol',
  fix_pass_o fmt rest k ev None ol = (r', ev', fv', i', ol', true) ->
  fv' = find_index (fun v => negb (cv_isrec v)) rest k.
Proof.
  intros fmt rest. induction rest as [|v r IH]; intros k ev ol r' ev' fv' i' ol' E.
  - cbn in E. inversion E; reflexivity.
  - cbn [fix_pass_o find_index] in E |- *. destruct (cv_isrec v); cbn [negb].
    + fpo_rec E IH. eapply IH; eassumption.
    + destruct ((fmt =? 1) && (ev >? 2147483647)); [inversion E|]. cbv zeta in E. cbn [r_isnull] in E.
      destruct (drop_rec ol) as [|[rb ob] ol2]; fpo_rec E IH; eapply fix_pass_o_fv_some; eassumption.
Qed.

Lemma rec_pass_o_nb : forall fmt rest k ev rs lv ol r' ev' rs' l' i' ol' ok,
  rec_pass_o fmt rest k ev rs lv ol = (r', ev', rs', l', i', ol', ok) ->
  map nb r' = map nb rest /\ map fixed_begin r' = map fixed_begin rest.
Proof.
  intros fmt rest. induction rest as [|v r IH]; intros k ev rs lv ol r' ev' rs' l' i' ol' ok E.
  - cbn in E. inversion E; split; reflexivity.
  - cbn [rec_pass_o] in E. destruct (cv_isrec v) eqn:Erec; cbn [negb] in E.
    + destruct ((fmt =? 1) && (ev >? 2147483647)); [inversion E; split; reflexivity|].
      destruct (drop_fix ol) as [|[rb ob] ol2]; rpo_rec E; apply IH in E1; destruct E1 as [H1 H2]; cbn [map];
        (split; [f_equal; exact H1|]; f_equal; [|exact H2]; unfold fixed_begin; rewrite cv_isrec_set_begin, Erec; reflexivity).
    + rpo_rec E. apply IH in E1. destruct E1 as [H1 H2]. cbn [map]. split; f_equal; assumption.
Qed.

Lemma rec_pass_o_last : forall fmt rest pre ev rs lv ol A0 r' ev' rs' l' i' ol',
  rec_pass_o fmt rest (Zlen pre) ev rs lv ol = (r', ev', rs', l', i', ol', true) ->
  linv pre lv A0 -> linv (pre ++ r') l' (fold_left lastg r' A0).
Proof.
  intros fmt rest. induction rest as [|v r IH]; intros pre ev rs lv ol A0 r' ev' rs' l' i' ol' E H.
  - cbn in E. inversion E; subst. rewrite app_nil_r. exact H.
  - cbn [rec_pass_o] in E. destruct (cv_isrec v) eqn:Erec; cbn [negb] in E.
    + destruct ((fmt =? 1) && (ev >? 2147483647)); [inversion E|].
      assert (Hstep : forall b r1 ev1 rs1 l1 i1 ol1 olx,
                rec_pass_o fmt r (Zlen pre + 1) (ev + NC_var__len v) (rs + NC_var__len v) (Some (Zlen pre)) olx
                  = (r1, ev1, rs1, l1, i1, ol1, true) ->
                linv (pre ++ set_NC_var__begin b v :: r1) l1 (fold_left lastg (set_NC_var__begin b v :: r1) A0)).
      { intros b r1 ev1 rs1 l1 i1 ol1 olx E1. set (v' := set_NC_var__begin b v).
        assert (Hk : Zlen pre + 1 = Zlen (pre ++ [v'])) by (rewrite cs_Zlen_app, cs_Zlen_cons, cs_Zlen_nil; lia).
        rewrite Hk in E1.
        assert (H1 : linv (pre ++ [v']) (Some (Zlen pre)) (Some v')).
        { cbn [linv]. rewrite <- Hk. pose proof (cs_Zlen_nonneg _ pre). split; [lia|].
          rewrite cs_znth_app_Zlen. reflexivity. }
        pose proof (IH (pre ++ [v']) _ _ _ _ (Some v') _ _ _ _ _ _ E1 H1) as H2.
        rewrite <- app_assoc in H2. cbn [app] in H2. cbn [fold_left].
        replace (lastg A0 v') with (Some v') by (unfold lastg, v'; rewrite cv_isrec_set_begin, Erec; reflexivity).
        exact H2. }
      destruct (drop_fix ol) as [|[rb ob] ol2]; rpo_rec E; eapply Hstep; eassumption.
    + assert (Hk : Zlen pre + 1 = Zlen (pre ++ [v])) by (rewrite cs_Zlen_app, cs_Zlen_cons, cs_Zlen_nil; lia).
      rewrite Hk in E. rpo_rec E.
      pose proof (IH (pre ++ [v]) _ _ _ _ A0 _ _ _ _ _ _ E1 (linv_app pre v lv A0 H)) as H2.
      rewrite <- app_assoc in H2. cbn [app] in H2. cbn [fold_left].
      replace (lastg A0 v) with A0 by (unfold lastg; rewrite Erec; reflexivity).
      exact H2.
Qed.

Definition c_view_nc_redef2 (h : hdr) (hm vm ha ra pbr flags sm np : Z) (ol : layout) (recs : list bool) : c_NC :=
  {| NC__begin_rec := pbr; NC__begin_var := 0; NC__flags := flags; NC__format := h_format h;
     NC__h_align := ha; NC__h_minfree := hm; NC__nprocs := np; NC__numrecs := h_numrecs h;
     NC__old := Some (c_old (zip recs (l_begins ol)) (l_begin_var ol) (l_begin_rec ol));
     NC__r_align := ra; NC__recsize := 0; NC__safe_mode := sm; NC__v_minfree := vm;
     NC__vars := {| NC_vararray__ndefined := Zlen (h_vars h);
                    NC_vararray__value := match h_vars h with [] => None
                                          | _ => Some (map (cv_of (h_dims h)) (h_vars h), 0) end |};
     NC__xsz := 0 |}.

(* the old offsets are bounded by OB, and the potential of the new-file case plus 2 OB stays below 2^63 *)
Definition begins_guards_redef (h : hdr) (hm vm ha ra pbr OB : Z) (ol : layout) (recs : list bool) : Prop :=
  0 <= hdr_len h /\ 0 <= hm /\ 1 <= ha /\ 0 <= vm /\ 0 <= ra /\ 0 <= pbr /\
  Zlen (h_vars h) <= 2147483647 /\
  Forall (fun v => 0 <= var_len (h_dims h) v /\
                   in_i64 (var_nelems_per_rec (var_shape (h_dims h) v) * xlen_type (v_type v)) = true) (h_vars h) /\
  0 <= OB /\ l_begin_var ol <= OB /\ l_begin_rec ol <= OB /\
  Forall (fun p => snd p <= OB) (zip recs (l_begins ol)) /\ Zlen (zip recs (l_begins ol)) <= 2147483647 /\
  hdr_len h + hm + ha + pbr + vm + 4 + ra + 2 * OB +
    2 * zsum (map (fun v => var_len (h_dims h) v + 4) (h_vars h)) <= MAXOFF.

Theorem gen_begins_eq_redef : forall h hm vm ha ra pbr flags sm np OB ol recs,
  h_vars h <> [] ->
  (z2b sm && (np >? 1)) = false -> begins_guards_redef h hm vm ha ra pbr OB ol recs ->
  exists rc s', NC_begins_c (c_view_nc_redef2 h hm vm ha ra pbr flags sm np ol recs) (hdr_len h) = FValS rc s' /\
    match begins h hm vm ha ra (Some (ol, recs)) pbr with
    | None => rc = NC_EVARSIZE
    | Some lay => rc = NC_NOERR /\ layout_of_state s' = lay /\
                  NC__numrecs (NC_begins__P_ncp s') = (if z2b (Z.land flags 32768) then 0 else h_numrecs h)
    end.
Proof.
  intros h hm vm ha ra pbr flags sm np OB ol recs Hne Hsm
    (Hx & Hhm & Hha & Hvm & Hra & Hpbr & Hn & Hvars & HOB0 & Hobv & Hobr & HOBs & Hno & Hbound).
  set (ovs := zip recs (l_begins ol)) in *. set (obv := l_begin_var ol) in *. set (obr := l_begin_rec ol) in *.
  destruct (h_vars h) as [|v0 vr] eqn:Ev; [exfalso; apply Hne; reflexivity|]. clear Hne.
  set (dims := h_dims h) in *. set (vars := v0 :: vr) in *. set (arr := map (cv_of dims) vars).
  set (xsz := hdr_len h) in *.
  assert (Hlens : lens4 arr = zsum (map (fun v => var_len dims v + 4) vars)).
  { unfold lens4, arr. rewrite map_map. reflexivity. }
  assert (HZarr : Zlen arr = Zlen vars) by (unfold arr; apply cs_Zlen_map).
  assert (Hwf : Forall cv_wf arr).
  { unfold arr. rewrite Forall_map. apply Forall_forall. intros v _. unfold cv_wf, cv_of. cbn [NC_var__shape].
    destruct (var_shape dims v) as [|s0 r]; [reflexivity|]. cbn [c_shape_b p_isnull negb]. apply p_ok_cons0. }
  assert (Hlen : Forall (fun v => 0 <= NC_var__len v) arr).
  { unfold arr. rewrite Forall_map. eapply Forall_impl; [|exact Hvars]. intros v [H1 _]. exact H1. }
  assert (Hl4 : 0 <= lens4 arr).
  { clear - Hlen. unfold lens4. induction Hlen as [|x l Hx Hl IHl]; cbn [map zsum]; lia. }
  assert (Hnpos : 0 < Zlen vars).
  { unfold vars. rewrite cs_Zlen_cons. pose proof (cs_Zlen_nonneg _ vr). lia. }
  unfold MAXOFF in Hbound. rewrite <- Hlens in Hbound.
  unfold NC_begins_c, NC_begins_body, st_NC_begins_init, c_view_nc_redef2.
  rewrite !Ev. cbn [c_bind]. gb_st. gb_nc. fold dims vars arr. rewrite Hsm. cbn [c_bind]. gb_st. gb_nc.
  replace (Zlen vars >? 0) with true by lia.
  set (bv0 := rndup (xsz + hm) ha).
  pose proof (rndup_bounds (xsz + hm) ha ltac:(lia) Hha) as Hbv0. fold bv0 in Hbv0.
  rewrite rndq by lia. fold bv0.
  assert (C1 : in_i64 (xsz + hm) && in_i64 (xsz + hm + ha) && in_i64 (xsz + hm + ha - 1) &&
               div_ok i64_min (xsz + hm + ha - 1) ha && in_i64 bv0 = true).
  { rewrite div_ok_pos by lia. unfold in_i64. lia. }
  rewrite C1. cbn [c_chk c_bind]. gb_st. gb_nc. fold ovs obv obr. cbn [o_ok negb o_get c_old NC__old__begin_var c_chk]. 
  change (match vars with [] => None | _ :: _ => Some (arr, 0) end) with (Some (arr, 0)).
  set (bv1 := if bv0 <? obv then obv else bv0).
  assert (Hbv1 : bv0 <= bv1 <= bv0 + OB) by (unfold bv1; destruct (bv0 <? obv) eqn:Eb; lia).
  set (oldv := Some (c_old ovs obv obr)).
  match goal with |- context [c_bind (if bv0 <? obv then ?A else ?B) ?K] =>
    assert (Hs0 : c_bind (if bv0 <? obv then A else B) K =
                  K (mkS {| NC__begin_rec := pbr; NC__begin_var := bv1; NC__flags := flags; NC__format := h_format h;
                            NC__h_align := ha; NC__h_minfree := hm; NC__nprocs := np; NC__numrecs := h_numrecs h;
                            NC__old := oldv; NC__r_align := ra; NC__recsize := 0; NC__safe_mode := sm; NC__v_minfree := vm;
                            NC__vars := {| NC_vararray__ndefined := Zlen vars; NC_vararray__value := Some (arr, 0) |};
                            NC__xsz := xsz |} 0 None 0 0 None)) end.
  { unfold bv1, mkS, oldv. destruct (bv0 <? obv); reflexivity. }
  rewrite Hs0; clear Hs0. unfold mkS. gb_st. gb_nc.
  (* loop 1 *)
  set (n1 := {| NC__begin_rec := pbr; NC__begin_var := bv1; NC__flags := flags; NC__format := h_format h;
                NC__h_align := ha; NC__h_minfree := hm; NC__nprocs := np; NC__numrecs := h_numrecs h;
                NC__old := oldv; NC__r_align := ra; NC__recsize := 0; NC__safe_mode := sm; NC__v_minfree := vm;
                NC__vars := {| NC_vararray__ndefined := Zlen vars; NC_vararray__value := Some (arr, 0) |};
                NC__xsz := xsz |}).
  assert (Hnd1 : NC_vararray__ndefined (NC__vars n1) = Zlen ([] ++ arr)) by (cbn [app]; rewrite HZarr; reflexivity).
  assert (Hn1 : Zlen ([] ++ arr) <= 2147483647) by (cbn [app]; lia).
  assert (Hev1 : 0 <= bv1) by lia.
  assert (Hb1 : bv1 + lens4 arr <= MAXOFF) by (unfold MAXOFF; lia).
  assert (HbO1 : OB + lens4 arr <= MAXOFF) by (unfold MAXOFF; lia).
  assert (Hsuf0 : exists preo, ovs = preo ++ ovs) by (exists []; reflexivity).
  match goal with |- context [c_loop ?fu ?a ?b ?c ?d ?st] =>
    replace (c_loop fu a b c d st)
      with (c_loop (NC_begins_loop1_fuel n1 xsz (mkS (with_vals n1 ([] ++ arr)) bv1 None (Zlen (@nil c_NC_var)) (Zlen ovs - Zlen ovs) None))
                   (NC_begins_loop1_cdef n1 xsz) (NC_begins_loop1_cond n1 xsz)
                   (NC_begins_loop1_body n1 xsz) (NC_begins_loop1_inc n1 xsz)
                   (mkS (with_vals n1 ([] ++ arr)) bv1 None (Zlen (@nil c_NC_var)) (Zlen ovs - Zlen ovs) None)) by (rewrite Z.sub_diag; reflexivity) end.
  assert (Hnd1' : NC_vararray__ndefined (NC__vars n1) = Zlen arr) by (rewrite HZarr; reflexivity).
  assert (Hf1 : (Datatypes.length arr <
                 NC_begins_loop1_fuel n1 xsz (mkS (with_vals n1 ([] ++ arr)) bv1 None (Zlen (@nil c_NC_var)) (Zlen ovs - Zlen ovs) None))%nat).
  { apply (lens4_nonneg_fuel arr n1 xsz _ Hnd1'); [reflexivity | exact Hnd1']. }
  rewrite (gb_loop1_o n1 xsz ovs obv obr OB eq_refl Hno arr [] bv1 None None ovs _ Hnd1 Hn1 Hwf Hlen Hev1 Hb1 HbO1 Hsuf0 HOBs Hf1).
  pose proof (fix_pass_o_begins_fixed (h_format h) arr 0 bv1 None ovs []) as HP1.
  change (NC__format n1) with (h_format h). change (Zlen (@nil c_NC_var)) with 0.
  destruct (fix_pass_o (h_format h) arr 0 bv1 None ovs) as [[[[[a1 ef] fv1] i1] ol1] ok1] eqn:Efp.
  set (jj := Zlen ovs - Zlen ol1).
  cbv beta iota zeta in HP1. cbn [rev app] in HP1. cbn [app].
  (* the model side, first part *)
  assert (Hvs : map (fun v => (is_recvar dims v, var_len dims v)) vars = map pair_of arr).
  { unfold arr. rewrite map_map. apply map_ext. intros v. unfold pair_of. rewrite cv_isrec_cv_of. reflexivity. }
  unfold begins. rewrite Ev. fold dims xsz. cbv zeta. fold vars. rewrite Hvs.
  change (match vars with [] => xsz | _ :: _ => rndup (xsz + hm) ha end) with bv0.
  fold ovs obv obr. fold bv1. fold (ofix ovs). fold (orec ovs). rewrite HP1.
  destruct ok1.
  2:{ exists (-62), (mkS (with_vals n1 a1) ef fv1 i1 jj None). split; reflexivity. }
  cbn [c_bind]. unfold mkS, with_vals. subst n1. gb_st. gb_nc.
  (* facts about the first pass *)
  pose proof (fix_pass_o_bounds OB _ _ _ _ _ _ _ _ _ _ _ _ Efp Hev1 Hlen HOBs) as Hef.
  destruct (map_nb_props a1 arr (fix_pass_o_nb _ _ _ _ _ _ _ _ _ _ _ _ Efp)) as (HZ1 & HL1 & Hwf1 & Hlen1 & Hrec1).
  specialize (Hwf1 Hwf). specialize (Hlen1 Hlen).
  pose proof (fix_pass_o_fv _ _ _ _ _ _ _ _ _ _ Efp) as Hfv.
  (* begin_rec *)
  set (br0 := if pbr <? ef + vm then ef + vm else pbr).
  set (br1 := rndup br0 4).
  set (br2 := if ra >? 1 then rndup br1 ra else br1).
  assert (Hbr0 : 0 <= br0 <= pbr + ef + vm) by (unfold br0; destruct (pbr <? ef + vm); lia).
  pose proof (rndup_bounds br0 4 ltac:(lia) ltac:(lia)) as Hbr1. fold br1 in Hbr1.
  assert (Hbr2 : br1 <= br2 <= br1 + ra).
  { unfold br2. destruct (ra >? 1) eqn:Era; [|lia]. pose proof (rndup_bounds br1 ra ltac:(lia) ltac:(lia)). lia. }
  assert (C2 : in_i64 (ef + vm) = true) by (apply in_i64_iff; lia).
  rewrite !C2. cbn [c_chk].
  match goal with |- context [c_bind (if pbr <? ef + vm then ?A else ?B) ?K] =>
    assert (Hs1 : c_bind (if pbr <? ef + vm then A else B) K =
                  K (mkS {| NC__begin_rec := br0; NC__begin_var := bv1; NC__flags := flags; NC__format := h_format h;
                            NC__h_align := ha; NC__h_minfree := hm; NC__nprocs := np; NC__numrecs := h_numrecs h;
                            NC__old := oldv; NC__r_align := ra; NC__recsize := 0; NC__safe_mode := sm; NC__v_minfree := vm;
                            NC__vars := {| NC_vararray__ndefined := Zlen vars; NC_vararray__value := Some (a1, 0) |};
                            NC__xsz := xsz |} ef fv1 i1 jj None)) end.
  { unfold br0, mkS. destruct (pbr <? ef + vm); reflexivity. }
  rewrite Hs1; clear Hs1. unfold mkS. gb_st. gb_nc.
  rewrite rnd4_quot by lia. fold br1.
  assert (C3 : in_i64 (br0 + 4) && in_i64 (br0 + 4 - 1) && div_ok i64_min (br0 + 4 - 1) 4 && in_i64 br1 = true).
  { rewrite div_ok_pos by lia. unfold in_i64. lia. }
  rewrite C3. cbn [c_chk c_bind]. gb_st. gb_nc.
  match goal with |- context [c_bind (if ra >? 1 then ?A else ?B) ?K] =>
    assert (Hs2 : c_bind (if ra >? 1 then A else B) K =
                  K (mkS {| NC__begin_rec := br2; NC__begin_var := bv1; NC__flags := flags; NC__format := h_format h;
                            NC__h_align := ha; NC__h_minfree := hm; NC__nprocs := np; NC__numrecs := h_numrecs h;
                            NC__old := oldv; NC__r_align := ra; NC__recsize := 0; NC__safe_mode := sm; NC__v_minfree := vm;
                            NC__vars := {| NC_vararray__ndefined := Zlen vars; NC_vararray__value := Some (a1, 0) |};
                            NC__xsz := xsz |} ef fv1 i1 jj None)) end.
  { unfold br2, mkS. destruct (ra >? 1) eqn:Era; [|reflexivity].
    rewrite rndq by lia.
    pose proof (rndup_bounds br1 ra ltac:(lia) ltac:(lia)) as Hr.
    assert (C4 : in_i64 (br1 + ra) && in_i64 (br1 + ra - 1) && div_ok i64_min (br1 + ra - 1) ra &&
                 in_i64 (rndup br1 ra) = true).
    { rewrite div_ok_pos by lia. unfold in_i64. lia. }
    rewrite C4. reflexivity. }
  rewrite Hs2; clear Hs2. unfold mkS. gb_st. gb_nc. cbn [o_ok negb c_bind]. gb_st. gb_nc.
  set (br3 := if br2 <? obr then obr else br2).
  assert (Hbr3 : br2 <= br3 <= br2 + OB) by (unfold br3; destruct (br2 <? obr) eqn:Eb; lia).
  unfold oldv at 1 2 3. cbn [o_ok negb o_get c_old NC__old__begin_rec c_chk]. fold oldv.
  match goal with |- context [c_bind (if br2 <? obr then ?A else ?B) ?K] =>
    assert (Hs2b : c_bind (if br2 <? obr then A else B) K =
                  K (mkS {| NC__begin_rec := br3; NC__begin_var := bv1; NC__flags := flags; NC__format := h_format h;
                            NC__h_align := ha; NC__h_minfree := hm; NC__nprocs := np; NC__numrecs := h_numrecs h;
                            NC__old := oldv; NC__r_align := ra; NC__recsize := 0; NC__safe_mode := sm; NC__v_minfree := vm;
                            NC__vars := {| NC_vararray__ndefined := Zlen vars; NC_vararray__value := Some (a1, 0) |};
                            NC__xsz := xsz |} ef fv1 i1 jj None)) end.
  { unfold br3, mkS, oldv. destruct (br2 <? obr); reflexivity. }
  rewrite Hs2b; clear Hs2b. unfold mkS. gb_st. gb_nc.
  set (bvar := match fv1 with Some j => NC_var__begin (znth a1 j c_NC_var_default) | None => br3 end).
  set (n2 := {| NC__begin_rec := br3; NC__begin_var := bvar; NC__flags := flags; NC__format := h_format h;
                NC__h_align := ha; NC__h_minfree := hm; NC__nprocs := np; NC__numrecs := h_numrecs h;
                NC__old := oldv; NC__r_align := ra; NC__recsize := 0; NC__safe_mode := sm; NC__v_minfree := vm;
                NC__vars := {| NC_vararray__ndefined := Zlen vars; NC_vararray__value := Some (a1, 0) |};
                NC__xsz := xsz |}).
  assert (Hfvr : forall j, fv1 = Some j -> 0 <= j < Zlen a1 /\ cv_isrec (znth arr j c_NC_var_default) = false).
  { intros j Hj. rewrite Hj in Hfv. symmetry in Hfv.
    apply (find_index_range _ _ _ _ _ c_NC_var_default) in Hfv. destruct Hfv as [H1 H2].
    rewrite Z.sub_0_r in H2. split; [lia|]. destruct (cv_isrec (znth arr j c_NC_var_default)); [discriminate | reflexivity]. }
  match goal with |- context [c_bind (if negb (r_isnull fv1) then ?A else ?B) ?K] =>
    assert (Hs3 : c_bind (if negb (r_isnull fv1) then A else B) K = K (mkS n2 ef fv1 i1 jj None)) end.
  { unfold bvar, n2, mkS. destruct fv1 as [j|]; cbn [r_isnull negb r_ok r_get]; [|reflexivity].
    destruct (Hfvr j eq_refl) as [Hj _].
    rewrite p_ok_some by lia. rewrite p_get_some, Z.add_0_l. reflexivity. }
  rewrite Hs3; clear Hs3. unfold mkS. gb_st. subst n2. gb_nc.
  (* loop 3 *)
  set (n2 := {| NC__begin_rec := br3; NC__begin_var := bvar; NC__flags := flags; NC__format := h_format h;
                NC__h_align := ha; NC__h_minfree := hm; NC__nprocs := np; NC__numrecs := h_numrecs h;
                NC__old := oldv; NC__r_align := ra; NC__recsize := 0; NC__safe_mode := sm; NC__v_minfree := vm;
                NC__vars := {| NC_vararray__ndefined := Zlen vars; NC_vararray__value := Some (a1, 0) |};
                NC__xsz := xsz |}).
  assert (Hnd2 : NC_vararray__ndefined (NC__vars n2) = Zlen ([] ++ a1)) by (cbn [app]; rewrite HZ1, HZarr; reflexivity).
  assert (Hn2 : Zlen ([] ++ a1) <= 2147483647) by (cbn [app]; lia).
  assert (Hev2 : 0 <= br3) by lia.
  assert (Hb2 : br3 + lens4 a1 <= MAXOFF) by (unfold MAXOFF; lia).
  assert (Hrs2 : 0 <= 0 <= br3) by lia.
  assert (Hnd2' : NC_vararray__ndefined (NC__vars n2) = Zlen a1) by (rewrite HZ1, HZarr; reflexivity).
  assert (Hf2 : (Datatypes.length a1 <
                 NC_begins_loop3_fuel n2 xsz (mkS (with_vals_rs n2 ([] ++ a1) 0) br3 fv1 (Zlen (@nil c_NC_var)) (Zlen ovs - Zlen ovs) None))%nat).
  { apply (lens4_nonneg_fuel a1 n2 xsz _ Hnd2'); [reflexivity | exact Hnd2']. }
  match goal with |- context [c_loop ?fu ?a ?b ?c ?d ?st] =>
    replace (c_loop fu a b c d st)
      with (c_loop (NC_begins_loop3_fuel n2 xsz (mkS (with_vals_rs n2 ([] ++ a1) 0) br3 fv1 (Zlen (@nil c_NC_var)) (Zlen ovs - Zlen ovs) None))
                   (NC_begins_loop3_cdef n2 xsz) (NC_begins_loop3_cond n2 xsz)
                   (NC_begins_loop3_body n2 xsz) (NC_begins_loop3_inc n2 xsz)
                   (mkS (with_vals_rs n2 ([] ++ a1) 0) br3 fv1 (Zlen (@nil c_NC_var)) (Zlen ovs - Zlen ovs) None)) by (rewrite Z.sub_diag; reflexivity) end.
  rewrite (gb_loop3_o n2 xsz ovs obv obr eq_refl Hno a1 [] br3 0 fv1 None ovs _ Hnd2 Hn2 Hwf1 Hlen1 Hev2 Hb2 Hrs2 Hsuf0 Hf2).
  pose proof (rec_pass_o_begins_rec (h_format h) a1 0 br3 0 None ovs None []) as HP2.
  change (NC__format n2) with (h_format h). change (Zlen (@nil c_NC_var)) with 0.
  destruct (rec_pass_o (h_format h) a1 0 br3 0 None ovs) as [[[[[[a2 er] rs] l2] i3] ol3] ok2] eqn:Erp.
  set (jj3 := Zlen ovs - Zlen ol3).
  cbv beta iota zeta in HP2. cbn [rev app] in HP2. cbn [app].
  destruct (rec_pass_o_nb _ _ _ _ _ _ _ _ _ _ _ _ _ _ Erp) as [Hnb2 Hfb2].
  assert (Hnb1 : map nb a1 = map nb arr) by (exact (fix_pass_o_nb _ _ _ _ _ _ _ _ _ _ _ _ Efp)).
  rewrite <- (map_nb_pair_of a1 arr Hnb1). rewrite HP2.
  destruct ok2.
  2:{ exists (-62), (mkS (with_vals_rs n2 a2 rs) er fv1 i3 jj3 l2). split; reflexivity. }
  cbn [c_bind]. unfold mkS, with_vals_rs, with_vals. subst n2. gb_st. gb_nc. unfold set_NC__recsize. gb_nc.
  destruct (map_nb_props a2 a1 Hnb2) as (HZ2 & _ & _ & _ & Hrec2).
  pose proof (rec_pass_o_last (h_format h) a1 [] br3 0 None ovs None a2 er rs l2 i3 ol3 Erp eq_refl) as Hlast.
  cbn [app] in Hlast. set (F2 := fold_left lastg a2 None) in *.
  (* the model's view of the last record variable *)
  assert (HF : option_map nb F2 =
               option_map nb (option_map (cv_of dims) (last_opt (filter (fun v => is_recvar dims v) vars)))).
  { unfold F2. rewrite (fold_last_nb a2 arr None None); [|rewrite Hnb2; exact Hnb1 | reflexivity].
    unfold arr. pose proof (fold_last_cv_of dims vars None) as Hc. cbn [option_map] in Hc. rewrite Hc.
    rewrite fold_last_gen.
    destruct (last_opt (filter (fun v => is_recvar dims v) vars)); reflexivity. }
  pose proof (last_rec_len_fold a2 None) as Hll. cbn [option_map] in Hll. fold F2 in Hll. rewrite Hll. clear Hll.
  assert (Hall : Forall (fun t : c_ptr Z * Z * c_ptr Z * Z =>
                           p_ok (snd (fst t)) 0 = true /\ in_i64 (p_get 0 (snd (fst t)) 0 * snd t) = true) (map nb a2)).
  { rewrite Hnb2, Hnb1. unfold arr. rewrite map_map, Forall_map. eapply Forall_impl; [|exact Hvars].
    intros v [_ Hv]. unfold nb, cv_of. cbn [fst snd NC_var__dsizes NC_var__xsz]. split; [apply p_ok_cons0 | exact Hv]. }
  set (rsf := match F2 with
              | Some lv2 => if rs =? NC_var__len lv2 then p_get 0 (NC_var__dsizes lv2) 0 * NC_var__xsz lv2 else rs
              | None => rs end).
  set (nf := fun nr : Z =>
               {| NC__begin_rec := br3; NC__begin_var := bvar; NC__flags := flags; NC__format := h_format h;
                  NC__h_align := ha; NC__h_minfree := hm; NC__nprocs := np; NC__numrecs := nr;
                  NC__old := oldv; NC__r_align := ra; NC__recsize := rsf; NC__safe_mode := sm; NC__v_minfree := vm;
                  NC__vars := {| NC_vararray__ndefined := Zlen vars; NC_vararray__value := Some (a2, 0) |};
                  NC__xsz := xsz |}).
  match goal with |- context [c_bind (if negb (r_isnull l2) then ?A else ?B) ?K] =>
    assert (Hs4 : c_bind (if negb (r_isnull l2) then A else B) K = K (mkS (nf (h_numrecs h)) er fv1 i3 jj3 l2)) end.
  { unfold nf, rsf, mkS. destruct l2 as [j|]; cbn [linv] in Hlast.
    - destruct Hlast as [Hj HF2]. rewrite HF2. cbn [r_isnull negb r_ok r_get].
      rewrite p_ok_some by lia. rewrite p_get_some, Z.add_0_l. cbn [c_chk andb].
      set (lv2 := znth a2 j c_NC_var_default).
      assert (Hin : In (nb lv2) (map nb a2)) by (apply in_map; apply znth_In; lia).
      rewrite Forall_forall in Hall. destruct (Hall _ Hin) as [Hd1 Hd2]. cbn [nb fst snd] in Hd1, Hd2.
      destruct (rs =? NC_var__len lv2); [|reflexivity].
      rewrite Hd1, Hd2. reflexivity.
    - rewrite Hlast. reflexivity. }
  rewrite Hs4; clear Hs4.
  exists 0, (mkS (nf (if z2b (Z.land flags 32768) then 0 else h_numrecs h)) er fv1 i3 jj3 l2).
  split.
  { unfold mkS, nf. gb_st. gb_nc. destruct (z2b (Z.land flags 32768)); reflexivity. }
  split; [reflexivity|]. split; [|reflexivity].
  (* the layout *)
  unfold layout_of_state, arr_of, mkS, nf. gb_st. gb_nc.
  assert (Hbl : merge_opts (map fixed_begin a1) (map rec_begin a2) = map NC_var__begin a2)
    by (rewrite <- Hfb2; apply merge_fixed_rec).
  rewrite Hbl.
  assert (Hfi : find_index (fun p2 : bool * Z => negb (fst p2)) (map pair_of a1) 0 = fv1).
  { rewrite (map_nb_pair_of a1 arr Hnb1), find_index_map. symmetry. exact Hfv. }
  rewrite Hfi.
  f_equal.
  - (* begin_var *)
    unfold bvar. destruct fv1 as [j|]; [|reflexivity].
    destruct (Hfvr j eq_refl) as [Hj Hfx].
    rewrite (znth_map_d _ _ NC_var__begin a2 j c_NC_var_default 0) by lia.
    assert (Hi1 : cv_isrec (znth a1 j c_NC_var_default) = false).
    { pose proof (f_equal (fun l => znth l j false) Hrec1) as E. cbv beta in E.
      rewrite (znth_map_d _ _ cv_isrec a1 j c_NC_var_default false) in E by lia.
      rewrite (znth_map_d _ _ cv_isrec arr j c_NC_var_default false) in E by lia. rewrite E. exact Hfx. }
    assert (Hi2 : cv_isrec (znth a2 j c_NC_var_default) = false).
    { pose proof (f_equal (fun l => znth l j false) Hrec2) as E. cbv beta in E.
      rewrite (znth_map_d _ _ cv_isrec a2 j c_NC_var_default false) in E by lia.
      rewrite (znth_map_d _ _ cv_isrec a1 j c_NC_var_default false) in E by lia. rewrite E. exact Hi1. }
    pose proof (f_equal (fun l => znth l j None) Hfb2) as E. cbv beta in E.
    rewrite (znth_map_d _ _ fixed_begin a2 j c_NC_var_default None) in E by lia.
    rewrite (znth_map_d _ _ fixed_begin a1 j c_NC_var_default None) in E by lia.
    unfold fixed_begin in E. rewrite Hi1, Hi2 in E. inversion E. reflexivity.
  - (* recsize *)
    unfold rsf.
    destruct F2 as [lv2|]; destruct (last_opt (filter (fun v => is_recvar dims v) vars)) as [lv|];
      cbn [option_map] in HF |- *; try discriminate; try reflexivity.
    injection HF as H1 H2 H3 H4.
    destruct (rs =? NC_var__len lv2); [|reflexivity].
    rewrite H3, H4. unfold cv_of. cbn [NC_var__dsizes NC_var__xsz]. rewrite p_get_some. reflexivity.
Qed.

Print Assumptions gen_begins_eq_redef.

(* the guards are satisfiable: the first redefinition of gen_begins_redef_runs *)
Example begins_guards_redef_ex :
  begins_guards_redef (mkhdr 2 3 exb_dims [] [exb_var 97 [1; 2] 3; exb_var 98 [0; 1] 5; exb_var 99 [2] 1; exb_var 100 [0; 2] 6])
                      0 0 4 4 (l_begin_rec (exr_lay 0 0 512 4)) 100000 (exr_lay 0 0 512 4) [false; true].
Proof.
  unfold begins_guards_redef.
  split; [vm_compute; discriminate|]. split; [vm_compute; discriminate|]. split; [vm_compute; discriminate|].
  split; [vm_compute; discriminate|]. split; [vm_compute; discriminate|]. split; [vm_compute; discriminate|].
  split; [vm_compute; discriminate|].
  split.
  { constructor; [split; [vm_compute; discriminate | vm_compute; reflexivity]|].
    constructor; [split; [vm_compute; discriminate | vm_compute; reflexivity]|].
    constructor; [split; [vm_compute; discriminate | vm_compute; reflexivity]|].
    constructor; [split; [vm_compute; discriminate | vm_compute; reflexivity]|].
    constructor. }
  split; [vm_compute; discriminate|]. split; [vm_compute; discriminate|]. split; [vm_compute; discriminate|].
  split.
  { vm_compute. constructor; [discriminate|]. constructor; [discriminate|]. constructor. }
  split; vm_compute; discriminate.
Qed.
