(* Proofs_Collective.v -- proofs about the model Collective.v (property C08). *)
From Coq Require Import ZArith List String Bool Lia PeanoNat.
From Pnc Require Import Gen_consts Gen_collsites Collective.
Import ListNotations.
Local Open Scope Z_scope.
Local Open Scope list_scope.

(* ------------------------------------------------------------------ generated constants *)
Lemma gen_codes_negative :
  NC_EMULTIDEFINE_FNC_ARGS < 0 /\ NC_EMULTIDEFINE_CMODE < 0 /\ NC_EMULTIDEFINE_OMODE < 0 /\
  NC_EMULTIDEFINE_FILL_MODE < 0 /\ NC_EMULTIDEFINE_VAR_FILL_VALUE < 0 /\
  NC_ENOTFILL < 0 /\ NC_ENOTRECVAR < 0 /\ NC_EINVAL_REQUEST < 0 /\ NC_EPENDING < 0.
Proof. vm_compute. repeat split; reflexivity. Qed.

(* ------------------------------------------------------------------ site enumeration *)
Lemma all_sites_nth : forall s : site, nth_error all_sites (site_idx s) = Some s.
Proof. intro s; destruct s; reflexivity. Qed.

Lemma all_sites_complete : forall s : site, In s all_sites.
Proof. intro s. eapply nth_error_In. apply all_sites_nth. Qed.

Fixpoint nodupb (l : list nat) : bool :=
  match l with [] => true | x :: t => negb (existsb (Nat.eqb x) t) && nodupb t end.
Lemma nodupb_sound : forall l, nodupb l = true -> NoDup l.
Proof.
  induction l as [|x t IH]; intro H; [constructor|].
  cbn in H. apply andb_true_iff in H. destruct H as [H1 H2].
  constructor; [|auto].
  intro Hin. apply negb_true_iff in H1.
  assert (existsb (Nat.eqb x) t = true) by (apply existsb_exists; exists x; split; [assumption | apply Nat.eqb_refl]).
  congruence.
Qed.

Lemma all_sites_nodup : NoDup all_sites.
Proof.
  apply (NoDup_map_inv site_idx). apply nodupb_sound. vm_compute. reflexivity.
Qed.

(* the call sites of the sources as built are exactly the sites the model enumerates *)
Lemma sites_enumerated : model_sites = sort3 gen_sites.
Proof. vm_compute. reflexivity. Qed.

Lemma gen_sites_sorted : sort3 gen_sites = gen_sites.
Proof. vm_compute. reflexivity. Qed.

Lemma gen_sites_count : List.length gen_sites = gen_nsites /\ List.length all_sites = gen_nsites.
Proof. vm_compute. split; reflexivity. Qed.

(* ------------------------------------------------------------------ observable sequences *)
Lemma norm_app : forall a b, norm (a ++ b) = norm a ++ norm b.
Proof. intros. unfold norm. rewrite filter_app, map_app. reflexivity. Qed.

Lemma norm_nil : norm [] = [].
Proof. reflexivity. Qed.

Fixpoint repl {A : Type} (n : nat) (l : list A) : list A :=
  match n with O => [] | S k => l ++ repl k l end.

Lemma norm_rep : forall n t, norm (rep n t) = repl n (norm t).
Proof.
  induction n; intro t; [reflexivity|].
  change (rep (S n) t) with (t ++ rep n t). rewrite norm_app, IHn. reflexivity.
Qed.

Lemma norm_if : forall (b : bool) x y, norm (if b then x else y) = if b then norm x else norm y.
Proof. destruct b; reflexivity. Qed.

Ltac brk :=
  repeat match goal with
         | |- context [if ?b then _ else _] => destruct b eqn:?
         | |- context [match ?x with MDefine => _ | MColl => _ | MIndep => _ end] => destruct x eqn:?
         | |- context [match ?x with VFixed => _ | VRecord => _ | VScalar => _ end] => destruct x eqn:?
         | |- context [match ?x with Some _ => _ | None => _ end] => destruct x eqn:?
         end.

(* ---- the observable sequence of every building block does not depend on being the root ---- *)
Lemma root_set_view : forall r1 r2 c1 c2, norm (set_view r1 c1) = norm (set_view r2 c2).
Proof. intros; unfold set_view; destruct r1, r2, c1, c2; reflexivity. Qed.

Lemma root_write_numrecs : forall c sh r1 r2 i, norm (write_numrecs c sh r1 i) = norm (write_numrecs c sh r2 i).
Proof. intros; unfold write_numrecs; destruct r1, r2, i, (c_hcoll c), (s_nrecvars sh =? 0); reflexivity. Qed.

Lemma root_sync_numrecs_indep : forall c sh r1 r2, norm (sync_numrecs_indep c sh r1) = norm (sync_numrecs_indep c sh r2).
Proof.
  intros; unfold sync_numrecs_indep. brk; try reflexivity;
  rewrite !norm_app; rewrite (root_write_numrecs c sh r1 r2); reflexivity.
Qed.

Lemma root_end_indep : forall c sh r1 r2, norm (end_indep c sh r1) = norm (end_indep c sh r2).
Proof. intros; unfold end_indep. brk; try reflexivity; apply root_sync_numrecs_indep. Qed.

Lemma root_write_header : forall c sh r1 r2, norm (write_header c sh r1) = norm (write_header c sh r2).
Proof.
  intros; unfold write_header. rewrite !norm_app. f_equal.
  destruct (c_hcoll c); [|reflexivity]. rewrite !norm_rep. f_equal.
  destruct r1, r2, (s_mode sh); reflexivity.
Qed.

Lemma root_aggr_init : forall c r1 r2, norm (aggr_init c r1) = norm (aggr_init c r2).
Proof. intros; unfold aggr_init; destruct (c_aggr c), r1, r2; reflexivity. Qed.

Lemma root_write_NC : forall c sh r1 r2, norm (write_NC c sh r1) = norm (write_NC c sh r2).
Proof.
  intros; unfold write_NC. rewrite !norm_app. f_equal.
  destruct (c_hcoll c); [|reflexivity]. rewrite !norm_rep. f_equal. destruct r1, r2; reflexivity.
Qed.

Lemma root_enddef_driver : forall c sh r1 r2, norm (enddef_driver c sh r1) = norm (enddef_driver c sh r2).
Proof.
  intros; unfold enddef_driver. rewrite !norm_app. rewrite (root_write_NC c sh r1 r2). reflexivity.
Qed.

Lemma root_hdr_fetch : forall c r1 r2, norm (hdr_fetch c r1) = norm (hdr_fetch c r2).
Proof. intros; unfold hdr_fetch. destruct (c_hcoll c), (c_safe c), r1, r2; reflexivity. Qed.

Lemma root_getput_driver : forall c sh g r1 r2 isget zero r,
  norm (getput_driver c sh g r1 isget zero r) = norm (getput_driver c sh g r2 isget zero r).
Proof.
  intros; unfold getput_driver.
  destruct zero.
  - destruct (negb isget && c_aggr c); [|reflexivity]. rewrite !norm_app. f_equal; try apply root_set_view.
  - rewrite !norm_app. f_equal; [apply root_set_view|]. f_equal.
    destruct (negb isget && is_rec (d_vk r)); [|reflexivity]. rewrite !norm_app. f_equal.
    destruct (grow sh g); [apply root_write_numrecs | reflexivity].
Qed.

Lemma root_vard_driver : forall c sh g r1 r2 isget zero r,
  norm (vard_driver c sh g r1 isget zero r) = norm (vard_driver c sh g r2 isget zero r).
Proof.
  intros; unfold vard_driver.
  destruct zero; [reflexivity|].
  rewrite !norm_app. f_equal; [apply root_set_view|]. f_equal.
  destruct (negb isget && is_rec (d_vk r)); [|reflexivity]. rewrite !norm_app. f_equal.
  destruct (grow sh g); [apply root_write_numrecs | reflexivity].
Qed.

(* wait_getput: neither the root nor the number of own requests nor the contiguity is observable *)
Lemma root_wait_getput : forall c sh g r1 r2 isget n1 n2 k1 k2,
  norm (wait_getput c sh g r1 isget n1 k1) = norm (wait_getput c sh g r2 isget n2 k2).
Proof.
  intros; unfold wait_getput. rewrite !norm_app. f_equal.
  - destruct (negb isget && c_aggr c) eqn:E.
    + rewrite !norm_app. f_equal; try apply root_set_view.
    + destruct (n1 =? 0), (n2 =? 0); rewrite ?norm_app;
        destruct isget, r1, r2, k1, k2; reflexivity.
  - destruct (negb isget && grow sh g); [apply root_write_numrecs | reflexivity].
Qed.

Lemma root_req_commit : forall c sh g r1 r2 nw1 nr1 nw2 nr2 k1 k2,
  norm (req_commit c sh g r1 nw1 nr1 k1) = norm (req_commit c sh g r2 nw2 nr2 k2).
Proof.
  intros; unfold req_commit. rewrite !norm_app. f_equal.
  destruct (g_anyerr g); [reflexivity|]. rewrite !norm_app. f_equal.
  - destruct (g_anyw g); [apply root_wait_getput | reflexivity].
  - destruct (g_anyr g); [apply root_wait_getput | reflexivity].
Qed.

Lemma root_close_files : forall c sh u, norm (close_files c sh u) = norm (close_files c sh u).
Proof. reflexivity. Qed.

(* ------------------------------------------------------------------ classes *)
Lemma wf_req_inv : forall q, wf_local (LReq q) = true ->
  d_err q <= 0 /\ fatal (d_err q) = false /\ d_drv_err q <= 0 /\ 0 <= d_nreq q.
Proof.
  intros q H. cbn in H. rewrite !andb_true_iff in H. destruct H as [[[H1 H2] H3] H4].
  apply negb_true_iff in H2. rewrite Z.leb_le in *. auto.
Qed.

Lemma wf_wait_inv : forall w, wf_local (LWait w) = true ->
  w_err w <= 0 /\ fatal (w_err w) = false /\ 0 <= w_nw w /\ 0 <= w_nr w.
Proof.
  intros q H. cbn in H. rewrite !andb_true_iff in H. destruct H as [[[H1 H2] H3] H4].
  apply negb_true_iff in H2. rewrite Z.leb_le in *. auto.
Qed.

Lemma fatal_disp : forall sh p q, wf_local (LReq q) = true ->
  fatal (disp_err sh p q) = fatal (state_err sh p).
Proof.
  intros sh p q H. unfold disp_err. apply wf_req_inv in H. destruct H as [_ [H _]].
  destruct (state_err sh p =? 0) eqn:E; [|reflexivity].
  apply Z.eqb_eq in E. rewrite E, H. reflexivity.
Qed.
(* normal forms: the observable sequence of the data-access drivers *)
Definition nf_rw (isget : bool) : list (ckind * target) :=
  [(K_File_set_view, TFhColl); (if isget then K_File_read_coll else K_File_write_coll, TFhColl)].

Definition nf_numrecs (c : cfg) (sh : shared) (g : gsum) : list (ckind * target) :=
  if grow sh g then norm (write_numrecs c sh true false) else [].

Definition nf_getput (c : cfg) (sh : shared) (g : gsum) (isget reaches : bool) : list (ckind * target) :=
  nf_rw isget ++ (if reaches then [(K_Allreduce, TComm)] ++ nf_numrecs c sh g else []).

Lemma norm_zero_req : forall isget, norm (zero_req isget) = nf_rw isget.
Proof. destruct isget; reflexivity. Qed.

Lemma norm_sv_rw : forall r k isget, norm (set_view r k ++ rw isget) = nf_rw isget.
Proof. destruct r, k, isget; reflexivity. Qed.

Lemma norm_getput_driver : forall c sh g r isget z q,
  norm (getput_driver c sh g r isget z q) = nf_getput c sh g isget (negb isget && negb z && is_rec (d_vk q)).
Proof.
  intros. unfold getput_driver, nf_getput, nf_numrecs.
  destruct z.
  - rewrite andb_false_r; cbn [andb]. rewrite app_nil_r.
    destruct (negb isget && c_aggr c) eqn:E.
    + destruct isget; [discriminate E|]. apply norm_sv_rw.
    + apply norm_zero_req.
  - rewrite andb_true_r. rewrite app_assoc, norm_app, norm_sv_rw. f_equal.
    destruct (negb isget && is_rec (d_vk q)); [|reflexivity].
    rewrite norm_app. f_equal. destruct (grow sh g); [apply root_write_numrecs | reflexivity].
Qed.

Lemma norm_vard_driver : forall c sh g r isget z q,
  norm (vard_driver c sh g r isget z q) = nf_getput c sh g isget (negb isget && negb z && is_rec (d_vk q)).
Proof.
  intros. unfold vard_driver, nf_getput, nf_numrecs.
  destruct z.
  - rewrite andb_false_r; cbn [andb]. rewrite app_nil_r. apply norm_zero_req.
  - rewrite andb_true_r. rewrite app_assoc, norm_app, norm_sv_rw. f_equal.
    destruct (negb isget && is_rec (d_vk q)); [|reflexivity].
    rewrite norm_app. f_equal. destruct (grow sh g); [apply root_write_numrecs | reflexivity].
Qed.

Definition nf_wait (c : cfg) (sh : shared) (g : gsum) (isget : bool) : list (ckind * target) :=
  nf_rw isget ++ (if negb isget then nf_numrecs c sh g else []).

Lemma norm_wait_getput : forall c sh g r isget n k,
  norm (wait_getput c sh g r isget n k) = nf_wait c sh g isget.
Proof.
  intros. unfold wait_getput, nf_wait, nf_numrecs. rewrite norm_app. f_equal.
  - destruct (negb isget && c_aggr c) eqn:E.
    + destruct isget; [discriminate E|]. apply norm_sv_rw.
    + destruct (n =? 0); [apply norm_zero_req | apply norm_sv_rw].
  - destruct isget; cbn [negb andb]; [reflexivity|].
    destruct (grow sh g); [apply root_write_numrecs | reflexivity].
Qed.

Definition nf_commit (c : cfg) (sh : shared) (g : gsum) : list (ckind * target) :=
  [(K_Allreduce, TComm)] ++
  (if g_anyerr g then []
   else (if g_anyw g then nf_wait c sh g false else []) ++ (if g_anyr g then nf_wait c sh g true else [])).

Lemma norm_req_commit : forall c sh g r nw nr k, norm (req_commit c sh g r nw nr k) = nf_commit c sh g.
Proof.
  intros. unfold req_commit, nf_commit. rewrite norm_app. f_equal.
  destruct (g_anyerr g); [reflexivity|]. rewrite norm_app.
  destruct (g_anyw g), (g_anyr g); rewrite ?norm_wait_getput; reflexivity.
Qed.

(* ---- per API: ranks of the same class execute the same observable sequence ---- *)
Ltac bool_case H :=
  repeat match type of H with
         | context [if ?b then _ else _] => destruct b eqn:?
         end; try discriminate H.

Lemma class_getput : forall c sh g r1 r2 isget k q1 q2,
  wf_local (LReq q1) = true -> wf_local (LReq q2) = true ->
  sync_class c sh (A_getput isget k) (LReq q1) = sync_class c sh (A_getput isget k) (LReq q2) ->
  norm (ctrace c sh (A_getput isget k) g r1 (LReq q1)) = norm (ctrace c sh (A_getput isget k) g r2 (LReq q2)).
Proof.
  intros c sh g r1 r2 isget k q1 q2 W1 W2 H. unfold ctrace, exec.
  destruct (multi c); [|reflexivity]. cbn [negb].
  rewrite (fatal_disp sh _ q1 W1), (fatal_disp sh _ q2 W2).
  cbn [sync_class] in H.
  destruct isget; cbn [negb andb] in *.
  - (* get *)
    destruct (c_safe c).
    + destruct (g_min1 g =? 0); cbn [fst stop]; [|reflexivity].
      rewrite !norm_app, !norm_getput_driver. reflexivity.
    + destruct (fatal (state_err sh false)); [reflexivity|].
      destruct (disp_err sh false q1 =? 0), (disp_err sh false q2 =? 0); cbn [fst];
        rewrite !norm_getput_driver; reflexivity.
  - (* put *)
    destruct (c_safe c); cbn [orb] in H.
    + rewrite !andb_true_r in H.
      destruct (g_min1 g =? 0); cbn [fst stop]; [|reflexivity].
      rewrite !norm_app, !norm_getput_driver. cbn [negb andb].
      destruct (is_rec (d_vk q1)), (is_rec (d_vk q2)); try discriminate H; reflexivity.
    + destruct (fatal (state_err sh true)); [reflexivity|].
      destruct (disp_err sh true q1 =? 0), (disp_err sh true q2 =? 0); cbn [fst];
        rewrite !norm_getput_driver; cbn [negb andb];
        destruct (is_rec (d_vk q1)), (is_rec (d_vk q2)); cbn in H; try discriminate H; reflexivity.
Qed.

Lemma class_vard : forall c sh g r1 r2 isget q1 q2,
  wf_local (LReq q1) = true -> wf_local (LReq q2) = true ->
  sync_class c sh (A_vard isget) (LReq q1) = sync_class c sh (A_vard isget) (LReq q2) ->
  norm (ctrace c sh (A_vard isget) g r1 (LReq q1)) = norm (ctrace c sh (A_vard isget) g r2 (LReq q2)).
Proof.
  intros c sh g r1 r2 isget q1 q2 W1 W2 H. unfold ctrace, exec.
  destruct (multi c); [|reflexivity]. cbn [negb].
  rewrite (fatal_disp sh _ q1 W1), (fatal_disp sh _ q2 W2).
  cbn [sync_class] in H.
  destruct isget; cbn [negb andb] in *.
  - destruct (c_safe c).
    + destruct (g_min1 g =? 0); cbn [fst stop]; [|reflexivity].
      rewrite !norm_app, !norm_vard_driver. reflexivity.
    + destruct (fatal (state_err sh false)); [reflexivity|].
      destruct (disp_err sh false q1 =? 0), (disp_err sh false q2 =? 0); cbn [fst];
        rewrite !norm_vard_driver; reflexivity.
  - destruct (c_safe c); cbn [orb] in H.
    + rewrite !andb_true_r in H.
      destruct (g_min1 g =? 0); cbn [fst stop]; [|reflexivity].
      rewrite !norm_app, !norm_vard_driver. cbn [negb andb].
      destruct (is_rec (d_vk q1)), (is_rec (d_vk q2)); try discriminate H; reflexivity.
    + destruct (fatal (state_err sh true)); [reflexivity|].
      destruct (disp_err sh true q1 =? 0), (disp_err sh true q2 =? 0); cbn [fst];
        rewrite !norm_vard_driver; cbn [negb andb];
        destruct (is_rec (d_vk q1)), (is_rec (d_vk q2)); cbn in H; try discriminate H; reflexivity.
Qed.

Lemma varn_scalar_vk : forall q, varn_scalar q = true -> is_rec (d_vk q) = false.
Proof.
  intros q H. unfold varn_scalar in H. rewrite !andb_true_iff in H. destruct H as [_ H].
  destruct (d_vk q); [discriminate H | discriminate H | reflexivity].
Qed.

Lemma class_varn : forall c sh g r1 r2 isget q1 q2,
  wf_local (LReq q1) = true -> wf_local (LReq q2) = true ->
  sync_class c sh (A_varn isget) (LReq q1) = sync_class c sh (A_varn isget) (LReq q2) ->
  norm (ctrace c sh (A_varn isget) g r1 (LReq q1)) = norm (ctrace c sh (A_varn isget) g r2 (LReq q2)).
Proof.
  intros c sh g r1 r2 isget q1 q2 W1 W2 H. unfold ctrace, exec.
  destruct (multi c); [|reflexivity]. cbn [negb].
  rewrite (fatal_disp sh _ q1 W1), (fatal_disp sh _ q2 W2).
  cbn [sync_class] in H.
  destruct (varn_scalar q1) eqn:S1, (varn_scalar q2) eqn:S2; try discriminate H.
  - (* both take the put_var / get_var path *)
    pose proof (varn_scalar_vk _ S1) as V1. pose proof (varn_scalar_vk _ S2) as V2.
    destruct (c_safe c).
    + destruct (g_min1 g =? 0); cbn [fst stop]; [|reflexivity].
      rewrite !norm_app, !norm_getput_driver, V1, V2, !andb_false_r. reflexivity.
    + destruct (fatal (state_err sh (negb isget))); [reflexivity|]. cbn [fst].
      rewrite !norm_getput_driver, V1, V2, !andb_false_r. reflexivity.
  - (* both take the varn path: iput/iget + wait *)
    destruct (c_safe c).
    + destruct (g_min1 g =? 0); cbn [fst stop]; [|reflexivity].
      rewrite !norm_app, !norm_req_commit. reflexivity.
    + destruct (fatal (state_err sh (negb isget))); [reflexivity|]. cbn [fst].
      rewrite !norm_req_commit. reflexivity.
Qed.

Lemma fatal_wait : forall sh p w, wf_local (LWait w) = true ->
  fatal (if state_err sh p =? 0 then w_err w else state_err sh p) = fatal (state_err sh p).
Proof.
  intros sh p w H. apply wf_wait_inv in H. destruct H as [_ [H _]].
  destruct (state_err sh p =? 0) eqn:E; [|reflexivity].
  apply Z.eqb_eq in E. rewrite E, H. reflexivity.
Qed.

Lemma class_mgetput : forall c sh g r1 r2 isget w1 w2,
  wf_local (LWait w1) = true -> wf_local (LWait w2) = true ->
  norm (ctrace c sh (A_mgetput isget) g r1 (LWait w1)) = norm (ctrace c sh (A_mgetput isget) g r2 (LWait w2)).
Proof.
  intros c sh g r1 r2 isget w1 w2 W1 W2. unfold ctrace, exec.
  destruct (multi c); [|reflexivity]. cbn [negb].
  rewrite (fatal_wait sh _ w1 W1), (fatal_wait sh _ w2 W2).
  destruct (c_safe c).
  - destruct (g_min1 g =? 0); cbn [fst stop]; [|reflexivity].
    rewrite !norm_app, !norm_req_commit. reflexivity.
  - destruct (fatal (state_err sh (negb isget))); [reflexivity|].
    destruct ((if state_err sh (negb isget) =? 0 then w_err w1 else state_err sh (negb isget)) =? 0),
             ((if state_err sh (negb isget) =? 0 then w_err w2 else state_err sh (negb isget)) =? 0);
      cbn [fst]; rewrite !norm_req_commit; reflexivity.
Qed.

Lemma class_wait_all : forall c sh g r1 r2 w1 w2,
  norm (ctrace c sh A_wait_all g r1 (LWait w1)) = norm (ctrace c sh A_wait_all g r2 (LWait w2)).
Proof.
  intros. unfold ctrace, exec. destruct (multi c); [|reflexivity]. cbn [negb].
  destruct (s_mode sh); cbn [fst stop]; try reflexivity. rewrite !norm_req_commit. reflexivity.
Qed.

Lemma class_fill : forall c sh g r1 r2 f1 f2,
  sync_class c sh A_fill_var_rec (LFill f1) = sync_class c sh A_fill_var_rec (LFill f2) ->
  norm (ctrace c sh A_fill_var_rec g r1 (LFill f1)) = norm (ctrace c sh A_fill_var_rec g r2 (LFill f2)).
Proof.
  intros c sh g r1 r2 f1 f2 H. unfold ctrace, exec. destruct (multi c); [|reflexivity]. cbn [negb].
  cbn [sync_class] in H.
  destruct (c_safe c).
  - destruct (g_min1 g =? 0); cbn [fst stop]; [|reflexivity].
    destruct (g_min3 g =? 0); cbn [fst]; [|reflexivity].
    rewrite !norm_app. f_equal. f_equal. destruct (grow sh g); [apply root_write_numrecs|reflexivity].
  - destruct (fill_derr sh f1 =? 0) eqn:A1, (fill_derr sh f2 =? 0) eqn:A2; cbn [negb orb] in H; cbn [negb fst stop];
      destruct (fill_drv_err f1 =? 0) eqn:B1, (fill_drv_err f2 =? 0) eqn:B2; cbn in H; try discriminate H; cbn [fst stop]; try reflexivity.
    rewrite !norm_app. f_equal. destruct (grow sh g); [apply root_write_numrecs|reflexivity].
Qed.

Lemma repl_nil : forall (A : Type) n, @repl A n [] = [].
Proof. induction n; cbn; auto. Qed.

Definition meta_hdr (c : cfg) (sh : shared) (md : metadesc) (r : bool) : trace :=
  match s_mode sh with MDefine => [] | _ => if md_header md then write_header c sh r else [] end.

Lemma root_meta_hdr : forall c sh md r1 r2, norm (meta_hdr c sh md r1) = norm (meta_hdr c sh md r2).
Proof. intros; unfold meta_hdr. destruct (s_mode sh), (md_header md); try reflexivity; apply root_write_header. Qed.

Lemma meta_hdr_nonglobal : forall c sh md r,
  c_safe c = false -> meta_hdr_global c sh md = false -> norm (meta_hdr c sh md r) = [].
Proof.
  intros c sh md r S H. unfold meta_hdr, meta_hdr_global in *. unfold write_header. rewrite S.
  destruct (s_mode sh), (md_header md), (c_hcoll c); cbn in H; try discriminate H; try reflexivity;
    rewrite app_nil_r, norm_rep; cbn; destruct r; cbn; apply repl_nil.
Qed.


Lemma hdr_nonglobal : forall c sh r,
  c_safe c = false -> ((match s_mode sh with MColl => true | _ => false end) && c_hcoll c) = false ->
  norm (match s_mode sh with MDefine => [] | _ => write_header c sh r end) = [].
Proof.
  intros c sh r S H. unfold write_header. rewrite S.
  destruct (s_mode sh); [reflexivity | |]; rewrite app_nil_r;
    destruct (c_hcoll c); try reflexivity; cbn in H; try discriminate H.
  rewrite norm_rep. destruct r; cbn; apply repl_nil.
Qed.

Lemma root_hdr : forall c sh r1 r2,
  norm (match s_mode sh with MDefine => [] | _ => write_header c sh r1 end) =
  norm (match s_mode sh with MDefine => [] | _ => write_header c sh r2 end).
Proof. intros. destruct (s_mode sh); [reflexivity | |]; apply root_write_header. Qed.

Lemma class_meta : forall c sh g r1 r2 m q1 q2,
  sync_class c sh (A_meta m) (LMeta q1) = sync_class c sh (A_meta m) (LMeta q2) ->
  norm (ctrace c sh (A_meta m) g r1 (LMeta q1)) = norm (ctrace c sh (A_meta m) g r2 (LMeta q2)).
Proof.
  intros c sh g r1 r2 m q1 q2 H. unfold ctrace, exec. destruct (multi c); [|reflexivity]. cbn [negb].
  cbn [sync_class] in H. unfold meta_exec, meta_hdr_global in *.
  destruct (c_safe c) eqn:S; cbn [negb andb orb] in H.
  - rewrite ?orb_false_r, ?andb_true_r in H.
    destruct (m_e0 q1 =? 0), (m_e0 q2 =? 0); cbn [negb] in *; try discriminate H; [|reflexivity].
    destruct m; cbn [metadesc_of md_ar1 md_bcs md_ar2 md_dbcs md_dar md_keep_own md_post md_header osite csites map andb];
      rewrite ?andb_true_r, ?andb_false_r;
      brk; cbn [fst]; rewrite ?norm_app; rewrite ?(root_write_header c sh r1 r2); try reflexivity.
  - destruct (md_header (metadesc_of m)) eqn:Hd; cbn [andb] in H.
    + destruct (m_e0 q1 =? 0), (m_e0 q2 =? 0), (first_err (m_e1 q1) (m_e3 q1) =? 0), (first_err (m_e1 q2) (m_e3 q2) =? 0);
        cbn [negb orb andb fst] in *; try reflexivity; try apply root_hdr;
        (destruct ((match s_mode sh with MColl => true | _ => false end) && c_hcoll c) eqn:G; [discriminate H|]);
        rewrite (hdr_nonglobal c sh _ S G); reflexivity.
    + assert (E : (match s_mode sh with MDefine => [] | _ => @nil cop end) = []) by (destruct (s_mode sh); reflexivity).
      destruct (m_e0 q1 =? 0), (m_e0 q2 =? 0), (first_err (m_e1 q1) (m_e3 q1) =? 0), (first_err (m_e1 q2) (m_e3 q2) =? 0);
        cbn [negb fst]; rewrite ?E; reflexivity.
Qed.

Lemma class__enddef : forall c sh g r1 r2 q1 q2,
  sync_class c sh A__enddef (LMeta q1) = sync_class c sh A__enddef (LMeta q2) ->
  norm (ctrace c sh A__enddef g r1 (LMeta q1)) = norm (ctrace c sh A__enddef g r2 (LMeta q2)).
Proof.
  intros c sh g r1 r2 q1 q2 H. unfold ctrace, exec. destruct (multi c); [|reflexivity]. cbn [negb].
  cbn [sync_class] in H.
  destruct (s_mode sh); cbn [andb] in H; rewrite ?andb_false_r in H.
  - destruct (c_safe c); cbn [negb andb] in H.
    + destruct (g_min1 g =? 0); cbn [fst stop]; [|reflexivity].
      destruct (g_min2 g =? 0); cbn [fst stop]; [|reflexivity].
      rewrite !norm_app. rewrite (root_enddef_driver c sh r1 r2). reflexivity.
    + destruct (m_e1 q1 =? 0), (m_e1 q2 =? 0); cbn in H; try discriminate H; cbn [fst stop]; try reflexivity.
      apply root_enddef_driver.
  - destruct (c_safe c); reflexivity.
  - destruct (c_safe c); reflexivity.
Qed.

Lemma class_create : forall c sh g r1 r2 q1 q2,
  sync_class c sh A_create (LMeta q1) = sync_class c sh A_create (LMeta q2) ->
  norm (ctrace c sh A_create g r1 (LMeta q1)) = norm (ctrace c sh A_create g r2 (LMeta q2)).
Proof.
  intros c sh g r1 r2 q1 q2 H. unfold ctrace, exec. destruct (multi c); [|reflexivity]. cbn [negb].
  cbn [sync_class] in H.
  destruct (m_e0 q1 =? 0), (m_e0 q2 =? 0); try discriminate H; cbn [negb fst stop]; [|reflexivity].
  destruct (s_noclobber sh); [destruct (s_exists_err sh)|]; cbn [fst stop]; try reflexivity;
    rewrite !norm_app; rewrite (root_aggr_init c r1 r2); reflexivity.
Qed.

Lemma class_open : forall c sh g r1 r2 q1 q2,
  sync_class c sh A_open (LMeta q1) = sync_class c sh A_open (LMeta q2) ->
  norm (ctrace c sh A_open g r1 (LMeta q1)) = norm (ctrace c sh A_open g r2 (LMeta q2)).
Proof.
  intros c sh g r1 r2 q1 q2 H. unfold ctrace, exec. destruct (multi c); [|reflexivity]. cbn [negb].
  cbn [sync_class] in H.
  destruct (m_e0 q1 =? 0), (m_e0 q2 =? 0); try discriminate H; cbn [negb fst stop]; [|reflexivity].
  destruct (s_exists_err sh); cbn [fst stop]; [reflexivity|].
  rewrite !norm_app, !norm_rep. rewrite (root_aggr_init c r1 r2), (root_hdr_fetch c r1 r2). reflexivity.
Qed.

(* calls without per-rank arguments *)
Lemma class_noarg : forall c sh g r1 r2 a,
  admissible a LNone = true ->
  norm (ctrace c sh a g r1 LNone) = norm (ctrace c sh a g r2 LNone).
Proof.
  intros c sh g r1 r2 a A. unfold ctrace, exec. destruct (multi c); [|reflexivity]. cbn [negb].
  destruct a; cbn in A; try discriminate A.
  - (* enddef *) destruct (s_mode sh); cbn [fst stop]; try reflexivity.
    rewrite !norm_app. rewrite (root_enddef_driver c sh r1 r2). reflexivity.
  - (* redef *) destruct (s_rdonly sh); [reflexivity|]. destruct (s_mode sh) eqn:M; cbn [fst stop]; try reflexivity; apply root_end_indep.
  - (* begin_indep *) destruct (s_mode sh); reflexivity.
  - (* end_indep *) destruct (s_mode sh); cbn [fst stop]; try reflexivity; apply root_end_indep.
  - (* sync *) destruct (s_mode sh) eqn:M; [reflexivity | |]; destruct (s_rdonly sh); cbn [fst]; try reflexivity.
    rewrite !norm_app. destruct (0 <? s_nrecvars sh); [|reflexivity].
    rewrite (root_sync_numrecs_indep c sh r1 r2). reflexivity.
  - (* sync_numrecs *) destruct (s_mode sh); cbn [fst stop]; try reflexivity;
      destruct ((0 <? s_nrecvars sh) && s_rdonly sh); cbn [fst stop]; try reflexivity. apply root_sync_numrecs_indep.
  - (* close *) cbn [fst]. rewrite !norm_app. f_equal.
    + destruct (s_mode sh); try reflexivity. apply root_enddef_driver.
    + f_equal. destruct (negb (s_rdonly sh)); [apply root_end_indep | reflexivity].
  - (* abort *) cbn [fst]. rewrite !norm_app. f_equal.
    destruct (s_isnew sh); [reflexivity|]. destruct (negb (s_rdonly sh)); [apply root_end_indep | reflexivity].
Qed.

Lemma class_close_pend : forall c sh g r1 r2 w1 w2,
  norm (ctrace c sh A_close g r1 (LWait w1)) = norm (ctrace c sh A_close g r2 (LWait w2)).
Proof.
  intros. unfold ctrace, exec. destruct (multi c); [|reflexivity]. cbn [negb fst].
  rewrite !norm_app. f_equal.
  - destruct (s_mode sh); try reflexivity. apply root_enddef_driver.
  - f_equal. destruct (negb (s_rdonly sh)); [apply root_end_indep | reflexivity].
Qed.

Lemma class_close_mixed : forall c sh g r1 r2 l1 l2,
  admissible A_close l1 = true -> admissible A_close l2 = true ->
  norm (ctrace c sh A_close g r1 l1) = norm (ctrace c sh A_close g r2 l2).
Proof.
  intros c sh g r1 r2 l1 l2 A1 A2.
  destruct l1; cbn in A1; try discriminate A1; destruct l2; cbn in A2; try discriminate A2;
    unfold ctrace, exec; (destruct (multi c); [|reflexivity]); cbn [negb fst];
    rewrite !norm_app; (f_equal; [destruct (s_mode sh); try reflexivity; apply root_enddef_driver |
                                  f_equal; destruct (negb (s_rdonly sh)); [apply root_end_indep | reflexivity]]).
Qed.

(* THE CORE LEMMA: the observable sequence of a call on one rank is a function of the
   configuration, the shared state, the results of the reductions and the rank's sync_class only *)
Lemma norm_class : forall c sh a g r1 r2 l1 l2,
  admissible a l1 = true -> admissible a l2 = true ->
  wf_local l1 = true -> wf_local l2 = true ->
  sync_class c sh a l1 = sync_class c sh a l2 ->
  norm (ctrace c sh a g r1 l1) = norm (ctrace c sh a g r2 l2).
Proof.
  intros c sh a g r1 r2 l1 l2 A1 A2 W1 W2 H.
  destruct a; try (apply class_close_mixed; assumption);
    destruct l1; cbn in A1; try discriminate A1; destruct l2; cbn in A2; try discriminate A2.
  - apply class_create; assumption.
  - apply class_open; assumption.
  - apply class_noarg; reflexivity.
  - apply class__enddef; assumption.
  - apply class_noarg; reflexivity.
  - apply class_noarg; reflexivity.
  - apply class_noarg; reflexivity.
  - apply class_noarg; reflexivity.
  - apply class_noarg; reflexivity.
  - apply class_noarg; reflexivity.
  - apply class_getput; assumption.
  - apply class_varn; assumption.
  - apply class_vard; assumption.
  - apply class_mgetput; assumption.
  - apply class_wait_all.
  - apply class_fill; assumption.
  - apply class_meta; assumption.
Qed.

(* ================================================================== all ranks of one call *)
Definition ranks_ok (a : api) (ls : list local) : Prop :=
  Forall (fun l => admissible a l = true /\ wf_local l = true) ls.

(* the sequences of collectives of all ranks of one call: rank i passes (nth i ls) *)
Definition traces (c : cfg) (sh : shared) (a : api) (ls : list local) : list trace := map fst (run c sh a ls).

(* every two ranks execute the same observable sequence of collectives *)
Definition all_match (ts : list trace) : Prop := forall t1 t2, In t1 ts -> In t2 ts -> norm t1 = norm t2.

Lemma in_run_from : forall c sh a g ls i p,
  In p (run_from c sh a g i ls) -> exists l root, In l ls /\ p = exec c sh a g root l.
Proof.
  induction ls as [|l ls IH]; intros i p H; cbn in H; [contradiction|].
  destruct H as [H | H].
  - exists l, (Nat.eqb i 0). split; [left; reflexivity | symmetry; exact H].
  - destruct (IH _ _ H) as [l' [r [Hin Hp]]]. exists l', r. split; [right; exact Hin | exact Hp].
Qed.

Lemma in_traces : forall c sh a ls t,
  In t (traces c sh a ls) -> exists l root, In l ls /\ t = ctrace c sh a (gsum_ranks sh a ls) root l.
Proof.
  intros c sh a ls t H. unfold traces in H. apply in_map_iff in H. destruct H as [p [Hp Hin]].
  apply in_run_from in Hin. destruct Hin as [l [r [Hl He]]]. exists l, r. split; [exact Hl|].
  subst. reflexivity.
Qed.

Lemma nth_run_from : forall c sh a g ls i k l,
  nth_error ls k = Some l -> nth_error (run_from c sh a g i ls) k = Some (exec c sh a g (Nat.eqb (i + k) 0) l).
Proof.
  induction ls as [|x ls IH]; intros i k l H; destruct k; cbn in *; try discriminate H.
  - inversion H; subst. rewrite Nat.add_0_r. reflexivity.
  - rewrite (IH (S i) k l H). rewrite Nat.add_succ_r. reflexivity.
Qed.

(* ---- the boolean verdict computed by the check is the proposition ---- *)
Lemma nop_eqb_eq : forall x y, nop_eqb x y = true <-> x = y.
Proof.
  intros [k1 t1] [k2 t2]. unfold nop_eqb; cbn. split.
  - intro H. apply andb_true_iff in H. destruct H as [H1 H2].
    apply internal_ckind_dec_bl in H1. apply internal_target_dec_bl in H2. subst. reflexivity.
  - intro H. inversion H; subst. rewrite internal_ckind_dec_lb, internal_target_dec_lb; reflexivity.
Qed.

Lemma list_eqb_eq : forall (A : Type) (eqb : A -> A -> bool), (forall x y, eqb x y = true <-> x = y) ->
  forall a b, list_eqb eqb a b = true <-> a = b.
Proof.
  intros A eqb E. induction a as [|x a IH]; destruct b as [|y b]; cbn; split; intro H; try reflexivity; try discriminate H.
  - apply andb_true_iff in H. destruct H as [H1 H2]. apply E in H1. apply IH in H2. subst. reflexivity.
  - inversion H; subst. apply andb_true_iff. split; [apply E; reflexivity | apply IH; reflexivity].
Qed.

Lemma all_equal_spec : forall (A : Type) (eqb : A -> A -> bool), (forall x y, eqb x y = true <-> x = y) ->
  forall l, all_equal eqb l = true <-> (forall x y, In x l -> In y l -> x = y).
Proof.
  intros A eqb E. induction l as [|x l IH]; [cbn; split; [intros _ ? ? []| reflexivity]|].
  destruct l as [|y l].
  - cbn. split; [|reflexivity]. intros _ a b [Ha|[]] [Hb|[]]. subst. reflexivity.
  - change (all_equal eqb (x :: y :: l)) with (eqb x y && all_equal eqb (y :: l)).
    rewrite andb_true_iff, IH, E. split.
    + intros [Hxy Hl] a b Ha Hb.
      assert (K : forall z, In z (x :: y :: l) -> z = y).
      { intros z [Hz|Hz]; [rewrite <- Hz; exact Hxy | apply Hl; [exact Hz | left; reflexivity]]. }
      rewrite (K a Ha), (K b Hb). reflexivity.
    + intro H. split; [apply H; [left; reflexivity | right; left; reflexivity]|].
      intros a b Ha Hb. apply H; right; assumption.
Qed.

Lemma traces_match_spec : forall ts, traces_match ts = true <-> all_match ts.
Proof.
  intro ts. unfold traces_match, all_match.
  rewrite (all_equal_spec _ _ (list_eqb_eq _ _ nop_eqb_eq)). split.
  - intros H t1 t2 H1 H2. apply H; apply in_map; assumption.
  - intros H x y Hx Hy. apply in_map_iff in Hx. apply in_map_iff in Hy.
    destruct Hx as [t1 [E1 I1]]. destruct Hy as [t2 [E2 I2]]. subst. apply H; assumption.
Qed.

(* ================================================================== collective_match *)
(* FULL statement of the property: whatever each process passes, all ranks execute the same
   sequence of collectives *)
Definition collective_match_full : Prop :=
  forall c sh a ls, ranks_ok a ls -> all_match (traces c sh a ls).

(* PARTIAL: it holds for every assignment whose ranks agree on sync_class *)
Theorem collective_match_partial : forall c sh a ls,
  ranks_ok a ls ->
  (forall l1 l2, In l1 ls -> In l2 ls -> sync_class c sh a l1 = sync_class c sh a l2) ->
  all_match (traces c sh a ls).
Proof.
  intros c sh a ls OK H t1 t2 H1 H2.
  apply in_traces in H1. apply in_traces in H2.
  destruct H1 as [l1 [r1 [I1 E1]]]. destruct H2 as [l2 [r2 [I2 E2]]]. subst.
  unfold ranks_ok in OK. rewrite Forall_forall in OK.
  destruct (OK _ I1) as [A1 W1]. destruct (OK _ I2) as [A2 W2].
  apply norm_class; auto.
Qed.

(* the hypothesis is satisfiable on a non-trivial instance: three ranks, one valid, one zero-length,
   one with an invalid start, collective put on a FIXED-size variable *)
Definition cfg0 (np : Z) : cfg := mkCfg false false false false np 0.
Definition sh_data : shared := mkSh MColl false false 6 2 2 false 1 [] false false false [] [] 0 0 0 0 0 0.
Definition req_ok (vk : vkind) (newrec : Z) : local := LReq (mkReq 0 false vk true 0 true newrec false 1).
Definition req_zero (vk : vkind) : local := LReq (mkReq 0 false vk false 0 true 2 false 1).
Definition req_bad (e : Z) (vk : vkind) : local := LReq (mkReq e false vk true 0 true 2 false 1).

Example collective_match_partial_nonvacuous :
  let ls := [req_ok VFixed 2; req_zero VFixed; req_bad NC_EINVALCOORDS VFixed] in
  ranks_ok (A_getput false AK_vara) ls /\
  (forall l1 l2, In l1 ls -> In l2 ls ->
     sync_class (cfg0 3) sh_data (A_getput false AK_vara) l1 = sync_class (cfg0 3) sh_data (A_getput false AK_vara) l2) /\
  traces (cfg0 3) sh_data (A_getput false AK_vara) ls <> [[]; []; []].
Proof.
  cbn zeta. split; [|split].
  - repeat constructor.
  - intros l1 l2 H1 H2. cbn in H1, H2.
    destruct H1 as [H1|[H1|[H1|[]]]]; destruct H2 as [H2|[H2|[H2|[]]]]; subst; reflexivity.
  - vm_compute. discriminate.
Qed.

(* REFUTED (F4): a collective put on a RECORD variable, rank 0 valid, rank 1 with an invalid start:
   rank 0 executes the numrecs Allreduce of put_varm, rank 1 (ncmpio_getput_zero_req) does not *)
Definition F4_witness : list local := [req_ok VRecord 3; req_bad NC_EINVALCOORDS VRecord].

Theorem collective_match_refuted : ~ collective_match_full.
Proof.
  intro H.
  assert (OK : ranks_ok (A_getput false AK_vara) F4_witness) by (repeat constructor).
  specialize (H (cfg0 2) sh_data (A_getput false AK_vara) F4_witness OK).
  apply traces_match_spec in H. vm_compute in H. discriminate H.
Qed.

(* ---- corollaries of collective_match_partial: where the property holds for EVERY assignment ---- *)
Lemma match_by_class0 : forall c sh a ls,
  ranks_ok a ls -> (forall l, In l ls -> sync_class c sh a l = 0%nat) -> all_match (traces c sh a ls).
Proof.
  intros c sh a ls OK H. apply collective_match_partial; [exact OK|].
  intros l1 l2 H1 H2. rewrite (H _ H1), (H _ H2). reflexivity.
Qed.

(* collective get of every form (var, var1, vara, vars, varm, vard): any mixture of valid,
   zero-length and invalid requests, on variables of any kind *)
Theorem match_get : forall c sh k ls,
  ranks_ok (A_getput true k) ls -> all_match (traces c sh (A_getput true k) ls).
Proof.
  intros. apply match_by_class0; [assumption|]. intros l _. destruct l; reflexivity.
Qed.
Theorem match_get_vard : forall c sh ls,
  ranks_ok (A_vard true) ls -> all_match (traces c sh (A_vard true) ls).
Proof.
  intros. apply match_by_class0; [assumption|]. intros l _. destruct l; reflexivity.
Qed.

(* wait_all, mput/mget: any numbers of pending requests, invalid request ids, invalid arguments *)
Theorem match_wait_all : forall c sh ls,
  ranks_ok A_wait_all ls -> all_match (traces c sh A_wait_all ls).
Proof. intros. apply match_by_class0; [assumption|]. intros l _. destruct l; reflexivity. Qed.
Theorem match_mgetput : forall c sh isget ls,
  ranks_ok (A_mgetput isget) ls -> all_match (traces c sh (A_mgetput isget) ls).
Proof. intros. apply match_by_class0; [assumption|]. intros l _. destruct l; reflexivity. Qed.

(* collective put on variables that are not record variables (fixed-size or scalar): any mixture *)
Definition no_record (ls : list local) : Prop :=
  Forall (fun l => match l with LReq r => is_rec (d_vk r) = false | _ => True end) ls.
Theorem match_put_fixed : forall c sh k ls,
  ranks_ok (A_getput false k) ls -> no_record ls -> all_match (traces c sh (A_getput false k) ls).
Proof.
  intros c sh k ls OK NR. apply match_by_class0; [assumption|]. intros l Hl.
  unfold no_record in NR. rewrite Forall_forall in NR. specialize (NR _ Hl).
  destruct l; try reflexivity. cbn [sync_class negb andb]. rewrite NR. reflexivity.
Qed.
Theorem match_put_vard_fixed : forall c sh ls,
  ranks_ok (A_vard false) ls -> no_record ls -> all_match (traces c sh (A_vard false) ls).
Proof.
  intros c sh ls OK NR. apply match_by_class0; [assumption|]. intros l Hl.
  unfold no_record in NR. rewrite Forall_forall in NR. specialize (NR _ Hl).
  destruct l; try reflexivity. cbn [sync_class negb andb]. rewrite NR. reflexivity.
Qed.

(* collective put on record variables when no rank has a dispatcher-level error: valid and
   zero-length requests in any mixture, different records, different counts *)
Definition all_record_noerr (ls : list local) : Prop :=
  Forall (fun l => match l with LReq r => is_rec (d_vk r) = true /\ d_err r = 0 | _ => True end) ls.
Theorem match_put_record_valid : forall sh k ls np,
  ranks_ok (A_getput false k) ls -> all_record_noerr ls -> state_err sh true = 0 ->
  all_match (traces (cfg0 np) sh (A_getput false k) ls).
Proof.
  intros sh k ls np OK AR SE. apply collective_match_partial; [assumption|].
  intros l1 l2 H1 H2. unfold all_record_noerr in AR. rewrite Forall_forall in AR.
  unfold ranks_ok in OK. rewrite Forall_forall in OK.
  pose proof (AR _ H1) as A1. pose proof (AR _ H2) as A2.
  destruct (OK _ H1) as [D1 _]. destruct (OK _ H2) as [D2 _].
  destruct l1; cbn in D1; try discriminate D1. destruct l2; cbn in D2; try discriminate D2.
  destruct A1 as [R1 E1]. destruct A2 as [R2 E2].
  cbn. unfold disp_err. rewrite SE, R1, R2, E1, E2. reflexivity.
Qed.

(* varn when no rank takes the scalar-variable path *)
Definition no_scalar_path (ls : list local) : Prop :=
  Forall (fun l => match l with LReq r => varn_scalar r = false | _ => True end) ls.
Theorem match_varn_nonscalar : forall c sh isget ls,
  ranks_ok (A_varn isget) ls -> no_scalar_path ls -> all_match (traces c sh (A_varn isget) ls).
Proof.
  intros c sh isget ls OK NS. apply match_by_class0; [assumption|]. intros l Hl.
  unfold no_scalar_path in NS. rewrite Forall_forall in NS. specialize (NS _ Hl).
  destruct l; try reflexivity. cbn. rewrite NS. reflexivity.
Qed.

(* calls without per-rank arguments: enddef, redef, begin/end_indep_data, sync, sync_numrecs, close
   (also with different numbers of pending requests), abort -- from every mode, every history *)
Theorem match_noarg : forall c sh a ls,
  match a with A_enddef | A_redef | A_begin_indep | A_end_indep | A_sync | A_sync_numrecs | A_close | A_abort => True | _ => False end ->
  ranks_ok a ls -> all_match (traces c sh a ls).
Proof.
  intros c sh a ls Ha OK. apply match_by_class0; [assumption|]. intros l _.
  destruct a; try contradiction Ha; destruct l; reflexivity.
Qed.

(* fill_var_rec and the collective metadata calls in safe mode (no rank returning before the first
   collective), and the metadata calls without safe mode unless the header is written collectively *)
Theorem match_fill_safe : forall c sh ls,
  c_safe c = true -> ranks_ok A_fill_var_rec ls -> all_match (traces c sh A_fill_var_rec ls).
Proof.
  intros c sh ls S OK. apply match_by_class0; [assumption|]. intros l _. destruct l; try reflexivity. cbn. rewrite S. reflexivity.
Qed.

Definition no_e0 (ls : list local) : Prop :=
  Forall (fun l => match l with LMeta m => m_e0 m = 0 | _ => True end) ls.

Theorem match_meta_safe : forall c sh m ls,
  c_safe c = true -> ranks_ok (A_meta m) ls -> no_e0 ls -> all_match (traces c sh (A_meta m) ls).
Proof.
  intros c sh m ls S OK NE. apply match_by_class0; [assumption|]. intros l Hl.
  unfold no_e0 in NE. rewrite Forall_forall in NE. specialize (NE _ Hl).
  destruct l; try reflexivity. cbn. rewrite S, NE. reflexivity.
Qed.

Theorem match_meta_indep_header : forall c sh m ls,
  c_safe c = false -> c_hcoll c = false -> ranks_ok (A_meta m) ls -> all_match (traces c sh (A_meta m) ls).
Proof.
  intros c sh m ls S Hc OK. apply match_by_class0; [assumption|]. intros l _.
  destruct l; try reflexivity. cbn. unfold meta_hdr_global. rewrite S, Hc. rewrite !andb_false_r. reflexivity.
Qed.

Theorem match__enddef_safe : forall c sh ls,
  c_safe c = true -> ranks_ok A__enddef ls -> all_match (traces c sh A__enddef ls).
Proof.
  intros c sh ls S OK. apply match_by_class0; [assumption|]. intros l _. destruct l; try reflexivity. cbn. rewrite S. reflexivity.
Qed.

Theorem match_create_open : forall c sh a ls,
  (a = A_create \/ a = A_open) -> ranks_ok a ls -> no_e0 ls -> all_match (traces c sh a ls).
Proof.
  intros c sh a ls Ha OK NE. apply match_by_class0; [assumption|]. intros l Hl.
  unfold no_e0 in NE. rewrite Forall_forall in NE. specialize (NE _ Hl).
  destruct Ha; subst; destruct l; try reflexivity; cbn; rewrite NE; reflexivity.
Qed.

(* ---- further refutation witnesses (each is replayed on the library by checks/C08.py) ---- *)
Definition refutes (c : cfg) (sh : shared) (a : api) (ls : list local) : Prop :=
  ranks_ok a ls /\ run_matches c sh a ls = false.

Lemma refutes_full : forall c sh a ls, refutes c sh a ls -> ~ collective_match_full.
Proof.
  intros c sh a ls [OK R] H. specialize (H c sh a ls OK). apply traces_match_spec in H.
  unfold run_matches in R. unfold traces in H. congruence.
Qed.

(* (b) ranks address variables of different kinds in one collective put *)
Example refuted_mixed_kinds : refutes (cfg0 2) sh_data (A_getput false AK_vara) [req_ok VRecord 3; req_ok VFixed 2].
Proof. split; [repeat constructor | vm_compute; reflexivity]. Qed.
(* ... also in safe mode *)
Example refuted_mixed_kinds_safe :
  refutes (mkCfg true false false false 2 0) sh_data (A_getput false AK_vara) [req_ok VRecord 3; req_ok VFixed 2].
Proof. split; [repeat constructor | vm_compute; reflexivity]. Qed.
(* (c) varn: one rank addresses a scalar variable, another a non-scalar one with zero requests *)
Example refuted_varn_scalar :
  refutes (cfg0 2) sh_data (A_varn false) [req_ok VScalar 2; LReq (mkReq 0 false VFixed false 0 false 2 true 1)].
Proof. split; [repeat constructor | vm_compute; reflexivity]. Qed.
(* ... the SAME scalar variable, one rank with num = 0 *)
Example refuted_varn_scalar_num0 :
  refutes (cfg0 2) sh_data (A_varn false) [req_ok VScalar 2; LReq (mkReq 0 false VScalar false 0 false 2 true 1)].
Proof. split; [repeat constructor | vm_compute; reflexivity]. Qed.
(* vard put on a record variable, one rank with a bad varid *)
Example refuted_vard :
  refutes (cfg0 2) sh_data (A_vard false) [req_ok VRecord 3; LReq (mkReq NC_ENOTVAR true VFixed true 0 true 2 false 1)].
Proof. split; [repeat constructor | vm_compute; reflexivity]. Qed.
(* fill_var_rec without safe mode: one rank names a variable without fill mode *)
Example refuted_fill_var_rec :
  refutes (cfg0 2) sh_data A_fill_var_rec [LFill (mkF false true true false 2 true); LFill (mkF false true true true 2 false)].
Proof. split; [repeat constructor | vm_compute; reflexivity]. Qed.
Definition sh_define : shared := mkSh MDefine false false 6 2 2 false 1 [] false false false [] [] 0 0 0 0 0 0.
(* metadata call in data mode with the header written collectively (romio_no_indep_rw), no safe mode *)
Example refuted_rename_hcoll :
  refutes (mkCfg false true false false 2 0) sh_data (A_meta M_rename_var)
          [LMeta (mkM 0 0 0 0); LMeta (mkM 0 NC_ENOTVAR 0 0)].
Proof. split; [repeat constructor | vm_compute; reflexivity]. Qed.
(* _enddef with a negative argument on one rank, header written collectively *)
Example refuted__enddef_hcoll :
  refutes (mkCfg false true false false 2 0) sh_define A__enddef [LMeta (mkM 0 0 0 0); LMeta (mkM 0 NC_EINVAL 0 0)].
Proof. split; [repeat constructor | vm_compute; reflexivity]. Qed.

(* with MPI_File_write_all / MPI_File_write_at_all kept apart the property already fails for a
   FIXED-size variable: the erroring rank calls MPI_File_write_all (ncmpio_getput_zero_req), the
   valid rank MPI_File_write_at_all (ncmpio_read_write) *)
Theorem collective_match_strict_refuted :
  exists c sh a ls, ranks_ok a ls /\ traces_match_strict (traces c sh a ls) = false /\ traces_match (traces c sh a ls) = true.
Proof.
  exists (cfg0 2), sh_data, (A_getput false AK_vara), [req_ok VFixed 2; req_bad NC_EINVALCOORDS VFixed].
  split; [repeat constructor | split; vm_compute; reflexivity].
Qed.

(* ================================================================== errors_stay_local *)
Definition data_api (a : api) : bool :=
  match a with A_getput _ _ | A_varn _ | A_vard _ | A_mgetput _ | A_wait_all | A_fill_var_rec => true | _ => false end.

(* the rank's own arguments are valid *)
Definition valid_local (l : local) : Prop :=
  match l with
  | LReq r => d_err r = 0 /\ d_drv_err r = 0
  | LWait w => w_err w = 0 /\ w_badid w = false
  | LFill f => f_global f = false /\ f_valid f = true /\ f_isrec f = true /\ fill_drv_err f = 0
  | _ => True
  end.

(* the rank has something to transfer *)
Definition wants (a : api) (l : local) : bool :=
  match a, l with
  | A_varn _, LReq r => if varn_scalar r then d_nonzero r else negb (d_num0 r) && (0 <? d_nreq r)
  | _, LReq r => d_nonzero r
  | _, LWait w => (0 <? w_nw w) || (0 <? w_nr w)
  | _, LFill _ => true
  | _, _ => false
  end.

Definition state_ok (sh : shared) : Prop := s_mode sh = MColl /\ s_rdonly sh = false.

(* FULL: outside safe mode a rank with valid arguments gets NC_NOERR and its transfer is carried
   out, whatever the other ranks pass *)
Definition errors_stay_local_full : Prop :=
  forall c sh a ls i l,
    data_api a = true -> c_safe c = false -> multi c = true -> state_ok sh ->
    ranks_ok a ls -> nth_error ls i = Some l -> valid_local l ->
    exists st, cret c sh a (gsum_ranks sh a ls) (Nat.eqb i 0) l = Ret 0 st /\ (wants a l = true -> st = true).

Definition no_bad_request_id (ls : list local) : Prop :=
  Forall (fun l => match l with LWait w => w_badid w = false | _ => True end) ls.

Lemma existsb_false : forall (A : Type) (f : A -> bool) l, (forall x, In x l -> f x = false) -> existsb f l = false.
Proof. induction l as [|x l IH]; intro H; cbn; [reflexivity|]. rewrite (H x (or_introl eq_refl)). apply IH. intros; apply H; right; assumption. Qed.

Lemma anyerr_false : forall sh a ls, no_bad_request_id ls -> g_anyerr (gsum_ranks sh a ls) = false.
Proof.
  intros sh a ls H. unfold gsum_ranks, gsum_of; cbn [g_anyerr]. apply existsb_false.
  intros k Hk. apply in_map_iff in Hk. destruct Hk as [l [E Hl]]. subst k.
  unfold no_bad_request_id in H. rewrite Forall_forall in H. specialize (H _ Hl).
  destruct a, l; cbn; try reflexivity; try exact H.
Qed.

Lemma state_err_ok : forall sh p, state_ok sh -> state_err sh p = 0.
Proof. intros sh p [M R]. unfold state_err. rewrite M, R, andb_false_r. reflexivity. Qed.

(* PARTIAL: it holds whenever no rank passes an invalid request id to wait_all *)
Theorem errors_stay_local_partial : forall c sh a ls i l,
  data_api a = true -> c_safe c = false -> multi c = true -> state_ok sh ->
  ranks_ok a ls -> no_bad_request_id ls -> nth_error ls i = Some l -> valid_local l ->
  exists st, cret c sh a (gsum_ranks sh a ls) (Nat.eqb i 0) l = Ret 0 st /\ (wants a l = true -> st = true).
Proof.
  intros c sh a ls i l DA S M SO OK NB NTH V.
  pose proof (anyerr_false sh a ls NB) as AE.
  assert (Hin : In l ls) by (eapply nth_error_In; eassumption).
  unfold ranks_ok in OK. rewrite Forall_forall in OK. destruct (OK _ Hin) as [AD WF].
  remember (gsum_ranks sh a ls) as g eqn:Hg. clear Hg.
  unfold cret, exec. rewrite M. cbn [negb]. rewrite S.
  destruct a; cbn in DA; try discriminate DA; destruct l; cbn in AD; try discriminate AD; cbn [valid_local] in V.
  - (* getput *) destruct V as [E D]. unfold disp_err. rewrite (state_err_ok sh _ SO). cbn. rewrite E, D. cbn.
    eexists; split; [reflexivity|]. intro H; exact H.
  - (* varn *) destruct V as [E D]. unfold disp_err. rewrite (state_err_ok sh _ SO). cbn [Z.eqb]. rewrite E. cbn [fatal Z.eqb orb].
    assert (F : fatal 0 = false) by reflexivity. rewrite F.
    unfold wants. destruct (varn_scalar r) eqn:VS; cbn [snd].
    + rewrite D. cbn. eexists; split; [reflexivity|]. intro H; exact H.
    + rewrite D, AE. cbn [first_err Z.eqb negb andb]. unfold varn_nreq, varn_zero. rewrite E, D. cbn [Z.eqb negb orb].
      eexists; split; [reflexivity|]. intro H. apply andb_true_iff in H. destruct H as [H1 H2].
      apply negb_true_iff in H1. rewrite H1. cbn. rewrite H2. reflexivity.
  - (* vard *) destruct V as [E D]. unfold disp_err. rewrite (state_err_ok sh _ SO). cbn. rewrite E, D. cbn.
    eexists; split; [reflexivity|]. intro H; exact H.
  - (* mgetput *) destruct V as [E _]. rewrite (state_err_ok sh _ SO). cbn [Z.eqb]. rewrite E. cbn. rewrite AE. cbn.
    eexists; split; [reflexivity|]. reflexivity.
  - (* wait_all *) destruct V as [_ B]. destruct SO as [MC _]. rewrite MC. cbn [snd]. rewrite B, AE. cbn.
    eexists; split; [reflexivity|]. reflexivity.
  - (* fill_var_rec *) destruct V as [G [Vv [R D]]]. destruct SO as [MC RO].
    unfold fill_derr. rewrite RO, MC, G, Vv, R, D. cbn.
    eexists; split; [reflexivity|]. reflexivity.
Qed.

(* the hypotheses are satisfiable: F4's valid rank *)
Example errors_stay_local_nonvacuous :
  exists st, cret (cfg0 2) sh_data (A_getput false AK_vara) (gsum_ranks sh_data (A_getput false AK_vara) F4_witness) true (req_ok VRecord 3) = Ret 0 st /\ st = true.
Proof. eexists; split; vm_compute; reflexivity. Qed.

(* REFUTED: wait_all, rank 0 waits for one valid pending put, rank 1 passes an invalid request id:
   req_commit returns on EVERY rank after the Allreduce, rank 0 gets NC_NOERR but its request is dropped *)
Definition wait_witness : list local := [LWait (mkW 0 1 0 false false 2); LWait (mkW 0 0 0 true false 2)].

Theorem errors_stay_local_refuted : ~ errors_stay_local_full.
Proof.
  intro H.
  specialize (H (cfg0 2) sh_data A_wait_all wait_witness 0%nat (LWait (mkW 0 1 0 false false 2))).
  destruct H as [st [E W]]; try reflexivity; try (repeat constructor).
  vm_compute in E. inversion E; subst. specialize (W eq_refl). discriminate W.
Qed.

(* ================================================================== safe_mode_uniform *)
Definition rc_of (o : outcome) : option Z := match o with Ret rc _ => Some rc | Crash => None end.
Definition rets (c : cfg) (sh : shared) (a : api) (ls : list local) : list outcome := map snd (run c sh a ls).

Definition meta_like (a : api) : bool :=
  match a with A_meta _ | A__enddef | A_create | A_open | A_fill_var_rec => true | _ => false end.

(* FULL: with safe mode every rank of a collective metadata call returns the same code *)
Definition safe_mode_uniform_full : Prop :=
  forall c sh a ls, c_safe c = true -> multi c = true -> meta_like a = true -> ranks_ok a ls -> no_e0 ls ->
    forall o1 o2, In o1 (rets c sh a ls) -> In o2 (rets c sh a ls) -> rc_of o1 = rc_of o2.

(* APIs whose safe-mode blocks all end in `return minE` *)
Definition returns_min (a : api) : bool :=
  match a with
  | A_meta m => negb (md_keep_own (metadesc_of m)) && (match md_dar (metadesc_of m) with Some _ => true | None => false end)
  | A__enddef | A_create | A_open => true
  | _ => false
  end.

Lemma in_rets : forall c sh a ls o,
  In o (rets c sh a ls) -> exists l root, In l ls /\ o = cret c sh a (gsum_ranks sh a ls) root l.
Proof.
  intros c sh a ls o H. unfold rets in H. apply in_map_iff in H. destruct H as [p [Hp Hin]].
  apply in_run_from in Hin. destruct Hin as [l [r [Hl He]]]. exists l, r. split; [exact Hl|]. subst. reflexivity.
Qed.

Lemma safe_rc_min : forall c sh a g r1 r2 l1 l2,
  c_safe c = true -> returns_min a = true ->
  admissible a l1 = true -> admissible a l2 = true ->
  (match l1 with LMeta m => m_e0 m = 0 | _ => True end) -> (match l2 with LMeta m => m_e0 m = 0 | _ => True end) ->
  rc_of (cret c sh a g r1 l1) = rc_of (cret c sh a g r2 l2).
Proof.
  intros c sh a g r1 r2 l1 l2 S RM A1 A2 E1 E2. unfold cret, exec.
  destruct (multi c); [|reflexivity]. cbn [negb].
  destruct a; cbn in RM; try discriminate RM;
    destruct l1; cbn in A1; try discriminate A1; destruct l2; cbn in A2; try discriminate A2; rewrite ?S.
  - (* create *) rewrite E1, E2. cbn [Z.eqb negb]. destruct (s_noclobber sh); [destruct (s_exists_err sh)|]; reflexivity.
  - (* open *) rewrite E1, E2. cbn [Z.eqb negb]. destruct (s_exists_err sh); reflexivity.
  - (* _enddef *) destruct (s_mode sh); try reflexivity.
    destruct (g_min1 g =? 0); [|reflexivity]. destruct (g_min2 g =? 0); reflexivity.
  - (* metadata calls *) unfold meta_exec. rewrite E1, E2, S. cbn [Z.eqb negb].
    match goal with x : metaapi |- _ => destruct x end; cbn in RM; try discriminate RM;
      cbn [metadesc_of md_ar1 md_bcs md_ar2 md_dbcs md_dar md_keep_own md_post md_header];
      rewrite ?andb_true_r; brk; reflexivity.
Qed.

(* PARTIAL: it holds for every API whose blocks return the minimum *)
Theorem safe_mode_uniform_partial : forall c sh a ls,
  c_safe c = true -> returns_min a = true -> ranks_ok a ls -> no_e0 ls ->
  forall o1 o2, In o1 (rets c sh a ls) -> In o2 (rets c sh a ls) -> rc_of o1 = rc_of o2.
Proof.
  intros c sh a ls S RM OK NE o1 o2 H1 H2.
  apply in_rets in H1. apply in_rets in H2.
  destruct H1 as [l1 [r1 [I1 E1]]]. destruct H2 as [l2 [r2 [I2 E2]]]. subst.
  unfold ranks_ok in OK. rewrite Forall_forall in OK. unfold no_e0 in NE. rewrite Forall_forall in NE.
  apply safe_rc_min; try assumption; try (apply OK; assumption).
  - specialize (NE _ I1). destruct l1; auto.
  - specialize (NE _ I2). destruct l2; auto.
Qed.

(* non-trivial instance: rename_var in data mode, three ranks, rank 1 passes another name, rank 2 another varid *)
Example safe_mode_uniform_nonvacuous :
  let c := mkCfg true false false false 3 0 in
  let ls := [LMeta (mkM 0 0 0 0); LMeta (mkM 0 0 (-256) 0); LMeta (mkM 0 0 NC_EMULTIDEFINE_FNC_ARGS 0)] in
  returns_min (A_meta M_rename_var) = true /\ ranks_ok (A_meta M_rename_var) ls /\ no_e0 ls /\
  map rc_of (rets c sh_data (A_meta M_rename_var) ls) = [Some NC_EMULTIDEFINE_FNC_ARGS; Some NC_EMULTIDEFINE_FNC_ARGS; Some NC_EMULTIDEFINE_FNC_ARGS].
Proof. cbn zeta. repeat split; try (repeat constructor); vm_compute; reflexivity. Qed.

(* REFUTED: fill_var_rec, rank 0 names a record variable without fill mode (NC_ENOTFILL), rank 1 a
   different record variable (NC_EMULTIDEFINE_FNC_ARGS): ncmpio_fill_var_rec keeps the rank's own error *)
Definition fill_safe_witness : list local :=
  [LFill (mkF false true true true 2 true); LFill (mkF false true true false 2 false)].

Theorem safe_mode_uniform_refuted : ~ safe_mode_uniform_full.
Proof.
  intro H.
  specialize (H (mkCfg true false false false 2 0) sh_data A_fill_var_rec fill_safe_witness eq_refl eq_refl eq_refl).
  assert (OK : ranks_ok A_fill_var_rec fill_safe_witness) by (repeat constructor).
  assert (NE : no_e0 fill_safe_witness) by (repeat constructor).
  specialize (H OK NE (Ret NC_ENOTFILL false) (Ret NC_EMULTIDEFINE_FNC_ARGS false)).
  assert (K : rc_of (Ret NC_ENOTFILL false) = rc_of (Ret NC_EMULTIDEFINE_FNC_ARGS false)).
  { apply H; vm_compute; tauto. }
  vm_compute in K. discriminate K.
Qed.

(* argument errors of the data-access calls are made collective by safe mode *)
Theorem safe_mode_data_errors_uniform : forall c sh a g r l,
  c_safe c = true -> multi c = true ->
  match a with A_getput _ _ | A_varn _ | A_vard _ | A_mgetput _ => True | _ => False end ->
  admissible a l = true -> g_min1 g <> 0 ->
  cret c sh a g r l = Ret (g_min1 g) false.
Proof.
  intros c sh a g r l S M Ha A G. unfold cret, exec. rewrite M. cbn [negb].
  apply Z.eqb_neq in G.
  destruct a; try contradiction Ha; destruct l; cbn in A; try discriminate A; rewrite S, G; reflexivity.
Qed.

(* ================================================================== crashes *)
(* no path of the model ends in undefined behaviour (ncmpi_fill_var_rec returns its own error before
   entering the driver since commit 080701ed) *)
Theorem never_crashes : forall c sh a g r l, cret c sh a g r l <> Crash.
Proof.
  intros c sh a g r l H. unfold cret, exec in H.
  destruct (multi c); [|discriminate H]. cbn [negb] in H.
  destruct a; destruct l; cbn [snd] in H;
    try (unfold meta_exec in H);
    repeat match type of H with
           | snd (if ?b then _ else _) = _ => destruct b eqn:?
           | snd (match ?x with MDefine => _ | MColl => _ | MIndep => _ end) = _ => destruct x eqn:?
           | snd (match ?x with Some _ => _ | None => _ end) = _ => destruct x eqn:?
           | snd (let (_, _) := ?x in _) = _ => destruct x eqn:?
           end; cbn [snd stop] in H; try discriminate H.
  all: try (match goal with E : (if ?b then _ else _) = (_, _) |- _ => destruct b; inversion E; subst; discriminate end).
Qed.

(* ================================================================== fill at enddef *)
(* fillerup_aggregate's collective block is a function of the shared state only: it is executed iff there
   is a segment, and the number of segments does not depend on the rank *)
Theorem fill_block_spec : forall sh,
  fill_new sh = if (0 <? s_nvars sh) && (0 <? fill_nvars sh) && (0 <? fill_j sh)
                then [(S_fillerup_aggregate_SV1, TFhColl); (S_fillerup_aggregate_WAA1, TFhColl); (S_fillerup_aggregate_SV2, TFhColl)]
                else [].
Proof. reflexivity. Qed.

Lemma count_nv_nonneg : forall f l, 0 <= count_nv f l.
Proof. intros; unfold count_nv; lia. Qed.

(* when there is no segment no rank has anything to write: returning on j = 0 loses nothing *)
Theorem fill_no_segment_no_data : forall np rank sh,
  0 <= fill_old_numrecs sh -> fill_j sh = 0 -> fill_buf_len np rank sh = 0.
Proof.
  intros np rank sh Hn. unfold fill_j, fill_buf_len, count_nv.
  induction (s_newvars sh) as [|v l IH]; intro H; [reflexivity|].
  cbn [filter fold_right] in *.
  destruct (nv_fill v) eqn:F; cbn [andb] in H.
  - destruct (nv_isrec v) eqn:R; cbn [negb] in H; cbn [List.length] in H.
    + assert (E : fill_old_numrecs sh = 0 \/ 0 < fill_old_numrecs sh) by lia.
      destruct E as [E|E].
      * rewrite E in *. rewrite Z.mul_0_l. rewrite IH; [reflexivity|]. rewrite Z.mul_0_l in *. lia.
      * exfalso.
        assert (0 <= Z.of_nat (List.length (filter (fun v0 => nv_fill v0 && negb (nv_isrec v0)) l))) by lia.
        assert (0 < Z.of_nat (S (List.length (filter (fun v0 => nv_fill v0 && nv_isrec v0) l)))) by lia.
        nia.
    + exfalso.
      assert (0 <= Z.of_nat (List.length (filter (fun v0 => nv_fill v0 && nv_isrec v0) l))) by lia.
      assert (0 < Z.of_nat (S (List.length (filter (fun v0 => nv_fill v0 && negb (nv_isrec v0)) l)))) by lia.
      nia.
  - rewrite IH; [reflexivity | exact H].
Qed.

(* ... but a rank can have nothing to write although there are segments (variables with fewer elements than
   ranks): an early return on the rank's own amount (buf_len = 0) would NOT be taken by all ranks.
   Witness: 2 ranks, one new scalar in fill mode -- rank 0 writes it, rank 1 writes nothing. *)
Theorem fill_exit_on_own_amount_would_mismatch :
  exists np sh r1 r2, 0 <= r1 < np /\ 0 <= r2 < np /\ 0 < fill_j sh /\
                      fill_buf_len np r1 sh = 0 /\ 0 < fill_buf_len np r2 sh.
Proof.
  exists 2, (mkSh MDefine false true 1 0 0 false 1 [mkNv false true 1] false false false [] [] 0 0 0 0 0 0), 1, 0.
  vm_compute. repeat split; try reflexivity; discriminate.
Qed.

(* enddef / close-from-define-mode with new variables in fill mode of any sizes: all ranks match
   (instance of match_noarg, stated for the record) *)
Theorem match_enddef_fill : forall c sh ls,
  ranks_ok A_enddef ls -> all_match (traces c sh A_enddef ls).
Proof. intros. apply match_noarg; [exact I | assumption]. Qed.
