(* Proofs_CSub.v — lemmas about the C-subset combinators of CSub.v, used by the equivalence
   proofs between generated definitions (Gen_vlens.v, Gen_scs.v) and the hand-written model. *)
From Pnc Require Import Base CSub.
Require Import Lia ZArith ZifyBool List Bool String.
Import ListNotations.
Local Open Scope Z_scope.

(* ---------- lists ---------- *)
Lemma cs_Zlen_nil : forall A, Zlen (@nil A) = 0.
Proof. reflexivity. Qed.

Lemma cs_Zlen_cons : forall A (a : A) l, Zlen (a :: l) = 1 + Zlen l.
Proof. intros. unfold Zlen. cbn [Datatypes.length]. lia. Qed.

Lemma cs_Zlen_nonneg : forall A (l : list A), 0 <= Zlen l.
Proof. intros. unfold Zlen. lia. Qed.

Lemma cs_Zlen_app : forall A (l1 l2 : list A), Zlen (l1 ++ l2) = Zlen l1 + Zlen l2.
Proof. intros. unfold Zlen. rewrite app_length. lia. Qed.

Lemma cs_Zlen_map : forall A B (f : A -> B) l, Zlen (map f l) = Zlen l.
Proof. intros. unfold Zlen. rewrite map_length. reflexivity. Qed.

Lemma cs_znth_0 : forall A (x : A) l d, znth (x :: l) 0 d = x.
Proof. reflexivity. Qed.

(* the element behind a prefix *)
Lemma cs_znth_app_Zlen : forall A (pre : list A) x r d, znth (pre ++ x :: r) (Zlen pre) d = x.
Proof.
  induction pre as [|a pre IH]; intros x r d.
  - reflexivity.
  - rewrite cs_Zlen_cons. cbn [app znth].
    pose proof (cs_Zlen_nonneg _ pre) as Hn.
    destruct (1 + Zlen pre =? 0) eqn:E; [lia|].
    replace (1 + Zlen pre - 1) with (Zlen pre) by lia. apply IH.
Qed.

Lemma cs_znth_map : forall A B (f : A -> B) l i d, 0 <= i < Zlen l -> znth (map f l) i (f d) = f (znth l i d).
Proof.
  induction l as [|a l IH]; intros i d Hi.
  - rewrite cs_Zlen_nil in Hi. lia.
  - rewrite cs_Zlen_cons in Hi. cbn [map znth].
    destruct (i =? 0) eqn:E; [reflexivity|]. apply IH. lia.
Qed.

(* ---------- loops ---------- *)
Lemma c_loop_S : forall S f (cdef cond : S -> bool) body inc s,
  c_loop (Datatypes.S f) cdef cond body inc s =
  if cdef s then
    if cond s then
      match body s with
      | CNorm s' => c_bind (inc s') (c_loop f cdef cond body inc)
      | CCnt s' => c_bind (inc s') (c_loop f cdef cond body inc)
      | CBrk s' => CNorm s'
      | CRet v => CRet v
      | CUndef w => CUndef w
      | CUnsup w => CUnsup w
      | CRetS v s' => CRetS v s'
      end
    else CNorm s
  else CUndef "loop condition".
Proof. reflexivity. Qed.

(* a loop whose condition is false on entry *)
Lemma c_loop_exit : forall S f (cdef cond : S -> bool) body inc s,
  cdef s = true -> cond s = false ->
  c_loop (Datatypes.S f) cdef cond body inc s = CNorm s.
Proof. intros S f cdef cond body inc s Hd Hc. rewrite c_loop_S, Hd, Hc. reflexivity. Qed.

(* one iteration *)
Lemma c_loop_iter : forall S f (cdef cond : S -> bool) body inc s,
  cdef s = true -> cond s = true ->
  c_loop (Datatypes.S f) cdef cond body inc s =
  match body s with
  | CNorm s' => c_bind (inc s') (c_loop f cdef cond body inc)
  | CCnt s' => c_bind (inc s') (c_loop f cdef cond body inc)
  | CBrk s' => CNorm s'
  | CRet v => CRet v
  | CUndef w => CUndef w
  | CUnsup w => CUnsup w
  | CRetS v s' => CRetS v s'
  end.
Proof. intros S f cdef cond body inc s Hd Hc. rewrite c_loop_S, Hd, Hc. reflexivity. Qed.

Lemma c_fuel_lt_S : forall i hi, i < hi -> c_fuel_lt i hi = Datatypes.S (c_fuel_lt (i + 1) hi).
Proof.
  intros i hi H. unfold c_fuel_lt. f_equal.
  replace (hi - i) with (Z.succ (hi - (i + 1))) by lia.
  rewrite Z2Nat.inj_succ by lia. reflexivity.
Qed.

Lemma c_fuel_lt_pos : forall i hi, exists f, c_fuel_lt i hi = Datatypes.S f.
Proof. intros. eexists. reflexivity. Qed.

(* ---------- values ---------- *)
Lemma z2b_b2z : forall b, z2b (b2z b) = b.
Proof. destruct b; reflexivity. Qed.

Lemma b2z_eq0 : forall b, (b2z b =? 0) = negb b.
Proof. destruct b; reflexivity. Qed.

Lemma in_i32_iff : forall v, in_i32 v = true <-> -2147483648 <= v <= 2147483647.
Proof. intros. unfold in_i32. lia. Qed.

Lemma in_i64_iff : forall v, in_i64 v = true <-> -9223372036854775808 <= v <= 9223372036854775807.
Proof. intros. unfold in_i64. lia. Qed.

Lemma div_ok_pos : forall tmin a b, 0 < b -> div_ok tmin a b = true.
Proof. intros. unfold div_ok. lia. Qed.

(* C division on non-negative operands is the model's Z./ *)
Lemma quot_is_div : forall a b, 0 <= a -> 0 < b -> Z.quot a b = a / b.
Proof. intros. apply Z.quot_div_nonneg; lia. Qed.

(* ---------- pointers ---------- *)
Lemma p_ok_some : forall A (l : list A) off i,
  0 <= off + i < Zlen l -> p_ok (Some (l, off)) i = true.
Proof. intros. unfold p_ok. lia. Qed.

Lemma p_ok_cons0 : forall A (x : A) l, p_ok (Some (x :: l, 0)) 0 = true.
Proof. intros. apply p_ok_some. rewrite cs_Zlen_cons. pose proof (cs_Zlen_nonneg _ l). lia. Qed.

(* the fuel the translator gives to  for (i = k; i < n; i++)  suffices for n - k iterations *)
Lemma c_fuel_lt_enough : forall n k : nat, (k <= n)%nat -> (n - k < c_fuel_lt (Z.of_nat k) (Z.of_nat n))%nat.
Proof. intros n k H. unfold c_fuel_lt. lia. Qed.

Lemma p_get_some : forall A (d : A) l off i, p_get d (Some (l, off)) i = znth l (off + i) d.
Proof. reflexivity. Qed.
