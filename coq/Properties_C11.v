(* Properties_C11.v — statements only: each property theorem is stated in full and closed by
   `exact <lemma>`; the lemmas live in the Proofs_*.v files.  Assembled by tools/mkprops.py. *)
(* C11 I/O failures are never silently dropped.  Model: coq/Fault.v (policy language, abstract interpreter, *)
(* mpi2nc, propagation table) instantiated with coq/Gen_iosites.v (tools/tr_iosites.py, regenerated from the *)
(* sources as built on every run).  no_silent_drop s: for every MPI error class, the function containing I/O *)
(* site s returns an error and so does every function on every static call path above it, up to the ncmpi_ entry points. *)
(* xxx_refuted: the present code loses the error (witness class or losing link site); xxx_drops: exactly which *)
(* classes are lost in the function; xxx_partial: what is propagated nevertheless. *)
From Coq Require Import ZArith List.
From Pnc Require Import Proofs_Fault.
Set Printing Width 100.
Set Printing Depth 100000.

Theorem C11_all_classes_enumerated :
  forall c : errclass, In c all_classes.
Proof. exact @all_classes_complete. Qed.
Print Assumptions C11_all_classes_enumerated.

Theorem C11_mpi2nc_matches_source :
  forall c : errclass, mpi2nc c = table_lookup (class_name c) mpi2nc_table mpi2nc_default.
Proof. exact @mpi2nc_matches_source. Qed.
Print Assumptions C11_mpi2nc_matches_source.

Theorem C11_mpi2nc_table_classes_known :
  forall (k : string) (v : Z), In (k, v) mpi2nc_table -> exists c : errclass, class_name c = k.
Proof. exact @mpi2nc_table_classes_known. Qed.
Print Assumptions C11_mpi2nc_table_classes_known.

Theorem C11_mpi2nc_default_is_EFILE :
  mpi2nc_default = NC_EFILE.
Proof. exact @mpi2nc_default_is_EFILE. Qed.
Print Assumptions C11_mpi2nc_default_is_EFILE.

Theorem C11_mpi2nc_never_noerr :
  forall c : errclass, mpi2nc c <> NC_NOERR.
Proof. exact @mpi2nc_never_noerr. Qed.
Print Assumptions C11_mpi2nc_never_noerr.

Theorem C11_nc_codes_negative :
  forall (z : Z) (n : string), In (z, n) nc_codes -> z < 0 \/ z = 0 /\ n = "NC_NOERR".
Proof. exact @nc_codes_negative. Qed.
Print Assumptions C11_nc_codes_negative.

Theorem C11_translator_census_complete :
  translator_problems = [].
Proof. exact @translator_census_complete. Qed.
Print Assumptions C11_translator_census_complete.

Theorem C11_loop_exec_covers_all_iterations :
  forall (eb ei : state -> list outcome) (st : state) (hs : list state),
         closure LOOPFUEL (heads_next eb ei) [st] [] = Some hs ->
         closed (heads_next eb ei) hs && smem st hs = true ->
         forall (n : nat) (h : state),
         In h (iter_heads (heads_next eb ei) n st) ->
         In (ONormal h) (loop_exec eb ei st) /\
         (forall s : state, In (OBreak s) (eb h) -> In (ONormal s) (loop_exec eb ei st)) /\
         (forall v : aval, In (ORet v) (eb h) -> In (ORet v) (loop_exec eb ei st)).
Proof. exact @loop_exec_covers_all_iterations. Qed.
Print Assumptions C11_loop_exec_covers_all_iterations.

Theorem C11_loop_exec_fails_closed :
  forall (eb ei : state -> list outcome) (st : state),
         (forall hs : list state,
          closure LOOPFUEL (heads_next eb ei) [st] [] = Some hs ->
          closed (heads_next eb ei) hs && smem st hs = false) ->
         exists w : string, loop_exec eb ei st = [OBad w].
Proof. exact @loop_exec_fails_closed. Qed.
Print Assumptions C11_loop_exec_fails_closed.

Theorem C11_verdict_is_specification :
  forall (m : aval) (z : Z) (s : site),
         propagates m z s = true <-> returns_error (run m z (s_body s)).
Proof. exact @propagates_spec. Qed.
Print Assumptions C11_verdict_is_specification.

Theorem C11_call_paths_stay_in_closed_set :
  forall (links : list site) (f : string) (R : list string),
         up_closed links f R = true -> forall g : string, calls_up links f g -> str_mem g R = true.
Proof. exact @up_closed_sound. Qed.
Print Assumptions C11_call_paths_stay_in_closed_set.

Theorem C11_links_propagate_except_bad :
  forall l : site, In l link_sites -> ~ In (s_id l) bad_link_ids -> link_returns_error l.
Proof. exact @links_propagate_except_bad. Qed.
Print Assumptions C11_links_propagate_except_bad.

Theorem C11_bad_links_drop :
  forall id : string, In id bad_link_ids -> ~ link_returns_error (site_of id link_sites).
Proof. exact @bad_links_drop. Qed.
Print Assumptions C11_bad_links_drop.

Theorem C11_hypothesis_satisfiable :
  mpi2nc E_NO_SPACE <> NC_NOERR /\ mpi2nc E_IO <> NC_NOERR.
Proof. exact @mpi2nc_hypothesis_satisfiable. Qed.
Print Assumptions C11_hypothesis_satisfiable.

Theorem C11_on_path_inhabited :
  on_path link_sites "write_NC" (site_of "ncmpio_enddef.c:ncmpio__enddef:write_NC" link_sites) /\
         on_path link_sites "write_NC" (site_of "file.c:ncmpi_enddef:ncmpio_enddef" link_sites).
Proof. exact @on_path_inhabited. Qed.
Print Assumptions C11_on_path_inhabited.

Theorem no_silent_drop_move_file_block__MPI_File_read_at_all_refuted :
  ~
         no_silent_drop link_sites
           (site_of "ncmpio_enddef.c:move_file_block:MPI_File_read_at_all" io_sites).
Proof. exact @nsd_move_file_block__MPI_File_read_at_all_refuted. Qed.
Print Assumptions no_silent_drop_move_file_block__MPI_File_read_at_all_refuted.

Theorem no_silent_drop_move_file_block__MPI_File_read_at_all_drops :
  drops_classes (site_of "ncmpio_enddef.c:move_file_block:MPI_File_read_at_all" io_sites)
           [E_ACCESS; E_AMODE; E_BAD_FILE; E_FILE_EXISTS; E_NOT_SAME; E_NO_SPACE; E_NO_SUCH_FILE;
            E_QUOTA; E_READ_ONLY].
Proof. exact @nsd_move_file_block__MPI_File_read_at_all_drops. Qed.
Print Assumptions no_silent_drop_move_file_block__MPI_File_read_at_all_drops.

Theorem no_silent_drop_move_file_block__MPI_File_read_at_all_partial :
  no_silent_drop_except link_sites
           (site_of "ncmpio_enddef.c:move_file_block:MPI_File_read_at_all" io_sites)
           [E_ACCESS; E_AMODE; E_BAD_FILE; E_FILE_EXISTS; E_NOT_SAME; E_NO_SPACE; E_NO_SUCH_FILE;
            E_QUOTA; E_READ_ONLY] [].
Proof. exact @nsd_move_file_block__MPI_File_read_at_all_partial. Qed.
Print Assumptions no_silent_drop_move_file_block__MPI_File_read_at_all_partial.

Theorem no_silent_drop_move_file_block__MPI_File_write_at_all_refuted :
  ~
         no_silent_drop link_sites
           (site_of "ncmpio_enddef.c:move_file_block:MPI_File_write_at_all" io_sites).
Proof. exact @nsd_move_file_block__MPI_File_write_at_all_refuted. Qed.
Print Assumptions no_silent_drop_move_file_block__MPI_File_write_at_all_refuted.

Theorem no_silent_drop_move_file_block__MPI_File_write_at_all_drops :
  drops_classes (site_of "ncmpio_enddef.c:move_file_block:MPI_File_write_at_all" io_sites)
           [E_ACCESS; E_AMODE; E_BAD_FILE; E_FILE_EXISTS; E_NOT_SAME; E_NO_SPACE; E_NO_SUCH_FILE;
            E_QUOTA; E_READ_ONLY].
Proof. exact @nsd_move_file_block__MPI_File_write_at_all_drops. Qed.
Print Assumptions no_silent_drop_move_file_block__MPI_File_write_at_all_drops.

Theorem no_silent_drop_move_file_block__MPI_File_write_at_all_partial :
  no_silent_drop_except link_sites
           (site_of "ncmpio_enddef.c:move_file_block:MPI_File_write_at_all" io_sites)
           [E_ACCESS; E_AMODE; E_BAD_FILE; E_FILE_EXISTS; E_NOT_SAME; E_NO_SPACE; E_NO_SUCH_FILE;
            E_QUOTA; E_READ_ONLY] [].
Proof. exact @nsd_move_file_block__MPI_File_write_at_all_partial. Qed.
Print Assumptions no_silent_drop_move_file_block__MPI_File_write_at_all_partial.

Theorem no_silent_drop_move_file_block__MPI_File_write_at_refuted :
  ~
         no_silent_drop link_sites
           (site_of "ncmpio_enddef.c:move_file_block:MPI_File_write_at" io_sites).
Proof. exact @nsd_move_file_block__MPI_File_write_at_refuted. Qed.
Print Assumptions no_silent_drop_move_file_block__MPI_File_write_at_refuted.

Theorem no_silent_drop_move_file_block__MPI_File_write_at_drops :
  drops_classes (site_of "ncmpio_enddef.c:move_file_block:MPI_File_write_at" io_sites)
           [E_ACCESS; E_AMODE; E_BAD_FILE; E_FILE_EXISTS; E_NOT_SAME; E_NO_SPACE; E_NO_SUCH_FILE;
            E_QUOTA; E_READ_ONLY].
Proof. exact @nsd_move_file_block__MPI_File_write_at_drops. Qed.
Print Assumptions no_silent_drop_move_file_block__MPI_File_write_at_drops.

Theorem no_silent_drop_move_file_block__MPI_File_write_at_partial :
  no_silent_drop_except link_sites
           (site_of "ncmpio_enddef.c:move_file_block:MPI_File_write_at" io_sites)
           [E_ACCESS; E_AMODE; E_BAD_FILE; E_FILE_EXISTS; E_NOT_SAME; E_NO_SPACE; E_NO_SUCH_FILE;
            E_QUOTA; E_READ_ONLY] [].
Proof. exact @nsd_move_file_block__MPI_File_write_at_partial. Qed.
Print Assumptions no_silent_drop_move_file_block__MPI_File_write_at_partial.

Theorem no_silent_drop_write_NC__MPI_File_write_at_all_1_refuted :
  ~
         no_silent_drop link_sites
           (site_of "ncmpio_enddef.c:write_NC:MPI_File_write_at_all#1" io_sites).
Proof. exact @nsd_write_NC__MPI_File_write_at_all_1_refuted. Qed.
Print Assumptions no_silent_drop_write_NC__MPI_File_write_at_all_1_refuted.

Theorem no_silent_drop_write_NC__MPI_File_write_at_all_1_drops :
  drops_classes (site_of "ncmpio_enddef.c:write_NC:MPI_File_write_at_all#1" io_sites)
           [E_ACCESS; E_AMODE; E_BAD_FILE; E_FILE_EXISTS; E_NOT_SAME; E_NO_SPACE; E_NO_SUCH_FILE;
            E_QUOTA; E_READ_ONLY].
Proof. exact @nsd_write_NC__MPI_File_write_at_all_1_drops. Qed.
Print Assumptions no_silent_drop_write_NC__MPI_File_write_at_all_1_drops.

Theorem no_silent_drop_write_NC__MPI_File_write_at_all_1_partial :
  no_silent_drop_except link_sites
           (site_of "ncmpio_enddef.c:write_NC:MPI_File_write_at_all#1" io_sites)
           [E_ACCESS; E_AMODE; E_BAD_FILE; E_FILE_EXISTS; E_NOT_SAME; E_NO_SPACE; E_NO_SUCH_FILE;
            E_QUOTA; E_READ_ONLY] [].
Proof. exact @nsd_write_NC__MPI_File_write_at_all_1_partial. Qed.
Print Assumptions no_silent_drop_write_NC__MPI_File_write_at_all_1_partial.

Theorem no_silent_drop_write_NC__MPI_File_write_at_refuted :
  ~ no_silent_drop link_sites (site_of "ncmpio_enddef.c:write_NC:MPI_File_write_at" io_sites).
Proof. exact @nsd_write_NC__MPI_File_write_at_refuted. Qed.
Print Assumptions no_silent_drop_write_NC__MPI_File_write_at_refuted.

Theorem no_silent_drop_write_NC__MPI_File_write_at_drops :
  drops_classes (site_of "ncmpio_enddef.c:write_NC:MPI_File_write_at" io_sites)
           [E_ACCESS; E_AMODE; E_BAD_FILE; E_FILE_EXISTS; E_NOT_SAME; E_NO_SPACE; E_NO_SUCH_FILE;
            E_QUOTA; E_READ_ONLY].
Proof. exact @nsd_write_NC__MPI_File_write_at_drops. Qed.
Print Assumptions no_silent_drop_write_NC__MPI_File_write_at_drops.

Theorem no_silent_drop_write_NC__MPI_File_write_at_partial :
  no_silent_drop_except link_sites
           (site_of "ncmpio_enddef.c:write_NC:MPI_File_write_at" io_sites)
           [E_ACCESS; E_AMODE; E_BAD_FILE; E_FILE_EXISTS; E_NOT_SAME; E_NO_SPACE; E_NO_SUCH_FILE;
            E_QUOTA; E_READ_ONLY] [].
Proof. exact @nsd_write_NC__MPI_File_write_at_partial. Qed.
Print Assumptions no_silent_drop_write_NC__MPI_File_write_at_partial.

Theorem no_silent_drop_write_NC__MPI_File_write_at_all_2_refuted :
  ~
         no_silent_drop link_sites
           (site_of "ncmpio_enddef.c:write_NC:MPI_File_write_at_all#2" io_sites).
Proof. exact @nsd_write_NC__MPI_File_write_at_all_2_refuted. Qed.
Print Assumptions no_silent_drop_write_NC__MPI_File_write_at_all_2_refuted.

Theorem no_silent_drop_write_NC__MPI_File_write_at_all_2_drops :
  drops_classes (site_of "ncmpio_enddef.c:write_NC:MPI_File_write_at_all#2" io_sites)
           [E_BUFFER; E_COUNT; E_TYPE; E_TAG; E_COMM; E_RANK; E_REQUEST; E_ROOT; E_GROUP; E_OP;
            E_TOPOLOGY; E_DIMS; E_ARG; E_UNKNOWN; E_TRUNCATE; E_OTHER; E_INTERN; E_IN_STATUS;
            E_PENDING; E_ACCESS; E_AMODE; E_ASSERT; E_BAD_FILE; E_BASE; E_CONVERSION; E_DISP;
            E_DUP_DATAREP; E_FILE_EXISTS; E_FILE_IN_USE; E_FILE; E_INFO_KEY; E_INFO_NOKEY;
            E_INFO_VALUE; E_INFO; E_IO; E_KEYVAL; E_LOCKTYPE; E_NAME; E_NO_MEM; E_NOT_SAME;
            E_NO_SPACE; E_NO_SUCH_FILE; E_PORT; E_QUOTA; E_READ_ONLY; E_RMA_CONFLICT; E_RMA_SYNC;
            E_SERVICE; E_SIZE; E_SPAWN; E_UNSUPPORTED_DATAREP; E_UNSUPPORTED_OPERATION; E_WIN;
            E_RMA_RANGE; E_RMA_ATTACH; E_RMA_FLAVOR; E_RMA_SHARED; E_ANY_OTHER_CLASS].
Proof. exact @nsd_write_NC__MPI_File_write_at_all_2_drops. Qed.
Print Assumptions no_silent_drop_write_NC__MPI_File_write_at_all_2_drops.

Theorem no_silent_drop_write_NC__MPI_File_write_at_all_2_partial :
  no_silent_drop_except link_sites
           (site_of "ncmpio_enddef.c:write_NC:MPI_File_write_at_all#2" io_sites)
           [E_BUFFER; E_COUNT; E_TYPE; E_TAG; E_COMM; E_RANK; E_REQUEST; E_ROOT; E_GROUP; E_OP;
            E_TOPOLOGY; E_DIMS; E_ARG; E_UNKNOWN; E_TRUNCATE; E_OTHER; E_INTERN; E_IN_STATUS;
            E_PENDING; E_ACCESS; E_AMODE; E_ASSERT; E_BAD_FILE; E_BASE; E_CONVERSION; E_DISP;
            E_DUP_DATAREP; E_FILE_EXISTS; E_FILE_IN_USE; E_FILE; E_INFO_KEY; E_INFO_NOKEY;
            E_INFO_VALUE; E_INFO; E_IO; E_KEYVAL; E_LOCKTYPE; E_NAME; E_NO_MEM; E_NOT_SAME;
            E_NO_SPACE; E_NO_SUCH_FILE; E_PORT; E_QUOTA; E_READ_ONLY; E_RMA_CONFLICT; E_RMA_SYNC;
            E_SERVICE; E_SIZE; E_SPAWN; E_UNSUPPORTED_DATAREP; E_UNSUPPORTED_OPERATION; E_WIN;
            E_RMA_RANGE; E_RMA_ATTACH; E_RMA_FLAVOR; E_RMA_SHARED; E_ANY_OTHER_CLASS] [].
Proof. exact @nsd_write_NC__MPI_File_write_at_all_2_partial. Qed.
Print Assumptions no_silent_drop_write_NC__MPI_File_write_at_all_2_partial.

Theorem no_silent_drop_ncmpio_read_write__MPI_File_read_at_all_refuted :
  ~
         no_silent_drop link_sites
           (site_of "ncmpio_file_io.c:ncmpio_read_write:MPI_File_read_at_all" io_sites).
Proof. exact @nsd_ncmpio_read_write__MPI_File_read_at_all_refuted. Qed.
Print Assumptions no_silent_drop_ncmpio_read_write__MPI_File_read_at_all_refuted.

Theorem no_silent_drop_ncmpio_read_write__MPI_File_read_at_all_partial :
  no_silent_drop_except link_sites
           (site_of "ncmpio_file_io.c:ncmpio_read_write:MPI_File_read_at_all" io_sites) []
           bad_link_ids.
Proof. exact @nsd_ncmpio_read_write__MPI_File_read_at_all_partial. Qed.
Print Assumptions no_silent_drop_ncmpio_read_write__MPI_File_read_at_all_partial.

Theorem no_silent_drop_ncmpio_read_write__MPI_File_read_at_refuted :
  ~
         no_silent_drop link_sites
           (site_of "ncmpio_file_io.c:ncmpio_read_write:MPI_File_read_at" io_sites).
Proof. exact @nsd_ncmpio_read_write__MPI_File_read_at_refuted. Qed.
Print Assumptions no_silent_drop_ncmpio_read_write__MPI_File_read_at_refuted.

Theorem no_silent_drop_ncmpio_read_write__MPI_File_read_at_partial :
  no_silent_drop_except link_sites
           (site_of "ncmpio_file_io.c:ncmpio_read_write:MPI_File_read_at" io_sites) [] bad_link_ids.
Proof. exact @nsd_ncmpio_read_write__MPI_File_read_at_partial. Qed.
Print Assumptions no_silent_drop_ncmpio_read_write__MPI_File_read_at_partial.

Theorem no_silent_drop_ncmpio_read_write__MPI_File_write_at_all_refuted :
  ~
         no_silent_drop link_sites
           (site_of "ncmpio_file_io.c:ncmpio_read_write:MPI_File_write_at_all" io_sites).
Proof. exact @nsd_ncmpio_read_write__MPI_File_write_at_all_refuted. Qed.
Print Assumptions no_silent_drop_ncmpio_read_write__MPI_File_write_at_all_refuted.

Theorem no_silent_drop_ncmpio_read_write__MPI_File_write_at_all_partial :
  no_silent_drop_except link_sites
           (site_of "ncmpio_file_io.c:ncmpio_read_write:MPI_File_write_at_all" io_sites) []
           bad_link_ids.
Proof. exact @nsd_ncmpio_read_write__MPI_File_write_at_all_partial. Qed.
Print Assumptions no_silent_drop_ncmpio_read_write__MPI_File_write_at_all_partial.

Theorem no_silent_drop_ncmpio_read_write__MPI_File_write_at_refuted :
  ~
         no_silent_drop link_sites
           (site_of "ncmpio_file_io.c:ncmpio_read_write:MPI_File_write_at" io_sites).
Proof. exact @nsd_ncmpio_read_write__MPI_File_write_at_refuted. Qed.
Print Assumptions no_silent_drop_ncmpio_read_write__MPI_File_write_at_refuted.

Theorem no_silent_drop_ncmpio_read_write__MPI_File_write_at_partial :
  no_silent_drop_except link_sites
           (site_of "ncmpio_file_io.c:ncmpio_read_write:MPI_File_write_at" io_sites) [] bad_link_ids.
Proof. exact @nsd_ncmpio_read_write__MPI_File_write_at_partial. Qed.
Print Assumptions no_silent_drop_ncmpio_read_write__MPI_File_write_at_partial.

Theorem no_silent_drop_fill_var_rec__MPI_File_write_at_all :
  no_silent_drop link_sites
           (site_of "ncmpio_fill.c:fill_var_rec:MPI_File_write_at_all" io_sites).
Proof. exact @nsd_fill_var_rec__MPI_File_write_at_all. Qed.
Print Assumptions no_silent_drop_fill_var_rec__MPI_File_write_at_all.

Theorem no_silent_drop_fill_var_rec__MPI_File_write_at :
  no_silent_drop link_sites (site_of "ncmpio_fill.c:fill_var_rec:MPI_File_write_at" io_sites).
Proof. exact @nsd_fill_var_rec__MPI_File_write_at. Qed.
Print Assumptions no_silent_drop_fill_var_rec__MPI_File_write_at.

Theorem no_silent_drop_fillerup_aggregate__MPI_File_write_at_all_refuted :
  ~
         no_silent_drop link_sites
           (site_of "ncmpio_fill.c:fillerup_aggregate:MPI_File_write_at_all" io_sites).
Proof. exact @nsd_fillerup_aggregate__MPI_File_write_at_all_refuted. Qed.
Print Assumptions no_silent_drop_fillerup_aggregate__MPI_File_write_at_all_refuted.

Theorem no_silent_drop_fillerup_aggregate__MPI_File_write_at_all_drops :
  drops_classes (site_of "ncmpio_fill.c:fillerup_aggregate:MPI_File_write_at_all" io_sites)
           [E_BUFFER; E_COUNT; E_TYPE; E_TAG; E_COMM; E_RANK; E_REQUEST; E_ROOT; E_GROUP; E_OP;
            E_TOPOLOGY; E_DIMS; E_ARG; E_UNKNOWN; E_TRUNCATE; E_OTHER; E_INTERN; E_IN_STATUS;
            E_PENDING; E_ACCESS; E_AMODE; E_ASSERT; E_BAD_FILE; E_BASE; E_CONVERSION; E_DISP;
            E_DUP_DATAREP; E_FILE_EXISTS; E_FILE_IN_USE; E_FILE; E_INFO_KEY; E_INFO_NOKEY;
            E_INFO_VALUE; E_INFO; E_IO; E_KEYVAL; E_LOCKTYPE; E_NAME; E_NO_MEM; E_NOT_SAME;
            E_NO_SPACE; E_NO_SUCH_FILE; E_PORT; E_QUOTA; E_READ_ONLY; E_RMA_CONFLICT; E_RMA_SYNC;
            E_SERVICE; E_SIZE; E_SPAWN; E_UNSUPPORTED_DATAREP; E_UNSUPPORTED_OPERATION; E_WIN;
            E_RMA_RANGE; E_RMA_ATTACH; E_RMA_FLAVOR; E_RMA_SHARED; E_ANY_OTHER_CLASS].
Proof. exact @nsd_fillerup_aggregate__MPI_File_write_at_all_drops. Qed.
Print Assumptions no_silent_drop_fillerup_aggregate__MPI_File_write_at_all_drops.

Theorem no_silent_drop_fillerup_aggregate__MPI_File_write_at_all_partial :
  no_silent_drop_except link_sites
           (site_of "ncmpio_fill.c:fillerup_aggregate:MPI_File_write_at_all" io_sites)
           [E_BUFFER; E_COUNT; E_TYPE; E_TAG; E_COMM; E_RANK; E_REQUEST; E_ROOT; E_GROUP; E_OP;
            E_TOPOLOGY; E_DIMS; E_ARG; E_UNKNOWN; E_TRUNCATE; E_OTHER; E_INTERN; E_IN_STATUS;
            E_PENDING; E_ACCESS; E_AMODE; E_ASSERT; E_BAD_FILE; E_BASE; E_CONVERSION; E_DISP;
            E_DUP_DATAREP; E_FILE_EXISTS; E_FILE_IN_USE; E_FILE; E_INFO_KEY; E_INFO_NOKEY;
            E_INFO_VALUE; E_INFO; E_IO; E_KEYVAL; E_LOCKTYPE; E_NAME; E_NO_MEM; E_NOT_SAME;
            E_NO_SPACE; E_NO_SUCH_FILE; E_PORT; E_QUOTA; E_READ_ONLY; E_RMA_CONFLICT; E_RMA_SYNC;
            E_SERVICE; E_SIZE; E_SPAWN; E_UNSUPPORTED_DATAREP; E_UNSUPPORTED_OPERATION; E_WIN;
            E_RMA_RANGE; E_RMA_ATTACH; E_RMA_FLAVOR; E_RMA_SHARED; E_ANY_OTHER_CLASS] [].
Proof. exact @nsd_fillerup_aggregate__MPI_File_write_at_all_partial. Qed.
Print Assumptions no_silent_drop_fillerup_aggregate__MPI_File_write_at_all_partial.

Theorem no_silent_drop_fillerup_aggregate__MPI_File_write_at_refuted :
  ~
         no_silent_drop link_sites
           (site_of "ncmpio_fill.c:fillerup_aggregate:MPI_File_write_at" io_sites).
Proof. exact @nsd_fillerup_aggregate__MPI_File_write_at_refuted. Qed.
Print Assumptions no_silent_drop_fillerup_aggregate__MPI_File_write_at_refuted.

Theorem no_silent_drop_fillerup_aggregate__MPI_File_write_at_drops :
  drops_classes (site_of "ncmpio_fill.c:fillerup_aggregate:MPI_File_write_at" io_sites)
           [E_BUFFER; E_COUNT; E_TYPE; E_TAG; E_COMM; E_RANK; E_REQUEST; E_ROOT; E_GROUP; E_OP;
            E_TOPOLOGY; E_DIMS; E_ARG; E_UNKNOWN; E_TRUNCATE; E_OTHER; E_INTERN; E_IN_STATUS;
            E_PENDING; E_ACCESS; E_AMODE; E_ASSERT; E_BAD_FILE; E_BASE; E_CONVERSION; E_DISP;
            E_DUP_DATAREP; E_FILE_EXISTS; E_FILE_IN_USE; E_FILE; E_INFO_KEY; E_INFO_NOKEY;
            E_INFO_VALUE; E_INFO; E_IO; E_KEYVAL; E_LOCKTYPE; E_NAME; E_NO_MEM; E_NOT_SAME;
            E_NO_SPACE; E_NO_SUCH_FILE; E_PORT; E_QUOTA; E_READ_ONLY; E_RMA_CONFLICT; E_RMA_SYNC;
            E_SERVICE; E_SIZE; E_SPAWN; E_UNSUPPORTED_DATAREP; E_UNSUPPORTED_OPERATION; E_WIN;
            E_RMA_RANGE; E_RMA_ATTACH; E_RMA_FLAVOR; E_RMA_SHARED; E_ANY_OTHER_CLASS].
Proof. exact @nsd_fillerup_aggregate__MPI_File_write_at_drops. Qed.
Print Assumptions no_silent_drop_fillerup_aggregate__MPI_File_write_at_drops.

Theorem no_silent_drop_fillerup_aggregate__MPI_File_write_at_partial :
  no_silent_drop_except link_sites
           (site_of "ncmpio_fill.c:fillerup_aggregate:MPI_File_write_at" io_sites)
           [E_BUFFER; E_COUNT; E_TYPE; E_TAG; E_COMM; E_RANK; E_REQUEST; E_ROOT; E_GROUP; E_OP;
            E_TOPOLOGY; E_DIMS; E_ARG; E_UNKNOWN; E_TRUNCATE; E_OTHER; E_INTERN; E_IN_STATUS;
            E_PENDING; E_ACCESS; E_AMODE; E_ASSERT; E_BAD_FILE; E_BASE; E_CONVERSION; E_DISP;
            E_DUP_DATAREP; E_FILE_EXISTS; E_FILE_IN_USE; E_FILE; E_INFO_KEY; E_INFO_NOKEY;
            E_INFO_VALUE; E_INFO; E_IO; E_KEYVAL; E_LOCKTYPE; E_NAME; E_NO_MEM; E_NOT_SAME;
            E_NO_SPACE; E_NO_SUCH_FILE; E_PORT; E_QUOTA; E_READ_ONLY; E_RMA_CONFLICT; E_RMA_SYNC;
            E_SERVICE; E_SIZE; E_SPAWN; E_UNSUPPORTED_DATAREP; E_UNSUPPORTED_OPERATION; E_WIN;
            E_RMA_RANGE; E_RMA_ATTACH; E_RMA_FLAVOR; E_RMA_SHARED; E_ANY_OTHER_CLASS] [].
Proof. exact @nsd_fillerup_aggregate__MPI_File_write_at_partial. Qed.
Print Assumptions no_silent_drop_fillerup_aggregate__MPI_File_write_at_partial.

Theorem no_silent_drop_hdr_fetch__MPI_File_read_at_all_1_refuted :
  ~
         no_silent_drop link_sites
           (site_of "ncmpio_header_get.c:hdr_fetch:MPI_File_read_at_all#1" io_sites).
Proof. exact @nsd_hdr_fetch__MPI_File_read_at_all_1_refuted. Qed.
Print Assumptions no_silent_drop_hdr_fetch__MPI_File_read_at_all_1_refuted.

Theorem no_silent_drop_hdr_fetch__MPI_File_read_at_all_1_partial :
  no_silent_drop_except link_sites
           (site_of "ncmpio_header_get.c:hdr_fetch:MPI_File_read_at_all#1" io_sites) [] bad_link_ids.
Proof. exact @nsd_hdr_fetch__MPI_File_read_at_all_1_partial. Qed.
Print Assumptions no_silent_drop_hdr_fetch__MPI_File_read_at_all_1_partial.

Theorem no_silent_drop_hdr_fetch__MPI_File_read_at_refuted :
  ~
         no_silent_drop link_sites
           (site_of "ncmpio_header_get.c:hdr_fetch:MPI_File_read_at" io_sites).
Proof. exact @nsd_hdr_fetch__MPI_File_read_at_refuted. Qed.
Print Assumptions no_silent_drop_hdr_fetch__MPI_File_read_at_refuted.

Theorem no_silent_drop_hdr_fetch__MPI_File_read_at_partial :
  no_silent_drop_except link_sites
           (site_of "ncmpio_header_get.c:hdr_fetch:MPI_File_read_at" io_sites) [] bad_link_ids.
Proof. exact @nsd_hdr_fetch__MPI_File_read_at_partial. Qed.
Print Assumptions no_silent_drop_hdr_fetch__MPI_File_read_at_partial.

Theorem no_silent_drop_hdr_fetch__MPI_File_read_at_all_2_refuted :
  ~
         no_silent_drop link_sites
           (site_of "ncmpio_header_get.c:hdr_fetch:MPI_File_read_at_all#2" io_sites).
Proof. exact @nsd_hdr_fetch__MPI_File_read_at_all_2_refuted. Qed.
Print Assumptions no_silent_drop_hdr_fetch__MPI_File_read_at_all_2_refuted.

Theorem no_silent_drop_hdr_fetch__MPI_File_read_at_all_2_drops :
  drops_classes (site_of "ncmpio_header_get.c:hdr_fetch:MPI_File_read_at_all#2" io_sites)
           [E_BUFFER; E_COUNT; E_TYPE; E_TAG; E_COMM; E_RANK; E_REQUEST; E_ROOT; E_GROUP; E_OP;
            E_TOPOLOGY; E_DIMS; E_ARG; E_UNKNOWN; E_TRUNCATE; E_OTHER; E_INTERN; E_IN_STATUS;
            E_PENDING; E_ACCESS; E_AMODE; E_ASSERT; E_BAD_FILE; E_BASE; E_CONVERSION; E_DISP;
            E_DUP_DATAREP; E_FILE_EXISTS; E_FILE_IN_USE; E_FILE; E_INFO_KEY; E_INFO_NOKEY;
            E_INFO_VALUE; E_INFO; E_IO; E_KEYVAL; E_LOCKTYPE; E_NAME; E_NO_MEM; E_NOT_SAME;
            E_NO_SPACE; E_NO_SUCH_FILE; E_PORT; E_QUOTA; E_READ_ONLY; E_RMA_CONFLICT; E_RMA_SYNC;
            E_SERVICE; E_SIZE; E_SPAWN; E_UNSUPPORTED_DATAREP; E_UNSUPPORTED_OPERATION; E_WIN;
            E_RMA_RANGE; E_RMA_ATTACH; E_RMA_FLAVOR; E_RMA_SHARED; E_ANY_OTHER_CLASS].
Proof. exact @nsd_hdr_fetch__MPI_File_read_at_all_2_drops. Qed.
Print Assumptions no_silent_drop_hdr_fetch__MPI_File_read_at_all_2_drops.

Theorem no_silent_drop_hdr_fetch__MPI_File_read_at_all_2_partial :
  no_silent_drop_except link_sites
           (site_of "ncmpio_header_get.c:hdr_fetch:MPI_File_read_at_all#2" io_sites)
           [E_BUFFER; E_COUNT; E_TYPE; E_TAG; E_COMM; E_RANK; E_REQUEST; E_ROOT; E_GROUP; E_OP;
            E_TOPOLOGY; E_DIMS; E_ARG; E_UNKNOWN; E_TRUNCATE; E_OTHER; E_INTERN; E_IN_STATUS;
            E_PENDING; E_ACCESS; E_AMODE; E_ASSERT; E_BAD_FILE; E_BASE; E_CONVERSION; E_DISP;
            E_DUP_DATAREP; E_FILE_EXISTS; E_FILE_IN_USE; E_FILE; E_INFO_KEY; E_INFO_NOKEY;
            E_INFO_VALUE; E_INFO; E_IO; E_KEYVAL; E_LOCKTYPE; E_NAME; E_NO_MEM; E_NOT_SAME;
            E_NO_SPACE; E_NO_SUCH_FILE; E_PORT; E_QUOTA; E_READ_ONLY; E_RMA_CONFLICT; E_RMA_SYNC;
            E_SERVICE; E_SIZE; E_SPAWN; E_UNSUPPORTED_DATAREP; E_UNSUPPORTED_OPERATION; E_WIN;
            E_RMA_RANGE; E_RMA_ATTACH; E_RMA_FLAVOR; E_RMA_SHARED; E_ANY_OTHER_CLASS] bad_link_ids.
Proof. exact @nsd_hdr_fetch__MPI_File_read_at_all_2_partial. Qed.
Print Assumptions no_silent_drop_hdr_fetch__MPI_File_read_at_all_2_partial.

Theorem no_silent_drop_ncmpio_write_header__MPI_File_write_at_all_1 :
  no_silent_drop link_sites
           (site_of "ncmpio_header_put.c:ncmpio_write_header:MPI_File_write_at_all#1" io_sites).
Proof. exact @nsd_ncmpio_write_header__MPI_File_write_at_all_1. Qed.
Print Assumptions no_silent_drop_ncmpio_write_header__MPI_File_write_at_all_1.

Theorem no_silent_drop_ncmpio_write_header__MPI_File_write_at :
  no_silent_drop link_sites
           (site_of "ncmpio_header_put.c:ncmpio_write_header:MPI_File_write_at" io_sites).
Proof. exact @nsd_ncmpio_write_header__MPI_File_write_at. Qed.
Print Assumptions no_silent_drop_ncmpio_write_header__MPI_File_write_at.

Theorem no_silent_drop_ncmpio_write_header__MPI_File_write_at_all_2_refuted :
  ~
         no_silent_drop link_sites
           (site_of "ncmpio_header_put.c:ncmpio_write_header:MPI_File_write_at_all#2" io_sites).
Proof. exact @nsd_ncmpio_write_header__MPI_File_write_at_all_2_refuted. Qed.
Print Assumptions no_silent_drop_ncmpio_write_header__MPI_File_write_at_all_2_refuted.

Theorem no_silent_drop_ncmpio_write_header__MPI_File_write_at_all_2_drops :
  drops_classes
           (site_of "ncmpio_header_put.c:ncmpio_write_header:MPI_File_write_at_all#2" io_sites)
           [E_BUFFER; E_COUNT; E_TYPE; E_TAG; E_COMM; E_RANK; E_REQUEST; E_ROOT; E_GROUP; E_OP;
            E_TOPOLOGY; E_DIMS; E_ARG; E_UNKNOWN; E_TRUNCATE; E_OTHER; E_INTERN; E_IN_STATUS;
            E_PENDING; E_ACCESS; E_AMODE; E_ASSERT; E_BAD_FILE; E_BASE; E_CONVERSION; E_DISP;
            E_DUP_DATAREP; E_FILE_EXISTS; E_FILE_IN_USE; E_FILE; E_INFO_KEY; E_INFO_NOKEY;
            E_INFO_VALUE; E_INFO; E_IO; E_KEYVAL; E_LOCKTYPE; E_NAME; E_NO_MEM; E_NOT_SAME;
            E_NO_SPACE; E_NO_SUCH_FILE; E_PORT; E_QUOTA; E_READ_ONLY; E_RMA_CONFLICT; E_RMA_SYNC;
            E_SERVICE; E_SIZE; E_SPAWN; E_UNSUPPORTED_DATAREP; E_UNSUPPORTED_OPERATION; E_WIN;
            E_RMA_RANGE; E_RMA_ATTACH; E_RMA_FLAVOR; E_RMA_SHARED; E_ANY_OTHER_CLASS].
Proof. exact @nsd_ncmpio_write_header__MPI_File_write_at_all_2_drops. Qed.
Print Assumptions no_silent_drop_ncmpio_write_header__MPI_File_write_at_all_2_drops.

Theorem no_silent_drop_ncmpio_write_header__MPI_File_write_at_all_2_partial :
  no_silent_drop_except link_sites
           (site_of "ncmpio_header_put.c:ncmpio_write_header:MPI_File_write_at_all#2" io_sites)
           [E_BUFFER; E_COUNT; E_TYPE; E_TAG; E_COMM; E_RANK; E_REQUEST; E_ROOT; E_GROUP; E_OP;
            E_TOPOLOGY; E_DIMS; E_ARG; E_UNKNOWN; E_TRUNCATE; E_OTHER; E_INTERN; E_IN_STATUS;
            E_PENDING; E_ACCESS; E_AMODE; E_ASSERT; E_BAD_FILE; E_BASE; E_CONVERSION; E_DISP;
            E_DUP_DATAREP; E_FILE_EXISTS; E_FILE_IN_USE; E_FILE; E_INFO_KEY; E_INFO_NOKEY;
            E_INFO_VALUE; E_INFO; E_IO; E_KEYVAL; E_LOCKTYPE; E_NAME; E_NO_MEM; E_NOT_SAME;
            E_NO_SPACE; E_NO_SUCH_FILE; E_PORT; E_QUOTA; E_READ_ONLY; E_RMA_CONFLICT; E_RMA_SYNC;
            E_SERVICE; E_SIZE; E_SPAWN; E_UNSUPPORTED_DATAREP; E_UNSUPPORTED_OPERATION; E_WIN;
            E_RMA_RANGE; E_RMA_ATTACH; E_RMA_FLAVOR; E_RMA_SHARED; E_ANY_OTHER_CLASS] [].
Proof. exact @nsd_ncmpio_write_header__MPI_File_write_at_all_2_partial. Qed.
Print Assumptions no_silent_drop_ncmpio_write_header__MPI_File_write_at_all_2_partial.

Theorem no_silent_drop_ncmpio_write_numrecs__MPI_File_write_at_all_1_refuted :
  ~
         no_silent_drop link_sites
           (site_of "ncmpio_sync.c:ncmpio_write_numrecs:MPI_File_write_at_all#1" io_sites).
Proof. exact @nsd_ncmpio_write_numrecs__MPI_File_write_at_all_1_refuted. Qed.
Print Assumptions no_silent_drop_ncmpio_write_numrecs__MPI_File_write_at_all_1_refuted.

Theorem no_silent_drop_ncmpio_write_numrecs__MPI_File_write_at_all_1_drops :
  drops_classes
           (site_of "ncmpio_sync.c:ncmpio_write_numrecs:MPI_File_write_at_all#1" io_sites)
           [E_BUFFER; E_COUNT; E_TYPE; E_TAG; E_COMM; E_RANK; E_REQUEST; E_ROOT; E_GROUP; E_OP;
            E_TOPOLOGY; E_DIMS; E_ARG; E_UNKNOWN; E_TRUNCATE; E_OTHER; E_INTERN; E_IN_STATUS;
            E_PENDING; E_ACCESS; E_AMODE; E_ASSERT; E_BAD_FILE; E_BASE; E_CONVERSION; E_DISP;
            E_DUP_DATAREP; E_FILE_EXISTS; E_FILE_IN_USE; E_FILE; E_INFO_KEY; E_INFO_NOKEY;
            E_INFO_VALUE; E_INFO; E_IO; E_KEYVAL; E_LOCKTYPE; E_NAME; E_NO_MEM; E_NOT_SAME;
            E_NO_SPACE; E_NO_SUCH_FILE; E_PORT; E_QUOTA; E_READ_ONLY; E_RMA_CONFLICT; E_RMA_SYNC;
            E_SERVICE; E_SIZE; E_SPAWN; E_UNSUPPORTED_DATAREP; E_UNSUPPORTED_OPERATION; E_WIN;
            E_RMA_RANGE; E_RMA_ATTACH; E_RMA_FLAVOR; E_RMA_SHARED; E_ANY_OTHER_CLASS].
Proof. exact @nsd_ncmpio_write_numrecs__MPI_File_write_at_all_1_drops. Qed.
Print Assumptions no_silent_drop_ncmpio_write_numrecs__MPI_File_write_at_all_1_drops.

Theorem no_silent_drop_ncmpio_write_numrecs__MPI_File_write_at_all_1_partial :
  no_silent_drop_except link_sites
           (site_of "ncmpio_sync.c:ncmpio_write_numrecs:MPI_File_write_at_all#1" io_sites)
           [E_BUFFER; E_COUNT; E_TYPE; E_TAG; E_COMM; E_RANK; E_REQUEST; E_ROOT; E_GROUP; E_OP;
            E_TOPOLOGY; E_DIMS; E_ARG; E_UNKNOWN; E_TRUNCATE; E_OTHER; E_INTERN; E_IN_STATUS;
            E_PENDING; E_ACCESS; E_AMODE; E_ASSERT; E_BAD_FILE; E_BASE; E_CONVERSION; E_DISP;
            E_DUP_DATAREP; E_FILE_EXISTS; E_FILE_IN_USE; E_FILE; E_INFO_KEY; E_INFO_NOKEY;
            E_INFO_VALUE; E_INFO; E_IO; E_KEYVAL; E_LOCKTYPE; E_NAME; E_NO_MEM; E_NOT_SAME;
            E_NO_SPACE; E_NO_SUCH_FILE; E_PORT; E_QUOTA; E_READ_ONLY; E_RMA_CONFLICT; E_RMA_SYNC;
            E_SERVICE; E_SIZE; E_SPAWN; E_UNSUPPORTED_DATAREP; E_UNSUPPORTED_OPERATION; E_WIN;
            E_RMA_RANGE; E_RMA_ATTACH; E_RMA_FLAVOR; E_RMA_SHARED; E_ANY_OTHER_CLASS] bad_link_ids.
Proof. exact @nsd_ncmpio_write_numrecs__MPI_File_write_at_all_1_partial. Qed.
Print Assumptions no_silent_drop_ncmpio_write_numrecs__MPI_File_write_at_all_1_partial.

Theorem no_silent_drop_ncmpio_write_numrecs__MPI_File_write_at_all_2_refuted :
  ~
         no_silent_drop link_sites
           (site_of "ncmpio_sync.c:ncmpio_write_numrecs:MPI_File_write_at_all#2" io_sites).
Proof. exact @nsd_ncmpio_write_numrecs__MPI_File_write_at_all_2_refuted. Qed.
Print Assumptions no_silent_drop_ncmpio_write_numrecs__MPI_File_write_at_all_2_refuted.

Theorem no_silent_drop_ncmpio_write_numrecs__MPI_File_write_at_all_2_drops :
  drops_classes
           (site_of "ncmpio_sync.c:ncmpio_write_numrecs:MPI_File_write_at_all#2" io_sites)
           [E_ACCESS; E_AMODE; E_BAD_FILE; E_FILE_EXISTS; E_NOT_SAME; E_NO_SPACE; E_NO_SUCH_FILE;
            E_QUOTA; E_READ_ONLY].
Proof. exact @nsd_ncmpio_write_numrecs__MPI_File_write_at_all_2_drops. Qed.
Print Assumptions no_silent_drop_ncmpio_write_numrecs__MPI_File_write_at_all_2_drops.

Theorem no_silent_drop_ncmpio_write_numrecs__MPI_File_write_at_all_2_partial :
  no_silent_drop_except link_sites
           (site_of "ncmpio_sync.c:ncmpio_write_numrecs:MPI_File_write_at_all#2" io_sites)
           [E_ACCESS; E_AMODE; E_BAD_FILE; E_FILE_EXISTS; E_NOT_SAME; E_NO_SPACE; E_NO_SUCH_FILE;
            E_QUOTA; E_READ_ONLY] bad_link_ids.
Proof. exact @nsd_ncmpio_write_numrecs__MPI_File_write_at_all_2_partial. Qed.
Print Assumptions no_silent_drop_ncmpio_write_numrecs__MPI_File_write_at_all_2_partial.

Theorem no_silent_drop_ncmpio_write_numrecs__MPI_File_write_at_refuted :
  ~
         no_silent_drop link_sites
           (site_of "ncmpio_sync.c:ncmpio_write_numrecs:MPI_File_write_at" io_sites).
Proof. exact @nsd_ncmpio_write_numrecs__MPI_File_write_at_refuted. Qed.
Print Assumptions no_silent_drop_ncmpio_write_numrecs__MPI_File_write_at_refuted.

Theorem no_silent_drop_ncmpio_write_numrecs__MPI_File_write_at_drops :
  drops_classes (site_of "ncmpio_sync.c:ncmpio_write_numrecs:MPI_File_write_at" io_sites)
           [E_ACCESS; E_AMODE; E_BAD_FILE; E_FILE_EXISTS; E_NOT_SAME; E_NO_SPACE; E_NO_SUCH_FILE;
            E_QUOTA; E_READ_ONLY].
Proof. exact @nsd_ncmpio_write_numrecs__MPI_File_write_at_drops. Qed.
Print Assumptions no_silent_drop_ncmpio_write_numrecs__MPI_File_write_at_drops.

Theorem no_silent_drop_ncmpio_write_numrecs__MPI_File_write_at_partial :
  no_silent_drop_except link_sites
           (site_of "ncmpio_sync.c:ncmpio_write_numrecs:MPI_File_write_at" io_sites)
           [E_ACCESS; E_AMODE; E_BAD_FILE; E_FILE_EXISTS; E_NOT_SAME; E_NO_SPACE; E_NO_SUCH_FILE;
            E_QUOTA; E_READ_ONLY] bad_link_ids.
Proof. exact @nsd_ncmpio_write_numrecs__MPI_File_write_at_partial. Qed.
Print Assumptions no_silent_drop_ncmpio_write_numrecs__MPI_File_write_at_partial.

Theorem no_silent_drop_ncmpio_getput_zero_req__MPI_File_read_all_refuted :
  ~
         no_silent_drop link_sites
           (site_of "ncmpio_wait.c:ncmpio_getput_zero_req:MPI_File_read_all" io_sites).
Proof. exact @nsd_ncmpio_getput_zero_req__MPI_File_read_all_refuted. Qed.
Print Assumptions no_silent_drop_ncmpio_getput_zero_req__MPI_File_read_all_refuted.

Theorem no_silent_drop_ncmpio_getput_zero_req__MPI_File_read_all_partial :
  no_silent_drop_except link_sites
           (site_of "ncmpio_wait.c:ncmpio_getput_zero_req:MPI_File_read_all" io_sites) []
           bad_link_ids.
Proof. exact @nsd_ncmpio_getput_zero_req__MPI_File_read_all_partial. Qed.
Print Assumptions no_silent_drop_ncmpio_getput_zero_req__MPI_File_read_all_partial.

Theorem no_silent_drop_ncmpio_getput_zero_req__MPI_File_read_refuted :
  ~
         no_silent_drop link_sites
           (site_of "ncmpio_wait.c:ncmpio_getput_zero_req:MPI_File_read" io_sites).
Proof. exact @nsd_ncmpio_getput_zero_req__MPI_File_read_refuted. Qed.
Print Assumptions no_silent_drop_ncmpio_getput_zero_req__MPI_File_read_refuted.

Theorem no_silent_drop_ncmpio_getput_zero_req__MPI_File_read_partial :
  no_silent_drop_except link_sites
           (site_of "ncmpio_wait.c:ncmpio_getput_zero_req:MPI_File_read" io_sites) [] bad_link_ids.
Proof. exact @nsd_ncmpio_getput_zero_req__MPI_File_read_partial. Qed.
Print Assumptions no_silent_drop_ncmpio_getput_zero_req__MPI_File_read_partial.

Theorem no_silent_drop_ncmpio_getput_zero_req__MPI_File_write_all_refuted :
  ~
         no_silent_drop link_sites
           (site_of "ncmpio_wait.c:ncmpio_getput_zero_req:MPI_File_write_all" io_sites).
Proof. exact @nsd_ncmpio_getput_zero_req__MPI_File_write_all_refuted. Qed.
Print Assumptions no_silent_drop_ncmpio_getput_zero_req__MPI_File_write_all_refuted.

Theorem no_silent_drop_ncmpio_getput_zero_req__MPI_File_write_all_partial :
  no_silent_drop_except link_sites
           (site_of "ncmpio_wait.c:ncmpio_getput_zero_req:MPI_File_write_all" io_sites) []
           bad_link_ids.
Proof. exact @nsd_ncmpio_getput_zero_req__MPI_File_write_all_partial. Qed.
Print Assumptions no_silent_drop_ncmpio_getput_zero_req__MPI_File_write_all_partial.

Theorem no_silent_drop_ncmpio_getput_zero_req__MPI_File_write_refuted :
  ~
         no_silent_drop link_sites
           (site_of "ncmpio_wait.c:ncmpio_getput_zero_req:MPI_File_write" io_sites).
Proof. exact @nsd_ncmpio_getput_zero_req__MPI_File_write_refuted. Qed.
Print Assumptions no_silent_drop_ncmpio_getput_zero_req__MPI_File_write_refuted.

Theorem no_silent_drop_ncmpio_getput_zero_req__MPI_File_write_partial :
  no_silent_drop_except link_sites
           (site_of "ncmpio_wait.c:ncmpio_getput_zero_req:MPI_File_write" io_sites) [] bad_link_ids.
Proof. exact @nsd_ncmpio_getput_zero_req__MPI_File_write_partial. Qed.
Print Assumptions no_silent_drop_ncmpio_getput_zero_req__MPI_File_write_partial.

Theorem chain_enddef_header_write :
  chain_reaches_api link_sites (chain_of "enddef: header write").
Proof. exact @ch_enddef_header_write. Qed.
Print Assumptions chain_enddef_header_write.

Theorem chain__enddef_header_write :
  chain_reaches_api link_sites (chain_of "_enddef: header write").
Proof. exact @ch__enddef_header_write. Qed.
Print Assumptions chain__enddef_header_write.

Theorem chain_put_collective_numrecs :
  chain_reaches_api link_sites (chain_of "put (collective): numrecs").
Proof. exact @ch_put_collective_numrecs. Qed.
Print Assumptions chain_put_collective_numrecs.

Theorem chain_sync_numrecs_numrecs :
  chain_reaches_api link_sites (chain_of "sync_numrecs: numrecs").
Proof. exact @ch_sync_numrecs_numrecs. Qed.
Print Assumptions chain_sync_numrecs_numrecs.

Theorem chain_sync_numrecs :
  chain_reaches_api link_sites (chain_of "sync: numrecs").
Proof. exact @ch_sync_numrecs. Qed.
Print Assumptions chain_sync_numrecs.

Theorem chain_end_indep_data_numrecs :
  chain_reaches_api link_sites (chain_of "end_indep_data: numrecs").
Proof. exact @ch_end_indep_data_numrecs. Qed.
Print Assumptions chain_end_indep_data_numrecs.

Theorem chain_close_independent_mode_numrecs :
  chain_reaches_api link_sites (chain_of "close (independent mode): numrecs").
Proof. exact @ch_close_independent_mode_numrecs. Qed.
Print Assumptions chain_close_independent_mode_numrecs.

Theorem chain_wait_all_numrecs_refuted :
  ~ chain_reaches_api link_sites (chain_of "wait_all: numrecs").
Proof. exact @ch_wait_all_numrecs_refuted. Qed.
Print Assumptions chain_wait_all_numrecs_refuted.

Theorem chain_wait_all_numrecs_partial :
  chain_reaches_api_except link_sites (chain_of "wait_all: numrecs") bad_link_ids.
Proof. exact @ch_wait_all_numrecs_partial. Qed.
Print Assumptions chain_wait_all_numrecs_partial.

Theorem chain_enddef_after_redef_move_fixed :
  chain_reaches_api link_sites (chain_of "enddef after redef: move fixed").
Proof. exact @ch_enddef_after_redef_move_fixed. Qed.
Print Assumptions chain_enddef_after_redef_move_fixed.

Theorem chain_enddef_after_redef_move_records :
  chain_reaches_api link_sites (chain_of "enddef after redef: move records").
Proof. exact @ch_enddef_after_redef_move_records. Qed.
Print Assumptions chain_enddef_after_redef_move_records.

Theorem chain_enddef_fill_new_variables :
  chain_reaches_api link_sites (chain_of "enddef: fill new variables").
Proof. exact @ch_enddef_fill_new_variables. Qed.
Print Assumptions chain_enddef_fill_new_variables.

Theorem chain_fill_var_rec :
  chain_reaches_api link_sites (chain_of "fill_var_rec").
Proof. exact @ch_fill_var_rec. Qed.
Print Assumptions chain_fill_var_rec.

Theorem chain_fill_var_rec_numrecs :
  chain_reaches_api link_sites (chain_of "fill_var_rec: numrecs").
Proof. exact @ch_fill_var_rec_numrecs. Qed.
Print Assumptions chain_fill_var_rec_numrecs.

Theorem chain_put_blocking :
  chain_reaches_api link_sites (chain_of "put (blocking)").
Proof. exact @ch_put_blocking. Qed.
Print Assumptions chain_put_blocking.

Theorem chain_put_independent :
  chain_reaches_api link_sites (chain_of "put (independent)").
Proof. exact @ch_put_independent. Qed.
Print Assumptions chain_put_independent.

Theorem chain_get_blocking :
  chain_reaches_api link_sites (chain_of "get (blocking)").
Proof. exact @ch_get_blocking. Qed.
Print Assumptions chain_get_blocking.

Theorem chain_get_independent :
  chain_reaches_api link_sites (chain_of "get (independent)").
Proof. exact @ch_get_independent. Qed.
Print Assumptions chain_get_independent.

Theorem chain_put_zero_length_participation :
  chain_reaches_api link_sites (chain_of "put, zero-length participation").
Proof. exact @ch_put_zero_length_participation. Qed.
Print Assumptions chain_put_zero_length_participation.

Theorem chain_get_zero_length_participation :
  chain_reaches_api link_sites (chain_of "get, zero-length participation").
Proof. exact @ch_get_zero_length_participation. Qed.
Print Assumptions chain_get_zero_length_participation.

Theorem chain_wait_all_refuted :
  ~ chain_reaches_api link_sites (chain_of "wait_all").
Proof. exact @ch_wait_all_refuted. Qed.
Print Assumptions chain_wait_all_refuted.

Theorem chain_wait_all_partial :
  chain_reaches_api_except link_sites (chain_of "wait_all") bad_link_ids.
Proof. exact @ch_wait_all_partial. Qed.
Print Assumptions chain_wait_all_partial.

Theorem chain_wait_all_one_request_per_call_refuted :
  ~ chain_reaches_api link_sites (chain_of "wait_all (one request per call)").
Proof. exact @ch_wait_all_one_request_per_call_refuted. Qed.
Print Assumptions chain_wait_all_one_request_per_call_refuted.

Theorem chain_wait_all_one_request_per_call_partial :
  chain_reaches_api_except link_sites (chain_of "wait_all (one request per call)")
           bad_link_ids.
Proof. exact @ch_wait_all_one_request_per_call_partial. Qed.
Print Assumptions chain_wait_all_one_request_per_call_partial.

Theorem chain_wait_independent_refuted :
  ~ chain_reaches_api link_sites (chain_of "wait (independent)").
Proof. exact @ch_wait_independent_refuted. Qed.
Print Assumptions chain_wait_independent_refuted.

Theorem chain_wait_independent_partial :
  chain_reaches_api_except link_sites (chain_of "wait (independent)") bad_link_ids.
Proof. exact @ch_wait_independent_partial. Qed.
Print Assumptions chain_wait_independent_partial.

Theorem chain_wait_all_zero_length_participation_refuted :
  ~ chain_reaches_api link_sites (chain_of "wait_all, zero-length participation").
Proof. exact @ch_wait_all_zero_length_participation_refuted. Qed.
Print Assumptions chain_wait_all_zero_length_participation_refuted.

Theorem chain_wait_all_zero_length_participation_partial :
  chain_reaches_api_except link_sites (chain_of "wait_all, zero-length participation")
           bad_link_ids.
Proof. exact @ch_wait_all_zero_length_participation_partial. Qed.
Print Assumptions chain_wait_all_zero_length_participation_partial.

Theorem chain_open_header_read :
  chain_reaches_api link_sites (chain_of "open: header read").
Proof. exact @ch_open_header_read. Qed.
Print Assumptions chain_open_header_read.

Theorem chain_open_header_read_variables_refuted :
  ~ chain_reaches_api link_sites (chain_of "open: header read (variables)").
Proof. exact @ch_open_header_read_variables_refuted. Qed.
Print Assumptions chain_open_header_read_variables_refuted.

Theorem chain_open_header_read_variables_partial :
  chain_reaches_api_except link_sites (chain_of "open: header read (variables)") bad_link_ids.
Proof. exact @ch_open_header_read_variables_partial. Qed.
Print Assumptions chain_open_header_read_variables_partial.

Theorem chain_put_att_in_data_mode_header_write :
  chain_reaches_api link_sites (chain_of "put_att in data mode: header write").
Proof. exact @ch_put_att_in_data_mode_header_write. Qed.
Print Assumptions chain_put_att_in_data_mode_header_write.

Theorem chain_rename_var_in_data_mode_header_write :
  chain_reaches_api link_sites (chain_of "rename_var in data mode: header write").
Proof. exact @ch_rename_var_in_data_mode_header_write. Qed.
Print Assumptions chain_rename_var_in_data_mode_header_write.
