(* Logical.v — the LOGICAL CONTENT of a classic netCDF file (what the offline utilities
   ncmpidiff/cdfdiff compare, what ncmpidump prints and ncmpigen regenerates), independent of
   the file layout, and an encoder with FREE layout (gaps between variables, junk in the free
   space, arbitrary header free space) that places a given content at chosen offsets.

     logical_content bytes  = decode the header with the grammar decoder of HeaderSpec.v
                              (written from the format BNF), then read every variable's
                              elements at the offsets the format prescribes
                              (begin, + r * recsize for record r), row-major, records outermost
     logical_eq             = boolean equality of two logical contents (incl. format version)
     content_eq             = the same without the format version
     encode_with_layout     = header (encode_header of Header.v) ++ free space ++ fixed-size
                              variables with gaps ++ gap ++ records ++ tail

   Executable model (extracted by ExtractLogical.v into the oracle program harness/c20_oracle.ml);
   no proofs here: Proofs_Logical.v. *)
From Pnc Require Export HeaderSpec.
Local Open Scope Z_scope.

(* ---------- logical content ---------- *)
Record lvar := mklvar { lv_name : list byte; lv_type : Z; lv_dimids : list Z;
                        lv_atts : list att;
                        lv_data : list (list byte) }.   (* elements (external bytes), row-major,
                                                            record variables: record by record *)
Record logical := mklogical { lg_format : Z;
                              lg_numrecs : Z;           (* length of the unlimited dimension;
                                                            0 when there is none *)
                              lg_dims : list dim;       (* size 0 = the unlimited dimension *)
                              lg_gatts : list att;
                              lg_vars : list lvar }.

Definition has_unlim (dims : list dim) : bool := existsb (fun d => d_size d =? 0) dims.

(* ---------- reading the data section ---------- *)
(* n consecutive elements of xsz bytes from the front of l (short/empty elements past the
   end of the file) *)
Fixpoint take_elems (xsz : Z) (n : nat) (l : list byte) : list (list byte) :=
  match n with
  | O => []
  | S k => zfirstn xsz l :: take_elems xsz k (zskipn xsz l)
  end.

(* nper elements from each of n records; consecutive records are recsize bytes apart *)
Fixpoint take_records (xsz : Z) (nper : nat) (recsize : Z) (n : nat) (cur : list byte)
  : list (list byte) :=
  match n with
  | O => []
  | S k => take_elems xsz nper cur ++ take_records xsz nper recsize k (zskipn recsize cur)
  end.

Definition var_data (bytes : list byte) (dims : list dim) (numrecs recsize : Z) (v : var)
  : list (list byte) :=
  let xsz := xlen_type (v_type v) in
  let nper := Z.to_nat (var_nelems_per_rec (var_shape dims v)) in
  let cur := zskipn (v_begin v) bytes in
  if is_recvar dims v then take_records xsz nper recsize (Z.to_nat numrecs) cur
  else take_elems xsz nper cur.

Definition lvar_of (bytes : list byte) (dims : list dim) (numrecs recsize : Z) (v : var) : lvar :=
  mklvar (v_name v) (v_type v) (v_dimids v) (v_atts v) (var_data bytes dims numrecs recsize v).

(* record size as the format defines it = as the library derives it at open
   (HeaderSpec.layout_of_hdr): sum of the padded sizes of the record variables, except that a
   single record variable is packed *)
Definition logical_of (bytes : list byte) (d : decoded) : logical :=
  let h := dc_hdr d in
  let recsize := l_recsize (layout_of_hdr h (dc_len d)) in
  mklogical (h_format h)
            (if has_unlim (h_dims h) then h_numrecs h else 0)
            (h_dims h) (h_gatts h)
            (map (lvar_of bytes (h_dims h) (h_numrecs h) recsize) (h_vars h)).

Definition logical_content (bytes : list byte) : option logical :=
  match decode bytes with
  | Some d => Some (logical_of bytes d)
  | None => None
  end.

(* ---------- equality of logical contents ---------- *)
Definition dim_eqb (a b : dim) : bool :=
  bytes_eqb (d_name a) (d_name b) && (d_size a =? d_size b).

Definition att_eqb (a b : att) : bool :=
  bytes_eqb (a_name a) (a_name b) && (a_type a =? a_type b) && (a_nelems a =? a_nelems b) &&
  bytes_eqb (a_data a) (a_data b).

Definition lvar_eqb (a b : lvar) : bool :=
  bytes_eqb (lv_name a) (lv_name b) && (lv_type a =? lv_type b) &&
  list_eqb Z.eqb (lv_dimids a) (lv_dimids b) && list_eqb att_eqb (lv_atts a) (lv_atts b) &&
  list_eqb bytes_eqb (lv_data a) (lv_data b).

Definition content_eq (a b : logical) : bool :=
  (lg_numrecs a =? lg_numrecs b) && list_eqb dim_eqb (lg_dims a) (lg_dims b) &&
  list_eqb att_eqb (lg_gatts a) (lg_gatts b) && list_eqb lvar_eqb (lg_vars a) (lg_vars b).

Definition logical_eq (a b : logical) : bool :=
  (lg_format a =? lg_format b) && content_eq a b.

(* the expectation for the validator: the header parses by the grammar, satisfies the strict
   format predicate, and the begins are ordered / non overlapping / after the header *)
Definition file_valid (bytes : list byte) : bool :=
  match decode bytes with
  | Some d => strict_valid d && layout_ok (dc_hdr d) (dc_len d)
  | None => false
  end.

(* ---------- encoder with free layout ---------- *)
Record layout_choice := mklc {
  lc_hfree : list byte;          (* bytes between the end of the header and the data section
                                    (header free space; any content) *)
  lc_gaps : list (list byte);    (* lc_gaps[i]: bytes placed before variable i when it is a
                                    fixed-size variable (alignment gap; any content);
                                    missing entries = no gap *)
  lc_recgap : list byte;         (* bytes between the fixed-size section and the first record *)
  lc_tail : list byte }.         (* bytes after the last record *)

Definition var_of (v : lvar) (b : Z) : var :=
  mkvar (lv_name v) (lv_dimids v) (lv_atts v) (lv_type v) b true.

Definition hdr_of (c : logical) (bl : list Z) : hdr :=
  mkhdr (lg_format c) (lg_numrecs c) (lg_dims c) (lg_gatts c)
        (map (fun p => var_of (fst p) (snd p)) (zip (lg_vars c) bl)).

Definition lx_isrec (dims : list dim) (v : lvar) : bool := is_recvar dims (var_of v 0).
Definition lx_xsz (v : lvar) : Z := xlen_type (lv_type v).
Definition lx_nper (dims : list dim) (v : lvar) : Z := var_nelems_per_rec (var_shape dims (var_of v 0)).
Definition lx_len (dims : list dim) (v : lvar) : Z := var_len dims (var_of v 0).

(* the "exactly one record variable" rule, in the form the library and the validator test it:
   the sum of the record variables' padded sizes equals the first one's *)
Definition rec_packed (dims : list dim) (vs : list lvar) : bool :=
  let recs := filter (lx_isrec dims) vs in
  match recs with
  | fr :: _ => zsum (map (lx_len dims) recs) =? lx_len dims fr
  | [] => false
  end.

(* bytes one record of variable v occupies *)
Definition lx_slot (dims : list dim) (packed : bool) (v : lvar) : Z :=
  if packed then lx_nper dims v * lx_xsz v else lx_len dims v.

Definition pad_to (n : Z) (l : list byte) : list byte := l ++ zeros (n - Zlen l).

Definition fixed_payload (dims : list dim) (v : lvar) : list byte :=
  pad_to (lx_len dims v) (concat (lv_data v)).

(* elements of record r *)
Definition slab (nper r : nat) (data : list (list byte)) : list (list byte) :=
  firstn nper (skipn (r * nper) data).

Definition rec_payload (dims : list dim) (packed : bool) (v : lvar) (r : nat) : list byte :=
  pad_to (lx_slot dims packed v) (concat (slab (Z.to_nat (lx_nper dims v)) r (lv_data v))).

Fixpoint enc_fixed (dims : list dim) (vs : list lvar) (gaps : list (list byte)) : list byte :=
  match vs with
  | [] => []
  | v :: r =>
      if lx_isrec dims v then enc_fixed dims r (tl gaps)
      else hd [] gaps ++ fixed_payload dims v ++ enc_fixed dims r (tl gaps)
  end.

Definition rec_bytes (dims : list dim) (packed : bool) (vs : list lvar) (r : nat) : list byte :=
  flat_map (fun v => if lx_isrec dims v then rec_payload dims packed v r else []) vs.

Definition enc_records (dims : list dim) (packed : bool) (vs : list lvar) (n : nat) : list byte :=
  flat_map (rec_bytes dims packed vs) (seq 0 n).

(* begins: fixed-size variables follow the cursor curf through the fixed section (after their
   gap); record variables follow curr through the first record *)
Fixpoint begins_of (dims : list dim) (packed : bool) (vs : list lvar) (gaps : list (list byte))
         (curf curr : Z) : list Z :=
  match vs with
  | [] => []
  | v :: r =>
      if lx_isrec dims v
      then curr :: begins_of dims packed r (tl gaps) curf (curr + lx_slot dims packed v)
      else let b := curf + Zlen (hd [] gaps) in
           b :: begins_of dims packed r (tl gaps) (b + lx_len dims v) curr
  end.

Definition layout_begins (c : logical) (lc : layout_choice) : list Z :=
  let dims := lg_dims c in
  let vs := lg_vars c in
  let hl := hdr_len (hdr_of c (map (fun _ => 0) vs)) in
  let bv := hl + Zlen (lc_hfree lc) in
  let br := bv + Zlen (enc_fixed dims vs (lc_gaps lc)) + Zlen (lc_recgap lc) in
  begins_of dims (rec_packed dims vs) vs (lc_gaps lc) bv br.

Definition encode_with_layout (c : logical) (lc : layout_choice) : list byte :=
  let dims := lg_dims c in
  let vs := lg_vars c in
  let packed := rec_packed dims vs in
  encode_header (hdr_of c (layout_begins c lc)) ++ lc_hfree lc ++
  enc_fixed dims vs (lc_gaps lc) ++ lc_recgap lc ++
  enc_records dims packed vs (Z.to_nat (lg_numrecs c)) ++ lc_tail lc.

(* the tight layout: no free space, no gaps (every variable size is a multiple of 4) *)
Definition tight : layout_choice := mklc [] [] [] [].

(* ---------- well-formed content (what a file can hold) ---------- *)
Definition elems_ok (xsz : Z) (n : Z) (data : list (list byte)) : bool :=
  forallb (fun e => Zlen e =? xsz) data && (Zlen data =? n).

Definition lvar_data_ok (dims : list dim) (numrecs : Z) (v : lvar) : bool :=
  elems_ok (lx_xsz v)
           (if lx_isrec dims v then numrecs * lx_nper dims v else lx_nper dims v)
           (lv_data v).

(* Content-only conditions:
   - the header fields fit their on-disk fields (Proofs_Header.wf_hdr, with all begins 0) —
     stated here with the executable pieces so that this file needs no proof file;
   - numrecs is 0 when no dimension is unlimited (it is then not observable);
   - every variable holds exactly the elements of its shape, each of the size of its type. *)
Definition data_ok (c : logical) : bool :=
  (has_unlim (lg_dims c) || (lg_numrecs c =? 0)) &&
  forallb (lvar_data_ok (lg_dims c) (lg_numrecs c)) (lg_vars c).

(* ---------- single logical edits (used by logical_eq_detects_single_edit) ---------- *)
Definition set_data (v : lvar) (d : list (list byte)) : lvar :=
  mklvar (lv_name v) (lv_type v) (lv_dimids v) (lv_atts v) d.
Definition set_vname (v : lvar) (n : list byte) : lvar :=
  mklvar n (lv_type v) (lv_dimids v) (lv_atts v) (lv_data v).
Definition set_vatts (v : lvar) (l : list att) : lvar :=
  mklvar (lv_name v) (lv_type v) (lv_dimids v) l (lv_data v).
Definition set_vars (c : logical) (l : list lvar) : logical :=
  mklogical (lg_format c) (lg_numrecs c) (lg_dims c) (lg_gatts c) l.
Definition set_gatts (c : logical) (l : list att) : logical :=
  mklogical (lg_format c) (lg_numrecs c) (lg_dims c) l (lg_vars c).
Definition set_dims (c : logical) (l : list dim) : logical :=
  mklogical (lg_format c) (lg_numrecs c) l (lg_gatts c) (lg_vars c).
Definition set_format (c : logical) (f : Z) : logical :=
  mklogical f (lg_numrecs c) (lg_dims c) (lg_gatts c) (lg_vars c).
Definition set_numrecs_l (c : logical) (n : Z) : logical :=
  mklogical (lg_format c) n (lg_dims c) (lg_gatts c) (lg_vars c).

Definition dlv : lvar := mklvar [] 0 [] [] [].
Definition datt : att := mkatt [] 0 0 [].
Definition ddim : dim := mkdim [] 0.

(* byte j of element k of variable i becomes b *)
Definition edit_value (c : logical) (i k j b : Z) : logical :=
  let v := znth (lg_vars c) i dlv in
  let e := znth (lv_data v) k [] in
  set_vars c (zupd (lg_vars c) i (set_data v (zupd (lv_data v) k (zupd e j b)))).

Definition att_set_byte (a : att) (j b : Z) : att :=
  mkatt (a_name a) (a_type a) (a_nelems a) (zupd (a_data a) j b).
Definition att_set_name (a : att) (n : list byte) : att :=
  mkatt n (a_type a) (a_nelems a) (a_data a).

(* byte j of the value of global attribute i becomes b *)
Definition edit_gatt_value (c : logical) (i j b : Z) : logical :=
  set_gatts c (zupd (lg_gatts c) i (att_set_byte (znth (lg_gatts c) i datt) j b)).

(* byte j of the value of attribute a of variable i becomes b *)
Definition edit_vatt_value (c : logical) (i a j b : Z) : logical :=
  let v := znth (lg_vars c) i dlv in
  set_vars c (zupd (lg_vars c) i
                (set_vatts v (zupd (lv_atts v) a (att_set_byte (znth (lv_atts v) a datt) j b)))).

Definition edit_var_name (c : logical) (i : Z) (n : list byte) : logical :=
  set_vars c (zupd (lg_vars c) i (set_vname (znth (lg_vars c) i dlv) n)).
Definition edit_dim_name (c : logical) (i : Z) (n : list byte) : logical :=
  set_dims c (zupd (lg_dims c) i (mkdim n (d_size (znth (lg_dims c) i ddim)))).
Definition edit_gatt_name (c : logical) (i : Z) (n : list byte) : logical :=
  set_gatts c (zupd (lg_gatts c) i (att_set_name (znth (lg_gatts c) i datt) n)).
(* the length of dimension i becomes n; the variables' data are whatever the new shape needs
   (vs' is arbitrary) *)
Definition edit_dim_len (c : logical) (i n : Z) (vs' : list lvar) : logical :=
  set_vars (set_dims c (zupd (lg_dims c) i (mkdim (d_name (znth (lg_dims c) i ddim)) n))) vs'.
