(* Extract_C09.v — extraction of the C09 conversion model and specification to OCaml
   (ExtrOcamlBasic only; Z, positive, nat stay Coq datatypes; no Extract Constant). *)
Require Extraction.
Require ExtrOcamlBasic.
From Pnc Require Import Gen_ncx Convert.
Extraction Language OCaml.
Extraction "c09_model.ml" api_model api_spec leaf_model leaf_spec model1 spec1 ncx_unrecognised
           nb_model nb_spec varn_model varn_spec mput_model mput_spec.
