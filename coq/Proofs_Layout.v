(* Proofs_Layout.v — the offset assignment of ncmpi_enddef (Header.begins = NC_begins of
   ncmpio_enddef.c, Header.resolve_align = the alignment resolution of ncmpio__enddef):

     resolve_align_ok        the three resolved alignments are >= 4 and multiples of 4
     begins_eq               begins = an explicit, accumulator-free closed form
     begins_layout_ok        NEW file: the layout is well formed (HeaderSpec.layout_ok), honours
                             h_minfree / v_minfree / h_align / r_align, recsize rule
     begins_lay_inv_redef    REDEFINITION: the invariant lay_inv is preserved
     begins_monotone         no variable, begin_var, begin_rec, recsize ever decreases
     begins_layout_ok_redef  layout_ok after a redefinition
     begins_redef_facts      the index-level facts needed by the data mover (Proofs_Redef.v)
     begins_none_iff / begins_none_iff_new / enddef_size_verdict / enddef_fails_iff
                             C18: when does enddef fail with NC_EVARSIZE
     vsize_saturation        the vsize field read back is expected_vsize
     hdr_extends_append      appending dimensions / variables extends the header
     reachable_lay_inv       the invariant holds after EVERY history
                             create; enddef; (redef; extend; enddef | close; open)*
     layout_of_hdr_agrees    the layout re-derived from the header at open agrees
     begin_var_minfree_refuted, redef_needs_contig_cex   two requested statements that are false

   All statements are about the model functions of Header.v, for every header (any number of
   variables), every alignment request and every redefinition history.  No model definition is
   modified. *)
From Pnc Require Import Base Gen_consts Header HeaderSpec Proofs_Base Proofs_Header.
From Pnc Require Proofs_Vlen.
Require Import Lia ZArith List Bool ZifyBool.
Import ListNotations.
Ltac Zify.zify_post_hook ::= Z.div_mod_to_equations.
Local Open Scope Z_scope.

Local Arguments Z.mul : simpl never.
Local Arguments Z.add : simpl never.
Local Arguments Z.sub : simpl never.
Local Arguments Z.div : simpl never.
Local Arguments Z.modulo : simpl never.
Local Arguments Z.max : simpl never.
Local Arguments Z.of_nat : simpl never.
Local Arguments Z.to_nat : simpl never.

(* ====================================================================== *)
(** * 0. Arithmetic of rndup (the D_RNDUP macro) and small list facts      *)
(* ====================================================================== *)

Lemma zmax_if : forall a b, (if a <? b then b else a) = Z.max a b.
Proof. intros a b. destruct (Z.ltb_spec a b); lia. Qed.

Lemma rndup_pos : forall x a, 0 < a ->
  x <= rndup x a < x + a /\ rndup x a mod a = 0.
Proof.
  intros x a Ha. unfold rndup. replace (a =? 0) with false by lia.
  pose proof (Z.div_mod (x + a - 1) a ltac:(lia)) as Hdm.
  pose proof (Z.mod_pos_bound (x + a - 1) a Ha) as Hm.
  split.
  - set (q := (x + a - 1) / a) in *. set (m := (x + a - 1) mod a) in *. clearbody q m. nia.
  - apply Z.mod_mul. lia.
Qed.

Lemma rndup_mult4 : forall x a, 0 < a -> a mod 4 = 0 -> rndup x a mod 4 = 0.
Proof.
  intros x a Ha H4. unfold rndup. replace (a =? 0) with false by lia.
  apply Z.mod_divide; [lia|]. apply Z.divide_mul_r. apply Z.mod_divide; [lia|exact H4].
Qed.

Lemma rndup4_bounds : forall x, x <= rndup x 4 < x + 4 /\ rndup x 4 mod 4 = 0.
Proof. intros x. apply rndup_pos. lia. Qed.

Lemma rndup4_id : forall x, x mod 4 = 0 -> rndup x 4 = x.
Proof. intros x H. pose proof (rndup4_bounds x). lia. Qed.

Lemma rndup4_le : forall x y, x <= y -> y mod 4 = 0 -> rndup x 4 <= y.
Proof. intros x y H H4. pose proof (rndup4_bounds x). lia. Qed.

Lemma rndup_id : forall x a, 0 < a -> x mod a = 0 -> rndup x a = x.
Proof.
  intros x a Ha H. destruct (rndup_pos x a Ha) as [Hb Hm].
  apply Z.mod_divide in H; [|lia]. apply Z.mod_divide in Hm; [|lia].
  destruct H as [k Hk]. destruct Hm as [k' Hk'].
  set (r := rndup x a) in *. clearbody r. subst x r.
  assert (k' = k) by nia. subst k'. reflexivity.
Qed.

Lemma length_Zlen : forall A (l : list A), Zlen l = Z.of_nat (length l).
Proof. reflexivity. Qed.

Lemma length_eq_Zlen : forall A B (a : list A) (b : list B),
  length a = length b <-> Zlen a = Zlen b.
Proof. intros. unfold Zlen. lia. Qed.

Lemma znth_cons_0 : forall A (x : A) l d, znth (x :: l) 0 d = x.
Proof. reflexivity. Qed.

Lemma znth_cons_pos : forall A (x : A) l i d, i <> 0 -> znth (x :: l) i d = znth l (i - 1) d.
Proof. intros A x l i d H. cbn [znth]. destruct (Z.eqb_spec i 0); [contradiction|reflexivity]. Qed.

Lemma znth_app_l : forall A (l1 l2 : list A) i d, 0 <= i < Zlen l1 ->
  znth (l1 ++ l2) i d = znth l1 i d.
Proof.
  intros A l1. induction l1 as [|x l1 IH]; intros l2 i d Hi.
  - rewrite Zlen_nil in Hi. lia.
  - rewrite Zlen_cons in Hi. cbn [app znth].
    destruct (Z.eqb_spec i 0); [reflexivity|]. apply IH. lia.
Qed.

Lemma znth_map_in : forall A B (f : A -> B) l i da db, 0 <= i < Zlen l ->
  znth (map f l) i db = f (znth l i da).
Proof.
  intros A B f l. induction l as [|x l IH]; intros i da db Hi.
  - rewrite Zlen_nil in Hi. lia.
  - rewrite Zlen_cons in Hi. cbn [map znth].
    destruct (Z.eqb_spec i 0); [reflexivity|]. apply IH. lia.
Qed.

Lemma last_opt_snoc : forall A (l : list A) x, last_opt (l ++ [x]) = Some x.
Proof. intros A l x. unfold last_opt. rewrite rev_app_distr. reflexivity. Qed.

Lemma last_opt_nil : forall A, last_opt (@nil A) = None.
Proof. reflexivity. Qed.

Lemma last_opt_map : forall A B (f : A -> B) l,
  last_opt (map f l) = option_map f (last_opt l).
Proof.
  intros A B f l. unfold last_opt. rewrite <- map_rev. destruct (rev l); reflexivity.
Qed.

Lemma filter_map_comm : forall A B (f : A -> B) (p : B -> bool) l,
  filter p (map f l) = map f (filter (fun x => p (f x)) l).
Proof.
  intros A B f p l. induction l as [|x l IH]; [reflexivity|].
  cbn [map filter]. destruct (p (f x)); cbn [map]; rewrite IH; reflexivity.
Qed.

(* ====================================================================== *)
(** * 1. resolve_align                                                     *)
(* ====================================================================== *)

Lemma fin_align_ok : forall x, 0 <= x ->
  4 <= (if x =? 0 then 4 else rndup x 4) /\ (if x =? 0 then 4 else rndup x 4) mod 4 = 0.
Proof.
  intros x Hx. destruct (Z.eqb_spec x 0) as [E|E]; [split; [lia|reflexivity]|].
  pose proof (rndup4_bounds x). lia.
Qed.

(** every resolved alignment is at least 4 and a multiple of 4, whatever hints and arguments
    (non-negative: negative arguments are rejected with NC_EINVAL before) are given *)
Theorem resolve_align_ok : forall cfg ea nfix is_new ha va ra,
  0 <= env_h_align cfg -> 0 <= env_v_align cfg -> 0 <= env_r_align cfg ->
  0 <= e_v_align ea -> 0 <= e_r_align ea ->
  resolve_align cfg ea nfix is_new = (ha, va, ra) ->
  (4 <= ha /\ ha mod 4 = 0) /\ (4 <= va /\ va mod 4 = 0) /\ (4 <= ra /\ ra mod 4 = 0).
Proof.
  intros cfg ea nfix is_new ha va ra Hh Hv Hr Hev Her H.
  unfold resolve_align in H. cbv zeta in H.
  injection H as H1 H2 H3. subst ha va ra.
  split; [|split]; apply fin_align_ok.
  - destruct (env_h_align cfg =? 0); [|exact Hh].
    set (h' := if env_v_align cfg >? 0 then env_v_align cfg
               else if e_v_align ea >? 0 then e_v_align ea else env_h_align cfg).
    assert (Hh' : 0 <= h').
    { unfold h'. destruct (env_v_align cfg >? 0); [exact Hv|].
      destruct (e_v_align ea >? 0); assumption. }
    set (h'' := if (h' =? 0) && (nfix =? 0)
                then (if env_r_align cfg >? 0 then env_r_align cfg
                      else if e_r_align ea >? 0 then e_r_align ea else h') else h').
    assert (Hh'' : 0 <= h'').
    { unfold h''. destruct ((h' =? 0) && (nfix =? 0)); [|exact Hh'].
      destruct (env_r_align cfg >? 0); [exact Hr|].
      destruct (e_r_align ea >? 0); assumption. }
    destruct ((h'' =? 0) && is_new); [unfold FILE_ALIGNMENT_DEFAULT; lia|exact Hh''].
  - destruct (env_v_align cfg =? 0); [|exact Hv].
    destruct (e_v_align ea >? 0); assumption.
  - destruct (env_r_align cfg =? 0); [|exact Hr].
    destruct (e_r_align ea >? 0); assumption.
Qed.

Example resolve_align_ex :
  resolve_align (mkalign 0 0 0) (mkeargs 0 0 0 0) 2 true = (512, 4, 4) /\
  resolve_align (mkalign 0 0 0) (mkeargs 0 0 0 0) 2 false = (4, 4, 4) /\
  resolve_align (mkalign 0 0 0) (mkeargs 0 513 0 62) 2 true = (516, 516, 64) /\
  resolve_align (mkalign 0 0 0) (mkeargs 0 0 0 62) 0 true = (64, 4, 64) /\
  resolve_align (mkalign 1000 0 30) (mkeargs 0 513 0 62) 0 true = (1000, 516, 32).
Proof. vm_compute. repeat split. Qed.

(* ====================================================================== *)
(** * 2. Accumulator-free closed forms of the two passes of NC_begins      *)
(* ====================================================================== *)

Notation vlist := (list (bool * Z)).            (* (is record variable, len) *)

(* begin of the next fixed variable: round the running end up to 4, never below the old begin *)
Definition fix_b (e : Z) (oldb : list Z) : Z :=
  match oldb with ob :: _ => Z.max (rndup e 4) ob | [] => rndup e 4 end.

(* begin of the next record variable: the running end, never below the old begin *)
Definition rec_b (e : Z) (oldb : list Z) : Z :=
  match oldb with ob :: _ => Z.max e ob | [] => e end.

Fixpoint fbegins (vs : vlist) (oldb : list Z) (e : Z) : list (option Z) :=
  match vs with
  | [] => []
  | (true, _) :: r => None :: fbegins r oldb e
  | (false, len) :: r => Some (fix_b e oldb) :: fbegins r (tl oldb) (fix_b e oldb + len)
  end.

Fixpoint fend (vs : vlist) (oldb : list Z) (e : Z) : Z :=
  match vs with
  | [] => e
  | (true, _) :: r => fend r oldb e
  | (false, len) :: r => fend r (tl oldb) (fix_b e oldb + len)
  end.

(* the values of end_var that NC_begins compares with NC_MAX_INT, fixed pass *)
Fixpoint fstarts (vs : vlist) (oldb : list Z) (e : Z) : list Z :=
  match vs with
  | [] => []
  | (true, _) :: r => fstarts r oldb e
  | (false, len) :: r => e :: fstarts r (tl oldb) (fix_b e oldb + len)
  end.

Fixpoint rbegins (vs : vlist) (oldb : list Z) (e : Z) : list (option Z) :=
  match vs with
  | [] => []
  | (false, _) :: r => None :: rbegins r oldb e
  | (true, len) :: r => Some (rec_b e oldb) :: rbegins r (tl oldb) (e + len)
  end.

(* sum of the lens of the record variables *)
Fixpoint rsum (vs : vlist) : Z :=
  match vs with
  | [] => 0
  | (false, _) :: r => rsum r
  | (true, len) :: r => len + rsum r
  end.

(* len of the last record variable *)
Fixpoint rlast (vs : vlist) (d : option Z) : option Z :=
  match vs with
  | [] => d
  | (false, _) :: r => rlast r d
  | (true, len) :: r => rlast r (Some len)
  end.

(* the values of end_var compared with NC_MAX_INT, record pass *)
Fixpoint rstarts (vs : vlist) (e : Z) : list Z :=
  match vs with
  | [] => []
  | (false, _) :: r => rstarts r e
  | (true, len) :: r => e :: rstarts r (e + len)
  end.

Definition over_int (l : list Z) : bool := existsb (fun s => s >? NC_MAX_INT) l.

Lemma begins_fixed_eq : forall fmt vs oldb e acc,
  begins_fixed fmt vs oldb e acc =
  if (fmt =? 1) && over_int (fstarts vs oldb e) then None
  else Some (fend vs oldb e, rev acc ++ fbegins vs oldb e).
Proof.
  intros fmt vs. induction vs as [|[k len] r IH]; intros oldb e acc.
  - cbn [begins_fixed fstarts fend fbegins over_int existsb]. rewrite andb_false_r, app_nil_r.
    reflexivity.
  - destruct k.
    + cbn [begins_fixed fstarts fend fbegins]. rewrite IH. cbn [rev]. rewrite <- app_assoc.
      reflexivity.
    + cbn [begins_fixed fstarts fend fbegins]. unfold over_int. cbn [existsb].
      fold (over_int (fstarts r (tl oldb) (fix_b e oldb + len))).
      destruct (fmt =? 1) eqn:Ef; cbn [andb].
      * destruct (e >? NC_MAX_INT) eqn:Eg; cbn [orb]; [reflexivity|].
        destruct oldb as [|ob ro]; cbn [fix_b tl]; [|rewrite zmax_if];
          rewrite IH; cbn [andb rev]; rewrite <- app_assoc; reflexivity.
      * destruct oldb as [|ob ro]; cbn [fix_b tl]; [|rewrite zmax_if];
          rewrite IH; cbn [andb rev]; rewrite <- app_assoc; reflexivity.
Qed.

Lemma begins_rec_eq : forall fmt vs oldb e rs ll acc,
  begins_rec fmt vs oldb e rs ll acc =
  if (fmt =? 1) && over_int (rstarts vs e) then None
  else Some (e + rsum vs, rs + rsum vs, rlast vs ll, rev acc ++ rbegins vs oldb e).
Proof.
  intros fmt vs. induction vs as [|[k len] r IH]; intros oldb e rs ll acc.
  - cbn [begins_rec rstarts rsum rlast rbegins over_int existsb].
    rewrite andb_false_r, app_nil_r, !Z.add_0_r. reflexivity.
  - destruct k.
    + cbn [begins_rec rstarts rsum rlast rbegins]. unfold over_int. cbn [existsb].
      fold (over_int (rstarts r (e + len))).
      destruct (fmt =? 1) eqn:Ef; cbn [andb].
      * destruct (e >? NC_MAX_INT) eqn:Eg; cbn [orb]; [reflexivity|].
        destruct oldb as [|ob ro]; cbn [rec_b tl]; [|rewrite zmax_if];
          rewrite IH; cbn [andb rev]; rewrite <- app_assoc, !Z.add_assoc; reflexivity.
      * destruct oldb as [|ob ro]; cbn [rec_b tl]; [|rewrite zmax_if];
          rewrite IH; cbn [andb rev]; rewrite <- app_assoc, !Z.add_assoc; reflexivity.
    + cbn [begins_rec rstarts rsum rlast rbegins]. rewrite IH. cbn [rev]. rewrite <- app_assoc.
      reflexivity.
Qed.

(* the begins list, computed in one pass *)
Fixpoint assign (vs : vlist) (oldf oldr : list Z) (ef er : Z) : list Z :=
  match vs with
  | [] => []
  | (false, len) :: r => fix_b ef oldf :: assign r (tl oldf) oldr (fix_b ef oldf + len) er
  | (true, len) :: r => rec_b er oldr :: assign r oldf (tl oldr) ef (er + len)
  end.

Lemma merge_assign : forall vs oldf oldr ef er,
  merge_opts (fbegins vs oldf ef) (rbegins vs oldr er) = assign vs oldf oldr ef er.
Proof.
  induction vs as [|[k len] r IH]; intros oldf oldr ef er; [reflexivity|].
  destruct k; cbn [fbegins rbegins merge_opts assign]; rewrite IH; reflexivity.
Qed.

Lemma assign_length : forall vs oldf oldr ef er,
  length (assign vs oldf oldr ef er) = length vs.
Proof.
  induction vs as [|[k len] r IH]; intros oldf oldr ef er; [reflexivity|].
  destruct k; cbn [assign length]; rewrite IH; reflexivity.
Qed.

(* ====================================================================== *)
(** * 3. Closed form of [begins]                                           *)
(* ====================================================================== *)

(* (is record variable, len) per variable, definition order *)
Definition vsof (h : hdr) : vlist :=
  map (fun v => (is_recvar (h_dims h) v, var_len (h_dims h) v)) (h_vars h).

Definition old_fixed_of (old : option (layout * list bool)) : list Z :=
  match old with
  | Some (ol, recs) => map snd (filter (fun p => negb (fst p)) (zip recs (l_begins ol)))
  | None => [] end.

Definition old_rec_of (old : option (layout * list bool)) : list Z :=
  match old with
  | Some (ol, recs) => map snd (filter (fun p => fst p) (zip recs (l_begins ol)))
  | None => [] end.

(* where the fixed section may start: header size + h_minfree rounded to h_align, never
   below the old begin_var *)
Definition bv1_of (h : hdr) (hm ha : Z) (old : option (layout * list bool)) : Z :=
  let bv0 := match h_vars h with [] => hdr_len h | _ => rndup (hdr_len h + hm) ha end in
  match old with Some (ol, _) => Z.max bv0 (l_begin_var ol) | None => bv0 end.

(* begin_rec: end of the fixed section + v_minfree (never below the previous begin_rec),
   rounded to 4, then to r_align, never below the old begin_rec *)
Definition br3_of (end_fixed vm ra pbr : Z) (old : option (layout * list bool)) : Z :=
  let br1 := rndup (Z.max pbr (end_fixed + vm)) 4 in
  let br2 := if ra >? 1 then rndup br1 ra else br1 in
  match old with Some (ol, _) => Z.max br2 (l_begin_rec ol) | None => br2 end.

(* unpadded size of one record of a variable: product of the non-record dims * xsz *)
Definition unpadded (dims : list dim) (v : var) : Z :=
  var_nelems_per_rec (var_shape dims v) * xlen_type (v_type v).

(* the recsize rule *)
Definition recsize_of (h : hdr) : Z :=
  let s := rsum (vsof h) in
  match last_opt (filter (fun v => is_recvar (h_dims h) v) (h_vars h)), rlast (vsof h) None with
  | Some lv, Some ll => if s =? ll then unpadded (h_dims h) lv else s
  | _, _ => s
  end.

Definition begin_var_of (vs : vlist) (bl : list Z) (br : Z) : Z :=
  match find_index (fun p : bool * Z => negb (fst p)) vs 0 with
  | Some i => znth bl i 0
  | None => br end.

Definition end_fixed_of (h : hdr) (hm ha : Z) (old : option (layout * list bool)) : Z :=
  fend (vsof h) (old_fixed_of old) (bv1_of h hm ha old).

Definition begin_rec_of (h : hdr) (hm vm ha ra : Z) (old : option (layout * list bool))
           (pbr : Z) : Z :=
  br3_of (end_fixed_of h hm ha old) vm ra pbr old.

Definition layout_of_begins (h : hdr) (hm vm ha ra : Z) (old : option (layout * list bool))
           (pbr : Z) : layout :=
  let vs := vsof h in
  let br := begin_rec_of h hm vm ha ra old pbr in
  let bl := assign vs (old_fixed_of old) (old_rec_of old) (bv1_of h hm ha old) br in
  mklayout (hdr_len h) (begin_var_of vs bl br) br (recsize_of h) bl.

(* the CDF-1 offset test of NC_begins fires *)
Definition begins_overflow (h : hdr) (hm vm ha ra : Z) (old : option (layout * list bool))
           (pbr : Z) : bool :=
  (h_format h =? 1) &&
  (over_int (fstarts (vsof h) (old_fixed_of old) (bv1_of h hm ha old)) ||
   over_int (rstarts (vsof h) (begin_rec_of h hm vm ha ra old pbr))).

Theorem begins_eq : forall h hm vm ha ra old pbr,
  begins h hm vm ha ra old pbr =
  if begins_overflow h hm vm ha ra old pbr then None
  else Some (layout_of_begins h hm vm ha ra old pbr).
Proof.
  intros h hm vm ha ra old pbr.
  unfold begins, begins_overflow, layout_of_begins, begin_rec_of, end_fixed_of.
  fold (vsof h). cbv zeta.
  assert (Ebv : (match old with
                 | Some (ol, _) =>
                     if (match h_vars h with [] => hdr_len h | _ :: _ => rndup (hdr_len h + hm) ha end)
                        <? l_begin_var ol then l_begin_var ol
                     else match h_vars h with [] => hdr_len h | _ :: _ => rndup (hdr_len h + hm) ha end
                 | None => match h_vars h with [] => hdr_len h | _ :: _ => rndup (hdr_len h + hm) ha end
                 end) = bv1_of h hm ha old).
  { unfold bv1_of. destruct old as [[ol recs]|]; [rewrite zmax_if|]; reflexivity. }
  rewrite Ebv. clear Ebv.
  fold (old_fixed_of old). fold (old_rec_of old).
  rewrite begins_fixed_eq.
  set (bv1 := bv1_of h hm ha old). set (oldf := old_fixed_of old). set (oldr := old_rec_of old).
  destruct (h_format h =? 1) eqn:Ef; cbn [andb].
  - destruct (over_int (fstarts (vsof h) oldf bv1)) eqn:Eo; cbn [orb]; [reflexivity|].
    assert (Ebr : (match old with
                   | Some (ol, _) =>
                       if (if ra >? 1
                           then rndup (rndup (if pbr <? fend (vsof h) oldf bv1 + vm
                                              then fend (vsof h) oldf bv1 + vm else pbr) 4) ra
                           else rndup (if pbr <? fend (vsof h) oldf bv1 + vm
                                       then fend (vsof h) oldf bv1 + vm else pbr) 4)
                          <? l_begin_rec ol then l_begin_rec ol
                       else (if ra >? 1
                             then rndup (rndup (if pbr <? fend (vsof h) oldf bv1 + vm
                                                then fend (vsof h) oldf bv1 + vm else pbr) 4) ra
                             else rndup (if pbr <? fend (vsof h) oldf bv1 + vm
                                         then fend (vsof h) oldf bv1 + vm else pbr) 4)
                   | None => (if ra >? 1
                              then rndup (rndup (if pbr <? fend (vsof h) oldf bv1 + vm
                                                 then fend (vsof h) oldf bv1 + vm else pbr) 4) ra
                              else rndup (if pbr <? fend (vsof h) oldf bv1 + vm
                                          then fend (vsof h) oldf bv1 + vm else pbr) 4)
                   end) = br3_of (fend (vsof h) oldf bv1) vm ra pbr old).
    { unfold br3_of. rewrite zmax_if. destruct old as [[ol recs]|]; [rewrite zmax_if|]; reflexivity. }
    rewrite Ebr. clear Ebr.
    rewrite begins_rec_eq, Ef. cbn [andb rev app].
    destruct (over_int (rstarts (vsof h) (br3_of (fend (vsof h) oldf bv1) vm ra pbr old)));
      [reflexivity|].
    rewrite merge_assign. cbn [Z.add]. reflexivity.
  - assert (Ebr : (match old with
                   | Some (ol, _) =>
                       if (if ra >? 1
                           then rndup (rndup (if pbr <? fend (vsof h) oldf bv1 + vm
                                              then fend (vsof h) oldf bv1 + vm else pbr) 4) ra
                           else rndup (if pbr <? fend (vsof h) oldf bv1 + vm
                                       then fend (vsof h) oldf bv1 + vm else pbr) 4)
                          <? l_begin_rec ol then l_begin_rec ol
                       else (if ra >? 1
                             then rndup (rndup (if pbr <? fend (vsof h) oldf bv1 + vm
                                                then fend (vsof h) oldf bv1 + vm else pbr) 4) ra
                             else rndup (if pbr <? fend (vsof h) oldf bv1 + vm
                                         then fend (vsof h) oldf bv1 + vm else pbr) 4)
                   | None => (if ra >? 1
                              then rndup (rndup (if pbr <? fend (vsof h) oldf bv1 + vm
                                                 then fend (vsof h) oldf bv1 + vm else pbr) 4) ra
                              else rndup (if pbr <? fend (vsof h) oldf bv1 + vm
                                          then fend (vsof h) oldf bv1 + vm else pbr) 4)
                   end) = br3_of (fend (vsof h) oldf bv1) vm ra pbr old).
    { unfold br3_of. rewrite zmax_if. destruct old as [[ol recs]|]; [rewrite zmax_if|]; reflexivity. }
    rewrite Ebr. clear Ebr.
    rewrite begins_rec_eq, Ef. cbn [andb rev app].
    rewrite merge_assign. reflexivity.
Qed.

(* ====================================================================== *)
(** * 4. Layouts as lists of (begin, len): generic facts                   *)
(* ====================================================================== *)

(* the (begin, len) pairs of the variables of kind k (false = fixed, true = record) *)
Fixpoint sel (k : bool) (vs : vlist) (bl : list Z) : list (Z * Z) :=
  match vs, bl with
  | (k', len) :: r, b :: bl' =>
      if Bool.eqb k' k then (b, len) :: sel k r bl' else sel k r bl'
  | _, _ => []
  end.

(* end of the last pair (e when there is none) *)
Fixpoint last_end (e : Z) (l : list (Z * Z)) : Z :=
  match l with [] => e | (b, len) :: r => last_end (b + len) r end.

(* every variable starts exactly where the previous one ends *)
Fixpoint contig (e : Z) (l : list (Z * Z)) : Prop :=
  match l with [] => True | (b, len) :: r => b = e /\ contig (e + len) r end.

Definition dvs : bool * Z := (false, 0).

Lemma bi_cons : forall e b len r,
  begins_increasing e ((b, len) :: r) = true <->
  e <= b /\ b mod 4 = 0 /\ begins_increasing (b + len) r = true.
Proof.
  intros. cbn [begins_increasing]. rewrite !andb_true_iff, Z.leb_le, Z.eqb_eq. tauto.
Qed.

Lemma bi_weaken : forall l e e', e' <= e ->
  begins_increasing e l = true -> begins_increasing e' l = true.
Proof.
  intros [|[b len] r] e e' He H; [reflexivity|].
  apply bi_cons in H. apply bi_cons. destruct H as (H1 & H2 & H3). repeat split; [lia|assumption..].
Qed.

Lemma last_end_mono : forall l e e', e' <= e -> last_end e' l <= last_end e l.
Proof. intros [|[b len] r] e e' He; cbn [last_end]; lia. Qed.

Lemma last_end_app : forall l1 l2 e, last_end e (l1 ++ l2) = last_end (last_end e l1) l2.
Proof.
  induction l1 as [|[b len] r IH]; intros l2 e; [reflexivity|]. cbn [app last_end]. apply IH.
Qed.

Lemma last_end_ge : forall l e, Forall (fun p => 0 <= snd p) l ->
  begins_increasing e l = true -> e <= last_end e l.
Proof.
  induction l as [|[b len] r IH]; intros e Hl H; cbn [last_end]; [lia|].
  apply bi_cons in H. destruct H as (H1 & H2 & H3).
  inversion Hl as [|? ? Hp Hr]; subst. cbn [snd] in Hp.
  specialize (IH (b + len) Hr H3). lia.
Qed.

(* layout_ok's running maximum is the end of the last variable *)
Lemma fold_max_last_end : forall l e, Forall (fun p => 0 <= snd p) l ->
  begins_increasing e l = true ->
  fold_left (fun e p => Z.max e (fst p + snd p)) l e = last_end e l.
Proof.
  induction l as [|[b len] r IH]; intros e Hl H; [reflexivity|].
  apply bi_cons in H. destruct H as (H1 & H2 & H3).
  inversion Hl as [|? ? Hp Hr]; subst. cbn [snd] in Hp.
  cbn [fold_left last_end fst snd]. replace (Z.max e (b + len)) with (b + len) by lia.
  apply IH; assumption.
Qed.

Lemma contig_bi : forall l e, e mod 4 = 0 -> Forall (fun p => snd p mod 4 = 0) l ->
  contig e l -> begins_increasing e l = true.
Proof.
  induction l as [|[b len] r IH]; intros e He Hl H; [reflexivity|].
  cbn [contig] in H. destruct H as [Hb Hc]. subst b.
  inversion Hl as [|? ? Hp Hr]; subst. cbn [snd] in Hp.
  apply bi_cons. repeat split; [lia|exact He|]. apply IH; [lia|exact Hr|exact Hc].
Qed.

Lemma contig_last_end : forall l e, contig e l -> last_end e l = e + zsum (map snd l).
Proof.
  induction l as [|[b len] r IH]; intros e H; cbn [last_end map zsum snd]; [lia|].
  cbn [contig] in H. destruct H as [Hb Hc]. subst b. rewrite (IH _ Hc). lia.
Qed.

Lemma sel_length_le : forall k vs bl, (length (sel k vs bl) <= length vs)%nat.
Proof.
  intros k vs. induction vs as [|[k' len] r IH]; intros [|b bl]; cbn [sel length]; try lia.
  destruct (Bool.eqb k' k); cbn [length]; specialize (IH bl); lia.
Qed.

Lemma sel_lens_Forall : forall (P : Z -> Prop) k vs bl,
  Forall (fun p => P (snd p)) vs -> Forall (fun p => P (snd p)) (sel k vs bl).
Proof.
  intros P k vs. induction vs as [|[k' len] r IH]; intros [|b bl] H; cbn [sel]; try constructor.
  inversion H as [|? ? Hp Hr]; subst.
  destruct (Bool.eqb k' k); [constructor; [exact Hp|]|]; apply IH; exact Hr.
Qed.

Lemma sel_app : forall k vo ext obl nbl, length obl = length vo ->
  sel k (vo ++ ext) (obl ++ nbl) = sel k vo obl ++ sel k ext nbl.
Proof.
  intros k vo. induction vo as [|[k' len] r IH]; intros ext [|b obl] nbl Hl;
    cbn [length] in Hl; try discriminate; [reflexivity|].
  cbn [app sel]. injection Hl as Hl.
  destruct (Bool.eqb k' k); cbn [app]; rewrite (IH ext obl nbl Hl); reflexivity.
Qed.

(* sum of the record lens is the sum over the selected record pairs *)
Lemma rsum_sel : forall vs bl, length bl = length vs -> zsum (map snd (sel true vs bl)) = rsum vs.
Proof.
  induction vs as [|[k len] r IH]; intros [|b bl] Hl; cbn [length] in Hl; try discriminate;
    [reflexivity|].
  injection Hl as Hl. cbn [sel rsum]. destruct k; cbn [Bool.eqb map zsum snd]; rewrite (IH bl Hl);
    reflexivity.
Qed.

(** index-level reading of [begins_increasing] over the variables of one kind *)
Lemma bi_sel_index : forall k vs bl e,
  length bl = length vs ->
  Forall (fun p => 0 <= snd p) vs ->
  begins_increasing e (sel k vs bl) = true ->
  (forall i, 0 <= i < Zlen vs -> fst (znth vs i dvs) = k ->
     e <= znth bl i 0 /\ znth bl i 0 mod 4 = 0 /\
     znth bl i 0 + snd (znth vs i dvs) <= last_end e (sel k vs bl)) /\
  (forall i j, 0 <= i -> i < j -> j < Zlen vs ->
     fst (znth vs i dvs) = k -> fst (znth vs j dvs) = k ->
     znth bl i 0 + snd (znth vs i dvs) <= znth bl j 0).
Proof.
  intros k vs. induction vs as [|[k' len] r IH]; intros [|b bl] e Hl Hnn H;
    cbn [length] in Hl; try discriminate.
  - split; intros; rewrite Zlen_nil in *; lia.
  - injection Hl as Hl. inversion Hnn as [|? ? Hp Hr]; subst. cbn [snd] in Hp.
    cbn [sel] in *.
    destruct (Bool.eqb k' k) eqn:Ek.
    + apply bi_cons in H. destruct H as (H1 & H2 & H3).
      destruct (IH bl (b + len) Hl Hr H3) as [IH1 IH2].
      pose proof (last_end_ge (sel k r bl) (b + len)
                    (sel_lens_Forall (fun x => 0 <= x) k r bl Hr) H3) as Hge.
      cbn [last_end]. split.
      * intros i Hi Hk. rewrite Zlen_cons in Hi.
        destruct (Z.eq_dec i 0) as [E|E].
        -- subst i. rewrite !znth_cons_0. cbn [snd]. lia.
        -- rewrite !znth_cons_pos in * by exact E.
           destruct (IH1 (i - 1) ltac:(lia) Hk) as (A & B & C). lia.
      * intros i j Hi Hij Hj Hki Hkj. rewrite Zlen_cons in Hj.
        rewrite (znth_cons_pos _ _ _ j) in Hkj by lia.
        repeat (rewrite (znth_cons_pos _ _ _ j) by lia).
        destruct (Z.eq_dec i 0) as [E|E].
        -- subst i. rewrite !znth_cons_0. cbn [snd].
           destruct (IH1 (j - 1) ltac:(lia) Hkj) as (A & B & C). lia.
        -- rewrite (znth_cons_pos _ _ _ i) in Hki by exact E.
           repeat (rewrite (znth_cons_pos _ _ _ i) by exact E).
           apply (IH2 (i - 1) (j - 1)); try assumption; lia.
    + destruct (IH bl e Hl Hr H) as [IH1 IH2]. split.
      * intros i Hi Hk. rewrite Zlen_cons in Hi.
        destruct (Z.eq_dec i 0) as [E|E].
        -- subst i. rewrite znth_cons_0 in Hk. cbn [fst] in Hk. subst k'.
           rewrite Bool.eqb_reflx in Ek. discriminate.
        -- rewrite !znth_cons_pos in * by exact E. apply IH1; [lia|exact Hk].
      * intros i j Hi Hij Hj Hki Hkj. rewrite Zlen_cons in Hj.
        destruct (Z.eq_dec i 0) as [E|E].
        -- subst i. rewrite znth_cons_0 in Hki. cbn [fst] in Hki. subst k'.
           rewrite Bool.eqb_reflx in Ek. discriminate.
        -- rewrite (znth_cons_pos _ _ _ j) in Hkj by lia.
           repeat (rewrite (znth_cons_pos _ _ _ j) by lia).
           rewrite (znth_cons_pos _ _ _ i) in Hki by exact E.
           repeat (rewrite (znth_cons_pos _ _ _ i) by exact E).
           apply (IH2 (i - 1) (j - 1)); try assumption; lia.
Qed.

(* offset of variable i inside a record: sum of the lens of the record variables before it *)
Definition roff (vs : vlist) (i : Z) : Z := rsum (zfirstn i vs).

Lemma roff_cons_pos : forall p r i, 0 < i ->
  roff (p :: r) i = (if fst p then snd p else 0) + roff r (i - 1).
Proof.
  intros [k len] r i Hi. unfold roff. cbn [zfirstn]. replace (i <=? 0) with false by lia.
  cbn [rsum fst snd]. destruct k; lia.
Qed.

Lemma roff_0 : forall vs, roff vs 0 = 0.
Proof. intros [|p r]; reflexivity. Qed.

Lemma roff_app_l : forall vo ext i, 0 <= i <= Zlen vo -> roff (vo ++ ext) i = roff vo i.
Proof.
  induction vo as [|p r IH]; intros ext i Hi.
  - rewrite Zlen_nil in Hi. assert (i = 0) by lia. subst i. rewrite !roff_0. reflexivity.
  - rewrite Zlen_cons in Hi. destruct (Z.eq_dec i 0) as [E|E].
    + subst i. rewrite !roff_0. reflexivity.
    + cbn [app]. rewrite !roff_cons_pos by lia. rewrite IH by lia. reflexivity.
Qed.

Lemma roff_bounds : forall vs i, Forall (fun p => 0 <= snd p) vs -> 0 <= i < Zlen vs ->
  0 <= roff vs i /\
  (fst (znth vs i dvs) = true -> roff vs i + snd (znth vs i dvs) <= rsum vs).
Proof.
  induction vs as [|[k len] r IH]; intros i Hnn Hi.
  - rewrite Zlen_nil in Hi. lia.
  - rewrite Zlen_cons in Hi. inversion Hnn as [|? ? Hp Hr]; subst. cbn [snd] in Hp.
    assert (Hrs : 0 <= rsum r).
    { clear -Hr. induction r as [|[k' l'] r IH]; cbn [rsum]; [lia|].
      inversion Hr as [|? ? Hp Hr']; subst. cbn [snd] in Hp. specialize (IH Hr').
      destruct k'; lia. }
    destruct (Z.eq_dec i 0) as [E|E].
    + subst i. rewrite roff_0, znth_cons_0. cbn [fst snd rsum]. split; [lia|].
      intros ->. lia.
    + rewrite roff_cons_pos by lia. rewrite znth_cons_pos by exact E.
      destruct (IH (i - 1) Hr ltac:(lia)) as [A B]. cbn [fst snd rsum].
      destruct k; split; try lia; intros Hk; specialize (B Hk); lia.
Qed.

(** index-level reading of [contig] over the record variables *)
Lemma contig_sel_index : forall vs bl e,
  length bl = length vs -> contig e (sel true vs bl) ->
  forall i, 0 <= i < Zlen vs -> fst (znth vs i dvs) = true -> znth bl i 0 = e + roff vs i.
Proof.
  induction vs as [|[k len] r IH]; intros [|b bl] e Hl H i Hi Hk;
    cbn [length] in Hl; try discriminate Hl.
  - rewrite Zlen_nil in Hi. lia.
  - injection Hl as Hl. rewrite Zlen_cons in Hi. cbn [sel] in H.
    destruct (Z.eq_dec i 0) as [E|E].
    + subst i. rewrite znth_cons_0 in *. cbn [fst] in Hk. subst k. cbn [Bool.eqb contig] in H.
      rewrite roff_0. lia.
    + rewrite roff_cons_pos by lia. rewrite znth_cons_pos in * by exact E. cbn [fst snd].
      destruct k; cbn [Bool.eqb contig] in H.
      * destruct H as [Hb Hc]. rewrite (IH bl (e + len) Hl Hc (i - 1)) by (try assumption; lia). lia.
      * rewrite (IH bl e Hl H (i - 1)) by (try assumption; lia). lia.
Qed.

(* begin_var_of is the begin of the first fixed variable *)
Lemma find_index_ge : forall A (p : A -> bool) l k i, find_index p l k = Some i -> k <= i.
Proof.
  intros A p l. induction l as [|x l IH]; intros k i H; cbn [find_index] in H; [discriminate|].
  destruct (p x); [injection H as H; lia|]. specialize (IH _ _ H). lia.
Qed.

Lemma begin_var_of_sel_gen : forall vs bl br k, length bl = length vs ->
  match find_index (fun p : bool * Z => negb (fst p)) vs k with
  | Some i => znth bl (i - k) 0
  | None => br end =
  match sel false vs bl with (b, _) :: _ => b | [] => br end.
Proof.
  induction vs as [|[k' len] r IH]; intros [|b bl] br k Hl; cbn [length] in Hl; try discriminate;
    [reflexivity|].
  injection Hl as Hl. cbn [find_index sel fst]. destruct k'; cbn [negb Bool.eqb].
  - specialize (IH bl br (k + 1) Hl).
    destruct (find_index (fun p : bool * Z => negb (fst p)) r (k + 1)) as [i|] eqn:Ef.
    + pose proof (find_index_ge _ _ _ _ _ Ef) as Hge.
      rewrite znth_cons_pos by lia. replace (i - k - 1) with (i - (k + 1)) by lia. exact IH.
    + exact IH.
  - replace (k - k) with 0 by lia. reflexivity.
Qed.

Lemma begin_var_of_sel : forall vs bl br, length bl = length vs ->
  begin_var_of vs bl br = match sel false vs bl with (b, _) :: _ => b | [] => br end.
Proof.
  intros vs bl br Hl. unfold begin_var_of.
  pose proof (begin_var_of_sel_gen vs bl br 0 Hl) as H.
  destruct (find_index (fun p : bool * Z => negb (fst p)) vs 0) as [i|]; [|exact H].
  replace (i - 0) with i in H by lia. exact H.
Qed.

(* ====================================================================== *)
(** * 5. What [assign] produces                                            *)
(* ====================================================================== *)

(* the fixed / record (begin, len) pairs, each computed from its own inputs only *)
Fixpoint fpairs (vs : vlist) (oldf : list Z) (e : Z) : list (Z * Z) :=
  match vs with
  | [] => []
  | (true, _) :: r => fpairs r oldf e
  | (false, len) :: r => (fix_b e oldf, len) :: fpairs r (tl oldf) (fix_b e oldf + len)
  end.

Fixpoint rpairs (vs : vlist) (oldr : list Z) (e : Z) : list (Z * Z) :=
  match vs with
  | [] => []
  | (false, _) :: r => rpairs r oldr e
  | (true, len) :: r => (rec_b e oldr, len) :: rpairs r (tl oldr) (e + len)
  end.

Lemma sel_false_assign : forall vs oldf oldr ef er,
  sel false vs (assign vs oldf oldr ef er) = fpairs vs oldf ef.
Proof.
  induction vs as [|[k len] r IH]; intros oldf oldr ef er; [reflexivity|].
  destruct k; cbn [assign sel Bool.eqb fpairs]; rewrite IH; reflexivity.
Qed.

Lemma sel_true_assign : forall vs oldf oldr ef er,
  sel true vs (assign vs oldf oldr ef er) = rpairs vs oldr er.
Proof.
  induction vs as [|[k len] r IH]; intros oldf oldr ef er; [reflexivity|].
  destruct k; cbn [assign sel Bool.eqb rpairs]; rewrite IH; reflexivity.
Qed.

Lemma fend_last_end : forall vs oldf e, fend vs oldf e = last_end e (fpairs vs oldf e).
Proof.
  induction vs as [|[k len] r IH]; intros oldf e; [reflexivity|].
  destruct k; cbn [fend fpairs last_end]; apply IH.
Qed.

Lemma fix_b_ok : forall e oldf, Forall (fun b => b mod 4 = 0) oldf ->
  e <= fix_b e oldf /\ fix_b e oldf mod 4 = 0.
Proof.
  intros e [|ob ro] H; cbn [fix_b]; pose proof (rndup4_bounds e) as Hr; [lia|].
  inversion H as [|? ? Hob Hro]; subst.
  destruct (Z.max_spec (rndup e 4) ob) as [[? ->]|[? ->]]; lia.
Qed.

Lemma Forall_tl : forall A (P : A -> Prop) l, Forall P l -> Forall P (tl l).
Proof. intros A P [|x l] H; [exact H|]. inversion H; assumption. Qed.

(** the fixed pass: definition order, 4-byte aligned, non-overlapping, at or after e *)
Lemma fpairs_bi : forall vs oldf e, Forall (fun b => b mod 4 = 0) oldf ->
  begins_increasing e (fpairs vs oldf e) = true.
Proof.
  induction vs as [|[k len] r IH]; intros oldf e H; [reflexivity|].
  destruct k; cbn [fpairs]; [apply IH; exact H|].
  destruct (fix_b_ok e oldf H) as [H1 H2].
  apply bi_cons. repeat split; [exact H1|exact H2|]. apply IH. apply Forall_tl. exact H.
Qed.

Lemma rpairs_contig_nil : forall vs e, contig e (rpairs vs [] e).
Proof.
  induction vs as [|[k len] r IH]; intros e; [exact I|].
  destruct k; cbn [rpairs rec_b tl contig]; [split; [reflexivity|]|]; apply IH.
Qed.

(* the old begins handed to the two passes are the begins of the selected old pairs *)
Lemma old_fixed_sel : forall vo obl,
  map snd (filter (fun p : bool * Z => negb (fst p)) (zip (map fst vo) obl)) =
  map fst (sel false vo obl).
Proof.
  induction vo as [|[k len] r IH]; intros [|b obl]; try reflexivity.
  cbn [map fst zip filter sel]. destruct k; cbn [negb Bool.eqb map fst snd]; rewrite IH; reflexivity.
Qed.

Lemma old_rec_sel : forall (vo : vlist) obl,
  map snd (filter (fun p : bool * Z => fst p) (zip (map fst vo) obl)) =
  map fst (sel true vo obl).
Proof.
  induction vo as [|[k len] r IH]; intros [|b obl]; try reflexivity.
  cbn [map fst zip filter sel]. destruct k; cbn [negb Bool.eqb map fst snd]; rewrite IH; reflexivity.
Qed.

Lemma bi_fst_mod4 : forall l e, begins_increasing e l = true ->
  Forall (fun b => b mod 4 = 0) (map fst l).
Proof.
  induction l as [|[b len] r IH]; intros e H; [constructor|].
  apply bi_cons in H. destruct H as (H1 & H2 & H3). cbn [map fst]. constructor; [exact H2|].
  apply (IH _ H3).
Qed.

(** the record pass after a redefinition: if the old record variables were contiguous from
    obr and the new begin_rec is not below obr, the new ones are contiguous from er *)
Lemma rpairs_contig : forall vo obl ext obr er, length obl = length vo ->
  contig obr (sel true vo obl) -> obr <= er ->
  contig er (rpairs (vo ++ ext) (map fst (sel true vo obl)) er).
Proof.
  induction vo as [|[k len] r IH]; intros [|b obl] ext obr er Hl Hc Hle;
    cbn [length] in Hl; try discriminate Hl.
  - cbn [app sel map]. apply rpairs_contig_nil.
  - injection Hl as Hl. cbn [app sel] in *. destruct k; cbn [Bool.eqb] in *.
    + cbn [contig] in Hc. destruct Hc as [Hb Hc]. subst b.
      cbn [map fst rpairs rec_b tl contig]. split; [lia|].
      apply (IH obl ext (obr + len) (er + len) Hl Hc). lia.
    + cbn [rpairs]. apply (IH obl ext obr er Hl Hc Hle).
Qed.

(** a fixed variable of the old header never moves down *)
Lemma assign_fixed_ge : forall vo obl ext oldr ef er i, length obl = length vo ->
  0 <= i < Zlen vo -> fst (znth vo i dvs) = false ->
  znth obl i 0 <= znth (assign (vo ++ ext) (map fst (sel false vo obl)) oldr ef er) i 0.
Proof.
  induction vo as [|[k len] r IH]; intros [|b obl] ext oldr ef er i Hl Hi Hk;
    cbn [length] in Hl; try discriminate Hl.
  - rewrite Zlen_nil in Hi. lia.
  - injection Hl as Hl. rewrite Zlen_cons in Hi. cbn [app sel assign].
    destruct (Z.eq_dec i 0) as [E|E].
    + subst i. rewrite znth_cons_0 in Hk. cbn [fst] in Hk. subst k.
      cbn [Bool.eqb map fst fix_b]. rewrite !znth_cons_0. lia.
    + rewrite znth_cons_pos in Hk by exact E. rewrite (znth_cons_pos _ _ _ i) by exact E.
      destruct k; cbn [Bool.eqb map fst tl]; rewrite (znth_cons_pos _ _ _ i) by exact E;
        apply IH; try assumption; lia.
Qed.

(** if the fixed section may start at or below the first old fixed variable, no old fixed
    variable moves *)
Lemma assign_fixed_same : forall vo obl ext oldr ef er i, length obl = length vo ->
  begins_increasing ef (sel false vo obl) = true ->
  0 <= i < Zlen vo -> fst (znth vo i dvs) = false ->
  znth (assign (vo ++ ext) (map fst (sel false vo obl)) oldr ef er) i 0 = znth obl i 0.
Proof.
  induction vo as [|[k len] r IH]; intros [|b obl] ext oldr ef er i Hl Hbi Hi Hk;
    cbn [length] in Hl; try discriminate Hl.
  - rewrite Zlen_nil in Hi. lia.
  - injection Hl as Hl. rewrite Zlen_cons in Hi. cbn [app sel assign] in *.
    destruct k; cbn [Bool.eqb map fst tl] in *.
    + destruct (Z.eq_dec i 0) as [E|E].
      * subst i. rewrite znth_cons_0 in Hk. discriminate Hk.
      * rewrite znth_cons_pos in Hk by exact E. rewrite !(znth_cons_pos _ _ _ i) by exact E.
        apply IH; try assumption; lia.
    + apply bi_cons in Hbi. destruct Hbi as (H1 & H2 & H3).
      assert (Eb : fix_b ef (b :: map fst (sel false r obl)) = b).
      { cbn [fix_b]. pose proof (rndup4_le ef b H1 H2). lia. }
      rewrite Eb. destruct (Z.eq_dec i 0) as [E|E].
      * subst i. rewrite !znth_cons_0. reflexivity.
      * rewrite znth_cons_pos in Hk by exact E. rewrite !(znth_cons_pos _ _ _ i) by exact E.
        apply IH; try assumption; lia.
Qed.

(* ====================================================================== *)
(** * 6. The layout invariant                                              *)
(* ====================================================================== *)

Notation tlist := (list (bool * Z * Z)).      (* (is record, len, unpadded record size) *)

(* recsize: sum of the lens of the record variables; when that sum is the len of the last
   record variable (exactly one record variable, the others - if any - being empty) the
   unpadded size of that variable *)
Definition rs_rule (t3 : tlist) : Z :=
  let s := rsum (map fst t3) in
  match last_opt (filter (fun t : bool * Z * Z => fst (fst t)) t3) with
  | Some (_, ll, u) => if s =? ll then u else s
  | None => s
  end.

(* len is the unpadded size rounded up to 4 *)
Definition wf_t3 (t3 : tlist) : Prop :=
  Forall (fun t : bool * Z * Z => 0 <= snd t <= snd (fst t) /\ snd (fst t) mod 4 = 0) t3.

(** what every layout computed by [begins] satisfies (and what a redefinition relies on):
    - one begin per variable;
    - begin_var is at or after the header and is the begin of the first fixed variable
      (begin_rec when there is none);
    - fixed variables in definition order, 4-byte aligned, non-overlapping, ending at or
      before begin_rec;
    - begin_rec 4-byte aligned; record variables contiguous from begin_rec, in definition
      order;
    - the recsize rule. *)
Definition lay_inv (t3 : tlist) (lay : layout) : Prop :=
  let vs := map fst t3 in
  let fl := sel false vs (l_begins lay) in
  let rl := sel true vs (l_begins lay) in
  length (l_begins lay) = length vs /\
  l_xsz lay <= l_begin_var lay /\
  begins_increasing (l_begin_var lay) fl = true /\
  l_begin_var lay = match fl with (b, _) :: _ => b | [] => l_begin_rec lay end /\
  last_end (l_begin_var lay) fl <= l_begin_rec lay /\
  l_begin_rec lay mod 4 = 0 /\
  contig (l_begin_rec lay) rl /\
  l_recsize lay = rs_rule t3.

Lemma wf_t3_lens : forall t3, wf_t3 t3 ->
  Forall (fun p : bool * Z => 0 <= snd p) (map fst t3) /\
  Forall (fun p : bool * Z => snd p mod 4 = 0) (map fst t3).
Proof.
  intros t3 H. induction H as [|t l Ht Hl [IH1 IH2]]; [split; constructor|].
  cbn [map]. split; constructor; try assumption; lia.
Qed.

Lemma wf_t3_app : forall a b, wf_t3 (a ++ b) <-> wf_t3 a /\ wf_t3 b.
Proof. intros a b. unfold wf_t3. apply Forall_app. Qed.

(** the common core of the new-file and the redefinition case *)
Lemma mk_lay_inv : forall t3 xsz bv1 br oldf oldr,
  let vs := map fst t3 in
  let bl := assign vs oldf oldr bv1 br in
  xsz <= bv1 ->
  Forall (fun b => b mod 4 = 0) oldf ->
  contig br (rpairs vs oldr br) ->
  fend vs oldf bv1 <= br ->
  br mod 4 = 0 ->
  lay_inv t3 (mklayout xsz (begin_var_of vs bl br) br (rs_rule t3) bl).
Proof.
  intros t3 xsz bv1 br oldf oldr vs bl Hx Hof Hc Hfe Hbr.
  unfold lay_inv. cbn [l_begins l_xsz l_begin_var l_begin_rec l_recsize]. fold vs.
  assert (Hlen : length bl = length vs) by apply assign_length.
  rewrite (begin_var_of_sel vs bl br Hlen). subst bl.
  rewrite !sel_false_assign, !sel_true_assign.
  pose proof (fpairs_bi vs oldf bv1 Hof) as Hbi.
  rewrite fend_last_end in Hfe.
  destruct (fpairs vs oldf bv1) as [|[b len] rest] eqn:Ep.
  - cbn [last_end] in *. repeat split; try assumption; try reflexivity; lia.
  - apply bi_cons in Hbi. destruct Hbi as (H1 & H2 & H3). cbn [last_end] in *.
    repeat split; try assumption; try reflexivity; try lia.
    apply bi_cons. repeat split; [lia|exact H2|exact H3].
Qed.

(* ====================================================================== *)
(** * 7. From headers to the abstract lists                                *)
(* ====================================================================== *)

Definition t3of (h : hdr) : tlist :=
  map (fun v => (is_recvar (h_dims h) v, var_len (h_dims h) v, unpadded (h_dims h) v)) (h_vars h).

(* the only well-formedness needed: dimension sizes are not negative *)
Definition hdr_wf (h : hdr) : Prop := Forall (fun d => 0 <= d_size d) (h_dims h).

Definition fixed_vars (h : hdr) : list var :=
  filter (fun v => negb (is_recvar (h_dims h) v)) (h_vars h).
Definition rec_vars (h : hdr) : list var := filter (is_recvar (h_dims h)) (h_vars h).
Definition fixed_pairs (h : hdr) : list (Z * Z) :=
  map (fun v => (v_begin v, var_len (h_dims h) v)) (fixed_vars h).
Definition rec_pairs (h : hdr) : list (Z * Z) :=
  map (fun v => (v_begin v, var_len (h_dims h) v)) (rec_vars h).

Lemma vsof_t3of : forall h, vsof h = map fst (t3of h).
Proof. intros h. unfold vsof, t3of. rewrite map_map. reflexivity. Qed.

Lemma xlen_type_nonneg : forall t, 0 <= xlen_type t.
Proof.
  intros t. unfold xlen_type.
  destruct ((t =? 1) || (t =? 2) || (t =? 7)); [lia|].
  destruct ((t =? 3) || (t =? 8)); [lia|].
  destruct ((t =? 4) || (t =? 5) || (t =? 9)); [lia|].
  destruct ((t =? 6) || (t =? 10) || (t =? 11)); lia.
Qed.

Lemma var_len_unpadded : forall dims v,
  unpadded dims v <= var_len dims v < unpadded dims v + 4 /\ var_len dims v mod 4 = 0.
Proof.
  intros dims v. unfold var_len, var_len_of, unpadded.
  set (l := var_nelems_per_rec (var_shape dims v) * xlen_type (v_type v)). cbv zeta.
  destruct (l mod 4 >? 0) eqn:E; lia.
Qed.

Lemma unpadded_nonneg : forall dims v, Forall (fun d => 0 <= d_size d) dims -> 0 <= unpadded dims v.
Proof.
  intros dims v H. unfold unpadded.
  pose proof (var_nelems_per_rec_nonneg _ (var_shape_nonneg dims v H)).
  pose proof (xlen_type_nonneg (v_type v)). nia.
Qed.

Lemma wf_t3of : forall h, hdr_wf h -> wf_t3 (t3of h).
Proof.
  intros h H. unfold wf_t3, t3of. apply Forall_forall. intros t Ht.
  apply in_map_iff in Ht. destruct Ht as [v [<- _]]. cbn [fst snd].
  pose proof (var_len_unpadded (h_dims h) v). pose proof (unpadded_nonneg (h_dims h) v H). lia.
Qed.

Lemma last_opt_cons : forall A (x : A) l,
  last_opt (x :: l) = match last_opt l with Some y => Some y | None => Some x end.
Proof.
  intros A x l. unfold last_opt. cbn [rev]. destruct (rev l) as [|y r]; reflexivity.
Qed.

Lemma rlast_map : forall A (g : A -> bool * Z) l d,
  rlast (map g l) d =
  match last_opt (filter (fun x => fst (g x)) l) with Some y => Some (snd (g y)) | None => d end.
Proof.
  intros A g l. induction l as [|x l IH]; intros d; [reflexivity|].
  cbn [map filter]. destruct (g x) as [k len] eqn:Eg. cbn [rlast fst].
  destruct k.
  - rewrite IH, last_opt_cons.
    destruct (last_opt (filter (fun x0 => fst (g x0)) l)); [reflexivity|]. rewrite Eg. reflexivity.
  - apply IH.
Qed.

Lemma recsize_of_rule : forall h, recsize_of h = rs_rule (t3of h).
Proof.
  intros h. unfold recsize_of, rs_rule. rewrite <- vsof_t3of.
  assert (E : rlast (vsof h) None =
              match last_opt (filter (fun v => is_recvar (h_dims h) v) (h_vars h)) with
              | Some y => Some (var_len (h_dims h) y) | None => None end).
  { unfold vsof. rewrite rlast_map. reflexivity. }
  rewrite E. clear E.
  unfold t3of. rewrite filter_map_comm, last_opt_map. cbn [fst].
  destruct (last_opt (filter (fun v => is_recvar (h_dims h) v) (h_vars h))) as [lv|];
    reflexivity.
Qed.

(* set_begins changes nothing but the begins *)
Lemma is_recvar_set_begin : forall dims v b,
  is_recvar dims (mkvar (v_name v) (v_dimids v) (v_atts v) (v_type v) b (v_nofill v)) =
  is_recvar dims v.
Proof. reflexivity. Qed.

Lemma var_len_set_begin : forall dims v b,
  var_len dims (mkvar (v_name v) (v_dimids v) (v_atts v) (v_type v) b (v_nofill v)) =
  var_len dims v.
Proof. reflexivity. Qed.

Lemma pairs_set_begins_gen : forall dims k vars bl,
  map (fun v => (v_begin v, var_len dims v))
      (filter (fun v => Bool.eqb (is_recvar dims v) k)
         (map (fun p : var * Z => let v := fst p in
                 mkvar (v_name v) (v_dimids v) (v_atts v) (v_type v) (snd p) (v_nofill v))
              (zip vars bl))) =
  sel k (map (fun v => (is_recvar dims v, var_len dims v)) vars) bl.
Proof.
  intros dims k vars. induction vars as [|v vars IH]; intros [|b bl]; try reflexivity.
  cbn [zip map filter sel fst snd]. cbv zeta. rewrite is_recvar_set_begin.
  destruct (Bool.eqb (is_recvar dims v) k); cbn [map v_begin]; rewrite IH; reflexivity.
Qed.

Lemma filter_ext_in : forall A (p q : A -> bool) l, (forall x, p x = q x) -> filter p l = filter q l.
Proof.
  intros A p q l H. induction l as [|x l IH]; [reflexivity|]. cbn [filter]. rewrite H, IH.
  reflexivity.
Qed.

Lemma fixed_pairs_set_begins : forall h bl,
  fixed_pairs (set_begins h bl) = sel false (vsof h) bl.
Proof.
  intros h bl. unfold fixed_pairs, fixed_vars, set_begins, vsof. cbn [h_dims h_vars].
  rewrite <- (pairs_set_begins_gen (h_dims h) false (h_vars h) bl).
  f_equal; try (apply filter_ext_in; intros x; destruct (is_recvar (h_dims h) x); reflexivity).
Qed.

Lemma rec_pairs_set_begins : forall h bl,
  rec_pairs (set_begins h bl) = sel true (vsof h) bl.
Proof.
  intros h bl. unfold rec_pairs, rec_vars, set_begins, vsof. cbn [h_dims h_vars].
  rewrite <- (pairs_set_begins_gen (h_dims h) true (h_vars h) bl).
  f_equal; try (apply filter_ext_in; intros x; destruct (is_recvar (h_dims h) x); reflexivity).
Qed.

Lemma layout_ok_pairs : forall h xsz,
  layout_ok h xsz =
  begins_increasing xsz (fixed_pairs h) &&
  begins_increasing (fold_left (fun e p => Z.max e (fst p + snd p)) (fixed_pairs h) xsz)
                    (rec_pairs h).
Proof. reflexivity. Qed.

(* set_begins / set_numrecs do not change the header size *)
Lemma len_var_set_begins : forall fmt vars bl, length bl = length vars ->
  map (len_var fmt)
      (map (fun p : var * Z => let v := fst p in
              mkvar (v_name v) (v_dimids v) (v_atts v) (v_type v) (snd p) (v_nofill v))
           (zip vars bl)) = map (len_var fmt) vars.
Proof.
  intros fmt vars. induction vars as [|v vars IH]; intros [|b bl] Hl;
    cbn [length] in Hl; try discriminate Hl; [reflexivity|].
  injection Hl as Hl. cbn [zip]. rewrite !map_cons. f_equal. apply (IH bl Hl).
Qed.

Lemma hdr_len_set_begins : forall h bl, length bl = length (h_vars h) ->
  hdr_len (set_begins h bl) = hdr_len h.
Proof.
  intros h bl Hl. unfold hdr_len, set_begins. cbn [h_format h_dims h_gatts h_vars].
  rewrite (len_var_set_begins _ _ _ Hl). reflexivity.
Qed.

Lemma hdr_len_set_numrecs : forall h n, hdr_len (set_numrecs h n) = hdr_len h.
Proof. reflexivity. Qed.

(** a layout satisfying the invariant is well formed in the sense of HeaderSpec.layout_ok *)
Lemma lay_inv_layout_ok : forall h lay, wf_t3 (t3of h) ->
  lay_inv (t3of h) lay ->
  layout_ok (set_begins h (l_begins lay)) (l_xsz lay) = true.
Proof.
  intros h lay Hwf (Hlen & Hx & Hbi & Hbv & Hle & Hbr & Hc & _).
  rewrite <- vsof_t3of in *.
  destruct (wf_t3_lens _ Hwf) as [Hnn H4]. rewrite <- vsof_t3of in *.
  rewrite layout_ok_pairs, fixed_pairs_set_begins, rec_pairs_set_begins.
  set (fl := sel false (vsof h) (l_begins lay)) in *.
  set (rl := sel true (vsof h) (l_begins lay)) in *.
  assert (Hbi' : begins_increasing (l_xsz lay) fl = true) by (apply (bi_weaken fl _ _ Hx Hbi)).
  rewrite Hbi'. cbn [andb].
  rewrite fold_max_last_end; [|apply (sel_lens_Forall (fun x => 0 <= x)); exact Hnn|exact Hbi'].
  apply (bi_weaken rl (l_begin_rec lay)).
  - pose proof (last_end_mono fl _ _ Hx). lia.
  - apply contig_bi; [exact Hbr|apply (sel_lens_Forall (fun x => x mod 4 = 0)); exact H4|exact Hc].
Qed.

Lemma snoc_cases_layout : forall A (l : list A), l = [] \/ exists l' x, l = l' ++ [x].
Proof.
  intros A l. induction l as [|a l IH] using rev_ind; [left; reflexivity|].
  right. exists l, a. reflexivity.
Qed.

Lemma zsum_app_layout : forall a b, zsum (a ++ b) = zsum a + zsum b.
Proof. induction a as [|x a IH]; intros b; cbn [app zsum]; [lia|]. rewrite IH. lia. Qed.

(* ====================================================================== *)
(** * 8. NEW file: the layout computed at the first enddef                 *)
(* ====================================================================== *)

Lemma begins_some : forall h hm vm ha ra old pbr lay,
  begins h hm vm ha ra old pbr = Some lay ->
  lay = layout_of_begins h hm vm ha ra old pbr /\ begins_overflow h hm vm ha ra old pbr = false.
Proof.
  intros h hm vm ha ra old pbr lay H. rewrite begins_eq in H.
  destruct (begins_overflow h hm vm ha ra old pbr); [discriminate H|].
  injection H as H. split; [symmetry; exact H|reflexivity].
Qed.

Lemma fpairs_head : forall vs oldf e b len rest,
  fpairs vs oldf e = (b, len) :: rest -> b = fix_b e oldf.
Proof.
  induction vs as [|[k l] r IH]; intros oldf e b len rest H; [discriminate H|].
  destruct k; cbn [fpairs] in H; [exact (IH _ _ _ _ _ H)|]. injection H as H _ _. symmetry; exact H.
Qed.

Lemma fpairs_nil_fend : forall vs oldf e, fpairs vs oldf e = [] -> fend vs oldf e = e.
Proof. intros vs oldf e H. rewrite fend_last_end, H. reflexivity. Qed.

(* where the fixed section may start in a new file *)
Definition bv1_new (h : hdr) (hm ha : Z) : Z :=
  match h_vars h with [] => hdr_len h | _ => rndup (hdr_len h + hm) ha end.

Lemma bv1_new_ok : forall h hm ha, 0 <= hm -> 0 < ha -> ha mod 4 = 0 ->
  hdr_len h <= bv1_new h hm ha /\ bv1_new h hm ha mod 4 = 0 /\
  (h_vars h <> [] -> hdr_len h + hm <= bv1_new h hm ha /\ bv1_new h hm ha mod ha = 0).
Proof.
  intros h hm ha Hhm Hha H4. unfold bv1_new. pose proof (hdr_len_mod4_all h) as Hx.
  destruct (h_vars h) as [|v vars].
  - split; [lia|]. split; [exact Hx|]. intros C. exfalso. apply C. reflexivity.
  - destruct (rndup_pos (hdr_len h + hm) ha Hha) as [Hb Hm].
    pose proof (rndup_mult4 (hdr_len h + hm) ha Hha H4).
    split; [lia|]. split; [assumption|]. intros _. split; [lia|exact Hm].
Qed.

(** Deliverable 1.  For EVERY header, on a new file (no old header, begin_rec = 0 on entry):
    the layout computed at enddef satisfies the invariant, is well formed (layout_ok: fixed
    variables in definition order, 4-byte aligned, non-overlapping, at or after the header;
    record variables after the fixed section, non-overlapping), honours h_minfree, h_align,
    v_minfree, r_align, and follows the recsize rule. *)
Theorem begins_layout_ok : forall h hm vm ha ra lay,
  hdr_wf h -> 0 <= hm -> 0 <= vm -> 4 <= ha -> ha mod 4 = 0 -> 4 <= ra -> ra mod 4 = 0 ->
  begins h hm vm ha ra None 0 = Some lay ->
  let h' := set_begins h (l_begins lay) in
  let bv1 := bv1_new h hm ha in
  lay_inv (t3of h) lay /\
  layout_ok h' (l_xsz lay) = true /\
  l_xsz lay = hdr_len h /\
  Zlen (l_begins lay) = Zlen (h_vars h) /\
  (* the fixed section starts at bv1 = header size + h_minfree rounded up to h_align *)
  hdr_len h <= bv1 /\
  (h_vars h <> [] -> hdr_len h + hm <= bv1 /\ bv1 mod ha = 0) /\
  bv1 <= l_begin_var lay /\
  match fixed_pairs h' with
  | (b, _) :: _ => l_begin_var lay = b /\ b = bv1 /\ l_begin_var lay mod ha = 0
  | [] => l_begin_var lay = l_begin_rec lay
  end /\
  begins_increasing bv1 (fixed_pairs h') = true /\
  (* the record section starts v_minfree after the fixed section, rounded to 4 and r_align *)
  last_end bv1 (fixed_pairs h') + vm <= l_begin_rec lay /\
  l_begin_rec lay = rndup (rndup (Z.max 0 (last_end bv1 (fixed_pairs h') + vm)) 4) ra /\
  l_begin_rec lay mod 4 = 0 /\ l_begin_rec lay mod ra = 0 /\
  (* record variables are laid out contiguously, in definition order, from begin_rec *)
  contig (l_begin_rec lay) (rec_pairs h') /\
  l_recsize lay = recsize_of h.
Proof.
  intros h hm vm ha ra lay Hwf Hhm Hvm Hha Hha4 Hra Hra4 H h' bv1.
  apply begins_some in H. destruct H as [-> _].
  pose proof (wf_t3of h Hwf) as Hwf3.
  destruct (bv1_new_ok h hm ha Hhm ltac:(lia) Hha4) as (Hb1 & Hb2 & Hb3). fold bv1 in Hb1, Hb2, Hb3.
  assert (Ebv : bv1_of h hm ha None = bv1) by reflexivity.
  set (fe := fend (vsof h) [] bv1).
  assert (Ebr : begin_rec_of h hm vm ha ra None 0 = rndup (rndup (Z.max 0 (fe + vm)) 4) ra).
  { unfold begin_rec_of, end_fixed_of, br3_of. cbn [old_fixed_of]. rewrite Ebv. fold fe.
    replace (ra >? 1) with true by lia. reflexivity. }
  set (br := rndup (rndup (Z.max 0 (fe + vm)) 4) ra) in *.
  destruct (rndup_pos (rndup (Z.max 0 (fe + vm)) 4) ra ltac:(lia)) as [Hbr1 Hbr2]. fold br in Hbr1, Hbr2.
  pose proof (rndup_mult4 (rndup (Z.max 0 (fe + vm)) 4) ra ltac:(lia) Hra4) as Hbr4. fold br in Hbr4.
  pose proof (rndup4_bounds (Z.max 0 (fe + vm))) as Hbr0.
  assert (Hfe_br : fe + vm <= br) by lia.
  (* the layout, spelled out *)
  assert (Elay : layout_of_begins h hm vm ha ra None 0 =
                 mklayout (hdr_len h)
                   (begin_var_of (map fst (t3of h)) (assign (map fst (t3of h)) [] [] bv1 br) br)
                   br (rs_rule (t3of h)) (assign (map fst (t3of h)) [] [] bv1 br)).
  { unfold layout_of_begins. rewrite Ebr. cbn [old_fixed_of old_rec_of]. rewrite Ebv.
    rewrite recsize_of_rule, vsof_t3of. reflexivity. }
  assert (Hinv : lay_inv (t3of h) (layout_of_begins h hm vm ha ra None 0)).
  { rewrite Elay. apply (mk_lay_inv (t3of h) (hdr_len h) bv1 br [] []).
    - exact Hb1.
    - constructor.
    - apply rpairs_contig_nil.
    - rewrite <- vsof_t3of. fold fe. lia.
    - exact Hbr4. }
  split; [exact Hinv|].
  split; [apply lay_inv_layout_ok; assumption|].
  rewrite Elay in *. cbn [l_xsz l_begins l_begin_var l_begin_rec l_recsize] in *.
  rewrite <- vsof_t3of in *.
  unfold h'. rewrite Elay. cbn [l_begins].
  rewrite fixed_pairs_set_begins, rec_pairs_set_begins, sel_false_assign, sel_true_assign.
  assert (Hlen : length (assign (vsof h) [] [] bv1 br) = length (vsof h)) by apply assign_length.
  rewrite (begin_var_of_sel _ _ br Hlen), sel_false_assign.
  assert (Efe : fe = last_end bv1 (fpairs (vsof h) [] bv1)) by apply fend_last_end.
  rewrite <- Efe.
  split; [reflexivity|].
  split. { rewrite !length_Zlen, Hlen. unfold vsof. rewrite map_length. reflexivity. }
  split; [exact Hb1|]. split; [exact Hb3|].
  pose proof (fpairs_bi (vsof h) [] bv1 (Forall_nil _)) as Hbi.
  pose proof (rpairs_contig_nil (vsof h) br) as Hct.
  pose proof (recsize_of_rule h) as Hrs. symmetry in Hrs.
  destruct (fpairs (vsof h) [] bv1) as [|[b len] rest] eqn:Ep.
  - cbn [last_end] in Efe.
    split; [lia|]. split; [reflexivity|]. split; [reflexivity|]. split; [lia|].
    split; [reflexivity|]. split; [exact Hbr4|]. split; [exact Hbr2|]. split; assumption.
  - pose proof (fpairs_head _ _ _ _ _ _ Ep) as Eb. cbn [fix_b] in Eb.
    rewrite (rndup4_id bv1 Hb2) in Eb. subst b.
    assert (Hne : h_vars h <> []).
    { intros C. unfold vsof in Ep. rewrite C in Ep. discriminate Ep. }
    destruct (Hb3 Hne) as [Hb4 Hb5].
    split; [lia|]. split; [split; [reflexivity|split; [reflexivity|exact Hb5]]|].
    split; [exact Hbi|]. split; [lia|].
    split; [reflexivity|]. split; [exact Hbr4|]. split; [exact Hbr2|]. split; assumption.
Qed.

(* ---------- readings of the recsize rule ---------- *)

Lemma rsum_vsof : forall h, rsum (vsof h) = zsum (map (var_len (h_dims h)) (rec_vars h)).
Proof.
  intros h. unfold vsof, rec_vars. induction (h_vars h) as [|v vars IH]; [reflexivity|].
  cbn [map rsum filter]. destruct (is_recvar (h_dims h) v); cbn [map zsum]; rewrite IH; reflexivity.
Qed.

(** exactly one record variable: recsize is its unpadded size *)
Corollary recsize_single : forall h v, rec_vars h = [v] -> recsize_of h = unpadded (h_dims h) v.
Proof.
  intros h v H. unfold recsize_of. rewrite rsum_vsof.
  assert (E : rlast (vsof h) None =
              match last_opt (rec_vars h) with
              | Some y => Some (var_len (h_dims h) y) | None => None end).
  { unfold vsof. rewrite rlast_map. reflexivity. }
  rewrite E. change (filter (fun v0 => is_recvar (h_dims h) v0) (h_vars h)) with (rec_vars h).
  rewrite H. cbn [last_opt rev app map zsum]. replace (var_len (h_dims h) v + 0 =? var_len (h_dims h) v) with true by lia.
  reflexivity.
Qed.

(** no record variable: recsize 0 *)
Corollary recsize_none : forall h, rec_vars h = [] -> recsize_of h = 0.
Proof.
  intros h H. unfold recsize_of. rewrite rsum_vsof.
  change (filter (fun v0 => is_recvar (h_dims h) v0) (h_vars h)) with (rec_vars h).
  rewrite H. reflexivity.
Qed.

(** two or more record variables, none empty: recsize is the sum of their (padded) lens *)
Corollary recsize_multi : forall h, hdr_wf h ->
  (2 <= length (rec_vars h))%nat -> (forall v, In v (rec_vars h) -> 0 < var_len (h_dims h) v) ->
  recsize_of h = zsum (map (var_len (h_dims h)) (rec_vars h)).
Proof.
  intros h Hwf H2 Hpos. unfold recsize_of. rewrite rsum_vsof.
  assert (E : rlast (vsof h) None =
              match last_opt (rec_vars h) with
              | Some y => Some (var_len (h_dims h) y) | None => None end).
  { unfold vsof. rewrite rlast_map. reflexivity. }
  rewrite E. change (filter (fun v0 => is_recvar (h_dims h) v0) (h_vars h)) with (rec_vars h).
  destruct (snoc_cases_layout _ (rec_vars h)) as [En|[l [x El]]].
  - rewrite En in H2. cbn [length] in H2. lia.
  - rewrite El in *. rewrite last_opt_snoc.
    destruct l as [|y l]; [cbn [app length] in H2; lia|].
    rewrite map_app, zsum_app_layout. cbn [map zsum].
    assert (Hy : 0 < var_len (h_dims h) y) by (apply Hpos; left; reflexivity).
    assert (Hl : 0 <= zsum (map (var_len (h_dims h)) l)).
    { assert (Hl' : forall v, In v l -> 0 < var_len (h_dims h) v).
      { intros v Hv. apply Hpos. right. apply in_or_app. left. exact Hv. }
      clear -Hl'. induction l as [|z l IH]; cbn [map zsum]; [lia|].
      pose proof (Hl' z (or_introl eq_refl)). 
      assert (0 <= zsum (map (var_len (h_dims h)) l)) by (apply IH; intros v Hv; apply Hl'; right; exact Hv).
      lia. }
    destruct (Z.eqb_spec (var_len (h_dims h) y + zsum (map (var_len (h_dims h)) l) +
                          (var_len (h_dims h) x + 0)) (var_len (h_dims h) x)); [lia|reflexivity].
Qed.

(* ====================================================================== *)
(** * 9. REDEFINITION: abstract core                                       *)
(* ====================================================================== *)

Lemma rsum_app : forall a b, rsum (a ++ b) = rsum a + rsum b.
Proof.
  induction a as [|[k len] a IH]; intros b; cbn [app rsum]; [lia|]. rewrite IH. destruct k; lia.
Qed.

Lemma rsum_nonneg : forall vs, Forall (fun p : bool * Z => 0 <= snd p) vs -> 0 <= rsum vs.
Proof.
  induction vs as [|[k len] r IH]; intros H; cbn [rsum]; [lia|].
  inversion H as [|? ? Hp Hr]; subst. cbn [snd] in Hp. specialize (IH Hr). destruct k; lia.
Qed.

Lemma rsum_no_rec : forall t3 : tlist,
  filter (fun t : bool * Z * Z => fst (fst t)) t3 = [] -> rsum (map fst t3) = 0.
Proof.
  induction t3 as [|[[k len] u] r IH]; intros H; [reflexivity|].
  cbn [filter fst] in H. destruct k; [discriminate H|]. cbn [map fst rsum]. exact (IH H).
Qed.

Lemma rsum_ge_in : forall (t3 : tlist) t, wf_t3 t3 ->
  In t (filter (fun t : bool * Z * Z => fst (fst t)) t3) -> snd (fst t) <= rsum (map fst t3).
Proof.
  induction t3 as [|[[k len] u] r IH]; intros t Hwf Hin; [destruct Hin|].
  inversion Hwf as [|? ? Hp Hr]; subst. cbn [fst snd] in Hp.
  pose proof (rsum_nonneg _ (proj1 (wf_t3_lens r Hr))) as Hnn.
  cbn [filter fst] in Hin. cbn [map fst rsum]. destruct k.
  - destruct Hin as [<-|Hin]; [cbn [fst snd]; lia|]. specialize (IH t Hr Hin). lia.
  - exact (IH t Hr Hin).
Qed.

Lemma rs_rule_bounds : forall t3, wf_t3 t3 -> 0 <= rs_rule t3 <= rsum (map fst t3).
Proof.
  intros t3 Hwf. unfold rs_rule.
  pose proof (rsum_nonneg _ (proj1 (wf_t3_lens t3 Hwf))) as Hnn.
  destruct (last_opt (filter (fun t : bool * Z * Z => fst (fst t)) t3)) as [[[k ll] u]|] eqn:El;
    [|lia].
  assert (Hin : In (k, ll, u) t3).
  { unfold last_opt in El.
    destruct (rev (filter (fun t : bool * Z * Z => fst (fst t)) t3)) as [|y r] eqn:Er; [discriminate El|].
    injection El as ->. assert (Hy : In (k, ll, u) (rev (filter (fun t : bool * Z * Z => fst (fst t)) t3)))
      by (rewrite Er; left; reflexivity).
    apply in_rev in Hy. apply filter_In in Hy. exact (proj1 Hy). }
  unfold wf_t3 in Hwf. rewrite Forall_forall in Hwf. specialize (Hwf _ Hin). cbn [fst snd] in Hwf.
  destruct (Z.eqb_spec (rsum (map fst t3)) ll); lia.
Qed.

(** the record size never shrinks when variables are appended *)
Lemma rs_rule_mono : forall t3o ext3, wf_t3 (t3o ++ ext3) -> rs_rule t3o <= rs_rule (t3o ++ ext3).
Proof.
  intros t3o ext3 Hwf. destruct (proj1 (wf_t3_app _ _) Hwf) as [Hwo Hwe].
  pose proof (rs_rule_bounds t3o Hwo) as Hbo.
  unfold rs_rule at 2. rewrite map_app, rsum_app, filter_app.
  destruct (snoc_cases_layout _ (filter (fun t : bool * Z * Z => fst (fst t)) ext3))
    as [En|[l [x El]]].
  - rewrite En, app_nil_r, (rsum_no_rec ext3 En), Z.add_0_r. unfold rs_rule. lia.
  - rewrite El, app_assoc, last_opt_snoc. destruct x as [[k ll] u].
    assert (Hin : In (k, ll, u) (filter (fun t : bool * Z * Z => fst (fst t)) ext3))
      by (rewrite El; apply in_or_app; right; left; reflexivity).
    pose proof (rsum_ge_in ext3 _ Hwe Hin) as Hge. cbn [fst snd] in Hge.
    apply filter_In in Hin. destruct Hin as [Hin _].
    unfold wf_t3 in Hwe. rewrite Forall_forall in Hwe. specialize (Hwe _ Hin). cbn [fst snd] in Hwe.
    destruct (Z.eqb_spec (rsum (map fst t3o) + rsum (map fst ext3)) ll); lia.
Qed.

Section RedefCore.
  Variables (t3o ext3 : tlist) (obl : list Z) (obv obr xsz bv1 br : Z).
  Let vo := map fst t3o.
  Let vs := map fst (t3o ++ ext3).
  Let oldf := map fst (sel false vo obl).
  Let oldr := map fst (sel true vo obl).
  Let bl := assign vs oldf oldr bv1 br.
  Let nbv := begin_var_of vs bl br.

  Hypothesis Hwf : wf_t3 (t3o ++ ext3).
  (* the old layout *)
  Hypothesis Holen : length obl = length vo.
  Hypothesis Hobi : begins_increasing obv (sel false vo obl) = true.
  Hypothesis Hobv : obv = match sel false vo obl with (b, _) :: _ => b | [] => obr end.
  Hypothesis Hoend : last_end obv (sel false vo obl) <= obr.
  Hypothesis Hobr4 : obr mod 4 = 0.
  Hypothesis Hoc : contig obr (sel true vo obl).
  (* the new section starts *)
  Hypothesis Hbv_x : xsz <= bv1.
  Hypothesis Hbv_o : obv <= bv1.
  Hypothesis Hbr_o : obr <= br.
  Hypothesis Hbr_f : fend vs oldf bv1 <= br.
  Hypothesis Hbr4 : br mod 4 = 0.

  Lemma rc_vs : vs = vo ++ map fst ext3.
  Proof. unfold vs, vo. apply map_app. Qed.

  Lemma rc_inv : lay_inv (t3o ++ ext3) (mklayout xsz nbv br (rs_rule (t3o ++ ext3)) bl).
  Proof.
    apply (mk_lay_inv (t3o ++ ext3) xsz bv1 br oldf oldr); try assumption.
    - unfold oldf. exact (bi_fst_mod4 _ _ Hobi).
    - fold vs. rewrite rc_vs. unfold oldr. apply (rpairs_contig vo obl _ obr br Holen Hoc Hbr_o).
  Qed.

  Lemma rc_bl_len : length bl = length vs.
  Proof. apply assign_length. Qed.

  Lemma rc_nbv_ge : bv1 <= nbv /\ nbv <= br.
  Proof.
    destruct rc_inv as (_ & _ & Hbi & Hbv & Hle & _).
    cbn [l_begins l_begin_var l_begin_rec] in *. fold vs in Hbi, Hbv, Hle.
    unfold bl in Hbi, Hbv, Hle. rewrite sel_false_assign in *.
    destruct (wf_t3_lens _ Hwf) as [Hnn _]. fold vs in Hnn.
    pose proof (sel_lens_Forall (fun x => 0 <= x) false vs bl Hnn) as Hfa.
    unfold bl in Hfa. rewrite sel_false_assign in Hfa.
    pose proof (last_end_ge _ nbv Hfa Hbi) as Hge.
    split; [|lia].
    destruct (fpairs vs oldf bv1) as [|[b len] rest] eqn:Ep.
    - pose proof (fpairs_nil_fend _ _ _ Ep). lia.
    - pose proof (fpairs_head _ _ _ _ _ _ Ep) as Eb.
      pose proof (fix_b_ok bv1 oldf (bi_fst_mod4 _ _ Hobi)). fold oldf in H. lia.
  Qed.

  Lemma rc_znth_vs : forall i, 0 <= i < Zlen vo -> znth vs i dvs = znth vo i dvs.
  Proof. intros i Hi. rewrite rc_vs. apply znth_app_l. exact Hi. Qed.

  Lemma rc_lens_nonneg : Forall (fun p : bool * Z => 0 <= snd p) vs /\
                         Forall (fun p : bool * Z => 0 <= snd p) vo.
  Proof.
    destruct (wf_t3_lens _ Hwf) as [Hnn _]. fold vs in Hnn. split; [exact Hnn|].
    rewrite rc_vs in Hnn. apply Forall_app in Hnn. exact (proj1 Hnn).
  Qed.

  (** old fixed variables: never move down, stay ordered and disjoint, inside their sections *)
  Lemma rc_fixed : forall i, 0 <= i < Zlen vo -> fst (znth vo i dvs) = false ->
    0 <= snd (znth vo i dvs) /\
    znth obl i 0 <= znth bl i 0 /\
    obv <= znth obl i 0 /\ znth obl i 0 + snd (znth vo i dvs) <= obr /\
    nbv <= znth bl i 0 /\ znth bl i 0 + snd (znth vo i dvs) <= br.
  Proof.
    intros i Hi Hk. destruct rc_lens_nonneg as [Hnn Hnno].
    destruct (bi_sel_index false vo obl obv Holen Hnno Hobi) as [Ho1 _].
    destruct (Ho1 i Hi Hk) as (A & B & C).
    destruct rc_inv as (_ & _ & Hbi & _ & Hle & _).
    cbn [l_begins l_begin_var l_begin_rec] in *. fold vs in Hbi, Hle.
    destruct (bi_sel_index false vs bl nbv rc_bl_len Hnn Hbi) as [Hn1 _].
    assert (Hi' : 0 <= i < Zlen vs).
    { rewrite rc_vs, Zlen_app. pose proof (Zlen_nonneg _ (map fst ext3)). lia. }
    specialize (Hn1 i Hi'). rewrite (rc_znth_vs i Hi) in Hn1. destruct (Hn1 Hk) as (A' & B' & C').
    split.
    { rewrite Forall_forall in Hnno. apply Hnno. unfold Zlen in Hi.
      clear -Hi. revert i Hi. induction vo as [|x l IH]; intros i Hi; cbn [length] in Hi; [lia|].
      destruct (Z.eq_dec i 0) as [->|E]; [left; reflexivity|].
      rewrite znth_cons_pos by exact E. right. apply IH. lia. }
    split.
    { unfold bl. rewrite rc_vs. apply assign_fixed_ge; assumption. }
    repeat (split; [lia|]). lia.
  Qed.

  Lemma rc_fixed_order : forall i j, 0 <= i -> i < j -> j < Zlen vo ->
    fst (znth vo i dvs) = false -> fst (znth vo j dvs) = false ->
    znth obl i 0 + snd (znth vo i dvs) <= znth obl j 0 /\
    znth bl i 0 + snd (znth vo i dvs) <= znth bl j 0.
  Proof.
    intros i j Hi Hij Hj Hki Hkj. destruct rc_lens_nonneg as [Hnn Hnno].
    destruct (bi_sel_index false vo obl obv Holen Hnno Hobi) as [_ Ho2].
    destruct rc_inv as (_ & _ & Hbi & _).
    cbn [l_begins l_begin_var] in *. fold vs in Hbi.
    destruct (bi_sel_index false vs bl nbv rc_bl_len Hnn Hbi) as [_ Hn2].
    split; [apply Ho2; assumption|].
    assert (Hj' : j < Zlen vs).
    { rewrite rc_vs, Zlen_app. pose proof (Zlen_nonneg _ (map fst ext3)). lia. }
    specialize (Hn2 i j Hi Hij Hj').
    rewrite (rc_znth_vs i ltac:(lia)), (rc_znth_vs j ltac:(lia)) in Hn2. apply Hn2; assumption.
  Qed.

  (** old record variables keep their offset inside the record *)
  Lemma rc_rec : forall i, 0 <= i < Zlen vo -> fst (znth vo i dvs) = true ->
    znth obl i 0 = obr + roff vo i /\ znth bl i 0 = br + roff vo i /\
    0 <= roff vo i /\ roff vo i + snd (znth vo i dvs) <= rsum vo.
  Proof.
    intros i Hi Hk. destruct rc_lens_nonneg as [Hnn Hnno].
    destruct rc_inv as (_ & _ & _ & _ & _ & _ & Hc & _). cbn [l_begins l_begin_rec] in Hc. fold vs in Hc.
    assert (Hi' : 0 <= i < Zlen vs).
    { rewrite rc_vs, Zlen_app. pose proof (Zlen_nonneg _ (map fst ext3)). lia. }
    pose proof (contig_sel_index vo obl obr Holen Hoc i Hi Hk) as E1.
    pose proof (contig_sel_index vs bl br rc_bl_len Hc i Hi') as E2.
    rewrite (rc_znth_vs i Hi) in E2. specialize (E2 Hk).
    rewrite rc_vs, roff_app_l in E2 by lia.
    destruct (roff_bounds vo i Hnno Hi) as [B1 B2].
    split; [exact E1|]. split; [exact E2|]. split; [exact B1|exact (B2 Hk)].
  Qed.

  (** if begin_var does not grow, no old fixed variable moves *)
  Lemma rc_fixed_same : nbv <= obv ->
    forall i, 0 <= i < Zlen vo -> fst (znth vo i dvs) = false -> znth bl i 0 = znth obl i 0.
  Proof.
    intros Hle i Hi Hk. destruct rc_nbv_ge as [Hge _].
    unfold bl. rewrite rc_vs. apply assign_fixed_same; try assumption.
    apply (bi_weaken _ obv); [lia|exact Hobi].
  Qed.
End RedefCore.

(* ====================================================================== *)
(** * 10. REDEFINITION: headers                                            *)
(* ====================================================================== *)

(** the new header extends the old one: the old variables are the first variables of the new
    header, with the same kinds (fixed/record), the same lens and the same unpadded sizes;
    new variables are appended *)
Definition hdr_extends (oh h : hdr) : Prop := exists ext3, t3of h = t3of oh ++ ext3.

(* what ncmpio__enddef hands to NC_begins after a redef: the saved old header's layout and
   variable kinds *)
Definition redef_old (oh : hdr) (ol : layout) : option (layout * list bool) :=
  Some (ol, map (is_recvar (h_dims oh)) (h_vars oh)).

Lemma recs_vo : forall oh, map (is_recvar (h_dims oh)) (h_vars oh) = map fst (map fst (t3of oh)).
Proof. intros oh. unfold t3of. rewrite !map_map. reflexivity. Qed.

Lemma Zlen_t3of : forall h, Zlen (map fst (t3of h)) = Zlen (h_vars h).
Proof. intros h. unfold t3of. rewrite !Zlen_map. reflexivity. Qed.

Definition rd_bl (oh : hdr) (ol : layout) (ext3 : tlist) (bv1 br : Z) : list Z :=
  assign (map fst (t3of oh ++ ext3))
         (map fst (sel false (map fst (t3of oh)) (l_begins ol)))
         (map fst (sel true (map fst (t3of oh)) (l_begins ol))) bv1 br.

Lemma redef_setup : forall oh ol h ext3 hm vm ha ra,
  hdr_wf h -> 0 <= hm -> 0 <= vm -> 0 < ha -> 4 <= ra -> ra mod 4 = 0 ->
  lay_inv (t3of oh) ol -> t3of h = t3of oh ++ ext3 ->
  let old := redef_old oh ol in
  let bv1 := bv1_of h hm ha old in
  let br := begin_rec_of h hm vm ha ra old (l_begin_rec ol) in
  let bl := rd_bl oh ol ext3 bv1 br in
  layout_of_begins h hm vm ha ra old (l_begin_rec ol) =
    mklayout (hdr_len h) (begin_var_of (map fst (t3of oh ++ ext3)) bl br) br
             (rs_rule (t3of oh ++ ext3)) bl /\
  wf_t3 (t3of oh ++ ext3) /\
  hdr_len h <= bv1 /\ l_begin_var ol <= bv1 /\ l_begin_rec ol <= br /\
  fend (map fst (t3of oh ++ ext3))
       (map fst (sel false (map fst (t3of oh)) (l_begins ol))) bv1 <= br /\
  br mod 4 = 0.
Proof.
  intros oh ol h ext3 hm vm ha ra Hwf Hhm Hvm Hha Hra Hra4 Hinv Hext old bv1 br bl.
  destruct Hinv as (Holen & Hox & Hobi & Hobv & Hoend & Hobr4 & Hoc & Hors).
  assert (Eof : old_fixed_of old = map fst (sel false (map fst (t3of oh)) (l_begins ol))).
  { unfold old, redef_old, old_fixed_of. rewrite recs_vo. apply old_fixed_sel. }
  assert (Eor : old_rec_of old = map fst (sel true (map fst (t3of oh)) (l_begins ol))).
  { unfold old, redef_old, old_rec_of. rewrite recs_vo. apply old_rec_sel. }
  assert (Evs : vsof h = map fst (t3of oh ++ ext3)) by (rewrite vsof_t3of, Hext; reflexivity).
  split.
  { unfold layout_of_begins. fold old. fold br. fold bv1.
    rewrite Eof, Eor, Evs, recsize_of_rule, Hext. reflexivity. }
  split. { rewrite <- Hext. apply wf_t3of. exact Hwf. }
  assert (Hbv0 : hdr_len h <= match h_vars h with [] => hdr_len h
                                | _ :: _ => rndup (hdr_len h + hm) ha end).
  { destruct (h_vars h); [lia|]. destruct (rndup_pos (hdr_len h + hm) ha Hha). lia. }
  assert (Ebv : bv1 = Z.max (match h_vars h with [] => hdr_len h
                                | _ :: _ => rndup (hdr_len h + hm) ha end) (l_begin_var ol))
    by reflexivity.
  split; [lia|]. split; [lia|].
  set (fe := fend (map fst (t3of oh ++ ext3))
                  (map fst (sel false (map fst (t3of oh)) (l_begins ol))) bv1).
  assert (Ebr : br = Z.max (rndup (rndup (Z.max (l_begin_rec ol) (fe + vm)) 4) ra) (l_begin_rec ol)).
  { unfold br, begin_rec_of, end_fixed_of, br3_of. fold old. fold bv1. rewrite Eof, Evs. fold fe.
    replace (ra >? 1) with true by lia. reflexivity. }
  pose proof (rndup4_bounds (Z.max (l_begin_rec ol) (fe + vm))) as H1.
  destruct (rndup_pos (rndup (Z.max (l_begin_rec ol) (fe + vm)) 4) ra ltac:(lia)) as [H2 _].
  pose proof (rndup_mult4 (rndup (Z.max (l_begin_rec ol) (fe + vm)) 4) ra ltac:(lia) Hra4) as H3.
  split; [lia|]. split; [lia|].
  rewrite Ebr.
  destruct (Z.max_spec (rndup (rndup (Z.max (l_begin_rec ol) (fe + vm)) 4) ra) (l_begin_rec ol))
    as [[_ ->]|[_ ->]]; assumption.
Qed.

Section Redef.
  Variables (oh h : hdr) (ol lay : layout) (hm vm ha ra : Z).
  Hypothesis Hwf : hdr_wf h.
  Hypothesis Hhm : 0 <= hm.
  Hypothesis Hvm : 0 <= vm.
  Hypothesis Hha : 0 < ha.
  Hypothesis Hra : 4 <= ra.
  Hypothesis Hra4 : ra mod 4 = 0.
  Hypothesis Hinv : lay_inv (t3of oh) ol.
  Hypothesis Hext : hdr_extends oh h.
  Hypothesis Hbeg : begins h hm vm ha ra (redef_old oh ol) (l_begin_rec ol) = Some lay.

  (** Deliverable 2a: the invariant is preserved by a redefinition, hence holds after every
      history create; enddef; (redef; enddef)^n *)
  Theorem begins_lay_inv_redef : lay_inv (t3of h) lay.
  Proof.
    destruct Hext as [ext3 He]. apply begins_some in Hbeg. destruct Hbeg as [-> _].
    destruct (redef_setup oh ol h ext3 hm vm ha ra Hwf Hhm Hvm Hha Hra Hra4 Hinv He)
      as (El & Hw & B1 & B2 & B3 & B4 & B5).
    destruct Hinv as (Holen & Hox & Hobi & Hobv & Hoend & Hobr4 & Hoc & Hors).
    rewrite El, He. unfold rd_bl.
    apply (rc_inv (t3of oh) ext3 (l_begins ol) (l_begin_var ol) (l_begin_rec ol)); assumption.
  Qed.

  (** Deliverable 2b: layout_ok after a redefinition *)
  Theorem begins_layout_ok_redef :
    layout_ok (set_begins h (l_begins lay)) (l_xsz lay) = true /\
    l_xsz lay = hdr_len h /\ Zlen (l_begins lay) = Zlen (h_vars h) /\
    l_recsize lay = recsize_of h.
  Proof.
    pose proof begins_lay_inv_redef as Hi.
    split; [apply lay_inv_layout_ok; [apply wf_t3of; exact Hwf|exact Hi]|].
    destruct Hi as (Hl & _ & _ & _ & _ & _ & _ & Hrs).
    apply begins_some in Hbeg. destruct Hbeg as [E _].
    split; [rewrite E; reflexivity|].
    split; [rewrite !length_Zlen, Hl, <- !length_Zlen; apply Zlen_t3of|].
    rewrite Hrs. symmetry. apply recsize_of_rule.
  Qed.

  (** Deliverable 2c: nothing ever moves towards the beginning of the file *)
  Theorem begins_monotone :
    (forall i, 0 <= i < Zlen (h_vars oh) ->
       znth (l_begins ol) i 0 <= znth (l_begins lay) i 0) /\
    l_begin_var ol <= l_begin_var lay /\
    l_begin_rec ol <= l_begin_rec lay /\
    l_recsize ol <= l_recsize lay /\ 0 <= l_recsize ol.
  Proof.
    destruct Hext as [ext3 He]. apply begins_some in Hbeg. destruct Hbeg as [-> _].
    destruct (redef_setup oh ol h ext3 hm vm ha ra Hwf Hhm Hvm Hha Hra Hra4 Hinv He)
      as (El & Hw & B1 & B2 & B3 & B4 & B5).
    destruct Hinv as (Holen & Hox & Hobi & Hobv & Hoend & Hobr4 & Hoc & Hors).
    rewrite El. cbn [l_begins l_begin_var l_begin_rec l_recsize]. unfold rd_bl.
    split; [|split; [|split; [|split]]].
    - intros i Hi. rewrite <- Zlen_t3of in Hi.
      destruct (fst (znth (map fst (t3of oh)) i dvs)) eqn:Ek.
      + destruct (rc_rec (t3of oh) ext3 (l_begins ol) (l_begin_var ol) (l_begin_rec ol)
                    (hdr_len h) _ _ Hw Holen Hobi Hoc B1 B3 B4 B5 i Hi Ek) as (E1 & E2 & _).
        rewrite E1, E2. lia.
      + destruct (rc_fixed (t3of oh) ext3 (l_begins ol) (l_begin_var ol) (l_begin_rec ol)
                    (hdr_len h) _ _ Hw Holen Hobi Hoend Hoc B1 B3 B4 B5 i Hi Ek) as (_ & E & _).
        exact E.
    - pose proof (rc_nbv_ge (t3of oh) ext3 (l_begins ol) (l_begin_var ol) (l_begin_rec ol)
                    (hdr_len h) _ _ Hw Holen Hobi Hoc B1 B3 B4 B5). lia.
    - exact B3.
    - rewrite Hors. apply rs_rule_mono. exact Hw.
    - rewrite Hors. apply rs_rule_bounds. exact (proj1 (proj1 (wf_t3_app _ _) Hw)).
  Qed.

  (** the index-level facts the data mover needs (Proofs_Redef.v); old variable i is
      variable i of both headers, kind and len read from the old header *)
  Theorem begins_redef_facts :
    let vo := vsof oh in
    let ob := fun i => znth (l_begins ol) i 0 in
    let nb := fun i => znth (l_begins lay) i 0 in
    let kind := fun i => fst (znth vo i dvs) in
    let len := fun i => snd (znth vo i dvs) in
    (* the first variables of the new header are the old ones *)
    (forall i, 0 <= i < Zlen (h_vars oh) -> znth (vsof h) i dvs = znth vo i dvs) /\
    Zlen (h_vars oh) <= Zlen (h_vars h) /\
    (* fixed variables *)
    (forall i, 0 <= i < Zlen (h_vars oh) -> kind i = false ->
       0 <= len i /\ ob i <= nb i /\
       l_begin_var ol <= ob i /\ ob i + len i <= l_begin_rec ol /\
       l_begin_var lay <= nb i /\ nb i + len i <= l_begin_rec lay) /\
    (forall i j, 0 <= i -> i < j -> j < Zlen (h_vars oh) -> kind i = false -> kind j = false ->
       ob i + len i <= ob j /\ nb i + len i <= nb j) /\
    (* record variables: same offset inside the record before and after *)
    (forall i, 0 <= i < Zlen (h_vars oh) -> kind i = true ->
       ob i = l_begin_rec ol + roff vo i /\ nb i = l_begin_rec lay + roff vo i /\
       0 <= roff vo i /\ roff vo i + len i <= rsum vo) /\
    (* sections *)
    hdr_len h <= l_begin_var lay /\ l_begin_var lay <= l_begin_rec lay /\
    l_begin_var ol <= l_begin_var lay /\ l_begin_rec ol <= l_begin_rec lay /\
    0 <= l_recsize ol /\ l_recsize ol <= l_recsize lay /\ l_recsize ol <= rsum vo /\
    (* if begin_var does not grow, no old fixed variable moves *)
    (l_begin_var lay <= l_begin_var ol ->
       forall i, 0 <= i < Zlen (h_vars oh) -> kind i = false -> nb i = ob i).
  Proof.
    intros vo ob nb kind len. unfold ob, nb, kind, len, vo. clear ob nb kind len vo.
    pose proof begins_monotone as (M1 & M2 & M3 & M4 & M5).
    destruct Hext as [ext3 He]. apply begins_some in Hbeg. destruct Hbeg as [-> _].
    destruct (redef_setup oh ol h ext3 hm vm ha ra Hwf Hhm Hvm Hha Hra Hra4 Hinv He)
      as (El & Hw & B1 & B2 & B3 & B4 & B5).
    destruct Hinv as (Holen & Hox & Hobi & Hobv & Hoend & Hobr4 & Hoc & Hors).
    rewrite El in M1, M2, M3, M4 |- *.
    cbn [l_begins l_begin_var l_begin_rec l_recsize] in M1, M2, M3, M4 |- *.
    unfold rd_bl in M1, M2, M3, M4 |- *.
    assert (Evs : vsof h = map fst (t3of oh) ++ map fst ext3)
      by (rewrite vsof_t3of, He; apply map_app).
    assert (Eno : Zlen (h_vars oh) = Zlen (map fst (t3of oh))) by (symmetry; apply Zlen_t3of).
    assert (Enn : Zlen (h_vars h) = Zlen (map fst (t3of oh)) + Zlen (map fst ext3)).
    { rewrite <- Zlen_t3of, He, map_app. apply Zlen_app. }
    rewrite Evs, (vsof_t3of oh), Eno, Enn.
    pose proof (Zlen_nonneg _ (map fst ext3)) as Hen.
    pose proof (rc_nbv_ge (t3of oh) ext3 (l_begins ol) (l_begin_var ol) (l_begin_rec ol)
                  (hdr_len h) _ _ Hw Holen Hobi Hoc B1 B3 B4 B5) as Hnbv.
    split; [intros i Hi; apply znth_app_l; exact Hi|].
    split; [lia|].
    split.
    { intros i Hi Hk.
      exact (rc_fixed (t3of oh) ext3 (l_begins ol) (l_begin_var ol) (l_begin_rec ol)
               (hdr_len h) _ _ Hw Holen Hobi Hoend Hoc B1 B3 B4 B5 i Hi Hk). }
    split.
    { intros i j Hi Hij Hj Hki Hkj.
      exact (rc_fixed_order (t3of oh) ext3 (l_begins ol) (l_begin_var ol) (l_begin_rec ol)
               (hdr_len h) _ _ Hw Holen Hobi Hoc B1 B3 B4 B5 i j Hi Hij Hj Hki Hkj). }
    split.
    { intros i Hi Hk.
      exact (rc_rec (t3of oh) ext3 (l_begins ol) (l_begin_var ol) (l_begin_rec ol)
               (hdr_len h) _ _ Hw Holen Hobi Hoc B1 B3 B4 B5 i Hi Hk). }
    split; [lia|]. split; [lia|]. split; [exact M2|]. split; [exact M3|].
    split; [exact M5|]. split; [exact M4|].
    split.
    { rewrite Hors. apply rs_rule_bounds. exact (proj1 (proj1 (wf_t3_app _ _) Hw)). }
    intros Hle i Hi Hk.
    exact (rc_fixed_same (t3of oh) ext3 (l_begins ol) (l_begin_var ol) (l_begin_rec ol)
             (hdr_len h) _ _ Hw Holen Hobi Hoc B1 B3 B4 B5 Hle i Hi Hk).
  Qed.
End Redef.

(* ====================================================================== *)
(** * 11. C18: when does enddef fail with NC_EVARSIZE                      *)
(* ====================================================================== *)

Lemma over_int_Exists : forall l, over_int l = true <-> Exists (fun s => s > NC_MAX_INT) l.
Proof.
  intros l. unfold over_int. rewrite existsb_exists, Exists_exists.
  split; intros [x [Hin Hx]]; exists x; split; try assumption; lia.
Qed.

(** the exact failure condition of NC_begins, every case (new file or redefinition):
    CDF-1 and the running end offset seen when some fixed or record variable is placed
    exceeds NC_MAX_INT = 2^31-1 *)
Theorem begins_none_iff : forall h hm vm ha ra old pbr,
  begins h hm vm ha ra old pbr = None <->
  h_format h = 1 /\
  (Exists (fun s => s > NC_MAX_INT) (fstarts (vsof h) (old_fixed_of old) (bv1_of h hm ha old)) \/
   Exists (fun s => s > NC_MAX_INT) (rstarts (vsof h) (begin_rec_of h hm vm ha ra old pbr))).
Proof.
  intros h hm vm ha ra old pbr. rewrite begins_eq, <- !over_int_Exists.
  unfold begins_overflow.
  destruct (Z.eqb_spec (h_format h) 1) as [E|E]; cbn [andb].
  - destruct (over_int (fstarts (vsof h) (old_fixed_of old) (bv1_of h hm ha old)));
      destruct (over_int (rstarts (vsof h) (begin_rec_of h hm vm ha ra old pbr))); cbn [orb];
      split; try discriminate; try (intros _; split; [exact E|auto]); try reflexivity;
      intros [_ [C|C]]; discriminate C.
  - split; [discriminate|]. intros [C _]. contradiction.
Qed.

Corollary begins_not_none_fmt : forall h hm vm ha ra old pbr,
  h_format h <> 1 -> begins h hm vm ha ra old pbr <> None.
Proof. intros h hm vm ha ra old pbr Hf C. apply begins_none_iff in C. destruct C as [C _]. contradiction. Qed.

(* the running end offsets are the ends of the preceding variables *)
Fixpoint prev_ends (e : Z) (l : list (Z * Z)) : list Z :=
  match l with [] => [] | (b, len) :: r => e :: prev_ends (b + len) r end.

Lemma fstarts_prev_ends : forall vs oldf e, fstarts vs oldf e = prev_ends e (fpairs vs oldf e).
Proof.
  induction vs as [|[k len] r IH]; intros oldf e; [reflexivity|].
  destruct k; cbn [fstarts fpairs prev_ends]; rewrite IH; reflexivity.
Qed.

Lemma rstarts_rpairs : forall vs e, rstarts vs e = map fst (rpairs vs [] e).
Proof.
  induction vs as [|[k len] r IH]; intros e; [reflexivity|].
  destruct k; cbn [rstarts rpairs rec_b tl map fst]; rewrite IH; reflexivity.
Qed.

(* new file, aligned start: a fixed variable begins exactly at the end of the previous one *)
Lemma fstarts_new : forall vs e, e mod 4 = 0 -> Forall (fun p : bool * Z => snd p mod 4 = 0) vs ->
  fstarts vs [] e = map fst (fpairs vs [] e).
Proof.
  induction vs as [|[k len] r IH]; intros e He H; [reflexivity|].
  inversion H as [|? ? Hp Hr]; subst. cbn [snd] in Hp.
  destruct k; cbn [fstarts fpairs fix_b tl map fst].
  - apply IH; assumption.
  - rewrite (rndup4_id e He). rewrite IH; [reflexivity|lia|exact Hr].
Qed.

Lemma Exists_sel_split : forall (P : Z -> Prop) vs bl, length bl = length vs ->
  (Exists P bl <-> Exists P (map fst (sel false vs bl)) \/ Exists P (map fst (sel true vs bl))).
Proof.
  intros P vs. induction vs as [|[k len] r IH]; intros [|b bl] Hl; cbn [length] in Hl;
    try discriminate Hl.
  - cbn [sel map]. split; [intros H; inversion H|intros [H|H]; inversion H].
  - injection Hl as Hl. specialize (IH bl Hl). cbn [sel].
    destruct k; cbn [Bool.eqb map fst]; rewrite !Exists_cons, IH; tauto.
Qed.

(** NEW file: enddef's offset test fails exactly for CDF-1 when some variable of the layout
    that would be computed begins beyond NC_MAX_INT *)
Theorem begins_none_iff_new : forall h hm vm ha ra,
  0 <= hm -> 0 < ha -> ha mod 4 = 0 ->
  (begins h hm vm ha ra None 0 = None <->
   h_format h = 1 /\
   Exists (fun b => b > NC_MAX_INT) (l_begins (layout_of_begins h hm vm ha ra None 0))).
Proof.
  intros h hm vm ha ra Hhm Hha Hha4. rewrite begins_none_iff.
  cbn [old_fixed_of]. change (bv1_of h hm ha None) with (bv1_new h hm ha).
  destruct (bv1_new_ok h hm ha Hhm Hha Hha4) as (_ & Hb4 & _).
  assert (H4 : Forall (fun p : bool * Z => snd p mod 4 = 0) (vsof h)).
  { unfold vsof. apply Forall_forall. intros p Hp. apply in_map_iff in Hp.
    destruct Hp as [v [<- _]]. cbn [snd]. apply var_len_unpadded. }
  rewrite (fstarts_new _ _ Hb4 H4), rstarts_rpairs.
  unfold layout_of_begins. cbn [l_begins old_fixed_of old_rec_of].
  change (bv1_of h hm ha None) with (bv1_new h hm ha).
  rewrite (Exists_sel_split _ (vsof h) _ (assign_length _ _ _ _ _)).
  rewrite sel_false_assign, sel_true_assign. reflexivity.
Qed.

(** "enddef succeeds exactly when the size rules hold" (new file) *)
Definition enddef_ok (h : hdr) (hm vm ha ra : Z) : Prop :=
  check_vlens h = NC_NOERR /\ begins h hm vm ha ra None 0 <> None.

Definition size_rules (h : hdr) (hm vm ha ra : Z) : Prop :=
  Proofs_Vlen.check_vlens_rule h /\
  (h_format h = 1 ->
   Forall (fun b => b <= NC_MAX_INT) (l_begins (layout_of_begins h hm vm ha ra None 0))).

Theorem enddef_size_verdict : forall h hm vm ha ra,
  0 <= hm -> 0 < ha -> ha mod 4 = 0 ->
  (enddef_ok h hm vm ha ra <-> size_rules h hm vm ha ra).
Proof.
  intros h hm vm ha ra Hhm Hha Hha4. unfold enddef_ok, size_rules.
  rewrite Proofs_Vlen.check_vlens_iff_rule, (begins_none_iff_new h hm vm ha ra Hhm Hha Hha4).
  split; intros [H1 H2]; (split; [exact H1|]).
  - intros Hf. apply Forall_forall. intros b Hb.
    destruct (Z_le_gt_dec b NC_MAX_INT) as [Hle|Hgt]; [exact Hle|].
    exfalso. apply H2. split; [exact Hf|]. apply Exists_exists. exists b. split; assumption.
  - intros [Hf He]. specialize (H2 Hf). rewrite Forall_forall in H2.
    apply Exists_exists in He. destruct He as [b [Hb Hgt]]. specialize (H2 b Hb). lia.
Qed.

(** and which error: NC_EVARSIZE in both failing cases (see Exec.do_enddef) *)
Corollary enddef_fails_iff : forall h hm vm ha ra,
  0 <= hm -> 0 < ha -> ha mod 4 = 0 ->
  (check_vlens h = NC_EVARSIZE \/ begins h hm vm ha ra None 0 = None <->
   ~ size_rules h hm vm ha ra).
Proof.
  intros h hm vm ha ra Hhm Hha Hha4.
  rewrite <- (enddef_size_verdict h hm vm ha ra Hhm Hha Hha4). unfold enddef_ok.
  destruct (Proofs_Vlen.check_vlens_two_values h) as [E|E]; rewrite E.
  - split.
    + intros [C|C] [_ H]; [exact (Proofs_Vlen.NC_NOERR_ne_EVARSIZE C)|exact (H C)].
    + intros H. right. destruct (begins h hm vm ha ra None 0); [|reflexivity].
      exfalso. apply H. split; [reflexivity|discriminate].
  - split.
    + intros _ [C _]. symmetry in C. exact (Proofs_Vlen.NC_NOERR_ne_EVARSIZE C).
    + intros _. left. reflexivity.
Qed.

(** the vsize field written for a variable reads back as the format's expected vsize
    (saturation at 2^32-1 for CDF-1/2) *)
Theorem vsize_saturation : forall fmt len r, 0 <= len ->
  (fmt <? 5) || (len <? 18446744073709551616) = true ->
  p_nn fmt (vsize_field fmt len ++ r) = Some (expected_vsize fmt len, r).
Proof.
  intros fmt len r H0 H. rewrite p_vsize_field, (dec_vsize_expected fmt len H0 H). reflexivity.
Qed.

(* ====================================================================== *)
(** * 12. hdr_extends holds for what ncmpi_redef allows; examples          *)
(* ====================================================================== *)

(** appending dimensions and variables (and changing attributes, numrecs, begins in any way)
    extends the header, provided the old variables only use existing dimensions *)
Lemma var_shape_app_dims : forall dims nd v,
  Forall (fun id => 0 <= id < Zlen dims) (v_dimids v) ->
  var_shape (dims ++ nd) v = var_shape dims v.
Proof.
  intros dims nd v H. unfold var_shape. apply map_ext_in. intros id Hid.
  rewrite Forall_forall in H. specialize (H id Hid). unfold dim_size. rewrite znth_app_l by exact H.
  reflexivity.
Qed.

Theorem hdr_extends_append : forall oh fmt nr nd gatts vars' nv,
  Forall (fun v => Forall (fun id => 0 <= id < Zlen (h_dims oh)) (v_dimids v)) (h_vars oh) ->
  (* the old variables, up to attributes / begin / fill mode *)
  map (fun v => (v_dimids v, v_type v)) vars' = map (fun v => (v_dimids v, v_type v)) (h_vars oh) ->
  hdr_extends oh (mkhdr fmt nr (h_dims oh ++ nd) gatts (vars' ++ nv)).
Proof.
  intros oh fmt nr nd gatts vars' nv Hids Hsame.
  exists (map (fun v => (is_recvar (h_dims oh ++ nd) v, var_len (h_dims oh ++ nd) v,
                         unpadded (h_dims oh ++ nd) v)) nv).
  unfold t3of. cbn [h_dims h_vars]. rewrite map_app. f_equal.
  revert vars' Hsame. induction Hids as [|v vars Hv Hvars IH]; intros [|v' vars'] Hsame;
    cbn [map] in Hsame; try discriminate Hsame; [reflexivity|].
  injection Hsame as Hd Ht Hrest. cbn [map]. rewrite (IH vars' Hrest). f_equal.
  assert (Hs : var_shape (h_dims oh ++ nd) v' = var_shape (h_dims oh) v).
  { unfold var_shape. rewrite Hd. apply (var_shape_app_dims (h_dims oh) nd v Hv). }
  unfold is_recvar, var_len, unpadded. rewrite Hs, Ht. reflexivity.
Qed.

(* ---------- a concrete header: 2 fixed + 2 record variables, CDF-1 ---------- *)
Definition ex_dims0 : list dim := [mkdim [116] 0; mkdim [120] 5; mkdim [121] 3].

Definition ex_h0 : hdr :=
  mkhdr 1 0 ex_dims0 []
    [ mkvar [97] [1] [] 3 0 false;           (* short a(x)     fixed   10 -> 12 bytes *)
      mkvar [114; 49] [0; 2] [] 4 0 false;   (* int   r1(t,y)  record  12 bytes       *)
      mkvar [98] [1; 2] [] 1 0 false;        (* byte  b(x,y)   fixed   15 -> 16 bytes *)
      mkvar [114; 50] [0; 1] [] 3 0 false ]. (* short r2(t,x)  record  10 -> 12 bytes *)

(* ncmpi__enddef(ncid, 0, 512, 0, 64) on a new file: h_align 512, r_align 64 *)
Example ex_align0 : resolve_align (mkalign 0 0 0) (mkeargs 0 512 0 64) 4 true = (512, 512, 64).
Proof. vm_compute. reflexivity. Qed.

Definition ex_l0 : layout := mklayout 224 512 576 24 [512; 576; 524; 588].

Example ex_begins0 : begins ex_h0 0 0 512 64 None 0 = Some ex_l0.
Proof. vm_compute. reflexivity. Qed.

Example ex_hdr_wf0 : hdr_wf ex_h0.
Proof. unfold hdr_wf. cbn [h_dims ex_h0 ex_dims0]. repeat (apply Forall_cons; [cbn [d_size]; lia|]). apply Forall_nil. Qed.

(* every hypothesis of begins_layout_ok is satisfied; its conclusions on the instance *)
Example ex_layout_ok0 :=
  begins_layout_ok ex_h0 0 0 512 64 ex_l0 ex_hdr_wf0 ltac:(lia) ltac:(lia) ltac:(lia)
    eq_refl ltac:(lia) eq_refl ex_begins0.

Example ex_layout_ok0_direct :
  layout_ok (set_begins ex_h0 (l_begins ex_l0)) (l_xsz ex_l0) = true /\
  fixed_pairs (set_begins ex_h0 (l_begins ex_l0)) = [(512, 12); (524, 16)] /\
  rec_pairs (set_begins ex_h0 (l_begins ex_l0)) = [(576, 12); (588, 12)] /\
  recsize_of ex_h0 = 24.
Proof. vm_compute. repeat split; reflexivity. Qed.

(* exactly one record variable: unpadded record size *)
Example ex_single_rec :
  let h := mkhdr 1 0 ex_dims0 [] [mkvar [114; 50] [0; 1] [] 3 0 false] in
  begins h 0 0 4 4 None 0 = Some (mklayout 108 108 108 10 [108]).
Proof. vm_compute. reflexivity. Qed.

(* ---------- redefinition: the header grows beyond 512 bytes (a 600-byte attribute), one new
   dimension, one new fixed and one new record variable ---------- *)
Definition ex_oh : hdr := set_numrecs (set_begins ex_h0 (l_begins ex_l0)) 3.

Definition ex_h1 : hdr :=
  mkhdr 1 3 (ex_dims0 ++ [mkdim [122] 4]) [mkatt [99] 2 600 (repeat 65 600%nat)]
    (h_vars ex_oh ++ [ mkvar [99] [3] [] 6 0 false;          (* double c(z)   fixed  32 bytes *)
                       mkvar [114; 51] [0] [] 5 0 false ]).  (* float  r3(t)  record  4 bytes *)

Definition ex_l1 : layout := mklayout 924 1024 1088 28 [1024; 1088; 1036; 1100; 1052; 1112].

Example ex_align1 : resolve_align (mkalign 0 0 0) (mkeargs 0 512 0 64) 3 false = (512, 512, 64).
Proof. vm_compute. reflexivity. Qed.

Example ex_begins1 :
  begins ex_h1 0 0 512 64 (redef_old ex_oh ex_l0) (l_begin_rec ex_l0) = Some ex_l1.
Proof. vm_compute. reflexivity. Qed.

Example ex_hdr_wf1 : hdr_wf ex_h1.
Proof.
  unfold hdr_wf. cbn [h_dims ex_h1 ex_dims0 app].
  repeat (apply Forall_cons; [cbn [d_size]; lia|]). apply Forall_nil.
Qed.

Example ex_extends1 : hdr_extends ex_oh ex_h1.
Proof.
  apply (hdr_extends_append ex_oh 1 3 [mkdim [122] 4] _ (h_vars ex_oh) _).
  - cbn. change (Zlen ex_dims0) with 3.
    repeat (apply Forall_cons; [repeat (apply Forall_cons; [lia|]); apply Forall_nil|]).
    apply Forall_nil.
  - reflexivity.
Qed.

Example ex_lay_inv0 : lay_inv (t3of ex_oh) ex_l0.
Proof. exact (proj1 ex_layout_ok0). Qed.

Example ex_lay_inv1 : lay_inv (t3of ex_h1) ex_l1 :=
  begins_lay_inv_redef ex_oh ex_h1 ex_l0 ex_l1 0 0 512 64 ex_hdr_wf1 ltac:(lia) ltac:(lia)
    ltac:(lia) ltac:(lia) eq_refl ex_lay_inv0 ex_extends1 ex_begins1.

Example ex_monotone1 :=
  begins_monotone ex_oh ex_h1 ex_l0 ex_l1 0 0 512 64 ex_hdr_wf1 ltac:(lia) ltac:(lia)
    ltac:(lia) ltac:(lia) eq_refl ex_lay_inv0 ex_extends1 ex_begins1.

Example ex_layout_ok1 :=
  begins_layout_ok_redef ex_oh ex_h1 ex_l0 ex_l1 0 0 512 64 ex_hdr_wf1 ltac:(lia) ltac:(lia)
    ltac:(lia) ltac:(lia) eq_refl ex_lay_inv0 ex_extends1 ex_begins1.

(* second redefinition shape: the header does not grow, one new fixed variable: only the
   record section moves (begin_var stays 512) *)
Definition ex_h2 : hdr :=
  mkhdr 1 3 ex_dims0 [] (h_vars ex_oh ++ [ mkvar [99] [1] [] 6 0 false ]).
Definition ex_l2 : layout := mklayout 260 512 640 24 [512; 640; 524; 652; 540].
Example ex_begins2 :
  begins ex_h2 0 0 512 64 (redef_old ex_oh ex_l0) (l_begin_rec ex_l0) = Some ex_l2.
Proof. vm_compute. reflexivity. Qed.

(* C18 on instances: CDF-1, a fixed variable of 2^31-4 bytes followed by a second variable:
   the second one would begin beyond NC_MAX_INT -> NC_EVARSIZE; alone it is accepted *)
Definition ex_big_dims : list dim := [mkdim [120] 2147483644].
Example ex_c18_reject :
  begins (mkhdr 1 0 ex_big_dims [] [mkvar [97] [0] [] 1 0 false; mkvar [98] [] [] 1 0 false])
         0 0 512 4 None 0 = None.
Proof. vm_compute. reflexivity. Qed.
Example ex_c18_accept :
  begins (mkhdr 1 0 ex_big_dims [] [mkvar [97] [0] [] 1 0 false]) 0 0 512 4 None 0 <> None /\
  begins (mkhdr 2 0 ex_big_dims [] [mkvar [97] [0] [] 1 0 false; mkvar [98] [] [] 1 0 false])
         0 0 512 4 None 0 <> None.
Proof. vm_compute. split; discriminate. Qed.

(* ---------- the layout the library re-derives from the header when the file is opened ---------- *)

Lemma pairs_sel_v_begin : forall dims k vars,
  map (fun v => (v_begin v, var_len dims v))
      (filter (fun v => Bool.eqb (is_recvar dims v) k) vars) =
  sel k (map (fun v => (is_recvar dims v, var_len dims v)) vars) (map v_begin vars).
Proof.
  intros dims k vars. induction vars as [|v vars IH]; [reflexivity|].
  cbn [filter map sel]. destruct (Bool.eqb (is_recvar dims v) k); cbn [map]; rewrite IH; reflexivity.
Qed.

Lemma fixed_pairs_sel : forall h, fixed_pairs h = sel false (vsof h) (map v_begin (h_vars h)).
Proof.
  intros h. unfold fixed_pairs, fixed_vars, vsof. rewrite <- pairs_sel_v_begin.
  f_equal; try (apply filter_ext_in; intros x; destruct (is_recvar (h_dims h) x); reflexivity).
Qed.

Lemma rec_pairs_sel : forall h, rec_pairs h = sel true (vsof h) (map v_begin (h_vars h)).
Proof.
  intros h. unfold rec_pairs, rec_vars, vsof. rewrite <- pairs_sel_v_begin.
  f_equal; try (apply filter_ext_in; intros x; destruct (is_recvar (h_dims h) x); reflexivity).
Qed.

Lemma last_opt_last_end : forall A (f g : A -> Z) l e,
  match last_opt l with Some v => f v + g v | None => e end =
  last_end e (map (fun v => (f v, g v)) l).
Proof.
  intros A f g l. induction l as [|x l IH]; intros e; [reflexivity|].
  rewrite last_opt_cons. cbn [map last_end]. rewrite <- IH.
  destruct (last_opt l); reflexivity.
Qed.

Lemma last_end_mod4 : forall l e, begins_increasing e l = true -> l <> [] ->
  Forall (fun p => snd p mod 4 = 0) l -> last_end e l mod 4 = 0.
Proof.
  induction l as [|[b len] r IH]; intros e Hbi Hne H4; [contradiction|].
  apply bi_cons in Hbi. destruct Hbi as (H1 & H2 & H3).
  inversion H4 as [|? ? Hp Hr]; subst. cbn [snd] in Hp. cbn [last_end].
  destruct r as [|p r]; [cbn [last_end]; lia|]. apply IH; [exact H3|discriminate|exact Hr].
Qed.

(* with no empty record variable the "first" and the "last" reading of the recsize rule agree *)
Lemma rs_rule_first : forall h, hdr_wf h ->
  (forall v, In v (rec_vars h) -> 0 < var_len (h_dims h) v) ->
  rs_rule (t3of h) =
  match rec_vars h with
  | fr :: _ => if zsum (map (var_len (h_dims h)) (rec_vars h)) =? var_len (h_dims h) fr
               then unpadded (h_dims h) fr else zsum (map (var_len (h_dims h)) (rec_vars h))
  | [] => 0 end.
Proof.
  intros h Hwf Hpos. rewrite <- recsize_of_rule.
  destruct (rec_vars h) as [|fr [|v2 rest]] eqn:Er.
  - apply recsize_none. exact Er.
  - rewrite (recsize_single h fr Er). cbn [map zsum].
    replace (var_len (h_dims h) fr + 0 =? var_len (h_dims h) fr) with true by lia. reflexivity.
  - rewrite (recsize_multi h Hwf); [|rewrite Er; cbn [length]; lia|rewrite Er; exact Hpos].
    rewrite Er. cbn [map zsum].
    assert (H2 : 0 < var_len (h_dims h) v2) by (apply Hpos; right; left; reflexivity).
    assert (Hr : 0 <= zsum (map (var_len (h_dims h)) rest)).
    { assert (Hr' : forall v, In v rest -> 0 < var_len (h_dims h) v).
      { intros v Hv. apply Hpos. right. right. exact Hv. }
      clear -Hr'. induction rest as [|z l IH]; cbn [map zsum]; [lia|].
      pose proof (Hr' z (or_introl eq_refl)).
      assert (0 <= zsum (map (var_len (h_dims h)) l)) by (apply IH; intros v Hv; apply Hr'; right; exact Hv).
      lia. }
    destruct (Z.eqb_spec (var_len (h_dims h) fr + (var_len (h_dims h) v2 + zsum (map (var_len (h_dims h)) rest)))
                         (var_len (h_dims h) fr)); [lia|reflexivity].
Qed.

(** C03 "the library's own reports equal what is in the file", and the close/reopen step of a
    redefinition history: the layout HeaderSpec.layout_of_hdr re-derives from a header whose
    begins were assigned by enddef (at least one variable, no empty record variable) has the
    same begin_var, recsize, begins - and begin_rec when there is a record variable, the end of
    the fixed section otherwise - and again satisfies the invariant. *)
Theorem layout_of_hdr_agrees : forall h lay, hdr_wf h ->
  lay_inv (t3of h) lay -> map v_begin (h_vars h) = l_begins lay -> h_vars h <> [] ->
  (forall v, In v (rec_vars h) -> 0 < var_len (h_dims h) v) ->
  let br' := match rec_vars h with
             | [] => last_end (l_begin_var lay) (fixed_pairs h)
             | _ => l_begin_rec lay end in
  layout_of_hdr h (l_xsz lay) =
    mklayout (l_xsz lay) (l_begin_var lay) br' (l_recsize lay) (l_begins lay) /\
  lay_inv (t3of h) (layout_of_hdr h (l_xsz lay)).
Proof.
  intros h lay Hwf Hinv Hbl Hne Hpos br'.
  pose proof (wf_t3of h Hwf) as Hwf3. destruct (wf_t3_lens _ Hwf3) as [Hnn H4].
  destruct Hinv as (Hlen & Hx & Hbi & Hbv & Hle & Hbr4 & Hc & Hrs).
  rewrite <- vsof_t3of in *. rewrite <- Hbl in *.
  rewrite <- fixed_pairs_sel, <- rec_pairs_sel in *.
  assert (Erec : zsum (map (var_len (h_dims h)) (rec_vars h)) = rsum (vsof h))
    by (symmetry; apply rsum_vsof).
  assert (Elay : layout_of_hdr h (l_xsz lay) =
                 mklayout (l_xsz lay) (l_begin_var lay) br' (l_recsize lay) (map v_begin (h_vars h))).
  { unfold layout_of_hdr. fold (fixed_vars h). fold (rec_vars h).
    rewrite (last_opt_last_end var v_begin (var_len (h_dims h)) (fixed_vars h) (l_xsz lay)).
    fold (fixed_pairs h).
    rewrite Hrs, (rs_rule_first h Hwf Hpos). unfold br'.
    unfold rec_pairs in Hc. unfold fixed_pairs in Hbv |- *.
    destruct (rec_vars h) as [|fr rrest] eqn:Er.
    - (* no record variable: there is a fixed one *)
      destruct (fixed_vars h) as [|fv frest] eqn:Efx.
      + exfalso. apply Hne. clear -Er Efx. unfold rec_vars, fixed_vars in *.
        destruct (h_vars h) as [|v vars]; [reflexivity|]. cbn [filter] in *.
        destruct (is_recvar (h_dims h) v); cbn [negb] in *; discriminate.
      + destruct (h_vars h); [contradiction|]. cbn [map] in Hbv |- *. cbn [last_end].
        rewrite Hbv. reflexivity.
    - cbn [map contig] in Hc. destruct Hc as [Hb0 _].
      destruct (h_vars h) eqn:Ev; [contradiction|]. rewrite <- Ev.
      destruct (fixed_vars h) as [|fv frest]; cbn [map] in Hbv |- *; rewrite Hb0, Hbv; reflexivity. }
  split; [rewrite Elay, Hbl; reflexivity|].
  rewrite Elay. unfold lay_inv. cbn [l_begins l_xsz l_begin_var l_begin_rec l_recsize].
  rewrite <- vsof_t3of, <- fixed_pairs_sel, <- rec_pairs_sel.
  split; [exact Hlen|]. split; [exact Hx|]. split; [exact Hbi|].
  unfold br'. destruct (rec_vars h) as [|fr rrest] eqn:Er.
  - assert (Hfne : fixed_pairs h <> []).
    { unfold fixed_pairs. intros C. apply map_eq_nil in C. apply Hne. clear -Er C.
      unfold rec_vars, fixed_vars in *.
      destruct (h_vars h) as [|v vars]; [reflexivity|]. cbn [filter] in *.
      destruct (is_recvar (h_dims h) v); cbn [negb] in *; discriminate. }
    split. { destruct (fixed_pairs h) as [|[b l] r]; [contradiction|exact Hbv]. }
    split; [lia|].
    split. { apply last_end_mod4; [exact Hbi|exact Hfne|].
             rewrite fixed_pairs_sel. apply (sel_lens_Forall (fun x => x mod 4 = 0)). exact H4. }
    split; [|exact Hrs]. unfold rec_pairs. rewrite Er. exact I.
  - unfold rec_pairs in Hc |- *. rewrite Er in Hc |- *.
    split; [exact Hbv|]. split; [exact Hle|]. split; [exact Hbr4|]. split; [exact Hc|exact Hrs].
Qed.

Lemma map_v_begin_set_begins : forall h bl, length bl = length (h_vars h) ->
  map v_begin (h_vars (set_begins h bl)) = bl.
Proof.
  intros h bl. unfold set_begins. cbn [h_vars]. rewrite map_map.
  revert bl. induction (h_vars h) as [|v vars IH]; intros [|b bl] Hl;
    cbn [length] in Hl; try discriminate Hl; [reflexivity|].
  injection Hl as Hl. cbn [zip]. rewrite map_cons. f_equal. apply (IH bl Hl).
Qed.

Example ex_reopen0 :
  layout_of_hdr (set_begins ex_h0 (l_begins ex_l0)) 224 = ex_l0.
Proof. vm_compute. reflexivity. Qed.

(* ---------- every redefinition history ---------- *)

(* the header kept after enddef (begins and numrecs filled in) has the same variables *)
Lemma t3of_set_begins : forall h bl, length bl = length (h_vars h) ->
  t3of (set_begins h bl) = t3of h.
Proof.
  intros h bl. unfold t3of, set_begins. cbn [h_dims h_vars]. rewrite map_map.
  revert bl. induction (h_vars h) as [|v vars IH]; intros [|b bl] Hl;
    cbn [length] in Hl; try discriminate Hl; [reflexivity|].
  injection Hl as Hl. cbn [zip map fst snd]. rewrite (IH bl Hl). reflexivity.
Qed.

Lemma t3of_set_numrecs : forall h n, t3of (set_numrecs h n) = t3of h.
Proof. reflexivity. Qed.

(** the layouts reachable by create; enddef; (redef; extend the header; enddef | close; open)*  with any
    non-negative minfree and any alignments >= 4, multiples of 4 (resolve_align_ok), indexed by
    the variable list (kind, len, unpadded size) of the header *)
Inductive reachable : tlist -> layout -> Prop :=
| reach_new : forall h hm vm ha ra lay,
    hdr_wf h -> 0 <= hm -> 0 <= vm -> 4 <= ha -> ha mod 4 = 0 -> 4 <= ra -> ra mod 4 = 0 ->
    begins h hm vm ha ra None 0 = Some lay -> reachable (t3of h) lay
| reach_redef : forall oh ol h hm vm ha ra lay,
    reachable (t3of oh) ol ->
    hdr_wf h -> hdr_extends oh h ->
    0 <= hm -> 0 <= vm -> 4 <= ha -> ha mod 4 = 0 -> 4 <= ra -> ra mod 4 = 0 ->
    begins h hm vm ha ra (redef_old oh ol) (l_begin_rec ol) = Some lay -> reachable (t3of h) lay
(* close and reopen: the layout is re-derived from the header in the file *)
| reach_reopen : forall h lay,
    reachable (t3of h) lay -> hdr_wf h -> map v_begin (h_vars h) = l_begins lay ->
    h_vars h <> [] -> (forall v, In v (rec_vars h) -> 0 < var_len (h_dims h) v) ->
    reachable (t3of h) (layout_of_hdr h (l_xsz lay)).

Theorem reachable_lay_inv : forall t3 lay, reachable t3 lay -> lay_inv t3 lay.
Proof.
  intros t3 lay H. induction H as [h hm vm ha ra lay Hwf Hhm Hvm Hha Hha4 Hra Hra4 Hb
                                  |oh ol h hm vm ha ra lay _ IH Hwf Hext Hhm Hvm Hha Hha4 Hra Hra4 Hb
                                  |h lay _ IH Hwf Hbl Hne Hpos].
  - exact (proj1 (begins_layout_ok h hm vm ha ra lay Hwf Hhm Hvm Hha Hha4 Hra Hra4 Hb)).
  - exact (begins_lay_inv_redef oh h ol lay hm vm ha ra Hwf Hhm Hvm ltac:(lia) Hra Hra4 IH Hext Hb).
  - exact (proj2 (layout_of_hdr_agrees h lay Hwf IH Hbl Hne Hpos)).
Qed.

Corollary reachable_layout_ok : forall h lay, hdr_wf h -> reachable (t3of h) lay ->
  layout_ok (set_begins h (l_begins lay)) (l_xsz lay) = true.
Proof.
  intros h lay Hwf H. apply lay_inv_layout_ok; [apply wf_t3of; exact Hwf|].
  apply reachable_lay_inv. exact H.
Qed.

Example ex_reachable1 : reachable (t3of ex_h1) ex_l1.
Proof.
  apply (reach_redef ex_oh ex_l0 ex_h1 0 0 512 64 ex_l1); try lia; try reflexivity.
  - change (t3of ex_oh) with (t3of ex_h0).
    apply (reach_new ex_h0 0 0 512 64 ex_l0); try lia; try reflexivity. exact ex_hdr_wf0.
  - exact ex_hdr_wf1.
  - exact ex_extends1.
Qed.

(* ---------- two requested statements that are FALSE of the model (and of the C code) ---------- *)

(* 1. "l_begin_var >= hdr_len + h_minfree" fails when NO variable is defined: NC_begins then
   ignores h_minfree and h_align ("no variable defined, ignore alignment and set header extent
   to header size").  begins_layout_ok therefore states it under h_vars h <> []. *)
Definition begin_var_minfree_full : Prop :=
  forall h hm vm ha ra lay, hdr_wf h -> 0 <= hm -> 0 <= vm -> 4 <= ha -> ha mod 4 = 0 ->
    4 <= ra -> ra mod 4 = 0 -> begins h hm vm ha ra None 0 = Some lay ->
    hdr_len h + hm <= l_begin_var lay.

Example begin_var_minfree_novars_cex :
  let h := mkhdr 1 0 [] [] [] in
  hdr_len h = 32 /\
  begins h 100 0 512 4 None 0 = Some (mklayout 32 32 32 0 []).
Proof. vm_compute. split; reflexivity. Qed.

Theorem begin_var_minfree_refuted : ~ begin_var_minfree_full.
Proof.
  intros H.
  specialize (H (mkhdr 1 0 [] [] []) 100 0 512 4 (mklayout 32 32 32 0 [])
                (Forall_nil _) ltac:(lia) ltac:(lia) ltac:(lia) eq_refl ltac:(lia) eq_refl
                (proj2 begin_var_minfree_novars_cex)).
  vm_compute in H. apply H. reflexivity.
Qed.

(* 2. HeaderSpec.layout_ok of the OLD layout is not enough for a redefinition: layout_ok allows a
   gap between two record variables (a file not written by this library), while NC_begins
   advances its running offset by len, not to begin+len, in the record pass.  Old record
   variables at 200 and 220 (8 bytes each), a third one added: it lands at 216 and overlaps
   the second.  The invariant lay_inv (record variables contiguous), which every layout
   computed by begins satisfies, is what begins_layout_ok_redef assumes. *)
Definition ex_gap_dims : list dim := [mkdim [116] 0; mkdim [120] 2].
Definition ex_gap_oh : hdr :=
  mkhdr 1 0 ex_gap_dims [] [mkvar [97] [0; 1] [] 4 200 false; mkvar [98] [0; 1] [] 4 220 false].
Definition ex_gap_h : hdr :=
  mkhdr 1 0 ex_gap_dims [] (h_vars ex_gap_oh ++ [mkvar [99] [0; 1] [] 4 0 false]).

Example redef_needs_contig_cex :
  let ol := layout_of_hdr ex_gap_oh 136 in
  hdr_len ex_gap_oh = 136 /\ layout_ok ex_gap_oh 136 = true /\
  ol = mklayout 136 200 200 16 [200; 220] /\
  begins ex_gap_h 0 0 4 4 (redef_old ex_gap_oh ol) (l_begin_rec ol)
    = Some (mklayout 176 200 200 24 [200; 220; 216]) /\
  layout_ok (set_begins ex_gap_h [200; 220; 216]) 176 = false.
Proof. vm_compute. repeat split; reflexivity. Qed.

Print Assumptions resolve_align_ok.
Print Assumptions begin_var_minfree_refuted.
Print Assumptions reachable_lay_inv.
Print Assumptions layout_of_hdr_agrees.
Print Assumptions reachable_layout_ok.
Print Assumptions begins_eq.
Print Assumptions begins_layout_ok.
Print Assumptions begins_lay_inv_redef.
Print Assumptions begins_layout_ok_redef.
Print Assumptions begins_monotone.
Print Assumptions begins_redef_facts.
Print Assumptions begins_none_iff.
Print Assumptions begins_none_iff_new.
Print Assumptions enddef_size_verdict.
Print Assumptions enddef_fails_iff.
Print Assumptions vsize_saturation.
Print Assumptions hdr_extends_append.
Print Assumptions recsize_single.
Print Assumptions recsize_multi.
