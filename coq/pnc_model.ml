
(** val negb : bool -> bool **)

let negb = function
| true -> false
| false -> true

type nat =
| O
| S of nat

(** val fst : ('a1 * 'a2) -> 'a1 **)

let fst = function
| (x, _) -> x

(** val snd : ('a1 * 'a2) -> 'a2 **)

let snd = function
| (_, y) -> y

(** val length : 'a1 list -> nat **)

let rec length = function
| [] -> O
| _ :: l' -> S (length l')

(** val app : 'a1 list -> 'a1 list -> 'a1 list **)

let rec app l m =
  match l with
  | [] -> m
  | a :: l1 -> a :: (app l1 m)

type comparison =
| Eq
| Lt
| Gt

(** val compOpp : comparison -> comparison **)

let compOpp = function
| Eq -> Eq
| Lt -> Gt
| Gt -> Lt

module Coq__1 = struct
 (** val add : nat -> nat -> nat **)
 let rec add n m =
   match n with
   | O -> m
   | S p -> S (add p m)
end
include Coq__1

(** val eqb : bool -> bool -> bool **)

let eqb b1 b2 =
  if b1 then b2 else if b2 then false else true

module Nat =
 struct
  (** val eqb : nat -> nat -> bool **)

  let rec eqb n m =
    match n with
    | O -> (match m with
            | O -> true
            | S _ -> false)
    | S n' -> (match m with
               | O -> false
               | S m' -> eqb n' m')
 end

(** val hd : 'a1 -> 'a1 list -> 'a1 **)

let hd default = function
| [] -> default
| x :: _ -> x

(** val tl : 'a1 list -> 'a1 list **)

let tl = function
| [] -> []
| _ :: m -> m

(** val last : 'a1 list -> 'a1 -> 'a1 **)

let rec last l d =
  match l with
  | [] -> d
  | a :: l0 -> (match l0 with
                | [] -> a
                | _ :: _ -> last l0 d)

(** val removelast : 'a1 list -> 'a1 list **)

let rec removelast = function
| [] -> []
| a :: l0 -> (match l0 with
              | [] -> []
              | _ :: _ -> a :: (removelast l0))

(** val rev : 'a1 list -> 'a1 list **)

let rec rev = function
| [] -> []
| x :: l' -> app (rev l') (x :: [])

(** val map : ('a1 -> 'a2) -> 'a1 list -> 'a2 list **)

let rec map f = function
| [] -> []
| a :: t -> (f a) :: (map f t)

(** val flat_map : ('a1 -> 'a2 list) -> 'a1 list -> 'a2 list **)

let rec flat_map f = function
| [] -> []
| x :: t -> app (f x) (flat_map f t)

(** val fold_left : ('a1 -> 'a2 -> 'a1) -> 'a2 list -> 'a1 -> 'a1 **)

let rec fold_left f l a0 =
  match l with
  | [] -> a0
  | b :: t -> fold_left f t (f a0 b)

(** val existsb : ('a1 -> bool) -> 'a1 list -> bool **)

let rec existsb f = function
| [] -> false
| a :: l0 -> (||) (f a) (existsb f l0)

(** val forallb : ('a1 -> bool) -> 'a1 list -> bool **)

let rec forallb f = function
| [] -> true
| a :: l0 -> (&&) (f a) (forallb f l0)

(** val filter : ('a1 -> bool) -> 'a1 list -> 'a1 list **)

let rec filter f = function
| [] -> []
| x :: l0 -> if f x then x :: (filter f l0) else filter f l0

(** val firstn : nat -> 'a1 list -> 'a1 list **)

let rec firstn n l =
  match n with
  | O -> []
  | S n0 -> (match l with
             | [] -> []
             | a :: l0 -> a :: (firstn n0 l0))

(** val skipn : nat -> 'a1 list -> 'a1 list **)

let rec skipn n l =
  match n with
  | O -> l
  | S n0 -> (match l with
             | [] -> []
             | _ :: l0 -> skipn n0 l0)

(** val repeat : 'a1 -> nat -> 'a1 list **)

let rec repeat x = function
| O -> []
| S k -> x :: (repeat x k)

type positive =
| XI of positive
| XO of positive
| XH

type z =
| Z0
| Zpos of positive
| Zneg of positive

module Pos =
 struct
  (** val succ : positive -> positive **)

  let rec succ = function
  | XI p -> XO (succ p)
  | XO p -> XI p
  | XH -> XO XH

  (** val add : positive -> positive -> positive **)

  let rec add x y =
    match x with
    | XI p ->
      (match y with
       | XI q -> XO (add_carry p q)
       | XO q -> XI (add p q)
       | XH -> XO (succ p))
    | XO p ->
      (match y with
       | XI q -> XI (add p q)
       | XO q -> XO (add p q)
       | XH -> XI p)
    | XH -> (match y with
             | XI q -> XO (succ q)
             | XO q -> XI q
             | XH -> XO XH)

  (** val add_carry : positive -> positive -> positive **)

  and add_carry x y =
    match x with
    | XI p ->
      (match y with
       | XI q -> XI (add_carry p q)
       | XO q -> XO (add_carry p q)
       | XH -> XI (succ p))
    | XO p ->
      (match y with
       | XI q -> XO (add_carry p q)
       | XO q -> XI (add p q)
       | XH -> XO (succ p))
    | XH ->
      (match y with
       | XI q -> XI (succ q)
       | XO q -> XO (succ q)
       | XH -> XI XH)

  (** val pred_double : positive -> positive **)

  let rec pred_double = function
  | XI p -> XI (XO p)
  | XO p -> XI (pred_double p)
  | XH -> XH

  (** val mul : positive -> positive -> positive **)

  let rec mul x y =
    match x with
    | XI p -> add y (XO (mul p y))
    | XO p -> XO (mul p y)
    | XH -> y

  (** val iter : ('a1 -> 'a1) -> 'a1 -> positive -> 'a1 **)

  let rec iter f x = function
  | XI n' -> f (iter f (iter f x n') n')
  | XO n' -> iter f (iter f x n') n'
  | XH -> f x

  (** val size : positive -> positive **)

  let rec size = function
  | XI p0 -> succ (size p0)
  | XO p0 -> succ (size p0)
  | XH -> XH

  (** val compare_cont : comparison -> positive -> positive -> comparison **)

  let rec compare_cont r x y =
    match x with
    | XI p ->
      (match y with
       | XI q -> compare_cont r p q
       | XO q -> compare_cont Gt p q
       | XH -> Gt)
    | XO p ->
      (match y with
       | XI q -> compare_cont Lt p q
       | XO q -> compare_cont r p q
       | XH -> Gt)
    | XH -> (match y with
             | XH -> r
             | _ -> Lt)

  (** val compare : positive -> positive -> comparison **)

  let compare =
    compare_cont Eq

  (** val eqb : positive -> positive -> bool **)

  let rec eqb p q =
    match p with
    | XI p0 -> (match q with
                | XI q0 -> eqb p0 q0
                | _ -> false)
    | XO p0 -> (match q with
                | XO q0 -> eqb p0 q0
                | _ -> false)
    | XH -> (match q with
             | XH -> true
             | _ -> false)

  (** val iter_op : ('a1 -> 'a1 -> 'a1) -> positive -> 'a1 -> 'a1 **)

  let rec iter_op op0 p a =
    match p with
    | XI p0 -> op0 a (iter_op op0 p0 (op0 a a))
    | XO p0 -> iter_op op0 p0 (op0 a a)
    | XH -> a

  (** val to_nat : positive -> nat **)

  let to_nat x =
    iter_op Coq__1.add x (S O)

  (** val of_succ_nat : nat -> positive **)

  let rec of_succ_nat = function
  | O -> XH
  | S x -> succ (of_succ_nat x)
 end

module Z =
 struct
  (** val double : z -> z **)

  let double = function
  | Z0 -> Z0
  | Zpos p -> Zpos (XO p)
  | Zneg p -> Zneg (XO p)

  (** val succ_double : z -> z **)

  let succ_double = function
  | Z0 -> Zpos XH
  | Zpos p -> Zpos (XI p)
  | Zneg p -> Zneg (Pos.pred_double p)

  (** val pred_double : z -> z **)

  let pred_double = function
  | Z0 -> Zneg XH
  | Zpos p -> Zpos (Pos.pred_double p)
  | Zneg p -> Zneg (XI p)

  (** val pos_sub : positive -> positive -> z **)

  let rec pos_sub x y =
    match x with
    | XI p ->
      (match y with
       | XI q -> double (pos_sub p q)
       | XO q -> succ_double (pos_sub p q)
       | XH -> Zpos (XO p))
    | XO p ->
      (match y with
       | XI q -> pred_double (pos_sub p q)
       | XO q -> double (pos_sub p q)
       | XH -> Zpos (Pos.pred_double p))
    | XH ->
      (match y with
       | XI q -> Zneg (XO q)
       | XO q -> Zneg (Pos.pred_double q)
       | XH -> Z0)

  (** val add : z -> z -> z **)

  let add x y =
    match x with
    | Z0 -> y
    | Zpos x' ->
      (match y with
       | Z0 -> x
       | Zpos y' -> Zpos (Pos.add x' y')
       | Zneg y' -> pos_sub x' y')
    | Zneg x' ->
      (match y with
       | Z0 -> x
       | Zpos y' -> pos_sub y' x'
       | Zneg y' -> Zneg (Pos.add x' y'))

  (** val opp : z -> z **)

  let opp = function
  | Z0 -> Z0
  | Zpos x0 -> Zneg x0
  | Zneg x0 -> Zpos x0

  (** val sub : z -> z -> z **)

  let sub m n =
    add m (opp n)

  (** val mul : z -> z -> z **)

  let mul x y =
    match x with
    | Z0 -> Z0
    | Zpos x' ->
      (match y with
       | Z0 -> Z0
       | Zpos y' -> Zpos (Pos.mul x' y')
       | Zneg y' -> Zneg (Pos.mul x' y'))
    | Zneg x' ->
      (match y with
       | Z0 -> Z0
       | Zpos y' -> Zneg (Pos.mul x' y')
       | Zneg y' -> Zpos (Pos.mul x' y'))

  (** val pow_pos : z -> positive -> z **)

  let pow_pos z0 =
    Pos.iter (mul z0) (Zpos XH)

  (** val pow : z -> z -> z **)

  let pow x = function
  | Z0 -> Zpos XH
  | Zpos p -> pow_pos x p
  | Zneg _ -> Z0

  (** val compare : z -> z -> comparison **)

  let compare x y =
    match x with
    | Z0 -> (match y with
             | Z0 -> Eq
             | Zpos _ -> Lt
             | Zneg _ -> Gt)
    | Zpos x' -> (match y with
                  | Zpos y' -> Pos.compare x' y'
                  | _ -> Gt)
    | Zneg x' ->
      (match y with
       | Zneg y' -> compOpp (Pos.compare x' y')
       | _ -> Lt)

  (** val leb : z -> z -> bool **)

  let leb x y =
    match compare x y with
    | Gt -> false
    | _ -> true

  (** val ltb : z -> z -> bool **)

  let ltb x y =
    match compare x y with
    | Lt -> true
    | _ -> false

  (** val geb : z -> z -> bool **)

  let geb x y =
    match compare x y with
    | Lt -> false
    | _ -> true

  (** val gtb : z -> z -> bool **)

  let gtb x y =
    match compare x y with
    | Gt -> true
    | _ -> false

  (** val eqb : z -> z -> bool **)

  let eqb x y =
    match x with
    | Z0 -> (match y with
             | Z0 -> true
             | _ -> false)
    | Zpos p -> (match y with
                 | Zpos q -> Pos.eqb p q
                 | _ -> false)
    | Zneg p -> (match y with
                 | Zneg q -> Pos.eqb p q
                 | _ -> false)

  (** val max : z -> z -> z **)

  let max n m =
    match compare n m with
    | Lt -> m
    | _ -> n

  (** val abs : z -> z **)

  let abs = function
  | Zneg p -> Zpos p
  | x -> x

  (** val to_nat : z -> nat **)

  let to_nat = function
  | Zpos p -> Pos.to_nat p
  | _ -> O

  (** val of_nat : nat -> z **)

  let of_nat = function
  | O -> Z0
  | S n0 -> Zpos (Pos.of_succ_nat n0)

  (** val pos_div_eucl : positive -> z -> z * z **)

  let rec pos_div_eucl a b =
    match a with
    | XI a' ->
      let (q, r) = pos_div_eucl a' b in
      let r' = add (mul (Zpos (XO XH)) r) (Zpos XH) in
      if ltb r' b
      then ((mul (Zpos (XO XH)) q), r')
      else ((add (mul (Zpos (XO XH)) q) (Zpos XH)), (sub r' b))
    | XO a' ->
      let (q, r) = pos_div_eucl a' b in
      let r' = mul (Zpos (XO XH)) r in
      if ltb r' b
      then ((mul (Zpos (XO XH)) q), r')
      else ((add (mul (Zpos (XO XH)) q) (Zpos XH)), (sub r' b))
    | XH -> if leb (Zpos (XO XH)) b then (Z0, (Zpos XH)) else ((Zpos XH), Z0)

  (** val div_eucl : z -> z -> z * z **)

  let div_eucl a b =
    match a with
    | Z0 -> (Z0, Z0)
    | Zpos a' ->
      (match b with
       | Z0 -> (Z0, a)
       | Zpos _ -> pos_div_eucl a' b
       | Zneg b' ->
         let (q, r) = pos_div_eucl a' (Zpos b') in
         (match r with
          | Z0 -> ((opp q), Z0)
          | _ -> ((opp (add q (Zpos XH))), (add b r))))
    | Zneg a' ->
      (match b with
       | Z0 -> (Z0, a)
       | Zpos _ ->
         let (q, r) = pos_div_eucl a' b in
         (match r with
          | Z0 -> ((opp q), Z0)
          | _ -> ((opp (add q (Zpos XH))), (sub b r)))
       | Zneg b' -> let (q, r) = pos_div_eucl a' (Zpos b') in (q, (opp r)))

  (** val div : z -> z -> z **)

  let div a b =
    let (q, _) = div_eucl a b in q

  (** val modulo : z -> z -> z **)

  let modulo a b =
    let (_, r) = div_eucl a b in r

  (** val odd : z -> bool **)

  let odd = function
  | Z0 -> false
  | Zpos p -> (match p with
               | XO _ -> false
               | _ -> true)
  | Zneg p -> (match p with
               | XO _ -> false
               | _ -> true)

  (** val log2 : z -> z **)

  let log2 = function
  | Zpos p0 ->
    (match p0 with
     | XI p -> Zpos (Pos.size p)
     | XO p -> Zpos (Pos.size p)
     | XH -> Z0)
  | _ -> Z0
 end

type byte = z

(** val zlen : 'a1 list -> z **)

let zlen l =
  Z.of_nat (length l)

(** val put_u32 : z -> byte list **)

let put_u32 x =
  (Z.modulo
    (Z.div x (Zpos (XO (XO (XO (XO (XO (XO (XO (XO (XO (XO (XO (XO (XO (XO
      (XO (XO (XO (XO (XO (XO (XO (XO (XO (XO XH))))))))))))))))))))))))))
    (Zpos (XO (XO (XO (XO (XO (XO (XO (XO XH)))))))))) :: ((Z.modulo
                                                             (Z.div x (Zpos
                                                               (XO (XO (XO
                                                               (XO (XO (XO
                                                               (XO (XO (XO
                                                               (XO (XO (XO
                                                               (XO (XO (XO
                                                               (XO
                                                               XH))))))))))))))))))
                                                             (Zpos (XO (XO
                                                             (XO (XO (XO (XO
                                                             (XO (XO
                                                             XH)))))))))) :: (
    (Z.modulo (Z.div x (Zpos (XO (XO (XO (XO (XO (XO (XO (XO XH))))))))))
      (Zpos (XO (XO (XO (XO (XO (XO (XO (XO XH)))))))))) :: ((Z.modulo x
                                                               (Zpos (XO (XO
                                                               (XO (XO (XO
                                                               (XO (XO (XO
                                                               XH)))))))))) :: [])))

(** val put_u64 : z -> byte list **)

let put_u64 x =
  app
    (put_u32
      (Z.div x (Zpos (XO (XO (XO (XO (XO (XO (XO (XO (XO (XO (XO (XO (XO (XO
        (XO (XO (XO (XO (XO (XO (XO (XO (XO (XO (XO (XO (XO (XO (XO (XO (XO
        (XO XH)))))))))))))))))))))))))))))))))))
    (put_u32
      (Z.modulo x (Zpos (XO (XO (XO (XO (XO (XO (XO (XO (XO (XO (XO (XO (XO
        (XO (XO (XO (XO (XO (XO (XO (XO (XO (XO (XO (XO (XO (XO (XO (XO (XO
        (XO (XO XH)))))))))))))))))))))))))))))))))))

(** val get_u32 : byte list -> (z * byte list) option **)

let get_u32 = function
| [] -> None
| a :: l0 ->
  (match l0 with
   | [] -> None
   | b :: l1 ->
     (match l1 with
      | [] -> None
      | c :: l2 ->
        (match l2 with
         | [] -> None
         | d :: r ->
           Some
             ((Z.add
                (Z.add
                  (Z.add
                    (Z.mul a (Zpos (XO (XO (XO (XO (XO (XO (XO (XO (XO (XO
                      (XO (XO (XO (XO (XO (XO (XO (XO (XO (XO (XO (XO (XO (XO
                      XH))))))))))))))))))))))))))
                    (Z.mul b (Zpos (XO (XO (XO (XO (XO (XO (XO (XO (XO (XO
                      (XO (XO (XO (XO (XO (XO XH)))))))))))))))))))
                  (Z.mul c (Zpos (XO (XO (XO (XO (XO (XO (XO (XO XH)))))))))))
                d), r))))

(** val get_u64 : byte list -> (z * byte list) option **)

let get_u64 l =
  match get_u32 l with
  | Some p ->
    let (hi, r) = p in
    (match get_u32 r with
     | Some p0 ->
       let (lo, r') = p0 in
       Some
       ((Z.add
          (Z.mul hi (Zpos (XO (XO (XO (XO (XO (XO (XO (XO (XO (XO (XO (XO (XO
            (XO (XO (XO (XO (XO (XO (XO (XO (XO (XO (XO (XO (XO (XO (XO (XO
            (XO (XO (XO XH)))))))))))))))))))))))))))))))))) lo), r')
     | None -> None)
  | None -> None

(** val be_bytes : nat -> z -> byte list **)

let rec be_bytes n x =
  match n with
  | O -> []
  | S k ->
    app
      (be_bytes k (Z.div x (Zpos (XO (XO (XO (XO (XO (XO (XO (XO XH)))))))))))
      ((Z.modulo x (Zpos (XO (XO (XO (XO (XO (XO (XO (XO XH)))))))))) :: [])

(** val be_value : byte list -> z -> z **)

let rec be_value l acc =
  match l with
  | [] -> acc
  | b :: r ->
    be_value r
      (Z.add (Z.mul acc (Zpos (XO (XO (XO (XO (XO (XO (XO (XO XH)))))))))) b)

(** val rndup : z -> z -> z **)

let rndup x a =
  if Z.eqb a Z0 then x else Z.mul (Z.div (Z.sub (Z.add x a) (Zpos XH)) a) a

(** val padlen : z -> z **)

let padlen n =
  Z.modulo (Z.sub (Zpos (XO (XO XH))) (Z.modulo n (Zpos (XO (XO XH))))) (Zpos
    (XO (XO XH)))

(** val zeros : z -> byte list **)

let zeros n =
  repeat Z0 (Z.to_nat n)

(** val pad4 : z -> byte list **)

let pad4 n =
  zeros (padlen n)

(** val znth : 'a1 list -> z -> 'a1 -> 'a1 **)

let rec znth l i d =
  match l with
  | [] -> d
  | x :: r -> if Z.eqb i Z0 then x else znth r (Z.sub i (Zpos XH)) d

(** val zfirstn : z -> 'a1 list -> 'a1 list **)

let rec zfirstn n = function
| [] -> []
| x :: r -> if Z.leb n Z0 then [] else x :: (zfirstn (Z.sub n (Zpos XH)) r)

(** val zskipn : z -> 'a1 list -> 'a1 list **)

let rec zskipn n l = match l with
| [] -> []
| _ :: r -> if Z.leb n Z0 then l else zskipn (Z.sub n (Zpos XH)) r

(** val zupd : 'a1 list -> z -> 'a1 -> 'a1 list **)

let rec zupd l i v =
  match l with
  | [] -> []
  | x :: r ->
    if Z.eqb i Z0 then v :: r else x :: (zupd r (Z.sub i (Zpos XH)) v)

(** val zseq : z -> nat -> z list **)

let rec zseq start = function
| O -> []
| S k -> start :: (zseq (Z.add start (Zpos XH)) k)

(** val zrange : z -> z -> z list **)

let zrange lo len =
  zseq lo (Z.to_nat len)

(** val zprod : z list -> z **)

let rec zprod = function
| [] -> Zpos XH
| x :: r -> Z.mul x (zprod r)

(** val zsum : z list -> z **)

let rec zsum = function
| [] -> Z0
| x :: r -> Z.add x (zsum r)

(** val list_eqb : ('a1 -> 'a1 -> bool) -> 'a1 list -> 'a1 list -> bool **)

let rec list_eqb eqb0 a b =
  match a with
  | [] -> (match b with
           | [] -> true
           | _ :: _ -> false)
  | x :: a' ->
    (match b with
     | [] -> false
     | y :: b' -> (&&) (eqb0 x y) (list_eqb eqb0 a' b'))

(** val bytes_eqb : z list -> z list -> bool **)

let bytes_eqb =
  list_eqb Z.eqb

(** val find_index : ('a1 -> bool) -> 'a1 list -> z -> z option **)

let rec find_index p l i =
  match l with
  | [] -> None
  | x :: r -> if p x then Some i else find_index p r (Z.add i (Zpos XH))

(** val zip : 'a1 list -> 'a2 list -> ('a1 * 'a2) list **)

let rec zip a b =
  match a with
  | [] -> []
  | x :: a' -> (match b with
                | [] -> []
                | y :: b' -> (x, y) :: (zip a' b'))

(** val last_opt : 'a1 list -> 'a1 option **)

let last_opt l =
  match rev l with
  | [] -> None
  | x :: _ -> Some x

(** val fILE_ALIGNMENT_DEFAULT : z **)

let fILE_ALIGNMENT_DEFAULT =
  Zpos (XO (XO (XO (XO (XO (XO (XO (XO (XO XH)))))))))

(** val nC_MAX_NAME : z **)

let nC_MAX_NAME =
  Zpos (XO (XO (XO (XO (XO (XO (XO (XO XH))))))))

(** val nC_MAX_INT : z **)

let nC_MAX_INT =
  Zpos (XI (XI (XI (XI (XI (XI (XI (XI (XI (XI (XI (XI (XI (XI (XI (XI (XI
    (XI (XI (XI (XI (XI (XI (XI (XI (XI (XI (XI (XI (XI
    XH))))))))))))))))))))))))))))))

(** val nC_MAX_UINT : z **)

let nC_MAX_UINT =
  Zpos (XI (XI (XI (XI (XI (XI (XI (XI (XI (XI (XI (XI (XI (XI (XI (XI (XI
    (XI (XI (XI (XI (XI (XI (XI (XI (XI (XI (XI (XI (XI (XI
    XH)))))))))))))))))))))))))))))))

(** val nC_MAX_INT64 : z **)

let nC_MAX_INT64 =
  Zpos (XI (XI (XI (XI (XI (XI (XI (XI (XI (XI (XI (XI (XI (XI (XI (XI (XI
    (XI (XI (XI (XI (XI (XI (XI (XI (XI (XI (XI (XI (XI (XI (XI (XI (XI (XI
    (XI (XI (XI (XI (XI (XI (XI (XI (XI (XI (XI (XI (XI (XI (XI (XI (XI (XI
    (XI (XI (XI (XI (XI (XI (XI (XI (XI
    XH))))))))))))))))))))))))))))))))))))))))))))))))))))))))))))))

(** val mOVE_UNIT : z **)

let mOVE_UNIT =
  Zpos (XO (XO (XO (XO (XO (XO (XO (XO (XO (XO (XO (XO (XO (XO (XO (XO (XO
    (XO (XO (XO (XO (XO (XO (XO (XO (XO XH))))))))))))))))))))))))))

(** val nC_DIMENSION_TAG : z **)

let nC_DIMENSION_TAG =
  Zpos (XO (XI (XO XH)))

(** val nC_VARIABLE_TAG : z **)

let nC_VARIABLE_TAG =
  Zpos (XI (XI (XO XH)))

(** val nC_ATTRIBUTE_TAG : z **)

let nC_ATTRIBUTE_TAG =
  Zpos (XO (XO (XI XH)))

(** val nC_NOERR : z **)

let nC_NOERR =
  Z0

(** val nC_EBADID : z **)

let nC_EBADID =
  Zneg (XI (XO (XO (XO (XO XH)))))

(** val nC_EEXIST : z **)

let nC_EEXIST =
  Zneg (XI (XI (XO (XO (XO XH)))))

(** val nC_EINVAL : z **)

let nC_EINVAL =
  Zneg (XO (XO (XI (XO (XO XH)))))

(** val nC_EPERM : z **)

let nC_EPERM =
  Zneg (XI (XO (XI (XO (XO XH)))))

(** val nC_ENOTINDEFINE : z **)

let nC_ENOTINDEFINE =
  Zneg (XO (XI (XI (XO (XO XH)))))

(** val nC_EINDEFINE : z **)

let nC_EINDEFINE =
  Zneg (XI (XI (XI (XO (XO XH)))))

(** val nC_EINVALCOORDS : z **)

let nC_EINVALCOORDS =
  Zneg (XO (XO (XO (XI (XO XH)))))

(** val nC_ENAMEINUSE : z **)

let nC_ENAMEINUSE =
  Zneg (XO (XI (XO (XI (XO XH)))))

(** val nC_ENOTATT : z **)

let nC_ENOTATT =
  Zneg (XI (XI (XO (XI (XO XH)))))

(** val nC_EBADTYPE : z **)

let nC_EBADTYPE =
  Zneg (XI (XO (XI (XI (XO XH)))))

(** val nC_EBADDIM : z **)

let nC_EBADDIM =
  Zneg (XO (XI (XI (XI (XO XH)))))

(** val nC_EUNLIMPOS : z **)

let nC_EUNLIMPOS =
  Zneg (XI (XI (XI (XI (XO XH)))))

(** val nC_ENOTVAR : z **)

let nC_ENOTVAR =
  Zneg (XI (XO (XO (XO (XI XH)))))

(** val nC_EGLOBAL : z **)

let nC_EGLOBAL =
  Zneg (XO (XI (XO (XO (XI XH)))))

(** val nC_EMAXNAME : z **)

let nC_EMAXNAME =
  Zneg (XI (XO (XI (XO (XI XH)))))

(** val nC_EUNLIMIT : z **)

let nC_EUNLIMIT =
  Zneg (XO (XI (XI (XO (XI XH)))))

(** val nC_ECHAR : z **)

let nC_ECHAR =
  Zneg (XO (XO (XO (XI (XI XH)))))

(** val nC_EEDGE : z **)

let nC_EEDGE =
  Zneg (XI (XO (XO (XI (XI XH)))))

(** val nC_ESTRIDE : z **)

let nC_ESTRIDE =
  Zneg (XO (XI (XO (XI (XI XH)))))

(** val nC_EBADNAME : z **)

let nC_EBADNAME =
  Zneg (XI (XI (XO (XI (XI XH)))))

(** val nC_ERANGE : z **)

let nC_ERANGE =
  Zneg (XO (XO (XI (XI (XI XH)))))

(** val nC_EVARSIZE : z **)

let nC_EVARSIZE =
  Zneg (XO (XI (XI (XI (XI XH)))))

(** val nC_EDIMSIZE : z **)

let nC_EDIMSIZE =
  Zneg (XI (XI (XI (XI (XI XH)))))

(** val nC_ENOTINDEP : z **)

let nC_ENOTINDEP =
  Zneg (XO (XI (XO (XI (XO (XO (XI XH)))))))

(** val nC_EINDEP : z **)

let nC_EINDEP =
  Zneg (XI (XI (XO (XI (XO (XO (XI XH)))))))

(** val nC_EIOMISMATCH : z **)

let nC_EIOMISMATCH =
  Zneg (XI (XO (XO (XO (XI (XO (XI XH)))))))

(** val nC_ENEGATIVECNT : z **)

let nC_ENEGATIVECNT =
  Zneg (XO (XI (XO (XO (XI (XO (XI XH)))))))

(** val nC_ENOENT : z **)

let nC_ENOENT =
  Zneg (XO (XO (XI (XI (XI (XO (XI XH)))))))

(** val nC_ESTRICTCDF2 : z **)

let nC_ESTRICTCDF2 =
  Zneg (XO (XO (XO (XI (XO (XI (XI XH)))))))

(** val nC_EPENDING : z **)

let nC_EPENDING =
  Zneg (XO (XO (XI (XI (XO (XI (XI XH)))))))

(** val xlen_type : z -> z **)

let xlen_type t =
  if (||) ((||) (Z.eqb t (Zpos XH)) (Z.eqb t (Zpos (XO XH))))
       (Z.eqb t (Zpos (XI (XI XH))))
  then Zpos XH
  else if (||) (Z.eqb t (Zpos (XI XH))) (Z.eqb t (Zpos (XO (XO (XO XH)))))
       then Zpos (XO XH)
       else if (||)
                 ((||) (Z.eqb t (Zpos (XO (XO XH))))
                   (Z.eqb t (Zpos (XI (XO XH)))))
                 (Z.eqb t (Zpos (XI (XO (XO XH)))))
            then Zpos (XO (XO XH))
            else if (||)
                      ((||) (Z.eqb t (Zpos (XO (XI XH))))
                        (Z.eqb t (Zpos (XO (XI (XO XH))))))
                      (Z.eqb t (Zpos (XI (XI (XO XH)))))
                 then Zpos (XO (XO (XO XH)))
                 else Z0

(** val valid_type : z -> z -> bool **)

let valid_type fmt t =
  (&&) (Z.leb (Zpos XH) t)
    (if Z.eqb fmt (Zpos (XI (XO XH)))
     then Z.leb t (Zpos (XI (XI (XO XH))))
     else Z.leb t (Zpos (XO (XI XH))))

type dim = { d_name : byte list; d_size : z }

type att = { a_name : byte list; a_type : z; a_nelems : z; a_data : byte list }

type var = { v_name : byte list; v_dimids : z list; v_atts : att list;
             v_type : z; v_begin : z; v_nofill : bool }

type hdr = { h_format : z; h_numrecs : z; h_dims : dim list;
             h_gatts : att list; h_vars : var list }

(** val dim_size : dim list -> z -> z **)

let dim_size dims id =
  (znth dims id { d_name = []; d_size = Z0 }).d_size

(** val var_shape : dim list -> var -> z list **)

let var_shape dims v =
  map (dim_size dims) v.v_dimids

(** val is_recvar : dim list -> var -> bool **)

let is_recvar dims v =
  match var_shape dims v with
  | [] -> false
  | s0 :: _ -> Z.eqb s0 Z0

(** val var_nelems_per_rec : z list -> z **)

let var_nelems_per_rec shape = match shape with
| [] -> Zpos XH
| s0 :: r -> if Z.eqb s0 Z0 then zprod r else zprod shape

(** val var_len_of : z -> z list -> z **)

let var_len_of xsz shape =
  let l = Z.mul (var_nelems_per_rec shape) xsz in
  if Z.gtb (Z.modulo l (Zpos (XO (XO XH)))) Z0
  then Z.add l (Z.sub (Zpos (XO (XO XH))) (Z.modulo l (Zpos (XO (XO XH)))))
  else l

(** val var_len : dim list -> var -> z **)

let var_len dims v =
  var_len_of (xlen_type v.v_type) (var_shape dims v)

(** val put_nn : z -> z -> byte list **)

let put_nn fmt x =
  if Z.ltb fmt (Zpos (XI (XO XH))) then put_u32 x else put_u64 x

(** val put_name : z -> byte list -> byte list **)

let put_name fmt nm =
  app (put_nn fmt (zlen nm)) (app nm (pad4 (zlen nm)))

(** val put_dim : z -> dim -> byte list **)

let put_dim fmt d =
  app (put_name fmt d.d_name) (put_nn fmt d.d_size)

(** val put_list : z -> z -> ('a1 -> byte list) -> 'a1 list -> byte list **)

let put_list fmt tag f l = match l with
| [] -> app (put_u32 Z0) (put_nn fmt Z0)
| _ :: _ -> app (put_u32 tag) (app (put_nn fmt (zlen l)) (flat_map f l))

(** val put_att : z -> att -> byte list **)

let put_att fmt a =
  app (put_name fmt a.a_name)
    (app (put_u32 a.a_type)
      (app (put_nn fmt a.a_nelems)
        (if Z.gtb a.a_nelems Z0
         then app a.a_data (pad4 (zlen a.a_data))
         else [])))

(** val vsize_field : z -> z -> byte list **)

let vsize_field fmt len =
  if Z.ltb fmt (Zpos (XI (XO XH)))
  then if Z.gtb len (Zpos (XO (XO (XI (XI (XI (XI (XI (XI (XI (XI (XI (XI (XI
            (XI (XI (XI (XI (XI (XI (XI (XI (XI (XI (XI (XI (XI (XI (XI (XI
            (XI (XI XH))))))))))))))))))))))))))))))))
       then put_u32 (Zpos (XI (XI (XI (XI (XI (XI (XI (XI (XI (XI (XI (XI (XI
              (XI (XI (XI (XI (XI (XI (XI (XI (XI (XI (XI (XI (XI (XI (XI (XI
              (XI (XI XH))))))))))))))))))))))))))))))))
       else put_u32
              (Z.modulo len (Zpos (XO (XO (XO (XO (XO (XO (XO (XO (XO (XO (XO
                (XO (XO (XO (XO (XO (XO (XO (XO (XO (XO (XO (XO (XO (XO (XO
                (XO (XO (XO (XO (XO (XO XH))))))))))))))))))))))))))))))))))
  else put_u64 len

(** val put_var : z -> dim list -> var -> byte list **)

let put_var fmt dims v =
  app (put_name fmt v.v_name)
    (app (put_nn fmt (zlen v.v_dimids))
      (app (flat_map (put_nn fmt) v.v_dimids)
        (app (put_list fmt nC_ATTRIBUTE_TAG (put_att fmt) v.v_atts)
          (app (put_u32 v.v_type)
            (app (vsize_field fmt (var_len dims v))
              (if Z.eqb fmt (Zpos XH)
               then put_u32 v.v_begin
               else put_u64 v.v_begin))))))

(** val magic : z -> byte list **)

let magic fmt =
  (Zpos (XI (XI (XO (XO (XO (XO XH))))))) :: ((Zpos (XO (XO (XI (XO (XO (XO
    XH))))))) :: ((Zpos (XO (XI (XI (XO (XO (XO
    XH))))))) :: ((if Z.eqb fmt (Zpos (XI (XO XH)))
                   then Zpos (XI (XO XH))
                   else if Z.eqb fmt (Zpos (XO XH))
                        then Zpos (XO XH)
                        else Zpos XH) :: [])))

(** val encode_header : hdr -> byte list **)

let encode_header h =
  let fmt = h.h_format in
  app (magic fmt)
    (app (put_nn fmt h.h_numrecs)
      (app (put_list fmt nC_DIMENSION_TAG (put_dim fmt) h.h_dims)
        (app (put_list fmt nC_ATTRIBUTE_TAG (put_att fmt) h.h_gatts)
          (put_list fmt nC_VARIABLE_TAG (put_var fmt h.h_dims) h.h_vars))))

(** val sz_nn : z -> z **)

let sz_nn fmt =
  if Z.eqb fmt (Zpos (XI (XO XH)))
  then Zpos (XO (XO (XO XH)))
  else Zpos (XO (XO XH))

(** val sz_off : z -> z **)

let sz_off fmt =
  if Z.eqb fmt (Zpos XH) then Zpos (XO (XO XH)) else Zpos (XO (XO (XO XH)))

(** val len_att : z -> att -> z **)

let len_att fmt a =
  Z.add
    (Z.add
      (Z.add (Z.add (sz_nn fmt) (rndup (zlen a.a_name) (Zpos (XO (XO XH)))))
        (Zpos (XO (XO XH)))) (sz_nn fmt))
    (rndup (Z.mul a.a_nelems (xlen_type a.a_type)) (Zpos (XO (XO XH))))

(** val len_attarray : z -> att list -> z **)

let len_attarray fmt l =
  Z.add (Z.add (Zpos (XO (XO XH))) (sz_nn fmt)) (zsum (map (len_att fmt) l))

(** val len_dim : z -> dim -> z **)

let len_dim fmt d =
  Z.add (Z.add (sz_nn fmt) (rndup (zlen d.d_name) (Zpos (XO (XO XH)))))
    (sz_nn fmt)

(** val len_var : z -> var -> z **)

let len_var fmt v =
  Z.add
    (Z.add
      (Z.add
        (Z.add
          (Z.add
            (Z.add
              (Z.add (sz_nn fmt) (rndup (zlen v.v_name) (Zpos (XO (XO XH)))))
              (sz_nn fmt)) (Z.mul (sz_nn fmt) (zlen v.v_dimids)))
          (len_attarray fmt v.v_atts)) (Zpos (XO (XO XH)))) (sz_nn fmt))
    (sz_off fmt)

(** val hdr_len : hdr -> z **)

let hdr_len h =
  let fmt = h.h_format in
  Z.add
    (Z.add
      (Z.add (Z.add (Zpos (XO (XO XH))) (sz_nn fmt))
        (Z.add (Z.add (Zpos (XO (XO XH))) (sz_nn fmt))
          (zsum (map (len_dim fmt) h.h_dims)))) (len_attarray fmt h.h_gatts))
    (Z.add (Z.add (Zpos (XO (XO XH))) (sz_nn fmt))
      (zsum (map (len_var fmt) h.h_vars)))

(** val check_vlen_loop : z list -> z -> z -> bool **)

let rec check_vlen_loop shape prod0 vlen_max =
  match shape with
  | [] -> true
  | s :: r ->
    if Z.gtb s (Z.div vlen_max prod0)
    then false
    else check_vlen_loop r (Z.mul prod0 s) vlen_max

(** val check_vlen : z -> z list -> z -> bool **)

let check_vlen xsz shape vlen_max =
  match shape with
  | [] -> true
  | s0 :: r ->
    if Z.eqb s0 Z0
    then check_vlen_loop r xsz vlen_max
    else check_vlen_loop shape xsz vlen_max

(** val vlen_max_of : z -> z **)

let vlen_max_of fmt =
  if Z.geb fmt (Zpos (XI (XO XH)))
  then Z.sub nC_MAX_INT64 (Zpos (XI XH))
  else if Z.eqb fmt (Zpos (XO XH))
       then Z.sub nC_MAX_UINT (Zpos (XI XH))
       else Z.sub nC_MAX_INT (Zpos (XI XH))

(** val vlens_pass :
    z -> z -> ((bool * z) * z list) list -> bool -> z -> bool -> z ->
    ((z * bool) * z) option **)

let rec vlens_pass fmt vmax vs want_rec cnt last0 nsel =
  match vs with
  | [] -> Some ((cnt, last0), nsel)
  | p :: r ->
    let (p0, shape) = p in
    let (isrec, xsz) = p0 in
    if eqb isrec want_rec
    then if check_vlen xsz shape vmax
         then vlens_pass fmt vmax r want_rec cnt false (Z.add nsel (Zpos XH))
         else if Z.geb fmt (Zpos (XI (XO XH)))
              then None
              else vlens_pass fmt vmax r want_rec (Z.add cnt (Zpos XH)) true
                     (Z.add nsel (Zpos XH))
    else vlens_pass fmt vmax r want_rec cnt last0 nsel

(** val var_triple : dim list -> var -> (bool * z) * z list **)

let var_triple dims v =
  (((is_recvar dims v), (xlen_type v.v_type)), (var_shape dims v))

(** val check_vlens : hdr -> z **)

let check_vlens h =
  let fmt = h.h_format in
  let vmax = vlen_max_of fmt in
  let vs = map (var_triple h.h_dims) h.h_vars in
  (match vs with
   | [] -> nC_NOERR
   | _ :: _ ->
     (match vlens_pass fmt vmax vs false Z0 false Z0 with
      | Some p ->
        let (p0, _) = p in
        let (lf, lastf) = p0 in
        if Z.gtb lf (Zpos XH)
        then nC_EVARSIZE
        else if (&&) (Z.eqb lf (Zpos XH)) (negb lastf)
             then nC_EVARSIZE
             else let nrec = zlen (filter (fun t -> fst (fst t)) vs) in
                  if Z.eqb nrec Z0
                  then nC_NOERR
                  else if Z.eqb lf (Zpos XH)
                       then nC_EVARSIZE
                       else (match vlens_pass fmt vmax vs true Z0 false Z0 with
                             | Some p1 ->
                               let (p2, _) = p1 in
                               let (lr, lastr) = p2 in
                               if Z.gtb lr (Zpos XH)
                               then nC_EVARSIZE
                               else if (&&) (Z.eqb lr (Zpos XH)) (negb lastr)
                                    then nC_EVARSIZE
                                    else nC_NOERR
                             | None -> nC_EVARSIZE)
      | None -> nC_EVARSIZE))

type layout = { l_xsz : z; l_begin_var : z; l_begin_rec : z; l_recsize : 
                z; l_begins : z list }

type aligncfg = { env_h_align : z; env_v_align : z; env_r_align : z }

type enddef_args = { e_h_minfree : z; e_v_align : z; e_v_minfree : z;
                     e_r_align : z }

(** val resolve_align :
    aligncfg -> enddef_args -> z -> bool -> (z * z) * z **)

let resolve_align cfg ea num_fix_vars is_new =
  let h = cfg.env_h_align in
  let v = cfg.env_v_align in
  let r = cfg.env_r_align in
  let h1 =
    if Z.eqb h Z0
    then let h' =
           if Z.gtb v Z0
           then v
           else if Z.gtb ea.e_v_align Z0 then ea.e_v_align else h
         in
         let h'' =
           if (&&) (Z.eqb h' Z0) (Z.eqb num_fix_vars Z0)
           then if Z.gtb r Z0
                then r
                else if Z.gtb ea.e_r_align Z0 then ea.e_r_align else h'
           else h'
         in
         if (&&) (Z.eqb h'' Z0) is_new then fILE_ALIGNMENT_DEFAULT else h''
    else h
  in
  let v1 =
    if Z.eqb v Z0
    then if Z.gtb ea.e_v_align Z0 then ea.e_v_align else v
    else v
  in
  let r1 =
    if Z.eqb r Z0
    then if Z.gtb ea.e_r_align Z0 then ea.e_r_align else r
    else r
  in
  let fin = fun x ->
    if Z.eqb x Z0 then Zpos (XO (XO XH)) else rndup x (Zpos (XO (XO XH)))
  in
  (((fin h1), (fin v1)), (fin r1))

(** val begins_fixed :
    z -> (bool * z) list -> z list -> z -> z option list -> (z * z option
    list) option **)

let rec begins_fixed fmt vs oldb end_var acc =
  match vs with
  | [] -> Some (end_var, (rev acc))
  | p :: r ->
    let (b, len) = p in
    if b
    then begins_fixed fmt r oldb end_var (None :: acc)
    else if (&&) (Z.eqb fmt (Zpos XH)) (Z.gtb end_var nC_MAX_INT)
         then None
         else let b0 = rndup end_var (Zpos (XO (XO XH))) in
              (match oldb with
               | [] ->
                 let oldb' = [] in
                 begins_fixed fmt r oldb' (Z.add b0 len) ((Some b0) :: acc)
               | ob :: ro ->
                 let b1 = if Z.ltb b0 ob then ob else b0 in
                 begins_fixed fmt r ro (Z.add b1 len) ((Some b1) :: acc))

(** val begins_rec :
    z -> (bool * z) list -> z list -> z -> z -> z option -> z option list ->
    (((z * z) * z option) * z option list) option **)

let rec begins_rec fmt vs oldb end_var recsize lastlen acc =
  match vs with
  | [] -> Some (((end_var, recsize), lastlen), (rev acc))
  | p :: r ->
    let (b, len) = p in
    if b
    then if (&&) (Z.eqb fmt (Zpos XH)) (Z.gtb end_var nC_MAX_INT)
         then None
         else (match oldb with
               | [] ->
                 let oldb' = [] in
                 begins_rec fmt r oldb' (Z.add end_var len)
                   (Z.add recsize len) (Some len) ((Some end_var) :: acc)
               | ob :: ro ->
                 let b0 = if Z.ltb end_var ob then ob else end_var in
                 begins_rec fmt r ro (Z.add end_var len) (Z.add recsize len)
                   (Some len) ((Some b0) :: acc))
    else begins_rec fmt r oldb end_var recsize lastlen (None :: acc)

(** val merge_opts : z option list -> z option list -> z list **)

let rec merge_opts a b =
  match a with
  | [] -> []
  | o :: a' ->
    (match o with
     | Some x -> (match b with
                  | [] -> []
                  | _ :: b' -> x :: (merge_opts a' b'))
     | None ->
       (match b with
        | [] -> []
        | o0 :: b' ->
          (match o0 with
           | Some y -> y :: (merge_opts a' b')
           | None -> Z0 :: (merge_opts a' b'))))

(** val begins :
    hdr -> z -> z -> z -> z -> (layout * bool list) option -> z -> layout
    option **)

let begins h h_minfree v_minfree h_align r_align old prev_begin_rec =
  let fmt = h.h_format in
  let dims = h.h_dims in
  let vs = map (fun v -> ((is_recvar dims v), (var_len dims v))) h.h_vars in
  let xsz = hdr_len h in
  let bv0 =
    match h.h_vars with
    | [] -> xsz
    | _ :: _ -> rndup (Z.add xsz h_minfree) h_align
  in
  let bv1 =
    match old with
    | Some p ->
      let (ol, _) = p in
      if Z.ltb bv0 ol.l_begin_var then ol.l_begin_var else bv0
    | None -> bv0
  in
  let old_fixed =
    match old with
    | Some p ->
      let (ol, recs) = p in
      map snd (filter (fun p0 -> negb (fst p0)) (zip recs ol.l_begins))
    | None -> []
  in
  let old_recb =
    match old with
    | Some p ->
      let (ol, recs) = p in map snd (filter fst (zip recs ol.l_begins))
    | None -> []
  in
  (match begins_fixed fmt vs old_fixed bv1 [] with
   | Some p ->
     let (end_fixed, fb) = p in
     let br0 =
       if Z.ltb prev_begin_rec (Z.add end_fixed v_minfree)
       then Z.add end_fixed v_minfree
       else prev_begin_rec
     in
     let br1 = rndup br0 (Zpos (XO (XO XH))) in
     let br2 = if Z.gtb r_align (Zpos XH) then rndup br1 r_align else br1 in
     let br3 =
       match old with
       | Some p0 ->
         let (ol, _) = p0 in
         if Z.ltb br2 ol.l_begin_rec then ol.l_begin_rec else br2
       | None -> br2
     in
     (match begins_rec fmt vs old_recb br3 Z0 None [] with
      | Some p0 ->
        let (p1, rb) = p0 in
        let (p2, lastlen) = p1 in
        let (_, recsize0) = p2 in
        let bl = merge_opts fb rb in
        let first_fixed = find_index (fun p3 -> negb (fst p3)) vs Z0 in
        let begin_var =
          match first_fixed with
          | Some i -> znth bl i Z0
          | None -> br3
        in
        let last_rec = last_opt (filter (fun v -> is_recvar dims v) h.h_vars)
        in
        let recsize =
          match last_rec with
          | Some lv ->
            (match lastlen with
             | Some ll ->
               if Z.eqb recsize0 ll
               then Z.mul (var_nelems_per_rec (var_shape dims lv))
                      (xlen_type lv.v_type)
               else recsize0
             | None -> recsize0)
          | None -> recsize0
        in
        Some { l_xsz = xsz; l_begin_var = begin_var; l_begin_rec = br3;
        l_recsize = recsize; l_begins = bl }
      | None -> None)
   | None -> None)

(** val set_begins : hdr -> z list -> hdr **)

let set_begins h bl =
  { h_format = h.h_format; h_numrecs = h.h_numrecs; h_dims = h.h_dims;
    h_gatts = h.h_gatts; h_vars =
    (map (fun p ->
      let v = fst p in
      { v_name = v.v_name; v_dimids = v.v_dimids; v_atts = v.v_atts; v_type =
      v.v_type; v_begin = (snd p); v_nofill = v.v_nofill }) (zip h.h_vars bl)) }

(** val set_numrecs : hdr -> z -> hdr **)

let set_numrecs h n =
  { h_format = h.h_format; h_numrecs = n; h_dims = h.h_dims; h_gatts =
    h.h_gatts; h_vars = h.h_vars }

type geom = { g_begin : z; g_xsz : z; g_shape : z list; g_recsize : z;
              g_nrecvars : z }

(** val g_isrec : geom -> bool **)

let g_isrec g =
  match g.g_shape with
  | [] -> false
  | s0 :: _ -> Z.eqb s0 Z0

(** val lin : z list -> z list -> z **)

let rec lin shape idx =
  match shape with
  | [] -> Z0
  | _ :: ss ->
    (match idx with
     | [] -> Z0
     | i :: is_ -> Z.add (Z.mul i (zprod ss)) (lin ss is_))

(** val all_le1 : z list -> bool **)

let rec all_le1 = function
| [] -> true
| c :: r -> (&&) (Z.leb c (Zpos XH)) (all_le1 r)

(** val contig_scan : (z * z) list -> z list -> bool **)

let rec contig_scan rcs lower =
  match rcs with
  | [] -> true
  | p :: r ->
    let (c, s) = p in
    if Z.ltb c s then all_le1 lower else contig_scan r (removelast lower)

(** val is_contig : bool -> z -> z list -> z list -> bool **)

let is_contig isrec nrecvars shape count =
  match shape with
  | [] -> true
  | _ :: _ ->
    if existsb (fun c -> Z.eqb c Z0) count
    then true
    else let most_sig =
           if (&&) isrec (Z.gtb nrecvars (Zpos XH)) then S O else O
         in
         if (&&) ((&&) isrec (Z.gtb nrecvars (Zpos XH)))
              (Z.gtb (hd Z0 count) (Zpos XH))
         then false
         else let cs = skipn most_sig count in
              let ss = skipn most_sig shape in
              contig_scan (rev (zip (tl cs) (tl ss))) (removelast cs)

(** val first_offset : geom -> z list -> z **)

let first_offset g start =
  match g.g_shape with
  | [] -> g.g_begin
  | _ :: _ ->
    if g_isrec g
    then Z.add (Z.add g.g_begin (Z.mul (hd Z0 start) g.g_recsize))
           (Z.mul (lin (tl g.g_shape) (tl start)) g.g_xsz)
    else Z.add g.g_begin (Z.mul (lin g.g_shape start) g.g_xsz)

(** val subarray_disps : z list -> z list -> z list -> z list **)

let rec subarray_disps shape count start =
  match shape with
  | [] -> Z0 :: []
  | _ :: ss ->
    (match count with
     | [] -> Z0 :: []
     | c :: cs ->
       (match start with
        | [] -> Z0 :: []
        | s :: st ->
          flat_map (fun i ->
            map (Z.add (Z.mul (Z.add s i) (zprod ss)))
              (subarray_disps ss cs st)) (zrange Z0 c)))

(** val vara_offsets : geom -> z list -> z list -> z list **)

let vara_offsets g start count =
  match g.g_shape with
  | [] -> g.g_begin :: []
  | _ :: _ ->
    if is_contig (g_isrec g) g.g_nrecvars g.g_shape count
    then map (fun k -> Z.add (first_offset g start) (Z.mul k g.g_xsz))
           (zrange Z0 (zprod count))
    else if g_isrec g
         then let off = Z.add g.g_begin (Z.mul (hd Z0 start) g.g_recsize) in
              let rect =
                match tl g.g_shape with
                | [] -> Z0 :: []
                | z0 :: l ->
                  map (fun d -> Z.mul d g.g_xsz)
                    (subarray_disps (z0 :: l) (tl count) (tl start))
              in
              flat_map (fun r ->
                map (fun d -> Z.add (Z.add off (Z.mul r g.g_recsize)) d) rect)
                (zrange Z0 (hd Z0 count))
         else map (fun d -> Z.add g.g_begin (Z.mul d g.g_xsz))
                (subarray_disps g.g_shape count start)

(** val flatten_outer : (((z * z) * z) * z) list -> z list -> z list **)

let rec flatten_outer rdims disps =
  match rdims with
  | [] -> disps
  | p :: r ->
    let (p0, unit0) = p in
    let (p1, t) = p0 in
    let (s, c) = p1 in
    flatten_outer r
      (flat_map (fun i ->
        map (Z.add (Z.mul (Z.add s (Z.mul i t)) unit0)) disps) (zrange Z0 c))

(** val dim_units : bool -> z -> z -> z list -> nat -> z list **)

let rec dim_units isrec recsize xsz shape d =
  match shape with
  | [] -> []
  | _ :: ss ->
    (if (&&) isrec (Nat.eqb d O) then recsize else Z.mul (zprod ss) xsz) :: 
      (dim_units isrec recsize xsz ss (S d))

(** val quad : (z * z) -> (z * z) -> ((z * z) * z) * z **)

let quad a b =
  ((((fst a), (snd a)), (fst b)), (snd b))

(** val stride_flatten : geom -> z list -> z list -> z list -> z list * z **)

let stride_flatten g start count stride =
  let sl = last start Z0 in
  let cl = last count Z0 in
  let tl_ = last stride (Zpos XH) in
  let nstride = if Z.eqb tl_ (Zpos XH) then Zpos XH else cl in
  let seg_elems = if Z.eqb tl_ (Zpos XH) then cl else Zpos XH in
  let d0 =
    map (fun k -> Z.mul (Z.add sl (Z.mul k tl_)) g.g_xsz) (zrange Z0 nstride)
  in
  let units = dim_units (g_isrec g) g.g_recsize g.g_xsz g.g_shape O in
  let outer =
    zip (zip (removelast start) (removelast count))
      (zip (removelast stride) (removelast units))
  in
  ((flatten_outer (rev (map (fun p -> quad (fst p) (snd p)) outer)) d0),
  seg_elems)

(** val is_true_vars : z list -> z list -> bool **)

let is_true_vars count stride =
  existsb (fun p -> (&&) (Z.gtb (fst p) (Zpos XH)) (Z.gtb (snd p) (Zpos XH)))
    (zip count stride)

(** val vars_offsets : geom -> z list -> z list -> z list option -> z list **)

let vars_offsets g start count = function
| Some st ->
  if negb (is_true_vars count st)
  then vara_offsets g start count
  else (match g.g_shape with
        | [] -> g.g_begin :: []
        | _ :: _ ->
          if Z.eqb (zprod count) Z0
          then []
          else let (disps, seg) = stride_flatten g start count st in
               flat_map (fun d ->
                 map (fun k -> Z.add (Z.add g.g_begin d) (Z.mul k g.g_xsz))
                   (zrange Z0 seg)) disps)
| None -> vara_offsets g start count

(** val model_offsets :
    geom -> z list -> z list -> z list option -> z list **)

let model_offsets g start count stride =
  if Z.eqb (zprod count) Z0 then [] else vars_offsets g start count stride

(** val imap_contig_scan : (z * z) list -> z -> z * (z * z) list **)

let rec imap_contig_scan rcm blk =
  match rcm with
  | [] -> (blk, [])
  | p :: r ->
    let (c, m) = p in
    if Z.eqb blk m then imap_contig_scan r (Z.mul blk c) else (blk, rcm)

(** val imap_outer : (z * z) list -> z list -> z list **)

let rec imap_outer rdims pos =
  match rdims with
  | [] -> pos
  | p :: r ->
    let (c, m) = p in
    imap_outer r
      (flat_map (fun i -> map (Z.add (Z.mul i m)) pos) (zrange Z0 c))

(** val imap_positions : z list -> z list option -> z list option **)

let imap_positions count = function
| Some im ->
  (match count with
   | [] -> None
   | _ :: _ ->
     if Z.eqb (zprod count) (Zpos XH)
     then None
     else let (blk, rest) = imap_contig_scan (rev (zip count im)) (Zpos XH) in
          (match rest with
           | [] -> None
           | p :: r ->
             let (c, m) = p in
             let v =
               flat_map (fun i -> map (Z.add (Z.mul i m)) (zrange Z0 blk))
                 (zrange Z0 c)
             in
             Some (imap_outer r v)))
| None -> None

(** val check_EINVALCOORDS : bool -> z -> z -> z -> z **)

let check_EINVALCOORDS strict start count shape =
  if strict
  then if (||) (Z.ltb start Z0) (Z.geb start shape)
       then nC_EINVALCOORDS
       else nC_NOERR
  else if (||) (Z.ltb start Z0) (Z.gtb start shape)
       then nC_EINVALCOORDS
       else if (&&) (Z.eqb start shape) (Z.gtb count Z0)
            then nC_EINVALCOORDS
            else nC_NOERR

(** val check_EEDGE : z -> z -> z option -> z -> z **)

let check_EEDGE start count stride shape =
  if (||) (Z.gtb count shape) (Z.gtb (Z.add start count) shape)
  then nC_EEDGE
  else (match stride with
        | Some t ->
          if (&&) (Z.gtb count Z0)
               (Z.geb (Z.add start (Z.mul (Z.sub count (Zpos XH)) t)) shape)
          then nC_EEDGE
          else nC_NOERR
        | None -> nC_NOERR)

(** val first_err : z list -> z **)

let rec first_err = function
| [] -> nC_NOERR
| e :: r -> if Z.eqb e nC_NOERR then first_err r else e

type apikind =
| API_VAR1
| API_VARA
| API_VARS
| API_VARM

(** val check_scs :
    z -> bool -> bool -> bool -> apikind -> z list -> z -> z list option -> z
    list option -> z list option -> z **)

let check_scs fmt strict isrec isread kind shape numrecs start count stride =
  match start with
  | Some st ->
    if Z.ltb (hd Z0 st) Z0
    then nC_EINVALCOORDS
    else let shp = if isrec then numrecs :: (tl shape) else shape in
         let cnt_or1 =
           match count with
           | Some c -> c
           | None -> map (fun _ -> Zpos XH) shp
         in
         let e_rec =
           if isrec
           then if (&&) (Z.ltb fmt (Zpos (XI (XO XH))))
                     (Z.gtb (hd Z0 st) nC_MAX_UINT)
                then nC_EINVALCOORDS
                else if isread
                     then let len = hd (Zpos XH) cnt_or1 in
                          if (&&) (Z.eqb numrecs Z0) (Z.gtb len Z0)
                          then nC_EINVALCOORDS
                          else check_EINVALCOORDS strict (hd Z0 st) len
                                 numrecs
                     else nC_NOERR
           else nC_NOERR
         in
         if negb (Z.eqb e_rec nC_NOERR)
         then e_rec
         else let skip = if isrec then S O else O in
              let e_coords =
                first_err
                  (map (fun p ->
                    check_EINVALCOORDS strict (fst (fst p)) (snd (fst p))
                      (snd p))
                    (zip (zip (skipn skip st) (skipn skip cnt_or1))
                      (skipn skip shp)))
              in
              if negb (Z.eqb e_coords nC_NOERR)
              then e_coords
              else (match count with
                    | Some cn ->
                      let strides =
                        match stride with
                        | Some t -> map (fun x -> Some x) t
                        | None -> map (fun _ -> None) cn
                      in
                      let e0 =
                        if isrec
                        then if Z.ltb (hd Z0 cn) Z0
                             then nC_ENEGATIVECNT
                             else if isread
                                  then check_EEDGE (hd Z0 st) (hd Z0 cn)
                                         (hd None strides) numrecs
                                  else nC_NOERR
                        else nC_NOERR
                      in
                      if negb (Z.eqb e0 nC_NOERR)
                      then e0
                      else let e_edge =
                             first_err
                               (map (fun q ->
                                 let (y, sh) = q in
                                 let (y0, t) = y in
                                 let (s, c) = y0 in
                                 if Z.ltb sh Z0
                                 then nC_EEDGE
                                 else if Z.ltb c Z0
                                      then nC_ENEGATIVECNT
                                      else check_EEDGE s c t sh)
                                 (map (fun p -> ((((fst (fst (fst p))),
                                   (snd (fst (fst p)))), (snd (fst p))),
                                   (snd p)))
                                   (zip
                                     (zip
                                       (zip (skipn skip st) (skipn skip cn))
                                       (skipn skip strides)) (skipn skip shp))))
                           in
                           if negb (Z.eqb e_edge nC_NOERR)
                           then e_edge
                           else (match stride with
                                 | Some t ->
                                   if existsb (fun x -> Z.leb x Z0) t
                                   then nC_ESTRIDE
                                   else nC_NOERR
                                 | None -> nC_NOERR)
                    | None ->
                      (match kind with
                       | API_VAR1 -> nC_NOERR
                       | _ -> nC_EEDGE))
  | None -> nC_EINVALCOORDS

(** val is_float_type : z -> bool **)

let is_float_type t =
  (||) (Z.eqb t (Zpos (XI (XO XH)))) (Z.eqb t (Zpos (XO (XI XH))))

(** val is_signed_int : z -> bool **)

let is_signed_int t =
  (||)
    ((||) ((||) (Z.eqb t (Zpos XH)) (Z.eqb t (Zpos (XI XH))))
      (Z.eqb t (Zpos (XO (XO XH))))) (Z.eqb t (Zpos (XO (XI (XO XH)))))

(** val type_min : z -> z **)

let type_min t =
  if Z.eqb t (Zpos XH)
  then Zneg (XO (XO (XO (XO (XO (XO (XO XH)))))))
  else if Z.eqb t (Zpos (XI XH))
       then Zneg (XO (XO (XO (XO (XO (XO (XO (XO (XO (XO (XO (XO (XO (XO (XO
              XH)))))))))))))))
       else if Z.eqb t (Zpos (XO (XO XH)))
            then Zneg (XO (XO (XO (XO (XO (XO (XO (XO (XO (XO (XO (XO (XO (XO
                   (XO (XO (XO (XO (XO (XO (XO (XO (XO (XO (XO (XO (XO (XO
                   (XO (XO (XO XH)))))))))))))))))))))))))))))))
            else if Z.eqb t (Zpos (XO (XI (XO XH))))
                 then Zneg (XO (XO (XO (XO (XO (XO (XO (XO (XO (XO (XO (XO
                        (XO (XO (XO (XO (XO (XO (XO (XO (XO (XO (XO (XO (XO
                        (XO (XO (XO (XO (XO (XO (XO (XO (XO (XO (XO (XO (XO
                        (XO (XO (XO (XO (XO (XO (XO (XO (XO (XO (XO (XO (XO
                        (XO (XO (XO (XO (XO (XO (XO (XO (XO (XO (XO (XO
                        XH)))))))))))))))))))))))))))))))))))))))))))))))))))))))))))))))
                 else Z0

(** val type_max : z -> z **)

let type_max t =
  if Z.eqb t (Zpos XH)
  then Zpos (XI (XI (XI (XI (XI (XI XH))))))
  else if Z.eqb t (Zpos (XO XH))
       then Zpos (XI (XI (XI (XI (XI (XI (XI XH)))))))
       else if Z.eqb t (Zpos (XI XH))
            then Zpos (XI (XI (XI (XI (XI (XI (XI (XI (XI (XI (XI (XI (XI (XI
                   XH))))))))))))))
            else if Z.eqb t (Zpos (XO (XO XH)))
                 then Zpos (XI (XI (XI (XI (XI (XI (XI (XI (XI (XI (XI (XI
                        (XI (XI (XI (XI (XI (XI (XI (XI (XI (XI (XI (XI (XI
                        (XI (XI (XI (XI (XI XH))))))))))))))))))))))))))))))
                 else if Z.eqb t (Zpos (XI (XI XH)))
                      then Zpos (XI (XI (XI (XI (XI (XI (XI XH)))))))
                      else if Z.eqb t (Zpos (XO (XO (XO XH))))
                           then Zpos (XI (XI (XI (XI (XI (XI (XI (XI (XI (XI
                                  (XI (XI (XI (XI (XI XH)))))))))))))))
                           else if Z.eqb t (Zpos (XI (XO (XO XH))))
                                then Zpos (XI (XI (XI (XI (XI (XI (XI (XI (XI
                                       (XI (XI (XI (XI (XI (XI (XI (XI (XI
                                       (XI (XI (XI (XI (XI (XI (XI (XI (XI
                                       (XI (XI (XI (XI
                                       XH)))))))))))))))))))))))))))))))
                                else if Z.eqb t (Zpos (XO (XI (XO XH))))
                                     then Zpos (XI (XI (XI (XI (XI (XI (XI
                                            (XI (XI (XI (XI (XI (XI (XI (XI
                                            (XI (XI (XI (XI (XI (XI (XI (XI
                                            (XI (XI (XI (XI (XI (XI (XI (XI
                                            (XI (XI (XI (XI (XI (XI (XI (XI
                                            (XI (XI (XI (XI (XI (XI (XI (XI
                                            (XI (XI (XI (XI (XI (XI (XI (XI
                                            (XI (XI (XI (XI (XI (XI (XI
                                            XH))))))))))))))))))))))))))))))))))))))))))))))))))))))))))))))
                                     else if Z.eqb t (Zpos (XI (XI (XO XH))))
                                          then Zpos (XI (XI (XI (XI (XI (XI
                                                 (XI (XI (XI (XI (XI (XI (XI
                                                 (XI (XI (XI (XI (XI (XI (XI
                                                 (XI (XI (XI (XI (XI (XI (XI
                                                 (XI (XI (XI (XI (XI (XI (XI
                                                 (XI (XI (XI (XI (XI (XI (XI
                                                 (XI (XI (XI (XI (XI (XI (XI
                                                 (XI (XI (XI (XI (XI (XI (XI
                                                 (XI (XI (XI (XI (XI (XI (XI
                                                 (XI
                                                 XH)))))))))))))))))))))))))))))))))))))))))))))))))))))))))))))))
                                          else Z0

(** val fbias : z -> z **)

let fbias ebits =
  Z.sub (Z.pow (Zpos (XO XH)) (Z.sub ebits (Zpos XH))) (Zpos XH)

(** val pos_to_float_bits : z -> z -> z -> z **)

let pos_to_float_bits mant ebits v =
  if Z.eqb v Z0
  then Z0
  else let p = Z.log2 v in
       if Z.leb p mant
       then Z.add (Z.mul (Z.add p (fbias ebits)) (Z.pow (Zpos (XO XH)) mant))
              (Z.mul (Z.sub v (Z.pow (Zpos (XO XH)) p))
                (Z.pow (Zpos (XO XH)) (Z.sub mant p)))
       else let sh = Z.sub p mant in
            let q = Z.div v (Z.pow (Zpos (XO XH)) sh) in
            let r = Z.modulo v (Z.pow (Zpos (XO XH)) sh) in
            let half = Z.pow (Zpos (XO XH)) (Z.sub sh (Zpos XH)) in
            let q' =
              if (||) (Z.gtb r half) ((&&) (Z.eqb r half) (Z.odd q))
              then Z.add q (Zpos XH)
              else q
            in
            Z.add (Z.mul (Z.add p (fbias ebits)) (Z.pow (Zpos (XO XH)) mant))
              (Z.sub q' (Z.pow (Zpos (XO XH)) mant))

(** val z_to_float_bits : z -> z -> z -> z **)

let z_to_float_bits mant ebits v =
  if Z.ltb v Z0
  then Z.add (Z.pow (Zpos (XO XH)) (Z.add mant ebits))
         (pos_to_float_bits mant ebits (Z.opp v))
  else pos_to_float_bits mant ebits v

(** val float_decode : z -> z -> z -> ((bool * z) * z) option **)

let float_decode mant ebits bits =
  let sign =
    Z.eqb (Z.div bits (Z.pow (Zpos (XO XH)) (Z.add mant ebits))) (Zpos XH)
  in
  let ex =
    Z.modulo (Z.div bits (Z.pow (Zpos (XO XH)) mant))
      (Z.pow (Zpos (XO XH)) ebits)
  in
  let fr = Z.modulo bits (Z.pow (Zpos (XO XH)) mant) in
  if Z.eqb ex (Z.sub (Z.pow (Zpos (XO XH)) ebits) (Zpos XH))
  then None
  else if Z.eqb ex Z0
       then Some ((sign, fr), (Z.sub (Z.sub (Zpos XH) (fbias ebits)) mant))
       else Some ((sign, (Z.add fr (Z.pow (Zpos (XO XH)) mant))),
              (Z.sub (Z.sub ex (fbias ebits)) mant))

(** val cmp_scaled : z -> z -> z -> comparison **)

let cmp_scaled m e b =
  if Z.geb e Z0
  then Z.compare (Z.mul m (Z.pow (Zpos (XO XH)) e)) b
  else Z.compare m (Z.mul b (Z.pow (Zpos (XO XH)) (Z.opp e)))

(** val trunc_scaled : z -> z -> z **)

let trunc_scaled m e =
  if Z.geb e Z0
  then Z.mul m (Z.pow (Zpos (XO XH)) e)
  else Z.div m (Z.pow (Zpos (XO XH)) (Z.opp e))

type cval =
| CInt of z
| CFloat of bool * z * z
| CNaN
| CInf of bool

(** val fmant : z -> z **)

let fmant t =
  if Z.eqb t (Zpos (XI (XO XH)))
  then Zpos (XI (XI (XI (XO XH))))
  else Zpos (XO (XO (XI (XO (XI XH)))))

(** val febits : z -> z **)

let febits t =
  if Z.eqb t (Zpos (XI (XO XH)))
  then Zpos (XO (XO (XO XH)))
  else Zpos (XI (XI (XO XH)))

(** val decode_ext : z -> byte list -> cval **)

let decode_ext t bs =
  let u = be_value bs Z0 in
  if is_float_type t
  then (match float_decode (fmant t) (febits t) u with
        | Some p -> let (p0, e) = p in let (s, m) = p0 in CFloat (s, m, e)
        | None ->
          if Z.eqb (Z.modulo u (Z.pow (Zpos (XO XH)) (fmant t))) Z0
          then CInf
                 (Z.eqb
                   (Z.div u
                     (Z.pow (Zpos (XO XH)) (Z.add (fmant t) (febits t))))
                   (Zpos XH))
          else CNaN)
  else if is_signed_int t
       then let n = Z.mul (Zpos (XO (XO (XO XH)))) (xlen_type t) in
            CInt
            (if Z.geb u (Z.pow (Zpos (XO XH)) (Z.sub n (Zpos XH)))
             then Z.sub u (Z.pow (Zpos (XO XH)) n)
             else u)
       else CInt u

(** val float_bits_of : z -> cval -> z option **)

let float_bits_of t v =
  let mant = fmant t in
  let eb = febits t in
  (match v with
   | CInt z0 -> Some (z_to_float_bits mant eb z0)
   | CFloat (s, m, e) ->
     if Z.eqb m Z0
     then Some (if s then Z.pow (Zpos (XO XH)) (Z.add mant eb) else Z0)
     else if Z.geb e Z0
          then Some
                 (z_to_float_bits mant eb
                   (Z.mul (Z.mul (if s then Zneg XH else Zpos XH) m)
                     (Z.pow (Zpos (XO XH)) e)))
          else if Z.eqb (Z.modulo m (Z.pow (Zpos (XO XH)) (Z.opp e))) Z0
               then Some
                      (z_to_float_bits mant eb
                        (Z.mul (if s then Zneg XH else Zpos XH)
                          (Z.div m (Z.pow (Zpos (XO XH)) (Z.opp e)))))
               else None
   | _ -> None)

(** val nC_FILL : z -> z **)

let nC_FILL t =
  if Z.eqb t (Zpos XH)
  then Zneg (XI (XI (XI (XI (XI (XI XH))))))
  else if Z.eqb t (Zpos (XO XH))
       then Z0
       else if Z.eqb t (Zpos (XI XH))
            then Zneg (XI (XI (XI (XI (XI (XI (XI (XI (XI (XI (XI (XI (XI (XI
                   XH))))))))))))))
            else if Z.eqb t (Zpos (XO (XO XH)))
                 then Zneg (XI (XI (XI (XI (XI (XI (XI (XI (XI (XI (XI (XI
                        (XI (XI (XI (XI (XI (XI (XI (XI (XI (XI (XI (XI (XI
                        (XI (XI (XI (XI (XI XH))))))))))))))))))))))))))))))
                 else if Z.eqb t (Zpos (XI (XO XH)))
                      then Zpos (XO (XO (XO (XO (XO (XO (XO (XO (XO (XO (XO
                             (XO (XO (XO (XO (XO (XO (XO (XO (XO (XI (XI (XI
                             (XI (XO (XO (XI (XI (XI (XI
                             XH))))))))))))))))))))))))))))))
                      else if Z.eqb t (Zpos (XO (XI XH)))
                           then Zpos (XO (XO (XO (XO (XO (XO (XO (XO (XO (XO
                                  (XO (XO (XO (XO (XO (XI (XO (XO (XO (XO (XI
                                  (XI (XI (XI (XI (XI (XI (XO (XO (XO (XO (XO
                                  (XO (XI (XO (XI (XI (XO (XO (XI (XO (XO (XI
                                  (XI (XO (XO (XI (XI (XO (XO (XI (XI (XI (XO
                                  (XO (XI (XI (XI (XI (XO (XO (XO
                                  XH))))))))))))))))))))))))))))))))))))))))))))))))))))))))))))))
                           else if Z.eqb t (Zpos (XI (XI XH)))
                                then Zpos (XI (XI (XI (XI (XI (XI (XI
                                       XH)))))))
                                else if Z.eqb t (Zpos (XO (XO (XO XH))))
                                     then Zpos (XI (XI (XI (XI (XI (XI (XI
                                            (XI (XI (XI (XI (XI (XI (XI (XI
                                            XH)))))))))))))))
                                     else if Z.eqb t (Zpos (XI (XO (XO XH))))
                                          then Zpos (XI (XI (XI (XI (XI (XI
                                                 (XI (XI (XI (XI (XI (XI (XI
                                                 (XI (XI (XI (XI (XI (XI (XI
                                                 (XI (XI (XI (XI (XI (XI (XI
                                                 (XI (XI (XI (XI
                                                 XH)))))))))))))))))))))))))))))))
                                          else if Z.eqb t (Zpos (XO (XI (XO
                                                    XH))))
                                               then Zneg (XO (XI (XI (XI (XI
                                                      (XI (XI (XI (XI (XI (XI
                                                      (XI (XI (XI (XI (XI (XI
                                                      (XI (XI (XI (XI (XI (XI
                                                      (XI (XI (XI (XI (XI (XI
                                                      (XI (XI (XI (XI (XI (XI
                                                      (XI (XI (XI (XI (XI (XI
                                                      (XI (XI (XI (XI (XI (XI
                                                      (XI (XI (XI (XI (XI (XI
                                                      (XI (XI (XI (XI (XI (XI
                                                      (XI (XI (XI
                                                      XH))))))))))))))))))))))))))))))))))))))))))))))))))))))))))))))
                                               else if Z.eqb t (Zpos (XI (XI
                                                         (XO XH))))
                                                    then Zpos (XO (XI (XI (XI
                                                           (XI (XI (XI (XI
                                                           (XI (XI (XI (XI
                                                           (XI (XI (XI (XI
                                                           (XI (XI (XI (XI
                                                           (XI (XI (XI (XI
                                                           (XI (XI (XI (XI
                                                           (XI (XI (XI (XI
                                                           (XI (XI (XI (XI
                                                           (XI (XI (XI (XI
                                                           (XI (XI (XI (XI
                                                           (XI (XI (XI (XI
                                                           (XI (XI (XI (XI
                                                           (XI (XI (XI (XI
                                                           (XI (XI (XI (XI
                                                           (XI (XI (XI
                                                           XH)))))))))))))))))))))))))))))))))))))))))))))))))))))))))))))))
                                                    else Z0

(** val fill_bytes : z -> byte list **)

let fill_bytes t =
  let n = xlen_type t in
  be_bytes (Z.to_nat n)
    (Z.modulo (nC_FILL t)
      (Z.pow (Zpos (XO XH)) (Z.mul (Zpos (XO (XO (XO XH)))) n)))

(** val convert : z -> z -> byte list -> (byte list * bool) option **)

let convert src dst bs =
  let n = xlen_type dst in
  let enc = fun z0 ->
    be_bytes (Z.to_nat n)
      (Z.modulo z0 (Z.pow (Zpos (XO XH)) (Z.mul (Zpos (XO (XO (XO XH)))) n)))
  in
  if Z.eqb src dst
  then Some (bs, false)
  else let v = decode_ext src bs in
       if is_float_type dst
       then (match v with
             | CInt _ ->
               (match float_bits_of dst v with
                | Some b -> Some ((enc b), false)
                | None -> None)
             | CFloat (s, m, e) ->
               if (&&) (Z.eqb src (Zpos (XI (XO XH))))
                    (Z.eqb dst (Zpos (XO (XI XH))))
               then if Z.eqb m Z0
                    then Some
                           ((enc
                              (if s
                               then Z.pow (Zpos (XO XH)) (Zpos (XI (XI (XI
                                      (XI (XI XH))))))
                               else Z0)), false)
                    else let p = Z.log2 m in
                         let bits =
                           Z.add
                             (Z.mul
                               (Z.add (Z.add p e) (Zpos (XI (XI (XI (XI (XI
                                 (XI (XI (XI (XI XH)))))))))))
                               (Z.pow (Zpos (XO XH)) (Zpos (XO (XO (XI (XO
                                 (XI XH))))))))
                             (Z.mul (Z.sub m (Z.pow (Zpos (XO XH)) p))
                               (Z.pow (Zpos (XO XH))
                                 (Z.sub (Zpos (XO (XO (XI (XO (XI XH)))))) p)))
                         in
                         Some
                         ((enc
                            (Z.add
                              (if s
                               then Z.pow (Zpos (XO XH)) (Zpos (XI (XI (XI
                                      (XI (XI XH))))))
                               else Z0) bits)), false)
               else if Z.eqb m Z0
                    then Some
                           ((enc
                              (if s
                               then Z.pow (Zpos (XO XH)) (Zpos (XI (XI (XI
                                      (XI XH)))))
                               else Z0)), false)
                    else (match cmp_scaled m e
                                  (Z.sub
                                    (Z.pow (Zpos (XO XH)) (Zpos (XO (XO (XO
                                      (XO (XO (XO (XO XH)))))))))
                                    (Z.pow (Zpos (XO XH)) (Zpos (XO (XO (XO
                                      (XI (XO (XI XH))))))))) with
                          | Gt -> Some ((fill_bytes dst), true)
                          | _ ->
                            (match float_bits_of dst v with
                             | Some b -> Some ((enc b), false)
                             | None -> None))
             | CNaN -> None
             | CInf _ ->
               if (&&) (Z.eqb src (Zpos (XI (XO XH))))
                    (Z.eqb dst (Zpos (XO (XI XH))))
               then None
               else Some ((fill_bytes dst), true))
       else (match v with
             | CInt z0 ->
               if (&&) (Z.leb (type_min dst) z0) (Z.leb z0 (type_max dst))
               then Some ((enc z0), false)
               else Some ((fill_bytes dst), true)
             | CFloat (s, m, e) ->
               if s
               then (match cmp_scaled m e (Z.opp (type_min dst)) with
                     | Gt ->
                       if Z.eqb m Z0
                       then Some ((enc Z0), false)
                       else Some ((fill_bytes dst), true)
                     | _ -> Some ((enc (Z.opp (trunc_scaled m e))), false))
               else (match cmp_scaled m e (type_max dst) with
                     | Gt -> Some ((fill_bytes dst), true)
                     | _ -> Some ((enc (trunc_scaled m e)), false))
             | CNaN -> None
             | CInf _ -> Some ((fill_bytes dst), true))

(** val is8 : z -> bool **)

let is8 t =
  (||) ((||) (Z.eqb t (Zpos XH)) (Z.eqb t (Zpos (XO XH))))
    (Z.eqb t (Zpos (XI (XI XH))))

(** val is16 : z -> bool **)

let is16 t =
  (||) (Z.eqb t (Zpos (XI XH))) (Z.eqb t (Zpos (XO (XO (XO XH)))))

(** val pat_lim : z -> z -> z **)

let pat_lim memt xt =
  if (||) (is8 memt) (is8 xt)
  then Zpos (XO (XO (XI (XO (XO (XI XH))))))
  else if (||) (is16 memt) (is16 xt)
       then Zpos (XO (XO (XO (XO (XI (XI (XO (XO (XI (XO (XI (XO (XI (XI
              XH))))))))))))))
       else Zpos (XO (XO (XO (XO (XO (XO (XO (XO (XO (XO (XI (XO (XO (XI (XO
              (XO (XO (XO (XI (XO (XI (XI (XI XH)))))))))))))))))))))))

(** val pat_value : z -> z -> z -> z **)

let pat_value seed k lim =
  Z.add (Zpos XH)
    (Z.modulo
      (Z.add
        (Z.mul seed (Zpos (XI (XI (XI (XI (XO (XI (XI (XI (XO (XI (XI (XI
          XH))))))))))))))
        (Z.mul k (Zpos (XI (XO (XO (XI (XI (XO (XO (XO (XI (XO (XO (XI (XI
          (XO (XO (XI XH))))))))))))))))))) lim)

(** val enc_value : z -> z -> byte list **)

let enc_value t v =
  let n = xlen_type t in
  if is_float_type t
  then be_bytes (Z.to_nat n) (z_to_float_bits (fmant t) (febits t) v)
  else be_bytes (Z.to_nat n)
         (Z.modulo v
           (Z.pow (Zpos (XO XH)) (Z.mul (Zpos (XO (XO (XO XH)))) n)))

(** val mem_of_be : byte list -> byte list **)

let mem_of_be =
  rev

(** val chunks : nat -> nat -> 'a1 list -> 'a1 list list **)

let rec chunks n fuel l =
  match fuel with
  | O -> []
  | S f ->
    (match l with
     | [] -> []
     | _ :: _ -> (firstn n l) :: (chunks n f (skipn n l)))

(** val chunk_list : z -> 'a1 list -> 'a1 list list **)

let chunk_list n l =
  chunks (Z.to_nat n) (length l) l

type 'a parser0 = byte list -> ('a * byte list) option

(** val p_u32 : z parser0 **)

let p_u32 =
  get_u32

(** val p_u64 : z parser0 **)

let p_u64 =
  get_u64

(** val p_nn : z -> z parser0 **)

let p_nn fmt =
  if Z.ltb fmt (Zpos (XI (XO XH))) then p_u32 else p_u64

(** val p_bytes : z -> byte list parser0 **)

let p_bytes n l =
  if (||) (Z.ltb n Z0) (Z.ltb (zlen l) n)
  then None
  else Some ((zfirstn n l), (zskipn n l))

(** val p_padded : z -> (byte list * byte list) parser0 **)

let p_padded n l =
  match p_bytes n l with
  | Some p ->
    let (b, r) = p in
    (match p_bytes (padlen n) r with
     | Some p0 -> let (pad, r') = p0 in Some ((b, pad), r')
     | None -> None)
  | None -> None

(** val p_name : z -> (byte list * byte list) parser0 **)

let p_name fmt l =
  match p_nn fmt l with
  | Some p -> let (n, r) = p in p_padded n r
  | None -> None

(** val p_many : 'a1 parser0 -> nat -> 'a1 list parser0 **)

let rec p_many p n l =
  match n with
  | O -> Some ([], l)
  | S k ->
    (match p l with
     | Some p0 ->
       let (x, r) = p0 in
       (match p_many p k r with
        | Some p1 -> let (xs, r') = p1 in Some ((x :: xs), r')
        | None -> None)
     | None -> None)

(** val p_list : z -> z -> 'a1 parser0 -> 'a1 list parser0 **)

let p_list fmt tag p l =
  match p_u32 l with
  | Some p0 ->
    let (t, r) = p0 in
    (match p_nn fmt r with
     | Some p1 ->
       let (n, r') = p1 in
       if Z.eqb t Z0
       then if Z.eqb n Z0 then Some ([], r') else None
       else if Z.eqb t tag
            then if Z.ltb (zlen r') n then None else p_many p (Z.to_nat n) r'
            else None
     | None -> None)
  | None -> None

type dec_dim = { dd_dim : dim; dd_pad : byte list }

type dec_att = { da_att : att; da_pad : byte list }

type dec_var = { dv_var : var; dv_vsize : z; dv_pad : byte list;
                 dv_atts : dec_att list }

(** val p_dim : z -> dec_dim parser0 **)

let p_dim fmt l =
  match p_name fmt l with
  | Some p ->
    let (p0, r) = p in
    let (nm, pad) = p0 in
    (match p_nn fmt r with
     | Some p1 ->
       let (sz, r') = p1 in
       Some ({ dd_dim = { d_name = nm; d_size = sz }; dd_pad = pad }, r')
     | None -> None)
  | None -> None

(** val p_att : z -> dec_att parser0 **)

let p_att fmt l =
  match p_name fmt l with
  | Some p ->
    let (p0, r) = p in
    let (nm, pad) = p0 in
    (match p_u32 r with
     | Some p1 ->
       let (t, r1) = p1 in
       if negb (valid_type fmt t)
       then None
       else (match p_nn fmt r1 with
             | Some p2 ->
               let (n, r2) = p2 in
               if (||) (Z.ltb n Z0) (Z.ltb (zlen r2) n)
               then None
               else (match p_padded (Z.mul n (xlen_type t)) r2 with
                     | Some p3 ->
                       let (p4, r3) = p3 in
                       let (data, pad2) = p4 in
                       Some ({ da_att = { a_name = nm; a_type = t; a_nelems =
                       n; a_data = data }; da_pad = (app pad pad2) }, r3)
                     | None -> None)
             | None -> None)
     | None -> None)
  | None -> None

(** val p_var : z -> dec_var parser0 **)

let p_var fmt l =
  match p_name fmt l with
  | Some p ->
    let (p0, r) = p in
    let (nm, pad) = p0 in
    (match p_nn fmt r with
     | Some p1 ->
       let (nd, r1) = p1 in
       if Z.ltb (zlen r1) nd
       then None
       else (match p_many (p_nn fmt) (Z.to_nat nd) r1 with
             | Some p2 ->
               let (dimids, r2) = p2 in
               (match p_list fmt (Zpos (XO (XO (XI XH)))) (p_att fmt) r2 with
                | Some p3 ->
                  let (atts, r3) = p3 in
                  (match p_u32 r3 with
                   | Some p4 ->
                     let (t, r4) = p4 in
                     if negb (valid_type fmt t)
                     then None
                     else (match p_nn fmt r4 with
                           | Some p5 ->
                             let (vsize, r5) = p5 in
                             (match if Z.eqb fmt (Zpos XH)
                                    then p_u32 r5
                                    else p_u64 r5 with
                              | Some p6 ->
                                let (bg, r6) = p6 in
                                Some ({ dv_var = { v_name = nm; v_dimids =
                                dimids; v_atts =
                                (map (fun d -> d.da_att) atts); v_type = t;
                                v_begin = bg; v_nofill = true }; dv_vsize =
                                vsize; dv_pad = pad; dv_atts = atts }, r6)
                              | None -> None)
                           | None -> None)
                   | None -> None)
                | None -> None)
             | None -> None)
     | None -> None)
  | None -> None

type decoded = { dc_hdr : hdr; dc_dims : dec_dim list;
                 dc_gatts : dec_att list; dc_vars : dec_var list; dc_len : 
                 z }

(** val decode : byte list -> decoded option **)

let decode l = match l with
| [] -> None
| b :: l0 ->
  (match b with
   | Zpos p ->
     (match p with
      | XI p0 ->
        (match p0 with
         | XI p1 ->
           (match p1 with
            | XO p2 ->
              (match p2 with
               | XO p3 ->
                 (match p3 with
                  | XO p4 ->
                    (match p4 with
                     | XO p5 ->
                       (match p5 with
                        | XH ->
                          (match l0 with
                           | [] -> None
                           | b0 :: l1 ->
                             (match b0 with
                              | Zpos p6 ->
                                (match p6 with
                                 | XO p7 ->
                                   (match p7 with
                                    | XO p8 ->
                                      (match p8 with
                                       | XI p9 ->
                                         (match p9 with
                                          | XO p10 ->
                                            (match p10 with
                                             | XO p11 ->
                                               (match p11 with
                                                | XO p12 ->
                                                  (match p12 with
                                                   | XH ->
                                                     (match l1 with
                                                      | [] -> None
                                                      | b1 :: l2 ->
                                                        (match b1 with
                                                         | Zpos p13 ->
                                                           (match p13 with
                                                            | XO p14 ->
                                                              (match p14 with
                                                               | XI p15 ->
                                                                 (match p15 with
                                                                  | XI p16 ->
                                                                    (match p16 with
                                                                    | XO p17 ->
                                                                    (match p17 with
                                                                    | XO p18 ->
                                                                    (match p18 with
                                                                    | XO p19 ->
                                                                    (match p19 with
                                                                    | XH ->
                                                                    (match l2 with
                                                                    | [] ->
                                                                    None
                                                                    | ver :: r ->
                                                                    if 
                                                                    negb
                                                                    ((||)
                                                                    ((||)
                                                                    (Z.eqb
                                                                    ver (Zpos
                                                                    XH))
                                                                    (Z.eqb
                                                                    ver (Zpos
                                                                    (XO XH))))
                                                                    (Z.eqb
                                                                    ver (Zpos
                                                                    (XI (XO
                                                                    XH)))))
                                                                    then None
                                                                    else 
                                                                    (match 
                                                                    p_nn ver r with
                                                                    | Some p20 ->
                                                                    let (
                                                                    numrecs,
                                                                    r1) = p20
                                                                    in
                                                                    (
                                                                    match 
                                                                    p_list
                                                                    ver (Zpos
                                                                    (XO (XI
                                                                    (XO
                                                                    XH))))
                                                                    (p_dim
                                                                    ver) r1 with
                                                                    | Some p21 ->
                                                                    let (
                                                                    dims, r2) =
                                                                    p21
                                                                    in
                                                                    (
                                                                    match 
                                                                    p_list
                                                                    ver (Zpos
                                                                    (XO (XO
                                                                    (XI
                                                                    XH))))
                                                                    (p_att
                                                                    ver) r2 with
                                                                    | Some p22 ->
                                                                    let (
                                                                    gatts, r3) =
                                                                    p22
                                                                    in
                                                                    (
                                                                    match 
                                                                    p_list
                                                                    ver (Zpos
                                                                    (XI (XI
                                                                    (XO
                                                                    XH))))
                                                                    (p_var
                                                                    ver) r3 with
                                                                    | Some p23 ->
                                                                    let (
                                                                    vars, r4) =
                                                                    p23
                                                                    in
                                                                    Some
                                                                    { dc_hdr =
                                                                    { h_format =
                                                                    ver;
                                                                    h_numrecs =
                                                                    numrecs;
                                                                    h_dims =
                                                                    (map
                                                                    (fun d ->
                                                                    d.dd_dim)
                                                                    dims);
                                                                    h_gatts =
                                                                    (map
                                                                    (fun d ->
                                                                    d.da_att)
                                                                    gatts);
                                                                    h_vars =
                                                                    (map
                                                                    (fun d ->
                                                                    d.dv_var)
                                                                    vars) };
                                                                    dc_dims =
                                                                    dims;
                                                                    dc_gatts =
                                                                    gatts;
                                                                    dc_vars =
                                                                    vars;
                                                                    dc_len =
                                                                    (Z.sub
                                                                    (zlen l)
                                                                    (zlen r4)) }
                                                                    | None ->
                                                                    None)
                                                                    | None ->
                                                                    None)
                                                                    | None ->
                                                                    None)
                                                                    | None ->
                                                                    None))
                                                                    | _ ->
                                                                    None)
                                                                    | _ ->
                                                                    None)
                                                                    | _ ->
                                                                    None)
                                                                    | _ ->
                                                                    None)
                                                                  | _ -> None)
                                                               | _ -> None)
                                                            | _ -> None)
                                                         | _ -> None))
                                                   | _ -> None)
                                                | _ -> None)
                                             | _ -> None)
                                          | _ -> None)
                                       | _ -> None)
                                    | _ -> None)
                                 | _ -> None)
                              | _ -> None))
                        | _ -> None)
                     | _ -> None)
                  | _ -> None)
               | _ -> None)
            | _ -> None)
         | _ -> None)
      | _ -> None)
   | _ -> None)

(** val all_zero : byte list -> bool **)

let all_zero l =
  forallb (fun b -> Z.eqb b Z0) l

(** val expected_vsize : z -> z -> z **)

let expected_vsize fmt len =
  if Z.ltb fmt (Zpos (XI (XO XH)))
  then if Z.gtb len (Zpos (XO (XO (XI (XI (XI (XI (XI (XI (XI (XI (XI (XI (XI
            (XI (XI (XI (XI (XI (XI (XI (XI (XI (XI (XI (XI (XI (XI (XI (XI
            (XI (XI XH))))))))))))))))))))))))))))))))
       then Zpos (XI (XI (XI (XI (XI (XI (XI (XI (XI (XI (XI (XI (XI (XI (XI
              (XI (XI (XI (XI (XI (XI (XI (XI (XI (XI (XI (XI (XI (XI (XI (XI
              XH)))))))))))))))))))))))))))))))
       else len
  else len

(** val strict_valid : decoded -> bool **)

let strict_valid d =
  let h = d.dc_hdr in
  let dims = h.h_dims in
  (&&)
    ((&&)
      ((&&) (forallb (fun x -> all_zero x.dd_pad) d.dc_dims)
        (forallb (fun x -> all_zero x.da_pad) d.dc_gatts))
      (forallb (fun x ->
        (&&)
          ((&&)
            ((&&) (all_zero x.dv_pad)
              (forallb (fun y -> all_zero y.da_pad) x.dv_atts))
            (forallb (fun i -> (&&) (Z.leb Z0 i) (Z.ltb i (zlen dims)))
              x.dv_var.v_dimids))
          (Z.eqb x.dv_vsize
            (expected_vsize h.h_format (var_len dims x.dv_var)))) d.dc_vars))
    (Z.leb (zlen (filter (fun dd -> Z.eqb dd.d_size Z0) dims)) (Zpos XH))

(** val begins_increasing : z -> (z * z) list -> bool **)

let rec begins_increasing prev_end = function
| [] -> true
| p :: r ->
  let (b, len) = p in
  (&&) ((&&) (Z.leb prev_end b) (Z.eqb (Z.modulo b (Zpos (XO (XO XH)))) Z0))
    (begins_increasing (Z.add b len) r)

(** val layout_ok : hdr -> z -> bool **)

let layout_ok h hdr_size =
  let dims = h.h_dims in
  let fixed = filter (fun v -> negb (is_recvar dims v)) h.h_vars in
  let recs = filter (is_recvar dims) h.h_vars in
  let fl = map (fun v -> (v.v_begin, (var_len dims v))) fixed in
  let end_fixed =
    fold_left (fun e p -> Z.max e (Z.add (fst p) (snd p))) fl hdr_size
  in
  let rl = map (fun v -> (v.v_begin, (var_len dims v))) recs in
  (&&) (begins_increasing hdr_size fl) (begins_increasing end_fixed rl)

(** val layout_of_hdr : hdr -> z -> layout **)

let layout_of_hdr h xsz =
  let dims = h.h_dims in
  let vs = h.h_vars in
  let fixed = filter (fun v -> negb (is_recvar dims v)) vs in
  let recs = filter (is_recvar dims) vs in
  let begin_rec0 =
    match last_opt fixed with
    | Some v -> Z.add v.v_begin (var_len dims v)
    | None -> xsz
  in
  let recsize0 = zsum (map (var_len dims) recs) in
  (match recs with
   | [] ->
     let recsize = Z0 in
     let begin_var = match fixed with
                     | [] -> begin_rec0
                     | fv :: _ -> fv.v_begin
     in
     (match vs with
      | [] ->
        { l_xsz = xsz; l_begin_var = Z0; l_begin_rec = Z0; l_recsize = Z0;
          l_begins = [] }
      | _ :: _ ->
        { l_xsz = xsz; l_begin_var = begin_var; l_begin_rec = begin_rec0;
          l_recsize = recsize; l_begins = (map (fun v -> v.v_begin) vs) })
   | fr :: _ ->
     let begin_rec = fr.v_begin in
     let recsize =
       if Z.eqb recsize0 (var_len dims fr)
       then Z.mul (var_nelems_per_rec (var_shape dims fr))
              (xlen_type fr.v_type)
       else recsize0
     in
     let begin_var = match fixed with
                     | [] -> begin_rec
                     | fv :: _ -> fv.v_begin
     in
     (match vs with
      | [] ->
        { l_xsz = xsz; l_begin_var = Z0; l_begin_rec = Z0; l_recsize = Z0;
          l_begins = [] }
      | _ :: _ ->
        { l_xsz = xsz; l_begin_var = begin_var; l_begin_rec = begin_rec;
          l_recsize = recsize; l_begins = (map (fun v -> v.v_begin) vs) }))

type tok =
| TZ of z
| THex of byte list
| TName of z * byte list
| TSame
| TBuf of z * byte list option
| TStat of z * z
| TSkip

(** val rC_UNMODELLED : z **)

let rC_UNMODELLED =
  Zneg (XI (XO (XO (XO (XO (XI (XI (XO (XO (XI (XI (XI XH))))))))))))

type disk = { dk_exists : bool; dk_size : z; dk_get : (z -> byte) }

(** val empty_disk : disk **)

let empty_disk =
  { dk_exists = false; dk_size = Z0; dk_get = (fun _ -> Z0) }

(** val dk_write : disk -> z -> byte list -> disk **)

let dk_write d off bs = match bs with
| [] -> d
| _ :: _ ->
  let n = zlen bs in
  { dk_exists = true; dk_size = (Z.max d.dk_size (Z.add off n)); dk_get =
  (fun x ->
  if (&&) (Z.leb off x) (Z.ltb x (Z.add off n))
  then znth bs (Z.sub x off) Z0
  else d.dk_get x) }

(** val dk_read : disk -> z -> z -> byte list **)

let dk_read d off n =
  map d.dk_get (zrange off n)

(** val dk_scatter : disk -> z -> z list -> byte list -> disk **)

let rec dk_scatter d xsz offs bs =
  match offs with
  | [] -> d
  | o :: r -> dk_scatter (dk_write d o (zfirstn xsz bs)) xsz r (zskipn xsz bs)

(** val dk_gather : disk -> z -> z list -> byte list **)

let dk_gather d xsz offs =
  flat_map (fun o -> dk_read d o xsz) offs

type bufspec =
| BTyped
| BContig of z
| BVector of z * z * z
| BNull

type form =
| FVar
| FVar1 of z list option
| FVara of z list option * z list option
| FVars of z list option * z list option * z list option
| FVarm of z list option * z list option * z list option * z list option
| FVarn of (z list * z list) list

type access = { ac_var : z; ac_form : form; ac_memt : z; ac_flex : bool;
                ac_buf : bufspec; ac_seed : z }

type preq = { pr_id : z; pr_isput : bool; pr_isbput : bool; pr_slot : 
              z; pr_acc : access; pr_stream : byte list; pr_bytes : z }

type slotst = { sl_id : z; sl_isput : bool; sl_buf : byte list;
                sl_last : byte list }

type rankst = { rk_numrecs : z; rk_dirty : bool; rk_reqs : preq list;
                rk_nput : z; rk_nget : z; rk_abuf : (z * z) option;
                rk_slots : (z * slotst) list }

(** val rank_init : z -> rankst **)

let rank_init numrecs =
  { rk_numrecs = numrecs; rk_dirty = false; rk_reqs = []; rk_nput = Z0;
    rk_nget = Z0; rk_abuf = None; rk_slots = [] }

type filest = { f_hdr : hdr; f_lay : layout; f_indef : bool; f_indep : 
                bool; f_rdonly : bool; f_isnew : bool;
                f_old : (hdr * layout) option; f_fill : bool;
                f_align : aligncfg; f_ranks : rankst list; f_slot : z;
                f_tainted : bool }

type world = { w_nprocs : z; w_disks : disk list;
               w_files : filest option list; w_ids : z list;
               w_hints : aligncfg; w_strict : bool; w_move_unit : z }

(** val no_align : aligncfg **)

let no_align =
  { env_h_align = Z0; env_v_align = Z0; env_r_align = Z0 }

(** val world0 : z -> world **)

let world0 n =
  { w_nprocs = n; w_disks =
    (repeat empty_disk (S (S (S (S (S (S (S (S O))))))))); w_files = [];
    w_ids = (repeat (Zneg XH) (S (S (S (S (S (S (S (S O))))))))); w_hints =
    no_align; w_strict = false; w_move_unit = mOVE_UNIT }

(** val set_disk : world -> z -> disk -> world **)

let set_disk w slot d =
  { w_nprocs = w.w_nprocs; w_disks = (zupd w.w_disks slot d); w_files =
    w.w_files; w_ids = w.w_ids; w_hints = w.w_hints; w_strict = w.w_strict;
    w_move_unit = w.w_move_unit }

(** val get_disk : world -> z -> disk **)

let get_disk w slot =
  znth w.w_disks slot empty_disk

(** val set_files : world -> filest option list -> world **)

let set_files w fs =
  { w_nprocs = w.w_nprocs; w_disks = w.w_disks; w_files = fs; w_ids =
    w.w_ids; w_hints = w.w_hints; w_strict = w.w_strict; w_move_unit =
    w.w_move_unit }

(** val set_ids : world -> z list -> world **)

let set_ids w ids =
  { w_nprocs = w.w_nprocs; w_disks = w.w_disks; w_files = w.w_files; w_ids =
    ids; w_hints = w.w_hints; w_strict = w.w_strict; w_move_unit =
    w.w_move_unit }

(** val set_hints : world -> aligncfg -> world **)

let set_hints w h =
  { w_nprocs = w.w_nprocs; w_disks = w.w_disks; w_files = w.w_files; w_ids =
    w.w_ids; w_hints = h; w_strict = w.w_strict; w_move_unit = w.w_move_unit }

(** val put_file : world -> z -> filest option -> world **)

let put_file w id f =
  set_files w (zupd w.w_files id f)

(** val lookup_file : world -> z -> (z * filest) option **)

let lookup_file w slot =
  let id = znth w.w_ids slot (Zneg XH) in
  if Z.ltb id Z0
  then None
  else (match znth w.w_files id None with
        | Some f -> Some (id, f)
        | None -> None)

(** val upd_hdr : filest -> hdr -> filest **)

let upd_hdr f h =
  { f_hdr = h; f_lay = f.f_lay; f_indef = f.f_indef; f_indep = f.f_indep;
    f_rdonly = f.f_rdonly; f_isnew = f.f_isnew; f_old = f.f_old; f_fill =
    f.f_fill; f_align = f.f_align; f_ranks = f.f_ranks; f_slot = f.f_slot;
    f_tainted = f.f_tainted }

(** val upd_ranks : filest -> rankst list -> filest **)

let upd_ranks f r =
  { f_hdr = f.f_hdr; f_lay = f.f_lay; f_indef = f.f_indef; f_indep =
    f.f_indep; f_rdonly = f.f_rdonly; f_isnew = f.f_isnew; f_old = f.f_old;
    f_fill = f.f_fill; f_align = f.f_align; f_ranks = r; f_slot = f.f_slot;
    f_tainted = f.f_tainted }

(** val upd_rank : filest -> z -> rankst -> filest **)

let upd_rank f rank r =
  upd_ranks f (zupd f.f_ranks rank r)

(** val get_rank : filest -> z -> rankst **)

let get_rank f rank =
  znth f.f_ranks rank (rank_init Z0)

(** val taint : filest -> filest **)

let taint f =
  { f_hdr = f.f_hdr; f_lay = f.f_lay; f_indef = f.f_indef; f_indep =
    f.f_indep; f_rdonly = f.f_rdonly; f_isnew = f.f_isnew; f_old = f.f_old;
    f_fill = f.f_fill; f_align = f.f_align; f_ranks = f.f_ranks; f_slot =
    f.f_slot; f_tainted = true }

(** val rk_set_numrecs : rankst -> z -> bool -> rankst **)

let rk_set_numrecs r n dirty =
  { rk_numrecs = n; rk_dirty = dirty; rk_reqs = r.rk_reqs; rk_nput =
    r.rk_nput; rk_nget = r.rk_nget; rk_abuf = r.rk_abuf; rk_slots =
    r.rk_slots }

(** val all_ranks : world -> z list **)

let all_ranks w =
  zrange Z0 w.w_nprocs

type obs = (z * z) * tok list

(** val same_all : world -> z -> tok list -> obs list **)

let same_all w rc ex =
  map (fun r -> ((r, rc), ex)) (all_ranks w)

(** val name_eqb : z list -> z list -> bool **)

let name_eqb =
  bytes_eqb

(** val find_dim : hdr -> byte list -> z option **)

let find_dim h nm =
  find_index (fun d -> name_eqb d.d_name nm) h.h_dims Z0

(** val find_var : hdr -> byte list -> z option **)

let find_var h nm =
  find_index (fun v -> name_eqb v.v_name nm) h.h_vars Z0

(** val find_att : att list -> byte list -> z option **)

let find_att l nm =
  find_index (fun a -> name_eqb a.a_name nm) l Z0

(** val unlim_dimid : hdr -> z **)

let unlim_dimid h =
  match find_index (fun d -> Z.eqb d.d_size Z0) h.h_dims Z0 with
  | Some i -> i
  | None -> Zneg XH

(** val num_rec_vars : hdr -> z **)

let num_rec_vars h =
  zlen (filter (is_recvar h.h_dims) h.h_vars)

(** val geom_of : filest -> var -> geom **)

let geom_of f v =
  { g_begin = v.v_begin; g_xsz = (xlen_type v.v_type); g_shape =
    (var_shape f.f_hdr.h_dims v); g_recsize = f.f_lay.l_recsize; g_nrecvars =
    (num_rec_vars f.f_hdr) }

(** val first_free : filest option list -> z -> z **)

let rec first_free l i =
  match l with
  | [] -> i
  | o :: r ->
    (match o with
     | Some _ -> first_free r (Z.add i (Zpos XH))
     | None -> i)

(** val empty_layout : layout **)

let empty_layout =
  { l_xsz = Z0; l_begin_var = Z0; l_begin_rec = Z0; l_recsize = Z0;
    l_begins = [] }

(** val do_create : world -> z -> z -> z -> world * obs list **)

let do_create w slot fmt clobber =
  let d = get_disk w slot in
  if (&&) d.dk_exists (Z.eqb clobber Z0)
  then ((set_hints (set_ids w (zupd w.w_ids slot (Zneg XH))) no_align),
         (same_all w nC_EEXIST (TSkip :: [])))
  else let id = first_free w.w_files Z0 in
       let f = { f_hdr = { h_format = fmt; h_numrecs = Z0; h_dims = [];
         h_gatts = []; h_vars = [] }; f_lay = empty_layout; f_indef = true;
         f_indep = false; f_rdonly = false; f_isnew = true; f_old = None;
         f_fill = false; f_align = w.w_hints; f_ranks =
         (map (fun _ -> rank_init Z0) (all_ranks w)); f_slot = slot;
         f_tainted = false }
       in
       let files =
         if Z.ltb id (zlen w.w_files)
         then zupd w.w_files id (Some f)
         else app w.w_files ((Some f) :: [])
       in
       let w1 =
         set_disk w slot { dk_exists = true; dk_size = Z0; dk_get = (fun _ ->
           Z0) }
       in
       let w2 =
         set_hints (set_ids (set_files w1 files) (zupd w.w_ids slot id))
           no_align
       in
       (w2, (same_all w nC_NOERR ((TZ id) :: [])))

(** val name_err : byte list -> z **)

let name_err nm = match nm with
| [] -> nC_EBADNAME
| _ :: _ -> if Z.gtb (zlen nm) nC_MAX_NAME then nC_EMAXNAME else nC_NOERR

(** val simple_char : z -> bool **)

let simple_char c =
  (||)
    ((||)
      ((||)
        ((&&) (Z.leb (Zpos (XI (XO (XO (XO (XO (XO XH))))))) c)
          (Z.leb c (Zpos (XO (XI (XO (XI (XI (XO XH)))))))))
        ((&&) (Z.leb (Zpos (XI (XO (XO (XO (XO (XI XH))))))) c)
          (Z.leb c (Zpos (XO (XI (XO (XI (XI (XI XH))))))))))
      ((&&) (Z.leb (Zpos (XO (XO (XO (XO (XI XH)))))) c)
        (Z.leb c (Zpos (XI (XO (XO (XI (XI XH)))))))))
    (Z.eqb c (Zpos (XI (XI (XI (XI (XI (XO XH))))))))

(** val simple_name : byte list -> bool **)

let simple_name nm = match nm with
| [] -> true
| c :: _ ->
  (&&) (forallb simple_char nm)
    (negb
      ((&&) (Z.leb (Zpos (XO (XO (XO (XO (XI XH)))))) c)
        (Z.leb c (Zpos (XI (XO (XO (XI (XI XH)))))))))

(** val do_def_dim :
    filest -> byte list -> z -> ((filest * z) * tok list) option **)

let do_def_dim f nm len =
  if negb (simple_name nm)
  then None
  else let h = f.f_hdr in
       let fmt = h.h_format in
       if negb f.f_indef
       then Some ((f, nC_ENOTINDEFINE), (TSkip :: []))
       else if negb (Z.eqb (name_err nm) nC_NOERR)
            then Some ((f, (name_err nm)), (TSkip :: []))
            else if (||) (Z.ltb len Z0)
                      ((&&) (Z.ltb fmt (Zpos (XI (XO XH))))
                        (Z.gtb len nC_MAX_INT))
                 then Some ((f, nC_EDIMSIZE), (TSkip :: []))
                 else if (&&) (Z.eqb len Z0)
                           (negb (Z.eqb (unlim_dimid h) (Zneg XH)))
                      then Some ((f, nC_EUNLIMIT), (TSkip :: []))
                      else (match find_dim h nm with
                            | Some _ ->
                              Some ((f, nC_ENAMEINUSE), (TSkip :: []))
                            | None ->
                              let h' = { h_format = fmt; h_numrecs =
                                h.h_numrecs; h_dims =
                                (app h.h_dims ({ d_name = nm; d_size =
                                  len } :: [])); h_gatts = h.h_gatts;
                                h_vars = h.h_vars }
                              in
                              Some (((upd_hdr f h'), nC_NOERR), ((TZ
                              (zlen h.h_dims)) :: [])))

(** val do_def_var :
    filest -> byte list -> z -> z list -> ((filest * z) * tok list) option **)

let do_def_var f nm t dimids =
  if negb (simple_name nm)
  then None
  else let h = f.f_hdr in
       let fmt = h.h_format in
       if negb f.f_indef
       then Some ((f, nC_ENOTINDEFINE), (TSkip :: []))
       else if negb (Z.eqb (name_err nm) nC_NOERR)
            then Some ((f, (name_err nm)), (TSkip :: []))
            else if negb
                      ((&&) (Z.leb (Zpos XH) t)
                        (Z.leb t (Zpos (XI (XI (XO XH))))))
                 then Some ((f, nC_EBADTYPE), (TSkip :: []))
                 else if (&&) (Z.ltb fmt (Zpos (XI (XO XH))))
                           (Z.gtb t (Zpos (XO (XI XH))))
                      then Some ((f, nC_ESTRICTCDF2), (TSkip :: []))
                      else if existsb (fun d ->
                                (||) (Z.ltb d Z0) (Z.geb d (zlen h.h_dims)))
                                dimids
                           then Some ((f, nC_EBADDIM), (TSkip :: []))
                           else if existsb (fun d ->
                                     Z.eqb (dim_size h.h_dims d) Z0)
                                     (tl dimids)
                                then Some ((f, nC_EUNLIMPOS), (TSkip :: []))
                                else (match find_var h nm with
                                      | Some _ ->
                                        Some ((f, nC_ENAMEINUSE),
                                          (TSkip :: []))
                                      | None ->
                                        let v = { v_name = nm; v_dimids =
                                          dimids; v_atts = []; v_type = t;
                                          v_begin = Z0; v_nofill =
                                          (negb f.f_fill) }
                                        in
                                        let h' = { h_format = fmt;
                                          h_numrecs = h.h_numrecs; h_dims =
                                          h.h_dims; h_gatts = h.h_gatts;
                                          h_vars = (app h.h_vars (v :: [])) }
                                        in
                                        Some (((upd_hdr f h'), nC_NOERR),
                                        ((TZ (zlen h.h_vars)) :: [])))

(** val att_bytes : z -> z list -> byte list option **)

let att_bytes t vals =
  if Z.eqb t (Zpos (XO XH))
  then Some
         (map (fun v ->
           Z.modulo v (Zpos (XO (XO (XO (XO (XO (XO (XO (XO XH)))))))))) vals)
  else if is_float_type t
       then if forallb (fun v ->
                 Z.ltb (Z.abs v) (Zpos (XO (XO (XO (XO (XO (XO (XO (XO (XO
                   (XO (XO (XO (XO (XO (XO (XO (XO (XO (XO (XO (XO (XO (XO
                   (XO XH)))))))))))))))))))))))))) vals
            then Some (flat_map (enc_value t) vals)
            else None
       else if forallb (fun v ->
                 (&&) (Z.leb (type_min t) v) (Z.leb v (type_max t))) vals
            then Some (flat_map (enc_value t) vals)
            else None

(** val set_att_list : att list -> att -> att list **)

let set_att_list l a =
  match find_att l a.a_name with
  | Some i -> zupd l i a
  | None -> app l (a :: [])

(** val upd_var_atts : hdr -> z -> (att list -> att list) -> hdr **)

let upd_var_atts h varid g =
  if Z.eqb varid (Zneg XH)
  then { h_format = h.h_format; h_numrecs = h.h_numrecs; h_dims = h.h_dims;
         h_gatts = (g h.h_gatts); h_vars = h.h_vars }
  else { h_format = h.h_format; h_numrecs = h.h_numrecs; h_dims = h.h_dims;
         h_gatts = h.h_gatts; h_vars =
         (map (fun p ->
           let v = snd p in
           if Z.eqb (fst p) varid
           then { v_name = v.v_name; v_dimids = v.v_dimids; v_atts =
                  (g v.v_atts); v_type = v.v_type; v_begin = v.v_begin;
                  v_nofill = v.v_nofill }
           else v) (zip (zrange Z0 (zlen h.h_vars)) h.h_vars)) }

(** val atts_of : hdr -> z -> att list option **)

let atts_of h varid =
  if Z.eqb varid (Zneg XH)
  then Some h.h_gatts
  else if (&&) (Z.leb Z0 varid) (Z.ltb varid (zlen h.h_vars))
       then Some
              (znth h.h_vars varid { v_name = []; v_dimids = []; v_atts = [];
                v_type = Z0; v_begin = Z0; v_nofill = true }).v_atts
       else None

(** val fillvalue_name : byte list **)

let fillvalue_name =
  (Zpos (XI (XI (XI (XI (XI (XO XH))))))) :: ((Zpos (XO (XI (XI (XO (XO (XO
    XH))))))) :: ((Zpos (XI (XO (XO (XI (XO (XI XH))))))) :: ((Zpos (XO (XO
    (XI (XI (XO (XI XH))))))) :: ((Zpos (XO (XO (XI (XI (XO (XI
    XH))))))) :: ((Zpos (XO (XI (XI (XO (XI (XO XH))))))) :: ((Zpos (XI (XO
    (XO (XO (XO (XI XH))))))) :: ((Zpos (XO (XO (XI (XI (XO (XI
    XH))))))) :: ((Zpos (XI (XO (XI (XO (XI (XI XH))))))) :: ((Zpos (XI (XO
    (XI (XO (XO (XI XH))))))) :: [])))))))))

(** val write_header : disk -> hdr -> disk **)

let write_header d h =
  dk_write d Z0 (encode_header h)

(** val write_numrecs_bytes : disk -> z -> z -> disk **)

let write_numrecs_bytes d fmt n =
  dk_write d (Zpos (XO (XO XH))) (put_nn fmt n)

(** val move_round : z -> z -> z -> z -> z -> z * ((z * z) * z) list **)

let move_round nprocs chunk from to0 nbytes_left =
  if Z.ltb nbytes_left (Z.mul nprocs chunk)
  then let rem = Z.div nbytes_left chunk in
       (Z0,
       (map (fun r ->
         let cnt =
           if Z.gtb r rem
           then Z0
           else if Z.eqb r rem then Z.modulo nbytes_left chunk else chunk
         in
         (((Z.add (Z.add from Z0) (Z.mul r chunk)),
         (Z.add (Z.add to0 Z0) (Z.mul r chunk))), cnt)) (zrange Z0 nprocs)))
  else let nb = Z.sub nbytes_left (Z.mul chunk nprocs) in
       (nb,
       (map (fun r -> (((Z.add (Z.add from nb) (Z.mul r chunk)),
         (Z.add (Z.add to0 nb) (Z.mul r chunk))), chunk)) (zrange Z0 nprocs)))

(** val move_rounds : nat -> disk -> z -> z -> z -> z -> z -> disk **)

let rec move_rounds fuel d nprocs chunk from to0 nbytes =
  match fuel with
  | O -> d
  | S k ->
    if Z.leb nbytes Z0
    then d
    else let (nb, xs) = move_round nprocs chunk from to0 nbytes in
         let data =
           map (fun x ->
             let (y, c) = x in let (fo, to_) = y in (to_, (dk_read d fo c)))
             xs
         in
         let d' = fold_left (fun acc p -> dk_write acc (fst p) (snd p)) data d
         in
         move_rounds k d' nprocs chunk from to0 nb

(** val move_file_block : disk -> z -> z -> z -> z -> z -> disk **)

let move_file_block d nprocs unit_ to0 from nbytes =
  if Z.leb nbytes Z0
  then d
  else let c0 =
         Z.add (Z.div nbytes nprocs)
           (if Z.eqb (Z.modulo nbytes nprocs) Z0 then Z0 else Zpos XH)
       in
       let chunk = if Z.gtb c0 unit_ then unit_ else c0 in
       move_rounds
         (Z.to_nat (Z.add (Z.div nbytes (Z.mul chunk nprocs)) (Zpos (XO XH))))
         d nprocs chunk from to0 nbytes

(** val move_record_vars : disk -> z -> z -> z -> layout -> layout -> disk **)

let move_record_vars d nprocs unit_ numrecs nl ol =
  if Z.eqb nl.l_recsize ol.l_recsize
  then if Z.eqb nl.l_recsize Z0
       then d
       else move_file_block d nprocs unit_ nl.l_begin_rec ol.l_begin_rec
              (Z.mul nl.l_recsize numrecs)
  else fold_left (fun acc recno ->
         move_file_block acc nprocs unit_
           (Z.add nl.l_begin_rec (Z.mul recno nl.l_recsize))
           (Z.add ol.l_begin_rec (Z.mul recno ol.l_recsize)) ol.l_recsize)
         (rev (zrange Z0 numrecs)) d

(** val move_fixed_vars :
    disk -> z -> z -> hdr -> layout -> layout -> z list -> disk **)

let move_fixed_vars d nprocs unit_ oh nl ol newlens =
  fold_left (fun acc i ->
    let ov =
      znth oh.h_vars i { v_name = []; v_dimids = []; v_atts = []; v_type =
        Z0; v_begin = Z0; v_nofill = true }
    in
    if is_recvar oh.h_dims ov
    then acc
    else let from = znth ol.l_begins i Z0 in
         let to0 = znth nl.l_begins i Z0 in
         if Z.gtb to0 from
         then move_file_block acc nprocs unit_ to0 from (znth newlens i Z0)
         else acc) (rev (zrange Z0 (zlen oh.h_vars))) d

(** val var_fill_bytes : var -> byte list **)

let var_fill_bytes v =
  match find_att v.v_atts fillvalue_name with
  | Some i ->
    let a =
      znth v.v_atts i { a_name = []; a_type = Z0; a_nelems = Z0; a_data = [] }
    in
    a.a_data
  | None -> fill_bytes v.v_type

(** val fill_share : z -> z -> z -> z * z **)

let fill_share nprocs rank var_len0 =
  let c = Z.div var_len0 nprocs in
  let st = Z.mul c rank in
  if Z.ltb rank (Z.modulo var_len0 nprocs)
  then ((Z.add st rank), (Z.add c (Zpos XH)))
  else ((Z.add st (Z.modulo var_len0 nprocs)), c)

(** val fill_plan :
    hdr -> layout -> z -> z -> z -> z -> ((z * z) * var) list **)

let fill_plan h lay start_vid nrecs nprocs rank =
  let dims = h.h_dims in
  let newvars = zskipn start_vid h.h_vars in
  let fillable = filter (fun v -> negb v.v_nofill) newvars in
  let fixed =
    flat_map (fun v ->
      if is_recvar dims v
      then []
      else let vl = var_nelems_per_rec (var_shape dims v) in
           let (st, c) = fill_share nprocs rank vl in
           (((Z.add v.v_begin (Z.mul st (xlen_type v.v_type))), c), v) :: [])
      fillable
  in
  let recs =
    flat_map (fun recno ->
      flat_map (fun v ->
        if negb (is_recvar dims v)
        then []
        else let vl = var_nelems_per_rec (var_shape dims v) in
             let (st, c) = fill_share nprocs rank vl in
             (((Z.add (Z.add v.v_begin (Z.mul lay.l_recsize recno))
                 (Z.mul st (xlen_type v.v_type))), c), v) :: []) fillable)
      (zrange Z0 nrecs)
  in
  app fixed recs

(** val repeat_bytes : byte list -> z -> byte list **)

let repeat_bytes bs n =
  flat_map (fun _ -> bs) (zrange Z0 n)

(** val do_fill : disk -> hdr -> layout -> z -> z -> z -> disk **)

let do_fill d h lay start_vid nrecs nprocs =
  fold_left (fun acc rank ->
    fold_left (fun acc2 seg ->
      let (y, v) = seg in
      let (off, c) = y in
      dk_write acc2 off (repeat_bytes (var_fill_bytes v) c))
      (fill_plan h lay start_vid nrecs nprocs rank) acc) (zrange Z0 nprocs) d

(** val fill_att_ok : var -> bool **)

let fill_att_ok v =
  match find_att v.v_atts fillvalue_name with
  | Some i ->
    let a =
      znth v.v_atts i { a_name = []; a_type = Z0; a_nelems = Z0; a_data = [] }
    in
    (&&) (Z.eqb a.a_type v.v_type) (Z.eqb a.a_nelems (Zpos XH))
  | None -> true

(** val sync_ranks_numrecs : filest -> z -> filest **)

let sync_ranks_numrecs f n =
  upd_ranks f (map (fun r -> rk_set_numrecs r n false) f.f_ranks)

(** val do_enddef :
    world -> z -> filest -> enddef_args -> (world * z) option **)

let do_enddef w id f ea =
  let h = f.f_hdr in
  if negb f.f_indef
  then Some (w, nC_ENOTINDEFINE)
  else if (||)
            ((||) ((||) (Z.ltb ea.e_h_minfree Z0) (Z.ltb ea.e_v_align Z0))
              (Z.ltb ea.e_v_minfree Z0)) (Z.ltb ea.e_r_align Z0)
       then Some (w, nC_EINVAL)
       else let e = check_vlens h in
            if negb (Z.eqb e nC_NOERR)
            then Some (w, e)
            else let nfix = Z.sub (zlen h.h_vars) (num_rec_vars h) in
                 let is_new =
                   match f.f_old with
                   | Some _ -> false
                   | None -> true
                 in
                 let (p, ra) = resolve_align f.f_align ea nfix is_new in
                 let (ha, _) = p in
                 let oldinfo =
                   match f.f_old with
                   | Some p0 ->
                     let (oh, ol) = p0 in
                     Some (ol, (map (is_recvar oh.h_dims) oh.h_vars))
                   | None -> None
                 in
                 (match begins h ea.e_h_minfree ea.e_v_minfree ha ra oldinfo
                          f.f_lay.l_begin_rec with
                  | Some lay ->
                    let numrecs = if f.f_isnew then Z0 else h.h_numrecs in
                    let h1 = set_numrecs (set_begins h lay.l_begins) numrecs
                    in
                    let d0 = get_disk w f.f_slot in
                    let np = w.w_nprocs in
                    let d1 =
                      match f.f_old with
                      | Some p0 ->
                        let (oh, ol) = p0 in
                        (match h.h_vars with
                         | [] -> d0
                         | _ :: _ ->
                           let lens = map (var_len h.h_dims) h.h_vars in
                           if Z.gtb lay.l_begin_var ol.l_begin_var
                           then move_fixed_vars
                                  (move_record_vars d0 np w.w_move_unit
                                    numrecs lay ol) np w.w_move_unit oh lay
                                  ol lens
                           else if (||)
                                     (Z.gtb lay.l_begin_rec ol.l_begin_rec)
                                     (Z.gtb lay.l_recsize ol.l_recsize)
                                then move_record_vars d0 np w.w_move_unit
                                       numrecs lay ol
                                else d0)
                      | None -> d0
                    in
                    let d2 = write_header d1 h1 in
                    let start_vid =
                      match f.f_old with
                      | Some p0 -> let (oh, _) = p0 in zlen oh.h_vars
                      | None -> Z0
                    in
                    let nrecs_fill =
                      match f.f_old with
                      | Some p0 -> let (oh, _) = p0 in oh.h_numrecs
                      | None -> Z0
                    in
                    let newvars = zskipn start_vid h1.h_vars in
                    if negb
                         (forallb (fun v -> (||) v.v_nofill (fill_att_ok v))
                           newvars)
                    then None
                    else let d3 =
                           match h1.h_vars with
                           | [] -> d2
                           | _ :: _ ->
                             do_fill d2 h1 lay start_vid nrecs_fill np
                         in
                         let f' = { f_hdr = h1; f_lay = lay; f_indef = false;
                           f_indep = false; f_rdonly = f.f_rdonly; f_isnew =
                           false; f_old = None; f_fill = f.f_fill; f_align =
                           f.f_align; f_ranks = f.f_ranks; f_slot = f.f_slot;
                           f_tainted = f.f_tainted }
                         in
                         let f'' = sync_ranks_numrecs f' numrecs in
                         Some
                         ((put_file (set_disk w f.f_slot d3) id (Some f'')),
                         nC_NOERR)
                  | None -> Some (w, nC_EVARSIZE))

(** val gUARD : z **)

let gUARD =
  Zpos (XO (XO (XO (XO XH))))

(** val guard_bytes : byte list **)

let guard_bytes =
  repeat (Zpos (XI (XO (XI (XO (XO (XI (XO XH)))))))) (S (S (S (S (S (S (S (S
    (S (S (S (S (S (S (S (S O))))))))))))))))

(** val mem_size : z -> z **)

let mem_size =
  xlen_type

type rreq = { rq_start : z list; rq_count : z list;
              rq_stride : z list option; rq_imap : z list option }

(** val nelems_of : rreq -> z **)

let nelems_of r =
  zprod r.rq_count

(** val lbuf_positions : rreq -> z list **)

let lbuf_positions r =
  match imap_positions r.rq_count r.rq_imap with
  | Some p -> p
  | None -> zrange Z0 (nelems_of r)

(** val buf_index : bufspec -> z -> z **)

let buf_index b k =
  match b with
  | BVector (_, bl, s) -> Z.add (Z.mul (Z.div k bl) s) (Z.modulo k bl)
  | _ -> k

(** val buf_nelems : bufspec -> z option **)

let buf_nelems = function
| BContig n -> Some n
| BVector (c, bl, _) -> Some (Z.mul c bl)
| _ -> None

(** val buf_extent_elems : bufspec -> rreq -> z **)

let buf_extent_elems b r =
  match b with
  | BContig n -> Z.max n Z0
  | BVector (c, bl, s) ->
    if (||) (Z.leb c Z0) (Z.leb bl Z0)
    then Z0
    else Z.add (Z.mul (Z.sub c (Zpos XH)) s) bl
  | _ ->
    (match r.rq_imap with
     | Some im ->
       if (&&) (forallb (fun c -> Z.gtb c Z0) r.rq_count)
            (forallb (fun m -> Z.geb m Z0) im)
       then Z.add (Zpos XH)
              (zsum
                (map (fun p -> Z.mul (Z.sub (fst p) (Zpos XH)) (snd p))
                  (zip r.rq_count im)))
       else Z.max (Zpos XH) (nelems_of r)
     | None -> Z.max (Zpos XH) (nelems_of r))

(** val eff_memt : access -> z -> z **)

let eff_memt a xt =
  match a.ac_buf with
  | BNull -> xt
  | _ -> a.ac_memt

(** val sanity : filest -> bool -> bool -> bool -> access -> z **)

let sanity f isput blocking coll a =
  let h = f.f_hdr in
  if (&&) isput f.f_rdonly
  then nC_EPERM
  else if (&&) blocking f.f_indef
       then nC_EINDEFINE
       else if (&&) ((&&) blocking coll) f.f_indep
            then nC_EINDEP
            else if (&&) ((&&) blocking (negb coll)) (negb f.f_indep)
                 then nC_ENOTINDEP
                 else if Z.eqb a.ac_var (Zneg XH)
                      then nC_EGLOBAL
                      else if (||) (Z.ltb a.ac_var Z0)
                                (Z.geb a.ac_var (zlen h.h_vars))
                           then nC_ENOTVAR
                           else if a.ac_flex
                                then nC_NOERR
                                else let xt =
                                       (znth h.h_vars a.ac_var { v_name = [];
                                         v_dimids = []; v_atts = []; v_type =
                                         Z0; v_begin = Z0; v_nofill = true }).v_type
                                     in
                                     if Z.eqb a.ac_memt (Zpos (XO XH))
                                     then if Z.eqb xt (Zpos (XO XH))
                                          then nC_NOERR
                                          else nC_ECHAR
                                     else if Z.eqb xt (Zpos (XO XH))
                                          then nC_ECHAR
                                          else nC_NOERR

(** val form_args :
    form -> (((apikind * z list option) * z list option) * z list option) * z
    list option **)

let form_args = function
| FVar1 s -> ((((API_VAR1, s), None), None), None)
| FVara (s, c) -> ((((API_VARA, s), c), None), None)
| FVars (s, c, t) ->
  (((((match t with
       | Some _ -> API_VARS
       | None -> API_VARA), s), c), t), None)
| FVarm (s, c, t, m) ->
  (((((match m with
       | Some _ -> API_VARM
       | None -> (match t with
                  | Some _ -> API_VARS
                  | None -> API_VARA)), s), c), t), m)
| _ -> ((((API_VARA, None), None), None), None)

(** val the_var : filest -> access -> var **)

let the_var f a =
  znth f.f_hdr.h_vars a.ac_var { v_name = []; v_dimids = []; v_atts = [];
    v_type = Z0; v_begin = Z0; v_nofill = true }

(** val check_request :
    world -> filest -> z -> bool -> access -> z * rreq list option **)

let check_request w f rank isread a =
  let v = the_var f a in
  let dims = f.f_hdr.h_dims in
  let shape = var_shape dims v in
  let isrec = is_recvar dims v in
  let numrecs = (get_rank f rank).rk_numrecs in
  let fmt = f.f_hdr.h_format in
  (match a.ac_form with
   | FVar ->
     let cnt = if isrec then numrecs :: (tl shape) else shape in
     (nC_NOERR, (Some ({ rq_start = (map (fun _ -> Z0) shape); rq_count =
     cnt; rq_stride = None; rq_imap = None } :: [])))
   | FVarn reqs ->
     (match reqs with
      | [] -> (nC_NOERR, (Some []))
      | _ :: _ ->
        (match shape with
         | [] ->
           if Z.eqb (zlen reqs) (Zpos XH)
           then (nC_NOERR, (Some ({ rq_start = []; rq_count = []; rq_stride =
                  None; rq_imap = None } :: [])))
           else (nC_EINVAL, None)
         | _ :: _ ->
           let e =
             first_err
               (map (fun sc ->
                 check_scs fmt w.w_strict isrec isread API_VARA shape numrecs
                   (Some (fst sc)) (Some (snd sc)) None) reqs)
           in
           if negb (Z.eqb e nC_NOERR)
           then (e, None)
           else (nC_NOERR, (Some
                  (map (fun sc -> { rq_start = (fst sc); rq_count = (snd sc);
                    rq_stride = None; rq_imap = None }) reqs)))))
   | x ->
     let (p, m) = form_args x in
     let (p0, t) = p in
     let (p1, c) = p0 in
     let (kind, s) = p1 in
     (match shape with
      | [] ->
        (nC_NOERR, (Some ({ rq_start = []; rq_count = []; rq_stride = None;
          rq_imap = None } :: [])))
      | _ :: _ ->
        let e = check_scs fmt w.w_strict isrec isread kind shape numrecs s c t
        in
        if negb (Z.eqb e nC_NOERR)
        then (e, None)
        else (match s with
              | Some st ->
                let cn =
                  match c with
                  | Some x0 -> x0
                  | None -> map (fun _ -> Zpos XH) shape
                in
                (nC_NOERR, (Some ({ rq_start = st; rq_count = cn; rq_stride =
                t; rq_imap = m } :: [])))
              | None -> (nC_EINVALCOORDS, None))))

(** val total_elems : rreq list -> z **)

let total_elems rs =
  zsum (map nelems_of rs)

(** val iomismatch : access -> rreq list -> bool **)

let iomismatch a rs =
  match buf_nelems a.ac_buf with
  | Some n -> negb (Z.eqb n (total_elems rs))
  | None -> false

(** val put_stream : access -> z -> z -> rreq -> byte list **)

let put_stream a xt k0 r =
  let memt = eff_memt a xt in
  let lim = pat_lim memt xt in
  flat_map (fun p -> enc_value xt (pat_value a.ac_seed (Z.add k0 p) lim))
    (lbuf_positions r)

(** val with_bases : rreq list -> z -> (z * rreq) list **)

let rec with_bases rs k0 =
  match rs with
  | [] -> []
  | r :: t -> (k0, r) :: (with_bases t (Z.add k0 (nelems_of r)))

(** val put_new_numrecs : rreq -> z **)

let put_new_numrecs r =
  match r.rq_stride with
  | Some t ->
    Z.add
      (Z.add (hd Z0 r.rq_start)
        (Z.mul (Z.sub (hd Z0 r.rq_count) (Zpos XH)) (hd (Zpos XH) t))) (Zpos
      XH)
  | None -> Z.add (hd Z0 r.rq_start) (hd Z0 r.rq_count)

(** val blank_buf : z -> byte list **)

let blank_buf n =
  app guard_bytes
    (app (repeat (Zpos (XI (XO (XI (XO (XO (XI (XO XH)))))))) (Z.to_nat n))
      guard_bytes)

(** val poke : byte list -> z -> byte list -> byte list **)

let rec poke buf off = function
| [] -> buf
| b :: r -> poke (zupd buf off b) (Z.add off (Zpos XH)) r

(** val buf_extent_list : bufspec -> rreq list -> z **)

let buf_extent_list b rs = match rs with
| [] ->
  (match b with
   | BTyped -> Z.max (Zpos XH) (total_elems rs)
   | BNull -> Z.max (Zpos XH) (total_elems rs)
   | _ ->
     buf_extent_elems b { rq_start = []; rq_count = []; rq_stride = None;
       rq_imap = None })
| r :: l ->
  (match l with
   | [] -> buf_extent_elems b r
   | _ :: _ ->
     (match b with
      | BTyped -> Z.max (Zpos XH) (total_elems rs)
      | BNull -> Z.max (Zpos XH) (total_elems rs)
      | _ ->
        buf_extent_elems b { rq_start = []; rq_count = []; rq_stride = None;
          rq_imap = None }))

(** val get_into_buffer :
    access -> z -> ((z * rreq) * byte list) list -> (byte list * bool) option **)

let get_into_buffer a xt rs =
  let memt = eff_memt a xt in
  let xsz = xlen_type xt in
  let msz = mem_size memt in
  let ext = buf_extent_list a.ac_buf (map (fun x -> snd (fst x)) rs) in
  let buf0 = blank_buf (Z.mul ext msz) in
  fold_left (fun acc0 x ->
    let (y, stream) = x in
    let (k0, r) = y in
    let elems = chunk_list xsz stream in
    let pos = lbuf_positions r in
    fold_left (fun acc pe ->
      match acc with
      | Some y0 ->
        let (buf, er) = y0 in
        (match convert xt memt (snd pe) with
         | Some p ->
           let (be, e) = p in
           Some
           ((poke buf
              (Z.add gUARD
                (Z.mul (buf_index a.ac_buf (Z.add k0 (fst pe))) msz))
              (mem_of_be be)), ((||) er e))
         | None -> None)
      | None -> None) (zip pos elems) acc0) rs (Some (buf0, false))

(** val disk_of : world -> filest -> disk **)

let disk_of w f =
  get_disk w f.f_slot

(** val put_rank :
    world -> z -> filest -> z -> bool -> access -> ((world * z) * z
    option) * bool **)

let put_rank w _ f rank coll a =
  let e0 = sanity f true true coll a in
  if negb (Z.eqb e0 nC_NOERR)
  then (((w, e0), None), false)
  else let v = the_var f a in
       let xt = v.v_type in
       let (e1, orq) = check_request w f rank false a in
       (match orq with
        | Some rs ->
          if iomismatch a rs
          then (((w, nC_EIOMISMATCH), None), false)
          else if Z.eqb (total_elems rs) Z0
               then (((w, nC_NOERR), None), false)
               else let g = geom_of f v in
                    let d =
                      fold_left (fun dacc kr ->
                        let r = snd kr in
                        let offs =
                          model_offsets g r.rq_start r.rq_count r.rq_stride
                        in
                        dk_scatter dacc g.g_xsz offs
                          (put_stream a xt (fst kr) r)) (with_bases rs Z0)
                        (disk_of w f)
                    in
                    let nn =
                      if g_isrec g
                      then Some
                             (fold_left Z.max
                               (map put_new_numrecs
                                 (filter (fun r ->
                                   negb (Z.eqb (nelems_of r) Z0)) rs)) Z0)
                      else None
                    in
                    ((((set_disk w f.f_slot d), nC_NOERR), nn), true)
        | None -> (((w, e1), None), false))

(** val coll_numrecs_sync : world -> z -> filest -> z option list -> world **)

let coll_numrecs_sync w id f news =
  let cur = map (fun r -> r.rk_numrecs) f.f_ranks in
  let props =
    map (fun p -> match snd p with
                  | Some n -> n
                  | None -> fst p) (zip cur news)
  in
  let mx = fold_left Z.max props Z0 in
  let root_cur = hd Z0 cur in
  let d = disk_of w f in
  let d' =
    if (&&) (Z.ltb root_cur mx) (Z.gtb (num_rec_vars f.f_hdr) Z0)
    then write_numrecs_bytes d f.f_hdr.h_format mx
    else d
  in
  let ranks' =
    map (fun r ->
      if Z.ltb r.rk_numrecs mx then rk_set_numrecs r mx r.rk_dirty else r)
      f.f_ranks
  in
  let h' = set_numrecs f.f_hdr (Z.max f.f_hdr.h_numrecs mx) in
  put_file (set_disk w f.f_slot d') id (Some
    (upd_ranks (upd_hdr f h') ranks'))

(** val indep_numrecs : filest -> z -> z option -> filest **)

let indep_numrecs f rank = function
| Some n ->
  let r = get_rank f rank in
  if Z.ltb r.rk_numrecs n
  then upd_rank f rank (rk_set_numrecs r n true)
  else f
| None -> f

(** val get_rank_op :
    world -> filest -> z -> bool -> access -> z * tok list **)

let get_rank_op w f rank coll a =
  let e0 = sanity f false true coll a in
  if negb (Z.eqb e0 nC_NOERR)
  then (e0, (TSkip :: []))
  else let v = the_var f a in
       let xt = v.v_type in
       let (e1, orq) = check_request w f rank true a in
       (match orq with
        | Some rs ->
          if iomismatch a rs
          then (nC_EIOMISMATCH, (TSkip :: []))
          else let g = geom_of f v in
               let parts =
                 map (fun kr ->
                   let r = snd kr in
                   let offs =
                     model_offsets g r.rq_start r.rq_count r.rq_stride
                   in
                   (((fst kr), r), (dk_gather (disk_of w f) g.g_xsz offs)))
                   (with_bases rs Z0)
               in
               (match get_into_buffer a xt parts with
                | Some p ->
                  let (buf, er) = p in
                  ((if er then nC_ERANGE else nC_NOERR), ((THex buf) :: []))
                | None -> (rC_UNMODELLED, (TSkip :: [])))
        | None -> (e1, (TSkip :: [])))

type op =
| OCreate of z * z * z
| OOpen of z * z
| OClose of z
| OAbort of z
| OEnddef of z
| OEnddefX of z * z * z * z * z
| ORedef of z
| OBeginIndep of z
| OEndIndep of z
| OSync of z
| OSyncNumrecs of z
| OFlush of z
| ODefDim of z * byte list * z
| ODefVar of z * byte list * z * z list
| ORenameDim of z * z * byte list
| ORenameVar of z * z * byte list
| OPutAtt of z * z * byte list * z * z list
| OGetAtt of z * z * byte list
| ODelAtt of z * z * byte list
| ORenameAtt of z * z * byte list * byte list
| OCopyAtt of z * z * byte list * z * z
| OSetFill of z * z
| ODefVarFill of z * z * z * z * z
| OInqVarFill of z * z
| OFillVarRec of z * z * z
| OInq of z
| OInqName of z * z * byte list
| OInqAttid of z * z * byte list
| OInqNumrecs of z
| OInqNreqs of z
| OInqBuffer of z
| OAttach of z * z
| ODetach of z
| OSnapshot of z
| OExists of z
| OJunk of z * z * z
| OPut of z * bool * access
| OGet of z * bool * access
| OIput of z * z * access
| OIget of z * z * access
| OBput of z * z * access
| OWait of z * bool * z * z list
| OCancel of z * z * z list
| OBufs of z
| OSetId of z * z
| OHint of z * z
| ONoHints
| OBarrier
| OSleep
| OUnknown

type step =
| SAll of op
| SEach of op list
| SOne of z * op

(** val slot_of : op -> z **)

let slot_of = function
| OCreate (f, _, _) -> f
| OOpen (f, _) -> f
| OClose f -> f
| OAbort f -> f
| OEnddef f -> f
| OEnddefX (f, _, _, _, _) -> f
| ORedef f -> f
| OBeginIndep f -> f
| OEndIndep f -> f
| OSync f -> f
| OSyncNumrecs f -> f
| OFlush f -> f
| ODefDim (f, _, _) -> f
| ODefVar (f, _, _, _) -> f
| ORenameDim (f, _, _) -> f
| ORenameVar (f, _, _) -> f
| OPutAtt (f, _, _, _, _) -> f
| OGetAtt (f, _, _) -> f
| ODelAtt (f, _, _) -> f
| ORenameAtt (f, _, _, _) -> f
| OCopyAtt (f, _, _, _, _) -> f
| OSetFill (f, _) -> f
| ODefVarFill (f, _, _, _, _) -> f
| OInqVarFill (f, _) -> f
| OFillVarRec (f, _, _) -> f
| OInq f -> f
| OInqName (f, _, _) -> f
| OInqAttid (f, _, _) -> f
| OInqNumrecs f -> f
| OInqNreqs f -> f
| OInqBuffer f -> f
| OAttach (f, _) -> f
| ODetach f -> f
| OSnapshot f -> f
| OExists f -> f
| OJunk (f, _, _) -> f
| OPut (f, _, _) -> f
| OGet (f, _, _) -> f
| OIput (f, _, _) -> f
| OIget (f, _, _) -> f
| OBput (f, _, _) -> f
| OWait (f, _, _, _) -> f
| OCancel (f, _, _) -> f
| OBufs f -> f
| OSetId (f, _) -> f
| _ -> Zneg XH

(** val unmodelled : world -> z list -> obs list **)

let unmodelled _ ranks =
  map (fun r -> ((r, rC_UNMODELLED), (TSkip :: []))) ranks

(** val taint_slot : world -> z -> world **)

let taint_slot w slot =
  match lookup_file w slot with
  | Some p -> let (id, f) = p in put_file w id (Some (taint f))
  | None -> w

(** val is_tainted : world -> z -> bool **)

let is_tainted w slot =
  match lookup_file w slot with
  | Some p -> let (_, f) = p in f.f_tainted
  | None -> false

(** val att_toks : att -> tok list **)

let att_toks a =
  (TName ((Zpos (XI (XO (XO (XO (XO (XO XH))))))), a.a_name)) :: ((TZ
    a.a_type) :: ((TZ a.a_nelems) :: ((THex
    (flat_map mem_of_be (chunk_list (xlen_type a.a_type) a.a_data))) :: [])))

(** val inq_toks : filest -> z -> tok list **)

let inq_toks f rank =
  let h = f.f_hdr in
  let dims = h.h_dims in
  let nr = (get_rank f rank).rk_numrecs in
  app ((TZ (zlen dims)) :: ((TZ (zlen h.h_vars)) :: ((TZ
    (zlen h.h_gatts)) :: ((TZ (unlim_dimid h)) :: []))))
    (app
      (flat_map (fun d -> (TName ((Zpos (XO (XO (XI (XO (XO (XO XH))))))),
        d.d_name)) :: ((TZ
        (if Z.eqb d.d_size Z0 then nr else d.d_size)) :: [])) dims)
      (app (flat_map att_toks h.h_gatts)
        (app
          (flat_map (fun v ->
            app ((TName ((Zpos (XO (XI (XI (XO (XI (XO XH))))))),
              v.v_name)) :: ((TZ v.v_type) :: ((TZ
              (zlen v.v_dimids)) :: [])))
              (app (map (fun x -> TZ x) v.v_dimids)
                (app ((TZ
                  (zlen v.v_atts)) :: ((if f.f_indef
                                        then TSkip
                                        else TZ v.v_begin) :: []))
                  (flat_map att_toks v.v_atts)))) h.h_vars) ((TName ((Zpos
          (XO (XO (XO (XI (XO (XO XH))))))),
          [])) :: ((if f.f_indef then TSkip else TZ f.f_lay.l_xsz) :: ((
          if f.f_indef then TSkip else TZ f.f_lay.l_begin_var) :: ((if f.f_indef
                                                                    then TSkip
                                                                    else 
                                                                    TZ
                                                                    f.f_lay.l_recsize) :: ((TZ
          (if Z.eqb (unlim_dimid h) (Zneg XH) then Zneg XH else nr)) :: ((TZ
          h.h_format) :: [])))))))))

(** val do_open : world -> z -> z -> (world * obs list) option **)

let do_open w slot mode =
  let d = get_disk w slot in
  if negb d.dk_exists
  then Some ((set_hints (set_ids w (zupd w.w_ids slot (Zneg XH))) no_align),
         (same_all w nC_ENOENT (TSkip :: [])))
  else (match decode (dk_read d Z0 d.dk_size) with
        | Some dc ->
          let h = dc.dc_hdr in
          let lay = layout_of_hdr h dc.dc_len in
          let id = first_free w.w_files Z0 in
          let f = { f_hdr = h; f_lay = lay; f_indef = false; f_indep = false;
            f_rdonly = (Z.eqb mode Z0); f_isnew = false; f_old = None;
            f_fill = false; f_align = w.w_hints; f_ranks =
            (map (fun _ -> rank_init h.h_numrecs) (all_ranks w)); f_slot =
            slot; f_tainted = false }
          in
          let files =
            if Z.ltb id (zlen w.w_files)
            then zupd w.w_files id (Some f)
            else app w.w_files ((Some f) :: [])
          in
          Some
          ((set_hints (set_ids (set_files w files) (zupd w.w_ids slot id))
             no_align), (same_all w nC_NOERR ((TZ id) :: [])))
        | None -> None)

(** val sync_numrecs_all : world -> z -> filest -> world **)

let sync_numrecs_all w id f =
  if Z.eqb (num_rec_vars f.f_hdr) Z0
  then put_file w id (Some f)
  else let mx = fold_left Z.max (map (fun r -> r.rk_numrecs) f.f_ranks) Z0 in
       let d = disk_of w f in
       let d' = write_numrecs_bytes d f.f_hdr.h_format mx in
       let f' = sync_ranks_numrecs (upd_hdr f (set_numrecs f.f_hdr mx)) mx in
       put_file (set_disk w f.f_slot d') id (Some f')

(** val set_modes : filest -> bool -> bool -> filest **)

let set_modes f indef indep =
  { f_hdr = f.f_hdr; f_lay = f.f_lay; f_indef = indef; f_indep = indep;
    f_rdonly = f.f_rdonly; f_isnew = f.f_isnew; f_old = f.f_old; f_fill =
    f.f_fill; f_align = f.f_align; f_ranks = f.f_ranks; f_slot = f.f_slot;
    f_tainted = f.f_tainted }

(** val dump_slots : rankst -> tok list * rankst **)

let dump_slots r =
  let toks =
    map (fun p ->
      let s = snd p in
      TBuf ((fst p),
      (if bytes_eqb s.sl_buf s.sl_last then None else Some s.sl_buf)))
      r.rk_slots
  in
  let slots' =
    map (fun p ->
      let s = snd p in
      ((fst p), { sl_id = s.sl_id; sl_isput = s.sl_isput; sl_buf = s.sl_buf;
      sl_last = s.sl_buf })) r.rk_slots
  in
  (toks, { rk_numrecs = r.rk_numrecs; rk_dirty = r.rk_dirty; rk_reqs =
  r.rk_reqs; rk_nput = r.rk_nput; rk_nget = r.rk_nget; rk_abuf = r.rk_abuf;
  rk_slots = slots' })

(** val do_close : world -> z -> filest -> (world * obs list) option **)

let do_close w id f =
  let r1 =
    if f.f_indef
    then do_enddef w id f { e_h_minfree = Z0; e_v_align = Z0; e_v_minfree =
           Z0; e_r_align = Z0 }
    else Some (w, nC_NOERR)
  in
  (match r1 with
   | Some p ->
     let (w1, e1) = p in
     (match znth w1.w_files id None with
      | Some f1 ->
        if negb (Z.eqb e1 nC_NOERR)
        then None
        else let w2 =
               if (&&) (negb f1.f_rdonly) f1.f_indep
               then sync_numrecs_all w1 id f1
               else w1
             in
             (match znth w2.w_files id None with
              | Some f2 ->
                let obs0 =
                  map (fun r ->
                    let rk = get_rank f2 r in
                    let pend =
                      match rk.rk_reqs with
                      | [] -> false
                      | _ :: _ -> true
                    in
                    ((r, (if pend then nC_EPENDING else nC_NOERR)),
                    (fst (dump_slots rk)))) (all_ranks w)
                in
                let d = disk_of w2 f2 in
                let d' =
                  match f2.f_hdr.h_vars with
                  | [] ->
                    if (&&) (negb f2.f_rdonly)
                         (Z.gtb d.dk_size f2.f_lay.l_xsz)
                    then { dk_exists = true; dk_size = f2.f_lay.l_xsz;
                           dk_get = (fun x ->
                           if Z.ltb x f2.f_lay.l_xsz then d.dk_get x else Z0) }
                    else d
                  | _ :: _ -> d
                in
                Some ((put_file (set_disk w2 f2.f_slot d') id None), obs0)
              | None -> None)
      | None -> None)
   | None -> None)

(** val coll_put :
    world -> z -> filest -> (z * access) list -> world * obs list **)

let coll_put w id f ras =
  let (w1, res) =
    fold_left (fun acc ra ->
      let (wc, out) = acc in
      let (p, _) = put_rank wc id f (fst ra) true (snd ra) in
      let (p0, nn) = p in
      let (w', rc) = p0 in (w', (app out ((((fst ra), rc), nn) :: [])))) ras
      (w, [])
  in
  let fatal = fun rc ->
    (||)
      ((||) ((||) (Z.eqb rc nC_EPERM) (Z.eqb rc nC_EINDEFINE))
        (Z.eqb rc nC_EINDEP)) (Z.eqb rc nC_ENOTINDEP)
  in
  if existsb (fun x -> fatal (snd (fst x))) res
  then (w,
         (map (fun x -> (((fst (fst x)), (snd (fst x))), (TSame :: []))) res))
  else (match znth w1.w_files id None with
        | Some f1 ->
          let v_isrec = fun ra ->
            let a = snd ra in
            if (&&) (Z.leb Z0 a.ac_var)
                 (Z.ltb a.ac_var (zlen f1.f_hdr.h_vars))
            then is_recvar f1.f_hdr.h_dims (the_var f1 a)
            else false
          in
          let w2 =
            if existsb v_isrec ras
            then coll_numrecs_sync w1 id f1 (map snd res)
            else w1
          in
          (w2,
          (map (fun x -> (((fst (fst x)), (snd (fst x))), (TSame :: []))) res))
        | None -> (w1, []))

(** val indep_put :
    world -> z -> filest -> z -> access -> world * obs list **)

let indep_put w id f rank a =
  let (p, _) = put_rank w id f rank false a in
  let (p0, nn) = p in
  let (w', rc) = p0 in
  (match znth w'.w_files id None with
   | Some f1 ->
     ((put_file w' id (Some (indep_numrecs f1 rank nn))), (((rank, rc),
       (TSame :: [])) :: []))
   | None -> (w', (((rank, rc), (TSame :: [])) :: [])))

(** val acc_unmodelled : access -> bool **)

let acc_unmodelled _ =
  false

(** val exec_all : world -> op -> world * obs list **)

let exec_all w o =
  let ranks = all_ranks w in
  let slot = slot_of o in
  let bad = (w, (unmodelled w ranks)) in
  let with_file = fun k ->
    match lookup_file w slot with
    | Some p -> let (id, f) = p in if f.f_tainted then bad else k id f
    | None -> (w, (same_all w nC_EBADID (TSkip :: [])))
  in
  let taint_out = ((taint_slot w slot), (unmodelled w ranks)) in
  (match o with
   | OCreate (f, fmt, clobber) -> do_create w f fmt clobber
   | OOpen (f, mode) ->
     (match do_open w f mode with
      | Some r -> r
      | None -> bad)
   | OClose _ ->
     with_file (fun id f ->
       match do_close w id f with
       | Some r -> r
       | None -> taint_out)
   | OEnddef _ ->
     with_file (fun id f ->
       match do_enddef w id f { e_h_minfree = Z0; e_v_align = Z0;
               e_v_minfree = Z0; e_r_align = Z0 } with
       | Some p -> let (w', rc) = p in (w', (same_all w rc []))
       | None -> taint_out)
   | OEnddefX (_, a, b, c, d) ->
     with_file (fun id f ->
       match do_enddef w id f { e_h_minfree = a; e_v_align = b; e_v_minfree =
               c; e_r_align = d } with
       | Some p -> let (w', rc) = p in (w', (same_all w rc []))
       | None -> taint_out)
   | ORedef _ ->
     with_file (fun id f ->
       if f.f_rdonly
       then (w, (same_all w nC_EPERM []))
       else if f.f_indef
            then (w, (same_all w nC_EINDEFINE []))
            else let w1 = if f.f_indep then sync_numrecs_all w id f else w in
                 (match znth w1.w_files id None with
                  | Some f1 ->
                    let f2 = { f_hdr = f1.f_hdr; f_lay = f1.f_lay; f_indef =
                      true; f_indep = false; f_rdonly = false; f_isnew =
                      false; f_old = (Some (f1.f_hdr, f1.f_lay)); f_fill =
                      f1.f_fill; f_align = f1.f_align; f_ranks = f1.f_ranks;
                      f_slot = f1.f_slot; f_tainted = f1.f_tainted }
                    in
                    ((put_file w1 id (Some f2)), (same_all w nC_NOERR []))
                  | None -> bad))
   | OBeginIndep _ ->
     with_file (fun id f ->
       if f.f_indef
       then (w, (same_all w nC_EINDEFINE []))
       else ((put_file w id (Some (set_modes f false true))),
              (same_all w nC_NOERR [])))
   | OEndIndep _ ->
     with_file (fun id f ->
       if f.f_indef
       then (w, (same_all w nC_EINDEFINE []))
       else if negb f.f_indep
            then (w, (same_all w nC_ENOTINDEP []))
            else let w1 = if f.f_rdonly then w else sync_numrecs_all w id f in
                 (match znth w1.w_files id None with
                  | Some f1 ->
                    ((put_file w1 id (Some (set_modes f1 false false))),
                      (same_all w nC_NOERR []))
                  | None -> bad))
   | OSync _ ->
     with_file (fun id f ->
       if f.f_indef
       then (w, (same_all w nC_EINDEFINE []))
       else if f.f_rdonly
            then (w, (same_all w nC_NOERR []))
            else ((if f.f_indep then sync_numrecs_all w id f else w),
                   (same_all w nC_NOERR [])))
   | OSyncNumrecs _ ->
     with_file (fun id f ->
       if f.f_indef
       then (w, (same_all w nC_EINDEFINE []))
       else if Z.eqb (num_rec_vars f.f_hdr) Z0
            then (w, (same_all w nC_NOERR []))
            else if f.f_rdonly
                 then (w, (same_all w nC_EPERM []))
                 else ((if f.f_indep then sync_numrecs_all w id f else w),
                        (same_all w nC_NOERR [])))
   | ODefDim (_, nm, len) ->
     with_file (fun id f ->
       match do_def_dim f nm len with
       | Some p ->
         let (p0, ex) = p in
         let (f', rc) = p0 in ((put_file w id (Some f')), (same_all w rc ex))
       | None -> taint_out)
   | ODefVar (_, nm, t, dimids) ->
     with_file (fun id f ->
       match do_def_var f nm t dimids with
       | Some p ->
         let (p0, ex) = p in
         let (f', rc) = p0 in ((put_file w id (Some f')), (same_all w rc ex))
       | None -> taint_out)
   | OPutAtt (_, varid, nm, t, vals) ->
     with_file (fun id f ->
       if (||) (negb (simple_name nm)) (bytes_eqb nm fillvalue_name)
       then taint_out
       else if f.f_rdonly
            then (w, (same_all w nC_EPERM []))
            else (match atts_of f.f_hdr varid with
                  | Some _ ->
                    (match att_bytes t vals with
                     | Some bs ->
                       if negb (Z.eqb (name_err nm) nC_NOERR)
                       then (w, (same_all w (name_err nm) []))
                       else if negb
                                 ((&&) (Z.leb (Zpos XH) t)
                                   (Z.leb t (Zpos (XI (XI (XO XH))))))
                            then (w, (same_all w nC_EBADTYPE []))
                            else if (&&)
                                      (Z.ltb f.f_hdr.h_format (Zpos (XI (XO
                                        XH)))) (Z.gtb t (Zpos (XO (XI XH))))
                                 then (w, (same_all w nC_ESTRICTCDF2 []))
                                 else let a = { a_name = nm; a_type = t;
                                        a_nelems = (zlen vals); a_data = bs }
                                      in
                                      if f.f_indef
                                      then ((put_file w id (Some
                                              (upd_hdr f
                                                (upd_var_atts f.f_hdr varid
                                                  (fun l -> set_att_list l a))))),
                                             (same_all w nC_NOERR []))
                                      else taint_out
                     | None -> taint_out)
                  | None -> (w, (same_all w nC_ENOTVAR []))))
   | OGetAtt (_, varid, nm) ->
     with_file (fun _ f ->
       match atts_of f.f_hdr varid with
       | Some l ->
         (match find_att l nm with
          | Some i ->
            let a =
              znth l i { a_name = []; a_type = Z0; a_nelems = Z0; a_data =
                [] }
            in
            (w,
            (same_all w nC_NOERR ((TZ a.a_type) :: ((TZ a.a_nelems) :: ((THex
              (flat_map mem_of_be (chunk_list (xlen_type a.a_type) a.a_data))) :: [])))))
          | None ->
            (w, (same_all w nC_ENOTATT (TSkip :: (TSkip :: (TSkip :: []))))))
       | None ->
         (w, (same_all w nC_ENOTVAR (TSkip :: (TSkip :: (TSkip :: []))))))
   | OSetFill (_, mode) ->
     with_file (fun id f ->
       if f.f_rdonly
       then (w, (same_all w nC_EPERM (TSkip :: [])))
       else if negb f.f_indef
            then (w, (same_all w nC_ENOTINDEFINE (TSkip :: [])))
            else let nofill = Z.eqb mode (Zpos XH) in
                 let h = f.f_hdr in
                 let h' = { h_format = h.h_format; h_numrecs = h.h_numrecs;
                   h_dims = h.h_dims; h_gatts = h.h_gatts; h_vars =
                   (map (fun v -> { v_name = v.v_name; v_dimids = v.v_dimids;
                     v_atts = v.v_atts; v_type = v.v_type; v_begin =
                     v.v_begin; v_nofill = nofill }) h.h_vars) }
                 in
                 let f' = { f_hdr = h'; f_lay = f.f_lay; f_indef = f.f_indef;
                   f_indep = f.f_indep; f_rdonly = f.f_rdonly; f_isnew =
                   f.f_isnew; f_old = f.f_old; f_fill = (negb nofill);
                   f_align = f.f_align; f_ranks = f.f_ranks; f_slot =
                   f.f_slot; f_tainted = f.f_tainted }
                 in
                 ((put_file w id (Some f')),
                 (same_all w nC_NOERR ((TZ
                   (if f.f_fill then Z0 else Zpos XH)) :: []))))
   | ODefVarFill (_, varid, nofill, hasval, val0) ->
     with_file (fun id f ->
       if f.f_rdonly
       then (w, (same_all w nC_EPERM []))
       else if negb f.f_indef
            then (w, (same_all w nC_ENOTINDEFINE []))
            else if Z.eqb varid (Zneg XH)
                 then (w, (same_all w nC_EGLOBAL []))
                 else if (||) (Z.ltb varid Z0)
                           (Z.geb varid (zlen f.f_hdr.h_vars))
                      then (w, (same_all w nC_ENOTVAR []))
                      else let h = f.f_hdr in
                           let v =
                             znth h.h_vars varid { v_name = []; v_dimids =
                               []; v_atts = []; v_type = Z0; v_begin = Z0;
                               v_nofill = true }
                           in
                           let t = v.v_type in
                           let inrange =
                             if is_float_type t
                             then Z.ltb (Z.abs val0) (Zpos (XO (XO (XO (XO
                                    (XO (XO (XO (XO (XO (XO (XO (XO (XO (XO
                                    (XO (XO (XO (XO (XO (XO (XO (XO (XO (XO
                                    XH)))))))))))))))))))))))))
                             else (&&) (Z.leb (type_min t) val0)
                                    (Z.leb val0 (type_max t))
                           in
                           if (&&) (Z.eqb hasval (Zpos XH)) (negb inrange)
                           then taint_out
                           else let atts' =
                                  if (&&) (Z.eqb hasval (Zpos XH))
                                       (Z.eqb nofill Z0)
                                  then set_att_list v.v_atts { a_name =
                                         fillvalue_name; a_type = t;
                                         a_nelems = (Zpos XH); a_data =
                                         (enc_value t val0) }
                                  else v.v_atts
                                in
                                let v' = { v_name = v.v_name; v_dimids =
                                  v.v_dimids; v_atts = atts'; v_type = t;
                                  v_begin = v.v_begin; v_nofill =
                                  (negb (Z.eqb nofill Z0)) }
                                in
                                let h' = { h_format = h.h_format; h_numrecs =
                                  h.h_numrecs; h_dims = h.h_dims; h_gatts =
                                  h.h_gatts; h_vars =
                                  (zupd h.h_vars varid v') }
                                in
                                ((put_file w id (Some (upd_hdr f h'))),
                                (same_all w nC_NOERR [])))
   | OInqVarFill (_, varid) ->
     with_file (fun _ f ->
       if (||) (Z.ltb varid Z0) (Z.geb varid (zlen f.f_hdr.h_vars))
       then (w, (same_all w nC_ENOTVAR (TSkip :: (TSkip :: []))))
       else let v =
              znth f.f_hdr.h_vars varid { v_name = []; v_dimids = [];
                v_atts = []; v_type = Z0; v_begin = Z0; v_nofill = true }
            in
            (w,
            (same_all w nC_NOERR ((TZ
              (if v.v_nofill then Zpos XH else Z0)) :: ((THex
              (mem_of_be (var_fill_bytes v))) :: [])))))
   | OInq _ ->
     with_file (fun _ f -> (w,
       (map (fun r -> ((r, nC_NOERR), (inq_toks f r))) ranks)))
   | OInqName (_, kind, nm) ->
     with_file (fun _ f ->
       if Z.eqb kind Z0
       then (match find_dim f.f_hdr nm with
             | Some i -> (w, (same_all w nC_NOERR ((TZ i) :: [])))
             | None -> (w, (same_all w nC_EBADDIM (TSkip :: []))))
       else (match find_var f.f_hdr nm with
             | Some i -> (w, (same_all w nC_NOERR ((TZ i) :: [])))
             | None -> (w, (same_all w nC_ENOTVAR (TSkip :: [])))))
   | OInqAttid (_, varid, nm) ->
     with_file (fun _ f ->
       match atts_of f.f_hdr varid with
       | Some l ->
         (match find_att l nm with
          | Some i -> (w, (same_all w nC_NOERR ((TZ i) :: [])))
          | None -> (w, (same_all w nC_ENOTATT (TSkip :: []))))
       | None -> (w, (same_all w nC_ENOTVAR (TSkip :: []))))
   | OInqNumrecs _ ->
     with_file (fun _ f -> (w,
       (map (fun r -> ((r, nC_NOERR), ((TZ
         (if Z.eqb (unlim_dimid f.f_hdr) (Zneg XH)
          then Zneg XH
          else (get_rank f r).rk_numrecs)) :: []))) ranks)))
   | OSnapshot f ->
     let d = get_disk w f in
     if is_tainted w f
     then bad
     else if d.dk_exists
          then (w,
                 (map (fun r ->
                   if Z.eqb r Z0
                   then ((r, Z0), ((TZ d.dk_size) :: ((THex
                          (dk_read d Z0 d.dk_size)) :: [])))
                   else ((r, Z0), [])) ranks))
          else (w, (same_all w (Zneg XH) []))
   | OExists f ->
     (w, (((Z0, (if (get_disk w f).dk_exists then Z0 else Zneg XH)),
       []) :: []))
   | OJunk (f, n, seed) ->
     ((set_disk w f { dk_exists = true; dk_size = n; dk_get = (fun x ->
        if (&&) (Z.leb Z0 x) (Z.ltb x n)
        then Z.add
               (Z.modulo (Z.add seed (Z.mul x (Zpos (XI (XO (XI XH))))))
                 (Zpos (XI (XI (XO (XI (XI (XI (XI XH))))))))) (Zpos XH)
        else Z0) }), (same_all w Z0 []))
   | OPut (_, coll, a) ->
     with_file (fun id f ->
       if acc_unmodelled a
       then taint_out
       else if coll
            then coll_put w id f (map (fun r -> (r, a)) ranks)
            else fold_left (fun acc r ->
                   let (wc, out) = acc in
                   (match znth wc.w_files id None with
                    | Some fc ->
                      let (w', o') = indep_put wc id fc r a in
                      (w', (app out o'))
                    | None -> acc)) ranks (w, []))
   | OGet (_, coll, a) ->
     with_file (fun _ f ->
       if acc_unmodelled a
       then taint_out
       else (w,
              (map (fun r ->
                let (rc, ex) = get_rank_op w f r coll a in ((r, rc), ex))
                ranks)))
   | OSetId (f, n) -> ((set_ids w (zupd w.w_ids f n)), (same_all w Z0 []))
   | OHint (k, v) ->
     let h = w.w_hints in
     let v' = if Z.ltb v Z0 then Z0 else v in
     ((set_hints w
        (if Z.eqb k Z0
         then { env_h_align = v'; env_v_align = h.env_v_align; env_r_align =
                h.env_r_align }
         else if Z.eqb k (Zpos XH)
              then { env_h_align = h.env_h_align; env_v_align = v';
                     env_r_align = h.env_r_align }
              else if Z.eqb k (Zpos (XO XH))
                   then { env_h_align = h.env_h_align; env_v_align =
                          h.env_v_align; env_r_align = v' }
                   else h)), [])
   | ONoHints -> ((set_hints w no_align), [])
   | OBarrier -> (w, (same_all w Z0 []))
   | OSleep -> (w, (same_all w Z0 []))
   | _ -> taint_out)

(** val acc_of : op -> ((bool * bool) * access) option **)

let acc_of = function
| OPut (_, c, a) -> Some ((true, c), a)
| OGet (_, c, a) -> Some ((false, c), a)
| _ -> None

(** val exec_each : world -> op list -> world * obs list **)

let exec_each w os =
  let ranks = all_ranks w in
  (match os with
   | [] -> (w, [])
   | o0 :: _ ->
     let slot = slot_of o0 in
     (match lookup_file w slot with
      | Some p ->
        let (id, f) = p in
        if f.f_tainted
        then (w, (unmodelled w ranks))
        else let accs = map acc_of os in
             if forallb (fun x ->
                  match x with
                  | Some y ->
                    let (y0, a) = y in
                    let (y1, y2) = y0 in
                    if y1
                    then if y2 then negb (acc_unmodelled a) else false
                    else false
                  | None -> false) accs
             then coll_put w id f
                    (flat_map (fun p0 ->
                      match snd p0 with
                      | Some y -> let (_, a) = y in ((fst p0), a) :: []
                      | None -> []) (zip ranks accs))
             else if forallb (fun x ->
                       match x with
                       | Some y ->
                         let (y0, a) = y in
                         let (y1, y2) = y0 in
                         if y1
                         then false
                         else if y2 then negb (acc_unmodelled a) else false
                       | None -> false) accs
                  then (w,
                         (flat_map (fun p0 ->
                           match snd p0 with
                           | Some y ->
                             let (_, a) = y in
                             let (rc, ex) = get_rank_op w f (fst p0) true a in
                             (((fst p0), rc), ex) :: []
                           | None -> []) (zip ranks accs)))
                  else ((taint_slot w slot), (unmodelled w ranks))
      | None -> (w, (same_all w nC_EBADID (TSkip :: [])))))

(** val exec_one : world -> z -> op -> world * obs list **)

let exec_one w rank o =
  let slot = slot_of o in
  (match lookup_file w slot with
   | Some p ->
     let (id, f) = p in
     if f.f_tainted
     then (w, (((rank, rC_UNMODELLED), (TSkip :: [])) :: []))
     else (match o with
           | OInq _ -> (w, (((rank, nC_NOERR), (inq_toks f rank)) :: []))
           | OInqNumrecs _ ->
             (w, (((rank, nC_NOERR), ((TZ
               (if Z.eqb (unlim_dimid f.f_hdr) (Zneg XH)
                then Zneg XH
                else (get_rank f rank).rk_numrecs)) :: [])) :: []))
           | OPut (_, coll, a) ->
             if coll
             then ((taint_slot w slot), (((rank, rC_UNMODELLED),
                    (TSkip :: [])) :: []))
             else if acc_unmodelled a
                  then ((taint_slot w slot), (((rank, rC_UNMODELLED),
                         (TSkip :: [])) :: []))
                  else indep_put w id f rank a
           | OGet (_, coll, a) ->
             if coll
             then ((taint_slot w slot), (((rank, rC_UNMODELLED),
                    (TSkip :: [])) :: []))
             else if acc_unmodelled a
                  then ((taint_slot w slot), (((rank, rC_UNMODELLED),
                         (TSkip :: [])) :: []))
                  else let (rc, ex) = get_rank_op w f rank false a in
                       (w, (((rank, rc), ex) :: []))
           | _ ->
             ((taint_slot w slot), (((rank, rC_UNMODELLED),
               (TSkip :: [])) :: [])))
   | None -> (w, (((rank, nC_EBADID), (TSkip :: [])) :: [])))

(** val exec_step : world -> step -> world * obs list **)

let exec_step w = function
| SAll o -> exec_all w o
| SEach os -> exec_each w os
| SOne (r, o) -> exec_one w r o

(** val set_strict : world -> bool -> world **)

let set_strict w b =
  { w_nprocs = w.w_nprocs; w_disks = w.w_disks; w_files = w.w_files; w_ids =
    w.w_ids; w_hints = w.w_hints; w_strict = b; w_move_unit = w.w_move_unit }

(** val set_move_unit : world -> z -> world **)

let set_move_unit w u =
  { w_nprocs = w.w_nprocs; w_disks = w.w_disks; w_files = w.w_files; w_ids =
    w.w_ids; w_hints = w.w_hints; w_strict = w.w_strict; w_move_unit = u }
